(* driver.ml — generic line driver for the extracted model.
   Input line:  <op> <token>* [| <out token>*]
     decimal token = integer argument, token starting with 'x' = hex byte string
     (x alone = empty); tokens after '|' are the implementation's output tokens.
   Output line: the model's/oracle's token list in decimal. *)
open Model

let rec pos_of_int n =
  if n = 1 then XH
  else if n land 1 = 0 then XO (pos_of_int (n lsr 1))
  else XI (pos_of_int (n lsr 1))
let n_of_int n = if n = 0 then N0 else Npos (pos_of_int n)
let rec int_of_pos = function
  | XH -> 1
  | XO p -> 2 * int_of_pos p
  | XI p -> 2 * int_of_pos p + 1
let int_of_n = function N0 -> 0 | Npos p -> int_of_pos p

(* arbitrary-size decimal for results that may exceed 62 bits *)
let rec string_of_pos_big p =
  (* repeated division by 10 on the binary representation, via OCaml ints when small *)
  let rec bits = function XH -> 1 | XO q | XI q -> 1 + bits q in
  if bits p <= 61 then string_of_int (int_of_pos p)
  else begin
    (* convert to a list of decimal digits by double-and-add *)
    let rec to_bits acc = function
      | XH -> true :: acc
      | XO q -> to_bits (false :: acc) q
      | XI q -> to_bits (true :: acc) q in
    let bl = to_bits [] p in (* most significant first *)
    let digits = ref [0] in (* little endian decimal *)
    List.iter (fun b ->
      let carry = ref (if b then 1 else 0) in
      digits := List.map (fun d -> let v = 2 * d + !carry in carry := v / 10; v mod 10) !digits;
      if !carry > 0 then digits := !digits @ [!carry]) bl;
    String.concat "" (List.rev_map string_of_int !digits)
  end
let string_of_n = function N0 -> "0" | Npos p -> string_of_pos_big p

let n_of_string s =
  (* decimal string of any size -> N, via repeated multiply-add on positive *)
  if String.length s <= 18 then n_of_int (int_of_string s)
  else begin
    let acc = ref N0 in
    String.iter (fun c ->
      let d = Char.code c - 48 in
      acc := N.add (N.mul !acc (n_of_int 10)) (n_of_int d)) s;
    !acc
  end

let hexval c = match c with
  | '0'..'9' -> Char.code c - 48
  | 'a'..'f' -> Char.code c - 87
  | 'A'..'F' -> Char.code c - 55
  | _ -> failwith "hex"
let bytes_of_hex s =
  let n = (String.length s - 1) / 2 in
  let rec go i acc = if i < 0 then acc
    else go (i - 1) (n_of_int (hexval s.[1 + 2 * i] * 16 + hexval s.[2 + 2 * i]) :: acc) in
  go (n - 1) []

let () =
  let buf = Buffer.create 65536 in
  try
    while true do
      let line = input_line stdin in
      let toks = List.filter (fun s -> s <> "") (String.split_on_char ' ' line) in
      match toks with
      | [] -> print_newline ()
      | op :: rest ->
        let rec split ints bs = function
          | [] -> (List.rev ints, List.rev bs, [])
          | "|" :: out -> (List.rev ints, List.rev bs, List.map n_of_string out)
          | t :: r when t.[0] = 'x' -> split ints (bytes_of_hex t :: bs) r
          | t :: r -> split (n_of_string t :: ints) bs r in
        let (ints, bs, out) = split [] [] rest in
        let res = dispatch (n_of_string op) ints bs out in
        Buffer.clear buf;
        List.iteri (fun i x -> if i > 0 then Buffer.add_char buf ' ';
                     Buffer.add_string buf (string_of_n x)) res;
        print_endline (Buffer.contents buf)
    done
  with End_of_file -> ()
