#!/usr/bin/env python3
"""Re-verifies every seeded change in a scratch worktree of /repo's HEAD (outside /repo and /verif):
  demo passes without the patch; with the patch: builds, pinned suite passes, demo fails;
then applies it to /repo temporarily, runs the quick checks named for it, reverts, and writes
/verif/seeded/<id>-<k>/{patch.diff,demo_test.go,meta.json}.  usage: verify_seeded.py [Cxx ...]"""
import json, os, shutil, subprocess, sys, re, time

RAW = os.environ.get("SEED_RAW", "/verif/seeded/_raw")
OFFSET = int(os.environ.get("SEED_OFFSET", "0"))
WT = "/tmp/seedwt"
ENV = dict(os.environ, GOFLAGS="-mod=mod", GOPROXY="off", GOSUMDB="off", GOTOOLCHAIN="local")
# which checks to run besides the property's own (a change may surface through a neighbouring property too)
EXTRA = {"C13": ["C12"], "C05": ["C20"] if OFFSET else [], "C01": ["C10"], "C10": ["C01"]}


def sh(cmd, cwd=None, timeout=1500):
    p = subprocess.run(cmd, shell=True, cwd=cwd, env=ENV, capture_output=True, text=True, timeout=timeout)
    return p.returncode, p.stdout + p.stderr


def items(pids):
    for pid in pids:
        for k, (pf, df, nf) in enumerate((("patch.diff", "zz_demo_test.go", "notes.md"), ("patch2.diff", "zz_demo2_test.go", "notes2.md")), 1):
            raw = os.path.join(RAW, pid, pf)
            if not os.path.exists(raw):
                continue
            ported = os.path.join(RAW, "ported", "%s_%d.diff" % (pid, k))
            yield pid, k, (ported if os.path.exists(ported) else raw), os.path.exists(ported), os.path.join(RAW, pid, df), os.path.join(RAW, pid, nf)


def main():
    pids = sys.argv[1:] or ["C%02d" % i for i in range(1, 21)]
    rc, out = sh("git -C /repo status --porcelain")
    if out.strip():
        print("REFUSING: /repo dirty"); sys.exit(4)
    head = sh("git -C /repo rev-parse --short HEAD")[1].strip()
    for pid, k, patch, ported, demo, notes in items(pids):
        name = "%s-%d" % (pid, k + OFFSET)
        meta = {"id": name, "property": pid, "repo_head": head, "patch_ported_to_current_tree": ported}
        sh("git -C /repo worktree remove --force %s" % WT); shutil.rmtree(WT, ignore_errors=True)
        sh("git -C /repo worktree add --detach %s HEAD" % WT)
        try:
            shutil.copy(demo, os.path.join(WT, "zz_demo_test.go"))
            tests = re.findall(r"^func (Test\w+)\(", open(demo).read(), re.M)
            run = "go test -vet=off -count=1 -timeout 10m -run '^(%s)$' ." % "|".join(tests)
            rc0, out0 = sh(run, WT)
            meta["demo_tests"] = tests
            meta["demo_without_patch"] = "pass" if rc0 == 0 else "FAIL"
            rca, outa = sh("git apply %s" % patch, WT)
            meta["applies"] = rca == 0
            rcb, outb = sh("go build ./... && go vet -tags verif . >/dev/null 2>&1; go build -tags verif ./...", WT)
            meta["builds"] = rcb == 0
            os.rename(os.path.join(WT, "zz_demo_test.go"), os.path.join(WT, "zz_demo_test.go.off"))
            rcs, outs = sh("go test -vet=off -count=1 -timeout 25m ./...", WT)
            meta["pinned_suite_with_patch"] = "pass" if rcs == 0 else "FAIL"
            os.rename(os.path.join(WT, "zz_demo_test.go.off"), os.path.join(WT, "zz_demo_test.go"))
            rc1, out1 = sh(run, WT)
            meta["demo_with_patch"] = "fail" if rc1 != 0 else "PASS (not demonstrated)"
            fl = [l for l in out1.splitlines() if "--- FAIL" in l or "panic:" in l or "DATA RACE" in l][:4]
            meta["demo_failure_lines"] = fl
            if rc0 != 0:
                meta["demo_without_patch_output"] = out0[-1500:]
        finally:
            sh("git -C /repo worktree remove --force %s" % WT); shutil.rmtree(WT, ignore_errors=True)
            sh("go clean -testcache")
        # the checks
        res = {}
        rca, _ = sh("git -C /repo apply %s" % patch)
        try:
            for c in [pid] + EXTRA.get(pid, []):
                t0 = time.time()
                rcc, outc = sh("./check %s --tier quick" % c, "/verif", timeout=2400)
                vl = [l for l in outc.splitlines() if l.startswith("VIOLATION")]
                res[c] = {"exit": rcc, "violations": len(vl), "with_failing_input": len([l for l in vl if "no-failing-input-found" not in l]),
                          "first": vl[:2], "seconds": round(time.time() - t0, 1)}
                # keep one replay as a sample
                if vl and c == pid:
                    m = re.search(r"replay=(\S+)", vl[0])
                    if m and os.path.exists(m.group(1)):
                        d = os.path.join("/verif/seeded", name); os.makedirs(d, exist_ok=True)
                        shutil.copy(m.group(1), os.path.join(d, "sample_replay.json"))
        finally:
            sh("git -C /repo checkout -- .")
        meta["checks"] = res
        meta["caught"] = any(v["exit"] == 1 and v["violations"] for v in res.values())
        meta["caught_with_failing_input"] = any(v["with_failing_input"] for v in res.values())
        d = os.path.join("/verif/seeded", name); os.makedirs(d, exist_ok=True)
        shutil.copy(patch, os.path.join(d, "patch.diff"))
        shutil.copy(demo, os.path.join(d, "demo_test.go"))
        if os.path.exists(notes):
            shutil.copy(notes, os.path.join(d, "agent_notes.md"))
        json.dump(meta, open(os.path.join(d, "meta.json"), "w"), indent=1)
        print(name, "demo:", meta["demo_without_patch"], "/", meta["demo_with_patch"], "suite:", meta["pinned_suite_with_patch"],
              "caught:", meta["caught"], "input:", meta["caught_with_failing_input"], {c: (v["exit"], v["violations"]) for c, v in res.items()}, flush=True)
    # restore evidence produced on the patched tree: re-run is the caller's job
    rc, out = sh("git -C /repo status --porcelain")
    assert not out.strip(), out


main()
