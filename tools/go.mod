module verif/tools

go 1.21
