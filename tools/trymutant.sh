#!/bin/sh
# usage: trymutant.sh <patch.diff> <pid>...   — applies the patch to /repo, runs the quick checks, reverts.
P="$1"; shift
cd /repo || exit 2
if [ -n "$(git status --porcelain)" ]; then echo "REFUSING: /repo has uncommitted changes"; exit 4; fi
if ! git apply --check "$P" 2>/dev/null; then echo "PATCH DOES NOT APPLY: $P"; exit 3; fi
git apply "$P"
for id in "$@"; do
  echo "== $id under $(basename $(dirname $P))/$(basename $P)"
  (cd /verif && timeout 1200 ./check $id --tier quick 2>&1 | grep -E "VIOLATION|KNOWN-FINDING|Traceback|Error" | head -5; echo "rc=$?")
done
git -C /repo checkout -- .
git -C /repo status --short | head -3
