(* Writers.v — the outbound side of connections as an atomic-append object: any number of
   updateMessageWriter users and the FSM itself append whole frames to the connection their writer is
   bound to (one conn.Write each; atomicity of a Write with respect to other Writes on the same
   net.Conn is the trusted runtime fact); a writer whose session has ended fails without writing.
   An event sequence is one interleaving of the goroutines.  Definitions only. *)
From Verif Require Import Base Consts Packet Conn.

Inductive wevent :=
| WWrite (conn : nat) (writer : nat) (body : bytes)   (* writer.WriteUpdate(body) on the writer of session conn *)
| WFsm (conn : nat) (frame : bytes)                   (* the FSM's own KEEPALIVE / NOTIFICATION / OPEN on conn *)
| WEnd (conn : nat).                                  (* session conn ends: writer.closeCh closed, connection closed *)

(* what reached each connection: (connection, writer tag or None for the FSM, frame) in wire order *)
Record wstate := mkW { w_wire : list (nat * option nat * bytes); w_ended : list nat }.
Definition winit : wstate := mkW [] [].

Definition ended (s : wstate) (c : nat) : bool := existsb (Nat.eqb c) (w_ended s).

(* result of a WriteUpdate: true = nil error *)
Definition wstep (s : wstate) (e : wevent) : wstate * option bool :=
  match e with
  | WWrite c w b =>
      if ended s c then (s, Some false)
      else (mkW (w_wire s ++ [(c, Some w, update_frame b)]) (w_ended s), Some true)
  | WFsm c f => if ended s c then (s, None) else (mkW (w_wire s ++ [(c, None, f)]) (w_ended s), None)
  | WEnd c => (mkW (w_wire s) (c :: w_ended s), None)
  end.

Fixpoint wrun (s : wstate) (es : list wevent) : wstate * list (option bool) :=
  match es with
  | [] => (s, [])
  | e :: r => let (s1, o) := wstep s e in let (s2, os) := wrun s1 r in (s2, o :: os)
  end.

(* the bytes the remote end of connection c receives *)
Definition wire_of (s : wstate) (c : nat) : bytes :=
  flat_map (fun x => if Nat.eqb (fst (fst x)) c then snd x else []) (w_wire s).
Definition frames_of (s : wstate) (c : nat) : list bytes :=
  flat_map (fun x => if Nat.eqb (fst (fst x)) c then [snd x] else []) (w_wire s).
(* the UPDATE frames on connection c written through writer w *)
Definition from_writer (s : wstate) (c w : nat) : list bytes :=
  flat_map (fun x => match x with
                     | (c', Some w', f) => if Nat.eqb c' c && Nat.eqb w' w then [f] else []
                     | _ => []
                     end) (w_wire s).
(* the bodies of writer w's calls on session c that returned nil, in call order *)
Fixpoint acked (es : list wevent) (os : list (option bool)) (c w : nat) : list bytes :=
  match es, os with
  | WWrite c' w' b :: er, Some true :: or_ =>
      if Nat.eqb c' c && Nat.eqb w' w then b :: acked er or_ c w else acked er or_ c w
  | _ :: er, _ :: or_ => acked er or_ c w
  | _, _ => []
  end.
