(* Server.v — model of server.go's registry and lifecycle, peer_options.go /
   PeerConfig.validate, NewServer, handleInboundConn's admission decision, and
   peer.updateStartupDelay.  Registry operations run under Server.mu, so each is
   one atomic step (trusted: sync.Mutex).  Definitions only. *)
From Verif Require Import Base Consts.
From Coq Require Import ZArith.

Inductive akind := AInvalid | A4 | A6.
Record addr := mkAddr { a_kind : akind; a_id : N }.

Definition akind_eqb (a b : akind) : bool :=
  match a, b with AInvalid, AInvalid | A4, A4 | A6, A6 => true | _, _ => false end.
(* netip.Addr equality / String() equality: the zero Addr has one value *)
Definition addr_eqb (a b : addr) : bool :=
  match a_kind a, a_kind b with
  | AInvalid, AInvalid => true
  | _, _ => akind_eqb (a_kind a) (a_kind b) && (a_id a =? a_id b)
  end.
Definition is_valid (a : addr) : bool := negb (akind_eqb (a_kind a) AInvalid).
Definition is4 (a : addr) : bool := akind_eqb (a_kind a) A4.
Definition is6 (a : addr) : bool := akind_eqb (a_kind a) A6.

Record pcfg := mkCfg { c_remote : addr; c_las : N; c_ras : N }.
Record popts := mkOpts { o_local : addr; o_holdsec : N; o_port : Z; o_passive : bool }.

(* peerOptions.validate: hold time given in whole seconds (WithHoldTime) *)
Definition opts_validate (o : popts) : bool :=
  negb ((o_holdsec o <? 3) && negb (o_holdsec o =? 0))
  && negb ((o_port o <? 1)%Z || (65535 <? o_port o)%Z).

(* PeerConfig.validate(opts) *)
Definition cfg_validate (c : pcfg) (o : popts) : bool :=
  if (c_las c =? 0) || (c_ras c =? 0) then false else
  if negb (is_valid (o_local o)) && is_valid (c_remote c) then true else
  if negb (Bool.eqb (is4 (o_local o)) (is4 (c_remote c))) then false else
  if negb (is4 (o_local o)) then
    if negb (is6 (o_local o)) || negb (is6 (c_remote c)) then false else true
  else true.

(* NewServer *)
Definition new_server_ok (routerID : addr) : bool := is4 routerID.

(* ---- registry ---- *)
Inductive sres := RNil | RExists | RNotExist | RClosed | RInvalid.

Record server := mkServer {
  s_peers : list (addr * (pcfg * popts));   (* the map, as an association list with distinct keys *)
  s_serving : bool;
  s_closed : bool;                           (* closeCh closed, or Serve has returned *)
  s_running : list addr                      (* peers whose manager goroutine runs *)
}.
Definition server_init : server := mkServer [] false false [].

Definition lookup (a : addr) (m : list (addr * (pcfg * popts))) : option (pcfg * popts) :=
  match find (fun kv => addr_eqb (fst kv) a) m with Some kv => Some (snd kv) | None => None end.
Definition remove_key (a : addr) (m : list (addr * (pcfg * popts))) :=
  filter (fun kv => negb (addr_eqb (fst kv) a)) m.
Definition remove_addr (a : addr) (l : list addr) := filter (fun x => negb (addr_eqb x a)) l.

Inductive sop :=
| OAdd (c : pcfg) (o : popts)
| ODel (a : addr)
| OGet (a : addr)
| OList
| OServe          (* Serve called: returns at once with ErrServerClosed, or starts serving *)
| OClose          (* Close: Serve (if running) stops all peers and returns ErrServerClosed *)
| OBreak.         (* a listener fails under a running Serve: it stops all peers and returns the listener error;
                     the server is finished (a later Serve is refused) *)

Inductive sout :=
| SRes (r : sres)
| SGet (c : option pcfg)
| SList (l : list pcfg)
| SServe (started : bool)
| SServeBusy                        (* Serve while already serving: refused with an error, nothing changes *)
| SClose (serve_returned : bool)
| SBreak (serve_returned : bool).

Definition server_step (s : server) (op : sop) : server * sout :=
  match op with
  | OAdd c o =>
      if negb (opts_validate o) then (s, SRes RInvalid) else
      if negb (cfg_validate c o) then (s, SRes RInvalid) else
      match lookup (c_remote c) (s_peers s) with
      | Some _ => (s, SRes RExists)
      | None =>
          (mkServer ((c_remote c, (c, o)) :: s_peers s) (s_serving s) (s_closed s)
                    (if s_serving s then c_remote c :: s_running s else s_running s), SRes RNil)
      end
  | ODel a =>
      match lookup a (s_peers s) with
      | None => (s, SRes RNotExist)
      | Some _ =>
          (mkServer (remove_key a (s_peers s)) (s_serving s) (s_closed s) (remove_addr a (s_running s)), SRes RNil)
      end
  | OGet a => (s, SGet (match lookup a (s_peers s) with Some (c, _) => Some c | None => None end))
  | OList => (s, SList (map (fun kv => fst (snd kv)) (s_peers s)))
  | OServe =>
      if s_closed s then (s, SServe false)
      else if s_serving s then (s, SServeBusy)
      else (mkServer (s_peers s) true false (map fst (s_peers s)), SServe true)
  | OClose =>
      if s_serving s then (mkServer (s_peers s) false true [], SClose true)
      else (mkServer (s_peers s) false true (s_running s), SClose false)
  | OBreak =>
      if s_serving s then (mkServer (s_peers s) false true [], SBreak true)
      else (s, SBreak false)
  end.

Fixpoint server_run (s : server) (ops : list sop) : server * list sout :=
  match ops with
  | [] => (s, [])
  | op :: r => let (s', o) := server_step s op in
               let (s'', os) := server_run s' r in (s'', o :: os)
  end.

(* ---- inbound admission (handleInboundConn + peer.run's inConnCh case) ---- *)
Inductive admission := HandTo (a : addr) | Refuse.
(* src/dst are the hosts of conn.RemoteAddr()/conn.LocalAddr(); dst_ok is false when the local
   address string does not split/parse *)
Definition server_accepts (s : server) (src dst : addr) (dst_ok : bool) : admission :=
  match lookup src (s_peers s) with
  | None => Refuse
  | Some (c, o) =>
      if is_valid (o_local o) then
        if dst_ok && addr_eqb (o_local o) dst then HandTo src else Refuse
      else HandTo src
  end.

(* ---- peer.updateStartupDelay ---- *)
Record damp := mkDamp { d_last : option N; d_delay : N }.   (* times and durations in ns *)
Definition damp_init : damp := mkDamp None 0.
Definition damp_step (d : damp) (now : N) : damp :=
  let delay0 := match d_last d with
                | Some t => if c_errorAmnesiaTime <=? now - t then 0 else d_delay d
                | None => d_delay d
                end in
  mkDamp (Some now)
         (if 0 <? delay0 then N.min (2 * delay0) c_errorDelayMaxTime else c_errorDelayMinTime).

(* the delays produced by protocol errors at the given times *)
Fixpoint damp_run (d : damp) (times : list N) : list N :=
  match times with
  | [] => []
  | t :: r => let d' := damp_step d t in d_delay d' :: damp_run d' r
  end.
