(* Update.v — model of update.go: prefix / NLRI / add-path decoders, typed
   path-attribute decoders, MP_REACH / MP_UNREACH splitters and
   UpdateDecoder.Decode with its callbacks.  Go's uint8/uint16 arithmetic and
   slice panics are explicit.  Definitions only. *)
From Verif Require Import Base Consts Packet Errors.

(* ---------- prefixes (C19) ---------- *)
Record prefix := mkPrefix { p_bits : N; p_addr : bytes }.   (* addr: 4 or 16 octets, as decoded *)
Record apprefix := mkAPP { app_id : N; app_prefix : prefix }.

Definition pad_to (n : nat) (b : bytes) : bytes := b ++ repeat 0 (n - length b).

(* decodePrefix: plain errors *)
Definition decode_prefix (b : bytes) (ipv6 : bool) : res unit (prefix * bytes) :=
  match b with
  | [] => Err tt
  | bl :: r =>
      if (negb ipv6 && (32 <? bl)) || (ipv6 && (128 <? bl)) then Err tt else
      let octets := u8 (bl + 7) / 8 in
      if blen r <? octets then Err tt else
      if ipv6 then
        if 16 <? octets then Err tt else
        do a <- of_opt (slice_to r octets);
        do rest <- of_opt (slice_from r octets);
        Ok (mkPrefix bl (pad_to 16 a), rest)
      else
        if 4 <? octets then Err tt else
        do a <- of_opt (slice_to r octets);
        do rest <- of_opt (slice_from r octets);
        Ok (mkPrefix bl (pad_to 4 a), rest)
  end.

Fixpoint decode_prefixes_loop (fuel : nat) (b : bytes) (ipv6 : bool) : res unit (list prefix) :=
  match fuel with
  | O => OutOfFuel
  | S f =>
      if 0 <? blen b then
        do pr <- decode_prefix b ipv6;
        do l <- decode_prefixes_loop f (snd pr) ipv6;
        Ok (fst pr :: l)
      else Ok []
  end.
Definition decode_prefixes (b : bytes) (ipv6 : bool) : res unit (list prefix) :=
  decode_prefixes_loop (S (length b)) b ipv6.

Fixpoint decode_ap_prefixes_loop (fuel : nat) (b : bytes) (ipv6 : bool) : res unit (list apprefix) :=
  match fuel with
  | O => OutOfFuel
  | S f =>
      if 0 <? blen b then
        match b with
        | i3 :: i2 :: i1 :: i0 :: (_ :: _) as r =>
            do pr <- decode_prefix r ipv6;
            do l <- decode_ap_prefixes_loop f (snd pr) ipv6;
            Ok (mkAPP (get32 i3 i2 i1 i0) (fst pr) :: l)
        | _ => Err tt
        end
      else Ok []
  end.
Definition decode_ap_prefixes (b : bytes) (ipv6 : bool) : res unit (list apprefix) :=
  decode_ap_prefixes_loop (S (length b)) b ipv6.

(* wrappers: which notification a failure carries *)
Definition nlri_err : notif := upd_err c_NOTIF_SUBCODE_INVALID_NETWORK_FIELD [].
Definition plain_upd_err : notif := upd_err 0 [].

Definition map_err {A} (r : res unit A) (n : notif) : res notif A :=
  match r with Ok a => Ok a | Err _ => Err n | Panic => Panic | OutOfFuel => OutOfFuel end.

(* DecodeMPReachIPv6NextHops *)
Fixpoint chunks16 (fuel : nat) (b : bytes) : list bytes :=
  match fuel with
  | O => []
  | S f => if 0 <? blen b then take 16 b :: chunks16 f (drop 16 b) else []
  end.
Definition decode_ipv6_nexthops (nh : bytes) : res notif (list bytes) :=
  if negb (blen nh =? 16) && negb (blen nh =? 32) then Err plain_upd_err
  else Ok (chunks16 (S (length nh)) nh).

(* ---------- path attribute flags and typed decoders (C18) ---------- *)
Definition flag_optional (p : N) : bool := negb ((p / 128) mod 2 =? 0).
Definition flag_transitive (p : N) : bool := negb ((p / 64) mod 2 =? 0).
Definition flag_partial (p : N) : bool := negb ((p / 32) mod 2 =? 0).
Definition flag_extlen (p : N) : bool := negb ((p / 16) mod 2 =? 0).

(* notifDataForAttrBasedErr *)
Definition attr_err_data (code : N) (d : bytes) : bytes :=
  [code] ++ (if 255 <? blen d then put16 (u16 (blen d)) else [u8 (blen d)]) ++ d.

Definition flags_validate (p code : N) (d : bytes) (wantOpt wantTrans : bool) : option err :=
  if negb (Bool.eqb (flag_optional p) wantOpt) || negb (Bool.eqb (flag_transitive p) wantTrans)
  then Some (ETaw code (Some (upd_err c_NOTIF_SUBCODE_ATTR_FLAGS_ERR (attr_err_data code d))))
  else None.

Definition attr_len_err (code : N) (d : bytes) : notif :=
  upd_err c_NOTIF_SUBCODE_ATTR_LEN_ERR (attr_err_data code d).

(* decoded values, as observable through the exported types *)
Inductive attrval :=
| VOrigin (o : N)
| VASPath (set seq : list N)
| VAddr (a : bytes)             (* NEXT_HOP, ORIGINATOR_ID *)
| VU32 (x : N)                  (* MED, LOCAL_PREF *)
| VAtomic
| VAggregator (asn : N) (ip : bytes)
| VU32s (l : list N)            (* COMMUNITIES *)
| VAddrs (l : list bytes)       (* CLUSTER_LIST *)
| VLarge (l : list (N * N * N)).

(* decodeUint32Set (length already checked non-zero multiple of 4 by callers that rely on it) *)
Fixpoint u32s (b : bytes) : list N :=
  match b with
  | a :: b0 :: c :: d :: r => get32 a b0 c d :: u32s r
  | _ => []
  end.
Definition decode_u32_set (b : bytes) : option (list N) :=
  if (blen b =? 0) || negb (blen b mod 4 =? 0) then None else Some (u32s b).

Fixpoint addrs4 (b : bytes) : list bytes :=
  match b with
  | a :: b0 :: c :: d :: r => [a; b0; c; d] :: addrs4 r
  | _ => []
  end.
Fixpoint large_set (b : bytes) : list (N * N * N) :=
  match b with
  | a1 :: a2 :: a3 :: a4 :: b1 :: b2 :: b3 :: b4 :: c1 :: c2 :: c3 :: c4 :: r =>
      (get32 a1 a2 a3 a4, get32 b1 b2 b3 b4, get32 c1 c2 c3 c4) :: large_set r
  | _ => []
  end.

Definition aspath_malformed : err :=
  ETaw c_PATH_ATTR_AS_PATH (Some (upd_err c_NOTIF_SUBCODE_MALFORMED_AS_PATH [])).

(* the AS_PATH segment loop; set/seq hold the last segment of each type seen *)
Fixpoint aspath_loop (fuel : nat) (b : bytes) (set seq : list N) : res err (list N * list N) :=
  match fuel with
  | O => OutOfFuel
  | S f =>
      if 0 <? blen b then
        if (blen b <? 6) || negb (blen b mod 2 =? 0)
        then Err (ETaw c_PATH_ATTR_AS_PATH (Some (attr_len_err c_PATH_ATTR_AS_PATH b)))
        else
          match b with
          | segType :: segCount :: r =>
              let segLen := segCount * 4 in
              if segLen =? 0 then Err aspath_malformed else
              if blen r <? segLen then Err aspath_malformed else
              do s <- of_opt (slice_to r segLen);
              do rest <- of_opt (slice_from r segLen);
              if segType =? 1 then
                match decode_u32_set s with
                | Some l => aspath_loop f rest l seq
                | None => Err aspath_malformed
                end
              else if segType =? 2 then
                match decode_u32_set s with
                | Some l => aspath_loop f rest set l
                | None => Err aspath_malformed
                end
              else Err aspath_malformed
          | _ => Err aspath_malformed (* unreachable: blen b >= 6 *)
          end
      else Ok (set, seq)
  end.

Definition taw_len (code : N) (b : bytes) : err := ETaw code (Some (attr_len_err code b)).
Definition discard_len (code : N) (b : bytes) : err := EDiscard code (Some (attr_len_err code b)).

(* attribute decoders, by attribute type code *)
Definition attr_decode (code flags : N) (b : bytes) : res err attrval :=
  if code =? c_PATH_ATTR_ORIGIN then
    match flags_validate flags code b false true with Some e => Err e | None =>
      match b with
      | [o] => if 2 <? o
               then Err (ETaw code (Some (upd_err c_NOTIF_SUBCODE_INVALID_ORIGIN_ATTR (attr_err_data code b))))
               else Ok (VOrigin o)
      | _ => Err (ETaw code (Some (upd_err c_NOTIF_SUBCODE_ATTR_LEN_ERR (attr_err_data code b))))
      end end
  else if code =? c_PATH_ATTR_AS_PATH then
    match flags_validate flags code b false true with Some e => Err e | None =>
      if blen b =? 0 then Ok (VASPath [] []) else
      if (blen b <? 6) || negb (blen b mod 2 =? 0) then Err (taw_len code b) else
      match aspath_loop (S (length b)) b [] [] with
      | Ok (s, q) => Ok (VASPath s q)
      | Err e => Err e
      | Panic => Panic
      | OutOfFuel => OutOfFuel
      end end
  else if code =? c_PATH_ATTR_NEXT_HOP then
    match flags_validate flags code b false true with Some e => Err e | None =>
      if negb (blen b =? 4) then Err (taw_len code b) else Ok (VAddr b) end
  else if code =? c_PATH_ATTR_MED then
    match flags_validate flags code b true false with Some e => Err e | None =>
      match b with [a; b0; c; d] => Ok (VU32 (get32 a b0 c d)) | _ => Err (taw_len code b) end end
  else if code =? c_PATH_ATTR_LOCAL_PREF then
    match flags_validate flags code b false true with Some e => Err e | None =>
      match b with [a; b0; c; d] => Ok (VU32 (get32 a b0 c d)) | _ => Err (taw_len code b) end end
  else if code =? c_PATH_ATTR_ATOMIC_AGGREGATE then
    match flags_validate flags code b true true with Some e => Err e | None =>
      if negb (blen b =? 0) then Err (discard_len code b) else Ok VAtomic end
  else if code =? c_PATH_ATTR_AGGREGATOR then
    match flags_validate flags code b true true with Some e => Err e | None =>
      match b with
      | [a; b0; c; d; i3; i2; i1; i0] => Ok (VAggregator (get32 a b0 c d) [i3; i2; i1; i0])
      | _ => Err (discard_len code b)
      end end
  else if code =? c_PATH_ATTR_COMMUNITY then
    match flags_validate flags code b true true with Some e => Err e | None =>
      if (blen b <? 4) || negb (blen b mod 4 =? 0) then Err (taw_len code b) else Ok (VU32s (u32s b)) end
  else if code =? c_PATH_ATTR_ORIGINATOR_ID then
    match flags_validate flags code b true false with Some e => Err e | None =>
      if negb (blen b =? 4) then Err (taw_len code b) else Ok (VAddr b) end
  else if code =? c_PATH_ATTR_CLUSTER_LIST then
    match flags_validate flags code b true false with Some e => Err e | None =>
      if (blen b <? 4) || negb (blen b mod 4 =? 0) then Err (taw_len code b) else Ok (VAddrs (addrs4 b)) end
  else if code =? c_PATH_ATTR_LARGE_COMMUNITY then
    match flags_validate flags code b true true with Some e => Err e | None =>
      if (blen b <? 12) || negb (blen b mod 12 =? 0) then Err (taw_len code b) else Ok (VLarge (large_set b)) end
  else Err EOther.  (* not one of the eleven typed decoders *)

(* ---------- MP_REACH / MP_UNREACH splitters (C19) ---------- *)
Definition mp_len_err : err := ENotif (upd_err c_NOTIF_SUBCODE_ATTR_LEN_ERR []).

Inductive mpcall :=
| MPReach (afi safi : N) (nh nlri : bytes)
| MPUnreach (afi safi : N) (wd : bytes).

(* the closure returned by NewMPReachNLRIDecodeFn applied to (flags, b); cb is the
   user callback's result for the one call it may receive *)
Definition mp_reach (flags : N) (b : bytes) (cb : option err) : res unit (option mpcall * option err) :=
  let me := flags_validate flags c_PATH_ATTR_MP_REACH_NLRI b true false in
  match b with
  | a1 :: a0 :: safi :: nhLen :: r =>
      if blen b <? 5 then Ok (None, join2 me (Some mp_len_err)) else
      if blen r <? nhLen + 1 then Ok (None, join2 me (Some mp_len_err)) else
      match slice_to r nhLen, slice_from r (nhLen + 1) with
      | Some nh, Some nlri => Ok (Some (MPReach (get16 a1 a0) safi nh nlri), join2 me cb)
      | _, _ => Panic
      end
  | _ => Ok (None, join2 me (Some mp_len_err))
  end.

Definition mp_unreach (flags : N) (b : bytes) (cb : option err) : res unit (option mpcall * option err) :=
  let me := flags_validate flags c_PATH_ATTR_MP_UNREACH_NLRI b true false in
  match b with
  | a1 :: a0 :: safi :: wd => Ok (Some (MPUnreach (get16 a1 a0) safi wd), join2 me cb)
  | _ => Ok (None, join2 me (Some mp_len_err))
  end.

(* ---------- UpdateDecoder (C16, C17) ---------- *)
Inductive call :=
| CWr (b : bytes)
| CPa (code flags : N) (b : bytes)
| CNl (b : bytes).

(* callbacks: the k-th callback invocation of this Decode returns script k *)
Definition script := nat -> option err.

Definition total_attr_len_err (code : N) : err := ETaw code (Some (upd_err 0 [])).
Definition malformed_attr_list : notif := upd_err c_NOTIF_SUBCODE_MALFORMED_ATTR_LIST [].

Definition seen (l : list N) (c : N) : bool := existsb (N.eqb c) l.

Record pa_state := mkPa { pa_calls : list call; pa_me : option err; pa_seen : list N; pa_k : nat }.

Definition missing_check (st : pa_state) (hasNLRI : bool) : option err :=
  if seen (pa_seen st) c_PATH_ATTR_MP_REACH_NLRI || hasNLRI then
    if negb (seen (pa_seen st) c_PATH_ATTR_AS_PATH) || negb (seen (pa_seen st) c_PATH_ATTR_ORIGIN) then
      let missing := if negb (seen (pa_seen st) c_PATH_ATTR_ORIGIN) then c_PATH_ATTR_ORIGIN else c_PATH_ATTR_AS_PATH in
      join2 (pa_me st)
            (Some (ETaw missing (Some (upd_err c_NOTIF_SUBCODE_MISSING_WELL_KNOWN_ATTR [missing]))))
    else pa_me st
  else pa_me st.

(* attribute length and the bytes after the (3- or 4-octet) attribute header; None = header overruns *)
Definition attr_header (flags : N) (r : bytes) : option (N * bytes) :=
  if flag_extlen flags then
    match r with l1 :: l0 :: r' => Some (get16 l1 l0, r') | _ => None end
  else
    match r with l0 :: r' => Some (l0, r') | _ => None end.

(* decodePathAttrs: result = (calls made, next script index, returned error) *)
Fixpoint path_attrs_loop (fuel : nat) (sc : script) (b : bytes) (hasNLRI : bool) (st : pa_state)
  : res unit (pa_state * option err) :=
  match fuel with
  | O => OutOfFuel
  | S f =>
      match b with
      | [] => Ok (st, missing_check st hasNLRI)
      | [flags] =>
          let st' := mkPa (pa_calls st) (join2 (pa_me st) (Some (total_attr_len_err 0))) (pa_seen st) (pa_k st) in
          Ok (st', missing_check st' hasNLRI)
      | flags :: attrType :: r =>
          let overrun :=
            let st' := mkPa (pa_calls st) (join2 (pa_me st) (Some (total_attr_len_err attrType))) (pa_seen st) (pa_k st) in
            Ok (st', missing_check st' hasNLRI) in
          match attr_header flags r with
          | None => overrun
          | Some (attrLen, r') =>
              if blen r' <? attrLen then overrun else
              if seen (pa_seen st) attrType then
                if (attrType =? c_PATH_ATTR_MP_REACH_NLRI) || (attrType =? c_PATH_ATTR_MP_UNREACH_NLRI)
                then Ok (st, join2 (pa_me st) (Some (ENotif malformed_attr_list)))
                else
                  do rest <- of_opt (slice_from r' attrLen);
                  path_attrs_loop f sc rest hasNLRI st
              else
                do v <- of_opt (slice_to r' attrLen);
                let e := sc (pa_k st) in
                let st1 := mkPa (pa_calls st ++ [CPa attrType flags v])
                                (match e with Some _ => join2 (pa_me st) e | None => pa_me st end)
                                (attrType :: pa_seen st) (S (pa_k st)) in
                match e with
                | Some e' => if has_notif e' then Ok (st1, pa_me st1)
                             else do rest <- of_opt (slice_from r' attrLen);
                                  path_attrs_loop f sc rest hasNLRI st1
                | None => do rest <- of_opt (slice_from r' attrLen);
                          path_attrs_loop f sc rest hasNLRI st1
                end
          end
      end
  end.

Definition decode_path_attrs (sc : script) (b : bytes) (hasNLRI : bool) (k : nat)
  : res unit (list call * nat * option err) :=
  match path_attrs_loop (S (length b)) sc b hasNLRI (mkPa [] None [] k) with
  | Ok (st, e) => Ok (pa_calls st, pa_k st, e)
  | Err _ => Err tt
  | Panic => Panic
  | OutOfFuel => OutOfFuel
  end.

(* UpdateDecoder.Decode: calls in order and the returned error *)
Definition update_decode (sc : script) (b : bytes) : res unit (list call * option err) :=
  match b with
  | w1 :: w0 :: b2 =>
      if blen b <? 4 then Ok ([], Some (ENotif plain_upd_err)) else
      let wrl := get16 w1 w0 in
      if blen b2 <? wrl + 2 then Ok ([], Some (ENotif malformed_attr_list)) else
      do palb <- of_opt (slice b2 wrl (wrl + 2));
      let pal := match palb with [p1; p0] => get16 p1 p0 | _ => 0 end in
      do after <- of_opt (slice_from b2 (wrl + 2));
      if blen after <? pal then Ok ([], Some (ENotif malformed_attr_list)) else
      do wr <- of_opt (slice_to b2 wrl);
      let e0 := sc O in
      let me0 := match e0 with Some _ => join2 None e0 | None => None end in
      let stop0 := match e0 with Some e => has_notif e | None => false end in
      if stop0 then Ok ([CWr wr], me0) else
      do attrs <- of_opt (slice_to after pal);
      do nlri <- of_opt (slice_from after pal);
      do pr <- decode_path_attrs sc attrs (0 <? blen nlri) 1;
      let '(pcalls, k, pe) := pr in
      let me1 := match pe with Some _ => join2 me0 pe | None => me0 end in
      let stop1 := match pe with Some e => has_notif e | None => false end in
      if stop1 then Ok (CWr wr :: pcalls, me1) else
      let e2 := sc k in
      let me2 := match e2 with Some _ => join2 me1 e2 | None => me1 end in
      Ok (CWr wr :: pcalls ++ [CNl nlri], me2)
  | _ => Ok ([], Some (ENotif plain_upd_err))
  end.
