(* Peer.v — Layer C: the peer manager goroutine (peer.run) and its two FSM goroutines
   (fsm.run) as one transition system.  All channels are unbuffered: a rendezvous is one
   label.  The manager's call stack is defunctionalised into a list of micro-operations
   (ops); every select of fsm.run is a program-counter value.  State functions are
   abstracted to what they can return (desired state, error kind) and whether they hold a
   connection; data (router ids, AS numbers) enters only through the bit [dominant].
   Definitions only. *)
From Coq Require Import List Bool PArith NArith.
Import ListNotations.

Inductive st := Disabled | Idle | Connect | Active | OpenSent | OpenConfirm | Established.
Definition st_num (s : st) : nat :=
  match s with Disabled => 0 | Idle => 1 | Connect => 2 | Active => 3 | OpenSent => 4 | OpenConfirm => 5 | Established => 6 end.
Definition st_eqb (a b : st) : bool := Nat.eqb (st_num a) (st_num b).
Definition st_ltb (a b : st) : bool := Nat.ltb (st_num a) (st_num b).

Inductive dir := DOut | DIn.
Definition other (i : dir) : dir := match i with DOut => DIn | DIn => DOut end.
Definition dir_eqb (a b : dir) : bool := match a, b with DOut, DOut | DIn, DIn => true | _, _ => false end.

Record trans := mkT { t_from : st; t_to : st }.

(* the error a state function returns: nil, a non-Cease notification (damps the peer), or
   anything else (Cease sent or received, transport error) *)
Inductive ekind := ENil | EDamp | ENoDamp.
Definition ekind_num (e : ekind) : nat := match e with ENil => 0 | EDamp => 1 | ENoDamp => 2 end.

Inductive fpc :=
| FOffer (t : trans)                      (* select: transitionCh <- t | <-closeCh *)
| FAwait (t : trans)                      (* sent; select: <-closeCh | t = <-transitionCh *)
| FRun (s : st)                           (* inside the state function for s *)
| FErrOffer (s desired : st) (e : ekind)  (* select: <-closeCh | errorCh <- err *)
| FExit                                   (* deferred cleanup running *)
| FDone.                                  (* doneCh closed *)

Record fsm := mkF {
  f_pc : fpc;
  f_closed : bool;      (* closeCh has been closed (stop()) *)
  f_conn : bool;        (* f.conn != nil *)
  f_ceased : bool;      (* a Cease NOTIFICATION was written on the current connection *)
  f_bad : bool          (* monitor: a connection of an FSM approved past Active was closed by a stop without Cease *)
}.

Inductive mop :=
| OStop (i : dir)              (* disableFSM(i): close the FSM's closeCh ... *)
| OWaitDone (i : dir)          (* ... and wait for its doneCh; then forget it *)
| OReply (i : dir) (t : trans) (* sendTransitionToFSM *)
| OEnable (i : dir)            (* enableFSM(i, nil) *)
| OHandle (i : dir) (t : trans)(* handleStateTransition *)
| OCollide (i : dir) (t : trans) (* the three-way select of the collision case *)
| ODamp                        (* updateStartupDelay; inHoldDown = true *)
| OFinish.                     (* stop the timer, close doneCh *)

Record sys := mkSys {
  s_ops : list mop;
  s_state : st * st;           (* fsmState[out], fsmState[in] *)
  s_fsm : option fsm * option fsm;   (* fsms[out], fsms[in] with the goroutine's state *)
  s_hold : bool;               (* inHoldDown *)
  s_timer : bool;              (* startupDelayTimer armed *)
  s_pclosed : bool;            (* peer.closeCh closed *)
  s_mdone : bool;              (* peer.doneCh closed *)
  s_passive : bool;
  s_dominant : bool;           (* local speaker wins collisions *)
  s_refused : bool             (* monitor: the last inbound connection was refused *)
}.

Definition get {A} (p : A * A) (i : dir) : A := match i with DOut => fst p | DIn => snd p end.
Definition set {A} (p : A * A) (i : dir) (v : A) : A * A := match i with DOut => (v, snd p) | DIn => (fst p, v) end.

(* what a state function may return *)
Record outcome := mkO { o_desired : st; o_err : ekind; o_stop : bool (* taken because of closeCh / collision value *) }.

(* the returns each state function can make (fsm.go), abstracting data *)
Definition outcomes (s : st) (has_conn : bool) : list outcome :=
  match s with
  | Idle => [mkO Connect ENil false; mkO Disabled ENil true]
  | Connect => [mkO OpenSent ENil false; mkO Idle ENil false; mkO Disabled ENil true]
  | Active => if has_conn then [mkO OpenSent ENil false; mkO Idle ENil false]
              else [mkO Connect ENil false; mkO Disabled ENil true]
  | OpenSent => [mkO OpenConfirm ENil false; mkO Idle EDamp false; mkO Idle ENoDamp false;
                 mkO Active ENoDamp false; mkO Disabled ENoDamp true]
  | OpenConfirm => [mkO Established ENil false; mkO Idle EDamp false; mkO Idle ENoDamp false; mkO Disabled ENoDamp true]
  | Established => [mkO Idle EDamp false; mkO Idle ENoDamp false; mkO Disabled ENoDamp true]
  | Disabled => []
  end.

Definition st_all := [Disabled; Idle; Connect; Active; OpenSent; OpenConfirm; Established].
Definition all_outcomes : list outcome :=
  flat_map (fun d => flat_map (fun e => [mkO d e false; mkO d e true]) [ENil; EDamp; ENoDamp]) st_all.

Definition outcome_eqb (a b : outcome) : bool :=
  st_eqb (o_desired a) (o_desired b) && Nat.eqb (ekind_num (o_err a)) (ekind_num (o_err b))
  && Bool.eqb (o_stop a) (o_stop b).

Inductive label :=
| LMClose                      (* environment: Server.Close / DeletePeer closes peer.closeCh *)
| LMPickClose                  (* manager loop: <-closeCh *)
| LMTimer                      (* manager loop: <-startupDelayTimer.C *)
| LMInConn                     (* manager loop: conn := <-inConnCh *)
| LMRecvTrans (i : dir)        (* manager loop: t := <-transitionCh[i] *)
| LMRecvErr (i : dir)          (* manager loop: err := <-errorCh[i] *)
| LMOp                         (* the next non-blocking micro-operation *)
| LMReply (i : dir)            (* transitionCh[i] <- t received by FSM i *)
| LMReplySkip                  (* sendTransitionToFSM: <-p.closeCh *)
| LMWaitDone (i : dir)         (* <-fsm.doneCh *)
| LMCollideStop                (* collision select: value received on the other FSM's closeCh *)
| LMCollideOther               (* collision select: otherT := <-transitionCh[other] *)
| LMCollideSkip                (* collision select: <-p.closeCh *)
| LFClose (i : dir)            (* FSM i: <-f.closeCh (closed) at one of fsm.run's selects *)
| LFRun (i : dir) (o : outcome)(* FSM i: the state function returns *)
| LFExit (i : dir).            (* FSM i: cleanup done, doneCh closed *)

Definition labels : list label :=
  [LMClose; LMPickClose; LMTimer; LMInConn; LMOp; LMReplySkip; LMCollideStop; LMCollideOther; LMCollideSkip]
  ++ flat_map (fun i => [LMRecvTrans i; LMRecvErr i; LMReply i; LMWaitDone i; LFClose i; LFExit i]
                        ++ map (LFRun i) all_outcomes) [DOut; DIn].

(* ---- the FSM side ---- *)
(* after fsm.run's coordination select yields t (possibly rewritten to -> Disabled): the Cease
   check, then either return (FExit) or run the state function *)
Definition after_coord (f : fsm) (t : trans) (toBefore : st) : fsm :=
  let cease := negb (st_eqb (t_to t) toBefore) && st_eqb (t_to t) Disabled && f_conn f && st_ltb Active (t_from t) in
  let f1 := mkF (f_pc f) (f_closed f) (f_conn f) (f_ceased f || cease) (f_bad f) in
  if st_eqb (t_to t) Disabled then
    (* return: cleanup() closes the connection *)
    mkF FExit (f_closed f1) false false
        (f_bad f1 || (f_conn f1 && st_ltb Active (t_from t) && negb (f_ceased f1)))
  else mkF (FRun (t_to t)) (f_closed f1) (f_conn f1) (f_ceased f1) (f_bad f1).

(* the <-f.closeCh branch of whichever select the FSM is blocked in *)
Definition take_close (f : fsm) : option fsm :=
  match f_pc f with
  | FOffer t => Some (after_coord f (mkT (t_from t) Disabled) (t_to t))
  | FAwait t => Some (after_coord f (mkT (t_from t) Disabled) (t_to t))
  | FErrOffer s _ _ => Some (mkF (FOffer (mkT s Disabled)) (f_closed f) (f_conn f) (f_ceased f) (f_bad f))
  | _ => None
  end.

(* a state function returning o from state s *)
Definition run_return (f : fsm) (s : st) (o : outcome) : fsm :=
  let keeps_conn :=   (* the connection survives only on forward progress *)
    match s, o_desired o with
    | Connect, OpenSent | Active, OpenSent | OpenSent, OpenConfirm | OpenConfirm, Established => true
    | _, _ => false
    end in
  let gets_conn := match s, o_desired o with Connect, OpenSent => true | _, _ => false end in
  let past_active := st_ltb Active s in
  (* stopped inside OpenSent/OpenConfirm/Established: Cease is written before the close *)
  let ceased := f_ceased f || (o_stop o && past_active) in
  let conn' := (f_conn f || gets_conn) && keeps_conn in
  let bad := f_bad f || (o_stop o && past_active && f_conn f && negb ceased) in
  let f' := mkF (f_pc f) (f_closed f) conn' (if conn' then ceased else false) bad in
  match o_err o with
  | ENil => mkF (FOffer (mkT s (o_desired o))) (f_closed f') (f_conn f') (f_ceased f') (f_bad f')
  | e => mkF (FErrOffer s (o_desired o) e) (f_closed f') (f_conn f') (f_ceased f') (f_bad f')
  end.

Definition outcome_ok (f : fsm) (s : st) (o : outcome) (value_delivery : bool) : bool :=
  existsb (outcome_eqb o) (outcomes s (f_conn f))
  && (negb (o_stop o) || f_closed f || value_delivery).

(* ---- the manager side ---- *)
Definition handle (s : sys) (i : dir) (t : trans) : list mop :=
  if st_eqb (t_to t) Established then [OStop (other i); OReply i t]
  else if dir_eqb i DIn && st_ltb (t_to t) (t_from t) then [OStop DIn; OEnable DOut]
  else if st_eqb (t_to t) OpenConfirm then
    match get (s_state s) (other i) with
    | Established => [OStop i]
    | OpenConfirm =>
        (* keep the connection initiated by the dominant speaker *)
        if Bool.eqb (s_dominant s) (dir_eqb i DOut) then [OCollide i t] else [OStop i]
    | _ => [OReply i t]
    end
  else [OReply i t].

Definition new_fsm (i : dir) : fsm :=
  match i with
  | DOut => mkF (FOffer (mkT Disabled Idle)) false false false false
  | DIn => mkF (FOffer (mkT Disabled Active)) false true false false
  end.

Definition with_ops (s : sys) (ops : list mop) : sys :=
  mkSys ops (s_state s) (s_fsm s) (s_hold s) (s_timer s) (s_pclosed s) (s_mdone s) (s_passive s) (s_dominant s) (s_refused s).
Definition with_fsm (s : sys) (i : dir) (f : option fsm) : sys :=
  mkSys (s_ops s) (s_state s) (set (s_fsm s) i f) (s_hold s) (s_timer s) (s_pclosed s) (s_mdone s) (s_passive s) (s_dominant s) (s_refused s).
Definition with_state (s : sys) (i : dir) (v : st) : sys :=
  mkSys (s_ops s) (set (s_state s) i v) (s_fsm s) (s_hold s) (s_timer s) (s_pclosed s) (s_mdone s) (s_passive s) (s_dominant s) (s_refused s).

Definition enable (s : sys) (i : dir) : sys :=
  if dir_eqb i DOut && s_passive s then s
  else match get (s_fsm s) i with
       | Some _ => s
       | None => with_state (with_fsm s i (Some (new_fsm i))) i Disabled
       end.

Definition at_loop (s : sys) : bool := match s_ops s with [] => negb (s_mdone s) | _ => false end.

Definition step (s : sys) (l : label) : option sys :=
  match l with
  | LMClose => if s_pclosed s then None
               else Some (mkSys (s_ops s) (s_state s) (s_fsm s) (s_hold s) (s_timer s) true (s_mdone s) (s_passive s) (s_dominant s) (s_refused s))
  | LMPickClose =>
      if at_loop s && s_pclosed s then Some (with_ops s [OStop DOut; OStop DIn; OFinish]) else None
  | LMTimer =>
      if at_loop s && s_timer s then
        let s1 := enable s DOut in
        Some (mkSys [] (s_state s1) (s_fsm s1) false false (s_pclosed s1) (s_mdone s1) (s_passive s1) (s_dominant s1) (s_refused s1))
      else None
  | LMInConn =>
      if at_loop s then
        if s_hold s || (match get (s_fsm s) DIn with Some _ => true | None => false end)
           || st_eqb (get (s_state s) DOut) Established
        then Some (mkSys (s_ops s) (s_state s) (s_fsm s) (s_hold s) (s_timer s) (s_pclosed s) (s_mdone s) (s_passive s) (s_dominant s) true)
        else let s1 := enable s DIn in
             Some (mkSys (s_ops s1) (s_state s1) (s_fsm s1) (s_hold s1) (s_timer s1) (s_pclosed s1) (s_mdone s1) (s_passive s1) (s_dominant s1) false)
      else None
  | LMRecvTrans i =>
      if at_loop s then
        match get (s_fsm s) i with
        | Some f => match f_pc f with
                    | FOffer t => Some (with_ops (with_fsm s i (Some (mkF (FAwait t) (f_closed f) (f_conn f) (f_ceased f) (f_bad f))))
                                                 [OHandle i t])
                    | _ => None
                    end
        | None => None
        end
      else None
  | LMRecvErr i =>
      if at_loop s then
        match get (s_fsm s) i with
        | Some f => match f_pc f with
                    | FErrOffer st0 d e =>
                        let s1 := with_fsm s i (Some (mkF (FOffer (mkT st0 d)) (f_closed f) (f_conn f) (f_ceased f) (f_bad f))) in
                        Some (with_ops s1 (match e with EDamp => [OStop DIn; OStop DOut; ODamp] | _ => [] end))
                    | _ => None
                    end
        | None => None
        end
      else None
  | LMOp =>
      match s_ops s with
      | OStop i :: r =>
          match get (s_fsm s) i with
          | None => Some (with_ops s r)
          | Some f => Some (with_ops (with_fsm s i (Some (mkF (f_pc f) true (f_conn f) (f_ceased f) (f_bad f)))) (OWaitDone i :: r))
          end
      | OEnable i :: r => Some (with_ops (enable s i) r)
      | OHandle i t :: r => Some (with_ops s (handle s i t ++ r))
      | ODamp :: r => Some (mkSys r (s_state s) (s_fsm s) true true (s_pclosed s) (s_mdone s) (s_passive s) (s_dominant s) (s_refused s))
      | OFinish :: r => Some (mkSys r (s_state s) (s_fsm s) (s_hold s) false (s_pclosed s) true (s_passive s) (s_dominant s) (s_refused s))
      | _ => None
      end
  | LMReply i =>
      match s_ops s with
      | OReply j t :: r =>
          if dir_eqb i j then
            match get (s_fsm s) i with
            | Some f => match f_pc f with
                        | FAwait _ => Some (with_ops (with_state (with_fsm s i (Some (after_coord f t (t_to t)))) i (t_to t)) r)
                        | _ => None
                        end
            | None => None
            end
          else None
      | _ => None
      end
  | LMReplySkip =>
      match s_ops s with
      | OReply _ _ :: r => if s_pclosed s then Some (with_ops s r) else None
      | _ => None
      end
  | LMWaitDone i =>
      match s_ops s with
      | OWaitDone j :: r =>
          if dir_eqb i j then
            match get (s_fsm s) i with
            | Some f => match f_pc f with
                        | FDone => Some (with_ops (with_state (with_fsm s i None) i Disabled) r)
                        | _ => None
                        end
            | None => None
            end
          else None
      | _ => None
      end
  | LMCollideStop =>
      match s_ops s with
      | OCollide i t :: r =>
          match get (s_fsm s) (other i) with
          | Some f =>
              let stopped :=
                match f_pc f with
                | FRun s0 =>
                    (* the state function's select receives the value: it returns as if stopped *)
                    match filter (fun o => o_stop o) (outcomes s0 (f_conn f)) with
                    | o :: _ => Some (run_return f s0 o)
                    | [] => None
                    end
                | _ => take_close f
                end in
              match stopped with
              | Some f' => Some (with_ops (with_fsm s (other i) (Some f')) (OStop (other i) :: OReply i t :: r))
              | None => None
              end
          | None => None
          end
      | _ => None
      end
  | LMCollideOther =>
      match s_ops s with
      | OCollide i t :: r =>
          match get (s_fsm s) (other i) with
          | Some f => match f_pc f with
                      | FOffer ot =>
                          let s1 := with_fsm s (other i) (Some (mkF (FAwait ot) (f_closed f) (f_conn f) (f_ceased f) (f_bad f))) in
                          Some (with_ops s1 (if st_eqb (t_to ot) Established
                                             then OStop i :: OHandle (other i) ot :: r
                                             else OReply i t :: OHandle (other i) ot :: r))
                      | _ => None
                      end
          | None => None
          end
      | _ => None
      end
  | LMCollideSkip =>
      match s_ops s with
      | OCollide _ _ :: r => if s_pclosed s then Some (with_ops s r) else None
      | _ => None
      end
  | LFClose i =>
      match get (s_fsm s) i with
      | Some f => if f_closed f then
                    match take_close f with
                    | Some f' => Some (with_fsm s i (Some f'))
                    | None => None
                    end
                  else None
      | None => None
      end
  | LFRun i o =>
      match get (s_fsm s) i with
      | Some f => match f_pc f with
                  | FRun s0 => if outcome_ok f s0 o false then Some (with_fsm s i (Some (run_return f s0 o))) else None
                  | _ => None
                  end
      | None => None
      end
  | LFExit i =>
      match get (s_fsm s) i with
      | Some f => match f_pc f with
                  | FExit => Some (with_fsm s i (Some (mkF FDone (f_closed f) false false (f_bad f))))
                  | _ => None
                  end
      | None => None
      end
  end.

(* peer.start(): enableFSM(out, nil) then the manager goroutine *)
Definition init (passive dominant : bool) : sys :=
  enable (mkSys [] (Disabled, Disabled) (None, None) false false false false passive dominant false) DOut.
