(* Dial.v — the outbound FSM's Idle / Connect / Active states with their two timers and a clock
   (fsm.idle, fsm.connect, fsm.active): when dial attempts are made.  A timer input is enabled only at or
   after its deadline; an expired timer stays pending until a state selects on it (newFSM creates the
   idle-hold timer already expired).  Definitions only. *)
From Verif Require Import Base.

Record dconf := mkDC { dc_idle_hold : N; dc_connect_retry : N }.     (* ns *)

Inductive dphase := DIdle | DConnect | DActive | DSession | DStopped.

Inductive dinput :=
| DIdleFire          (* idle(): <-idleHoldTimer.C: start connect-retry timer, dial, re-arm idle-hold, Connect *)
| DDialErr           (* connect(): dial failed: stop connect-retry timer, Idle *)
| DDialOk            (* connect(): dial succeeded: stop connect-retry timer, OPEN sent (session) *)
| DRetryFireErr      (* connect(): <-connectRetryTimer.C, pending dial cancelled: restart timer, dial again *)
| DRetryFireOk       (* connect(): <-connectRetryTimer.C but the dial had just succeeded: session *)
| DActiveFire        (* active(): <-connectRetryTimer.C: restart timer, dial, Connect *)
| DSessionToIdle     (* the session ended, the state function returned Idle *)
| DSessionToActive   (* OpenSent saw a transport failure: connect-retry timer restarted, Active *)
| DStop.             (* closeCh *)

Record dstate := mkDS {
  ds_phase : dphase;
  ds_now : N;
  ds_idle : option N;                 (* idle-hold timer deadline (armed or expired-and-pending) *)
  ds_retry : option N;                (* connect-retry timer deadline *)
  ds_dials : list (N * bool)          (* dial attempts, newest first: (time, made from Idle) *)
}.

Definition ddue (t : option N) (now : N) : bool := match t with Some dl => dl <=? now | None => false end.

Definition dinit (t0 : N) : dstate := mkDS DIdle t0 (Some t0) None [].

Definition dstep (cf : dconf) (s : dstate) (d : N) (i : dinput) : option dstate :=
  let now := ds_now s + d in
  match ds_phase s, i with
  | DStopped, _ => None
  | _, DStop => Some (mkDS DStopped now (ds_idle s) None (ds_dials s))
  | DIdle, DIdleFire =>
      if ddue (ds_idle s) now
      then Some (mkDS DConnect now (Some (now + dc_idle_hold cf)) (Some (now + dc_connect_retry cf))
                      ((now, true) :: ds_dials s))
      else None
  | DConnect, DDialErr => Some (mkDS DIdle now (ds_idle s) None (ds_dials s))
  | DConnect, DDialOk => Some (mkDS DSession now (ds_idle s) None (ds_dials s))
  | DConnect, DRetryFireErr =>
      if ddue (ds_retry s) now
      then Some (mkDS DConnect now (ds_idle s) (Some (now + dc_connect_retry cf)) ((now, false) :: ds_dials s))
      else None
  | DConnect, DRetryFireOk =>
      if ddue (ds_retry s) now then Some (mkDS DSession now (ds_idle s) None (ds_dials s)) else None
  | DActive, DActiveFire =>
      if ddue (ds_retry s) now
      then Some (mkDS DConnect now (ds_idle s) (Some (now + dc_connect_retry cf)) ((now, false) :: ds_dials s))
      else None
  | DSession, DSessionToIdle => Some (mkDS DIdle now (ds_idle s) None (ds_dials s))
  | DSession, DSessionToActive => Some (mkDS DActive now (ds_idle s) (Some (now + dc_connect_retry cf)) (ds_dials s))
  | _, _ => None
  end.

Fixpoint drun (cf : dconf) (s : dstate) (ins : list (N * dinput)) : option dstate :=
  match ins with
  | [] => Some s
  | (d, i) :: r => match dstep cf s d i with Some s' => drun cf s' r | None => None end
  end.
