(* TimedW.v — Timed.v plus the local side of Established: WriteUpdate calls by plugin goroutines and the
   keep-alive manager goroutine that serves their reset requests (fsm.go: established(), updateMessageWriter.WriteUpdate).

   WriteUpdate writes the UPDATE and then offers a token on resetKATimerCh; the keep-alive manager receives it
   some time later and, when the hold time is not zero, re-arms the keep-alive timer with a third of the hold
   time, counted from the moment it serves the token — not from the write.  Both are asynchronous to the FSM's own
   select loop, so they are separate inputs here.  Ghost fields record when the last UPDATE was written, which
   writes still wait for the manager, and the largest write-to-reset latency seen so far.
   Definitions only. *)
From Verif Require Import Base Consts Packet Conn Timed.

Record xstate := mkXS {
  xs_t : tstate;              (* its ts_last_ka is the keep-alive timer's *arm base*: the last KEEPALIVE write or reset *)
  xs_last_ka : N;             (* ghost: when the last KEEPALIVE was really written *)
  xs_writes : N;              (* ghost: number of UPDATE writes so far *)
  xs_pending : list N;        (* write times of the reset tokens not yet served *)
  xs_last_upd : N;            (* ghost: when the last UPDATE was written (WriteUpdate or inside OnEstablished) *)
  xs_maxlat : N;              (* ghost: largest (serve time - write time) over the resets served so far *)
  xs_resets : N               (* ghost: number of re-arm operations done by the keep-alive manager *)
}.

Inductive xinput :=
| XConn (i : cinput)          (* an input of the connection's own select loop (Timed.tstep) *)
| XWrite (b : bytes)          (* a plugin goroutine's WriteUpdate(b) returns from conn.Write *)
| XReset (k : nat).           (* the keep-alive manager serves the k-th waiting reset token *)

Definition is_upd_write (a : caction) : bool :=
  match a with AWrite b => nth 18 b 0 =? c_updateMessageType | _ => false end.
Definition count_upd (acts : list caction) : nat := length (filter is_upd_write acts).

Fixpoint remove_nth {A} (k : nat) (l : list A) : list A :=
  match l, k with
  | [], _ => []
  | _ :: r, O => r
  | x :: r, S k' => x :: remove_nth k' r
  end.

Definition advance (ts : tstate) (now : N) : tstate :=
  mkTS (ts_conn ts) now (ts_hold ts) (ts_ka ts) (ts_last_rx ts) (ts_last_ka ts).
Definition rearm (ts : tstate) (now : N) (ns : N) : tstate :=
  mkTS (ts_conn ts) now (ts_hold ts) (Some (now + ns)) (ts_last_rx ts) now.

Definition est (ts : tstate) : bool := match c_phase (ts_conn ts) with PEstablished => true | _ => false end.

Definition xstep (cf : cconf) (pl : cplugin) (xs : xstate) (d : N) (i : xinput) : option (xstate * list caction) :=
  let ts := xs_t xs in
  let now := ts_now ts + d in
  match i with
  | XConn ci =>
      match tstep cf pl ts d ci with
      | None => None
      | Some (ts', acts) =>
          let lka := if existsb is_ka_write acts then now else xs_last_ka xs in
          if est ts' then
            (* writes made by the plugin inside OnEstablished are WriteUpdate calls too *)
            let n := count_upd acts in
            Some (mkXS ts' lka (xs_writes xs + N.of_nat n) (xs_pending xs ++ repeat now n)
                       (if Nat.eqb n 0 then xs_last_upd xs else now) (xs_maxlat xs) (xs_resets xs), acts)
          else
            (* the writer is closed with the session: blocked WriteUpdate calls take the closeCh branch,
               later calls are refused; the manager's timer is stopped by the teardown *)
            Some (mkXS ts' lka (xs_writes xs) [] (xs_last_upd xs) (xs_maxlat xs) (xs_resets xs), acts)
      end
  | XWrite b =>
      if est ts then
        Some (mkXS (advance ts now) (xs_last_ka xs) (xs_writes xs + 1) (xs_pending xs ++ [now]) now
                   (xs_maxlat xs) (xs_resets xs),
              [AWrite (update_frame b)])
      else None
  | XReset k =>
      if est ts then
        match nth_error (xs_pending xs) k with
        | None => None
        | Some w =>
            let h := c_holdns (ts_conn ts) in
            if h =? 0 then
              Some (mkXS (advance ts now) (xs_last_ka xs) (xs_writes xs) (remove_nth k (xs_pending xs))
                         (xs_last_upd xs) (xs_maxlat xs) (xs_resets xs), [])
            else
              Some (mkXS (rearm ts now (h / 3)) (xs_last_ka xs) (xs_writes xs) (remove_nth k (xs_pending xs))
                         (xs_last_upd xs) (N.max (xs_maxlat xs) (now - w)) (xs_resets xs + 1), [AArmKA (h / 3)])
        end
      else None
  end.

Fixpoint xrun (cf : cconf) (pl : cplugin) (xs : xstate) (ins : list (N * xinput)) : option (xstate * list caction) :=
  match ins with
  | [] => Some (xs, [])
  | (d, i) :: r => match xstep cf pl xs d i with
                   | Some (xs', a) => match xrun cf pl xs' r with
                                      | Some (xs'', a') => Some (xs'', a ++ a')
                                      | None => None
                                      end
                   | None => None
                   end
  end.

Definition xinit (t0 : N) : xstate := mkXS (tinit t0) t0 0 [] t0 0 0.

(* the last time anything that counts for the remote's hold timer was sent *)
Definition last_tx (xs : xstate) : N := N.max (xs_last_ka xs) (xs_last_upd xs).
