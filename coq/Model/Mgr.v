(* Mgr.v — the peer manager alone, as a sequential machine over the events the hooks in
   peer.go record: each input (transition request, error, connection, timer, close, outcome of
   the collision select) determines the outputs (disable, reply, enable, damp) that must follow.
   It reuses Peer.handle, so the replay checks the decision logic the closure proofs are about. *)
From Coq Require Import List Bool NArith.
Import ListNotations.
From Verif Require Import Peer.

Record mst := mkM {
  m_state : st * st; m_present : bool * bool; m_hold : bool; m_passive : bool; m_dominant : bool;
  m_pending : list mop      (* operations not yet executed (blocked on a collision outcome) *)
}.

Inductive mout := MDisable (i : dir) | MReply (i : dir) (t : trans) | MEnable (i : dir) | MDamp | MDone.
Inductive minp :=
| ITrans (i : dir) (t : trans) | IErr (i : dir) (damp : bool) | IConn | ITimer | IClose
| ICollideStopped | ICollideOther (t : trans).

Definition as_sys (m : mst) : sys :=
  mkSys [] (m_state m) (None, None) (m_hold m) false false false (m_passive m) (m_dominant m) false.

(* run micro-operations until none is left or a collision select blocks *)
Fixpoint exec (fuel : nat) (m : mst) (ops : list mop) : mst * list mout :=
  match fuel with
  | O => (m, [])
  | S f =>
      match ops with
      | [] => (mkM (m_state m) (m_present m) (m_hold m) (m_passive m) (m_dominant m) [], [])
      | OStop i :: r =>
          if get (m_present m) i then
            let m' := mkM (set (m_state m) i Disabled) (set (m_present m) i false) (m_hold m) (m_passive m) (m_dominant m) [] in
            let (m2, o) := exec f m' r in (m2, MDisable i :: o)
          else exec f m r
      | OWaitDone _ :: r => exec f m r
      | OReply i t :: r =>
          let m' := mkM (set (m_state m) i (t_to t)) (m_present m) (m_hold m) (m_passive m) (m_dominant m) [] in
          let (m2, o) := exec f m' r in (m2, MReply i t :: o)
      | OEnable i :: r =>
          if (dir_eqb i DOut && m_passive m) || get (m_present m) i then exec f m r
          else let m' := mkM (set (m_state m) i Disabled) (set (m_present m) i true) (m_hold m) (m_passive m) (m_dominant m) [] in
               let (m2, o) := exec f m' r in (m2, MEnable i :: o)
      | OHandle i t :: r => exec f m (handle (as_sys m) i t ++ r)
      | OCollide i t :: r =>
          (mkM (m_state m) (m_present m) (m_hold m) (m_passive m) (m_dominant m) (OCollide i t :: r), [])
      | ODamp :: r =>
          let m' := mkM (m_state m) (m_present m) true (m_passive m) (m_dominant m) [] in
          let (m2, o) := exec f m' r in (m2, MDamp :: o)
      | OFinish :: r => let (m2, o) := exec f m r in (m2, MDone :: o)
      end
  end.

Definition mgr_step (m : mst) (i : minp) : option (mst * list mout) :=
  match m_pending m, i with
  | [], ITrans d t => Some (exec 20 m [OHandle d t])
  | [], IErr d damp => Some (exec 20 m (if damp then [OStop DIn; OStop DOut; ODamp] else []))
  | [], IConn =>
      if m_hold m || get (m_present m) DIn || st_eqb (get (m_state m) DOut) Established then Some (m, [])
      else Some (exec 20 m [OEnable DIn])
  | [], ITimer =>
      let (m1, o) := exec 20 m [OEnable DOut] in
      Some (mkM (m_state m1) (m_present m1) false (m_passive m1) (m_dominant m1) [], o)
  | _, IClose => Some (exec 20 (mkM (m_state m) (m_present m) (m_hold m) (m_passive m) (m_dominant m) [])
                            [OStop DOut; OStop DIn; OFinish])
  | OCollide d t :: r, ICollideStopped => Some (exec 20 m (OStop (other d) :: OReply d t :: r))
  | OCollide d t :: r, ICollideOther ot =>
      Some (exec 20 m (if st_eqb (t_to ot) Established then OStop d :: OHandle (other d) ot :: r
                       else OReply d t :: OHandle (other d) ot :: r))
  | _, _ => None
  end.

Definition mgr_init (passive dominant : bool) : mst * list mout :=
  exec 20 (mkM (Disabled, Disabled) (false, false) false passive dominant []) [OEnable DOut].
