(* Packet.v — model of packet.go: message header, NOTIFICATION, OPEN,
   capability codecs and OPEN validation.  Go's uint8 arithmetic and slice
   bounds panics are explicit.  Definitions only. *)
From Verif Require Import Base Consts.

Record notif := mkNotif { n_code : N; n_sub : N; n_data : bytes }.

Definition tok_notif (n : notif) : list N := n_code n :: n_sub n :: tok_bytes (n_data n).

(* prependHeader(m, t) *)
Definition marker : bytes := repeat 255 16.
Definition prepend_header (m : bytes) (t : N) : bytes :=
  marker ++ put16 (u16 (blen m + c_headerLength)) ++ [t] ++ m.

(* Notification.encode: code, subcode, data *)
Definition notif_body (n : notif) : bytes :=
  [n_code n; n_sub n] ++ (if 0 <? blen (n_data n) then n_data n else []).
Definition notif_encode (n : notif) : bytes :=
  prepend_header (notif_body n) c_notificationMessageType.

(* Notification.decode: error (not a notification) when shorter than 2 *)
Definition notif_decode (b : bytes) : option notif :=
  match b with
  | c :: s :: d => Some (mkNotif c s d)
  | _ => None
  end.

Definition keepalive_encode : bytes := prepend_header [] c_keepAliveMessageType.

(* ---- add-path tuples and MP capability (exported helpers) ---- *)
Record aptuple := mkAP { ap_afi : N; ap_safi : N; ap_tx : bool; ap_rx : bool }.

Definition open_err (sub : N) (d : bytes) : notif := mkNotif c_NOTIF_CODE_OPEN_MESSAGE_ERR sub d.

Definition aptuple_decode (b : bytes) : res notif aptuple :=
  match b with
  | a1 :: a0 :: s :: d :: _ =>
      if d =? 3 then Ok (mkAP (get16 a1 a0) s true true)
      else if d =? 2 then Ok (mkAP (get16 a1 a0) s true false)
      else if d =? 1 then Ok (mkAP (get16 a1 a0) s false true)
      else Err (open_err 0 [])
  | _ => Err (open_err 0 [])
  end.

Fixpoint aptuples_loop (fuel : nat) (b : bytes) : res notif (list aptuple) :=
  match fuel with
  | O => OutOfFuel
  | S f =>
      if 0 <? blen b then
        do a <- aptuple_decode b;
        do rest <- of_opt (slice_from b 4);
        do l <- aptuples_loop f rest;
        Ok (a :: l)
      else Ok []
  end.

Definition aptuples_decode (b : bytes) : res notif (list aptuple) :=
  if (blen b =? 0) || negb (blen b mod 4 =? 0) then Err (open_err 0 [])
  else aptuples_loop (S (length b)) b.

Definition aptuple_encode (a : aptuple) : bytes :=
  put16 (ap_afi a) ++ [ap_safi a;
    if ap_tx a && ap_rx a then 3 else if ap_tx a then 2 else if ap_rx a then 1 else 0].

Record cap := mkCap { cap_code : N; cap_val : bytes }.
Definition tok_cap (c : cap) : list N := cap_code c :: tok_bytes (cap_val c).
Definition tok_caps (cs : list cap) : list N := N.of_nat (length cs) :: flat_map tok_cap cs.

Definition addpath_cap (ts : list aptuple) : cap :=
  mkCap c_CAP_ADD_PATH (flat_map aptuple_encode ts).
Definition mp_cap (afi safi : N) : cap :=
  mkCap c_CAP_MP_EXTENSIONS (put16 afi ++ [0; safi]).

(* ---- OPEN ---- *)
Record openmsg := mkOpen {
  o_ver : N; o_asn : N; o_hold : N; o_id : N;
  o_params : list (list cap)   (* every optional parameter is a capabilities parameter *)
}.

Definition get_capabilities (o : openmsg) : list cap := concat (o_params o).

(* capabilityOptionalParam.decode *)
Fixpoint caps_decode (fuel : nat) (b : bytes) : res notif (list cap) :=
  match fuel with
  | O => OutOfFuel
  | S f =>
      match b with
      | code :: len :: _ =>
          if blen b <? len + 2 then Err (open_err 0 []) else
          do v <- (if 0 <? len then of_opt (slice b 2 (u8 (len + 2))) else Ok []);
          do rest <- of_opt (slice_from b (2 + len));
          if blen rest =? 0 then Ok [mkCap code v]
          else do cs <- caps_decode f rest; Ok (mkCap code v :: cs)
      | _ => Err (open_err 0 [])
      end
  end.

(* decodeOptionalParams *)
Fixpoint params_decode (fuel : nat) (b : bytes) : res notif (list (list cap)) :=
  match fuel with
  | O => OutOfFuel
  | S f =>
      match b with
      | code :: len :: _ =>
          if blen b <? len + 2 then Err (open_err 0 []) else
          do p <- (if 0 <? len then of_opt (slice b 2 (u8 (len + 2))) else Ok []);
          do rest <- of_opt (slice_from b (2 + len));
          if code =? c_capabilityOptionalParamType then
            do cs <- caps_decode (S (length p)) p;
            if blen rest =? 0 then Ok [cs]
            else do ps <- params_decode f rest; Ok (cs :: ps)
          else Err (open_err c_NOTIF_SUBCODE_UNSUPPORTED_OPTIONAL_PARAM [])
      | _ => Err (open_err 0 [])
      end
  end.

(* openMessage.decode *)
Definition open_decode (b : bytes) : res notif openmsg :=
  match b with
  | v :: a1 :: a0 :: h1 :: h0 :: i3 :: i2 :: i1 :: i0 :: ol :: rest =>
      if negb (ol =? blen b - 10) then Err (open_err 0 []) else
      do ps <- params_decode (S (length rest)) rest;
      Ok (mkOpen v (get16 a1 a0) (get16 h1 h0) (get32 i3 i2 i1 i0) ps)
  | _ => Err (mkNotif c_NOTIF_CODE_MESSAGE_HEADER_ERR c_NOTIF_SUBCODE_BAD_MESSAGE_LEN b)
  end.

Definition four_octet_cap (asn : N) : cap := mkCap c_CAP_FOUR_OCTET_AS (put32 asn).

(* Capability.encode *)
Definition cap_encode (c : cap) : bytes :=
  [cap_code c; u8 (blen (cap_val c))] ++ cap_val c.

(* netip.Addr.IsMulticast for an IPv4 address held in a uint32 *)
Definition is_multicast4 (id : N) : bool := (id / 16777216) / 16 =? 14.

(* the capability scan of validate: the first faulty 4-octet-AS capability decides *)
Fixpoint validate_caps (remoteAS : N) (cs : list cap) (found : bool) : res notif bool :=
  match cs with
  | [] => Ok found
  | c :: cs' =>
      if cap_code c =? c_CAP_FOUR_OCTET_AS then
        match cap_val c with
        | [a; b; c0; d] =>
            if get32 a b c0 d =? remoteAS then validate_caps remoteAS cs' true
            else Err (open_err c_NOTIF_SUBCODE_BAD_PEER_AS [])
        | _ => Err (open_err 0 [])
        end
      else validate_caps remoteAS cs' found
  end.

(* openMessage.validate(localID, localAS, remoteAS): None = acceptable *)
Definition open_validate (localID localAS remoteAS : N) (o : openmsg) : option notif :=
  if negb (o_ver o =? 4) then
    Some (open_err c_NOTIF_SUBCODE_UNSUPPORTED_VERSION_NUM (put16 4))
  else if negb (o_asn o =? c_asTrans) && negb (o_asn o =? remoteAS) then
    Some (open_err c_NOTIF_SUBCODE_BAD_PEER_AS [])
  else if (o_hold o <? 3) && negb (o_hold o =? 0) then
    Some (open_err c_NOTIF_SUBCODE_UNACCEPTABLE_HOLD_TIME [])
  else if is_multicast4 (o_id o) then
    Some (open_err c_NOTIF_SUBCODE_BAD_BGP_ID [])
  else if (localAS =? remoteAS) && (localID =? o_id o) then
    Some (open_err c_NOTIF_SUBCODE_BAD_BGP_ID [])
  else
    match validate_caps remoteAS (get_capabilities o) false with
    | Err n => Some n
    | Ok found =>
        if (o_asn o =? c_asTrans) && negb found then
          Some (open_err c_NOTIF_SUBCODE_BAD_PEER_AS [])
        else if negb found then
          Some (open_err c_NOTIF_SUBCODE_UNSUPPORTED_CAPABILITY
                         (cap_encode (four_octet_cap remoteAS)))
        else None
    | _ => None (* unreachable: validate_caps neither panics nor uses fuel *)
    end.

(* newOpenMessage(asn, holdTime, bgpID, caps); hold in whole seconds *)
Definition new_open_message (asn hold id : N) (caps : list cap) : openmsg :=
  mkOpen 4 (if 65535 <? asn then c_asTrans else u16 asn) (u16 hold) id
         [ four_octet_cap asn ::
           filter (fun c => negb (cap_code c =? c_CAP_FOUR_OCTET_AS)) caps ].

(* capabilityOptionalParam.encode — an error instead of a wrapped length octet *)
Definition param_encode (cs : list cap) : option bytes :=
  match cs with
  | [] => None
  | _ =>
      if existsb (fun c => 255 <? blen (cap_val c)) cs then None else
      let cb := flat_map cap_encode cs in
      if 255 <? blen cb then None
      else Some ([c_capabilityOptionalParamType; u8 (blen cb)] ++ cb)
  end.

Fixpoint params_encode (ps : list (list cap)) : option bytes :=
  match ps with
  | [] => Some []
  | p :: ps' =>
      match param_encode p, params_encode ps' with
      | Some a, Some b => Some (a ++ b)
      | _, _ => None
      end
  end.

Definition open_body (o : openmsg) : option bytes :=
  match params_encode (o_params o) with
  | None => None
  | Some ps =>
      if 255 <? blen ps then None
      else Some ([o_ver o] ++ put16 (o_asn o) ++ put16 (o_hold o) ++ put32 (o_id o)
                 ++ [u8 (blen ps)] ++ ps)
  end.

(* openMessage.encode *)
Definition open_encode (o : openmsg) : option bytes :=
  match open_body o with
  | None => None
  | Some b => Some (prepend_header b c_openMessageType)
  end.

Definition tok_open (o : openmsg) : list N :=
  [o_ver o; o_asn o; o_hold o; o_id o; N.of_nat (length (o_params o))]
  ++ flat_map tok_caps (o_params o).

(* decode followed by validate, as the OpenSent branch does *)
Inductive open_outcome :=
| OAccept (id : N) (caps : list cap) (hold : N)
| OReject (n : notif)
| OPanic.

Definition handle_open (localID localAS remoteAS : N) (b : bytes) : open_outcome :=
  match open_decode b with
  | Ok o =>
      match open_validate localID localAS remoteAS o with
      | None => OAccept (o_id o) (get_capabilities o) (o_hold o)
      | Some n => OReject n
      end
  | Err n => OReject n
  | _ => OPanic
  end.

(* messageFromBytes *)
Inductive msg :=
| MOpen (o : openmsg)
| MUpdate (b : bytes)
| MNotif (n : notif)
| MKeepalive.

Inductive mfb_err :=
| MEnotif (n : notif)     (* notificationError, out = true *)
| MEother.                (* plain error (short NOTIFICATION) *)

Definition message_from_bytes (b : bytes) (t : N) : res mfb_err msg :=
  if t =? c_openMessageType then
    match open_decode b with
    | Ok o => Ok (MOpen o)
    | Err n => Err (MEnotif n)
    | Panic => Panic
    | OutOfFuel => OutOfFuel
    end
  else if t =? c_updateMessageType then Ok (MUpdate b)
  else if t =? c_notificationMessageType then
    match notif_decode b with
    | Some n => Ok (MNotif n)
    | None => Err MEother
    end
  else if t =? c_keepAliveMessageType then Ok MKeepalive
  else Err (MEnotif (mkNotif c_NOTIF_CODE_MESSAGE_HEADER_ERR
                             c_NOTIF_SUBCODE_BAD_MESSAGE_TYPE [t])).

Definition msg_type (m : msg) : N :=
  match m with
  | MOpen _ => c_openMessageType
  | MUpdate _ => c_updateMessageType
  | MNotif _ => c_notificationMessageType
  | MKeepalive => c_keepAliveMessageType
  end.
