(* Errors.v — the error values update.go builds and inspects: concrete error
   types, errors.Join nesting, errors.As for *Notification, and
   UpdateNotificationFromErr.  Definitions only. *)
From Verif Require Import Base Consts Packet.

Inductive err :=
| ENotif (n : notif)                     (* *Notification *)
| ETaw (code : N) (n : option notif)     (* *TreatAsWithdrawUpdateErr *)
| EDiscard (code : N) (n : option notif) (* *AttrDiscardUpdateErr *)
| EUpd (n : notif)                       (* some other UpdateError; AsSessionReset() = n *)
| EOther                                 (* any other error value *)
| EJoin (l : list err)                   (* errors.Join(...) result *)
| EWrap (e : err).                       (* fmt.Errorf("...%w", e) *)

(* errors.Join(a, b): nil arguments are dropped, nil if none is left *)
Definition join2 (a b : option err) : option err :=
  match a, b with
  | None, None => None
  | Some x, None => Some (EJoin [x])
  | None, Some y => Some (EJoin [y])
  | Some x, Some y => Some (EJoin [x; y])
  end.

(* errors.As(e, &*Notification): follows Unwrap() error and Unwrap() []error only *)
Fixpoint has_notif (e : err) : bool :=
  match e with
  | ENotif _ => true
  | EJoin l => (fix any (l : list err) : bool :=
                  match l with [] => false | x :: r => has_notif x || any r end) l
  | EWrap e' => has_notif e'
  | _ => false
  end.

Definition upd_err (sub : N) (d : bytes) : notif := mkNotif c_NOTIF_CODE_UPDATE_MESSAGE_ERR sub d.
Definition generic_upd_notif : notif := upd_err 0 [].

(* UpdateNotificationFromErr: pre-order walk collecting the first of each class,
   stopping at the first *Notification *)
Record unfe_acc := mkAcc {
  a_n : option notif; a_taw : option (option notif); a_ad : option (option notif); a_ue : option notif }.

Fixpoint unfe_walk (e : err) (a : unfe_acc) : unfe_acc :=
  match a_n a with
  | Some _ => a           (* callers return as soon as n is set *)
  | None =>
    match e with
    | ENotif n => mkAcc (Some n) (a_taw a) (a_ad a) (a_ue a)
    | ETaw _ n => mkAcc None (match a_taw a with None => Some n | s => s end) (a_ad a) (a_ue a)
    | EDiscard _ n => mkAcc None (a_taw a) (match a_ad a with None => Some n | s => s end) (a_ue a)
    | EUpd n => mkAcc None (a_taw a) (a_ad a) (match a_ue a with None => Some n | s => s end)
    | EOther => a
    | EWrap e' => unfe_walk e' a
    | EJoin l => (fix walk (l : list err) (a : unfe_acc) : unfe_acc :=
                    match l with
                    | [] => a
                    | x :: r => let a' := unfe_walk x a in
                                match a_n a' with Some _ => a' | None => walk r a' end
                    end) l a
    end
  end.

Definition as_reset (n : option notif) : notif :=
  match n with Some n => n | None => generic_upd_notif end.

Definition unfe (e : option err) : option notif :=
  match e with
  | None => None
  | Some e =>
      let a := unfe_walk e (mkAcc None None None None) in
      match a_n a, a_taw a, a_ad a, a_ue a with
      | Some n, _, _, _ => Some n
      | None, Some t, _, _ => Some (as_reset t)
      | None, None, Some d, _ => Some (as_reset d)
      | None, None, None, Some u => Some u
      | None, None, None, None => Some generic_upd_notif
      end
  end.

(* tokens *)
Definition tok_onotif (n : option notif) : list N :=
  match n with None => [0] | Some n => 1 :: tok_notif n end.
Fixpoint tok_err (e : err) : list N :=
  match e with
  | ENotif n => 1 :: tok_notif n
  | ETaw c n => 2 :: c :: tok_onotif n
  | EDiscard c n => 3 :: c :: tok_onotif n
  | EUpd n => 4 :: tok_notif n
  | EOther => [5]
  | EJoin l => 6 :: N.of_nat (length l) ::
               (fix go (l : list err) : list N := match l with [] => [] | x :: r => tok_err x ++ go r end) l
  | EWrap e' => 7 :: tok_err e'
  end.
Definition tok_oerr (e : option err) : list N :=
  match e with None => [0] | Some e => 1 :: tok_err e end.

(* parse an error tree from tokens (harness scripts) *)
Fixpoint untok_err (fuel : nat) (l : list N) : option (err * list N) :=
  match fuel with
  | O => None
  | S f =>
      let unotif l :=
        match l with
        | c :: s :: n :: r => if n <=? blen r then Some (mkNotif c s (take n r), drop n r) else None
        | _ => None
        end in
      let uonotif l :=
        match l with
        | 0 :: r => Some (None, r)
        | 1 :: r => match unotif r with Some (n, r') => Some (Some n, r') | None => None end
        | _ => None
        end in
      match l with
      | 1 :: r => match unotif r with Some (n, r') => Some (ENotif n, r') | None => None end
      | 2 :: c :: r => match uonotif r with Some (n, r') => Some (ETaw c n, r') | None => None end
      | 3 :: c :: r => match uonotif r with Some (n, r') => Some (EDiscard c n, r') | None => None end
      | 4 :: r => match unotif r with Some (n, r') => Some (EUpd n, r') | None => None end
      | 5 :: r => Some (EOther, r)
      | 6 :: k :: r =>
          match (fix many (k : nat) (r : list N) : option (list err * list N) :=
             match k with
             | O => Some ([], r)
             | S k' => match untok_err f r with
                       | Some (e, r') => match many k' r' with
                                         | Some (es, r'') => Some (e :: es, r'')
                                         | None => None
                                         end
                       | None => None
                       end
             end) (N.to_nat k) r
          with Some (es, r') => Some (EJoin es, r') | None => None end
      | 7 :: r => match untok_err f r with Some (e, r') => Some (EWrap e, r') | None => None end
      | _ => None
      end
  end.
