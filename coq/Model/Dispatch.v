(* Dispatch.v — one entry point for the correspondence harness.  A case is
   (op, ints, byte strings, impl-output tokens); the answer is a token list.
   Ops < 100 run the model; ops >= 100 are property oracles applied to what the
   implementation returned for the same case (out). *)
From Verif Require Import Base Consts Packet PacketSpec OpenSpec Errors Update UpdateSpec UpdateOracles Server ServerSpec Conn Timed TimedW Peer Mgr.
From Coq Require Import ZArith.

Definition nthN (l : list N) (i : nat) : N := nth i l 0.
Definition nthB (l : list bytes) (i : nat) : bytes := nth i l [].

(* capability list from ints [n; code...] and byte strings *)
Fixpoint zip_caps (codes : list N) (vals : list bytes) : list cap :=
  match codes, vals with
  | c :: cs, v :: vs => mkCap c v :: zip_caps cs vs
  | _, _ => []
  end.

(* an OPEN given as a structure: ints [ver; asn; hold; id] then per parameter [ncaps; codes...]; capability values in bs *)
Fixpoint params_of (fuel : nat) (l : list N) (vals : list bytes) : list (list cap) :=
  match fuel with
  | O => []
  | S f =>
      match l with
      | n :: r =>
          let k := N.to_nat n in
          zip_caps (firstn k r) (firstn k vals) :: params_of f (skipn k r) (skipn k vals)
      | [] => []
      end
  end.
Definition open_of (ints : list N) (bs : list bytes) : openmsg :=
  mkOpen (nthN ints 0) (nthN ints 1) (nthN ints 2) (nthN ints 3) (params_of (S (length ints)) (skipn 4 ints) bs).

Fixpoint aptuples_of (l : list N) : list aptuple :=
  match l with
  | afi :: safi :: tx :: rx :: r => mkAP afi safi (negb (tx =? 0)) (negb (rx =? 0)) :: aptuples_of r
  | _ => []
  end.
Definition tok_aptuple (a : aptuple) : list N :=
  [ap_afi a; ap_safi a; tok_bool (ap_tx a); tok_bool (ap_rx a)].

Definition tok_msg (m : msg) : list N :=
  match m with
  | MOpen o => 1 :: tok_open o
  | MUpdate b => 2 :: tok_bytes b
  | MNotif n => 3 :: tok_notif n
  | MKeepalive => [4]
  end.

(* ---- update.go tokens ---- *)
Definition tok_prefix (p : prefix) : list N := p_bits p :: tok_bytes (p_addr p).
Definition tok_apprefix (a : apprefix) : list N := app_id a :: tok_prefix (app_prefix a).
Definition tok_list {A} (f : A -> list N) (l : list A) : list N := N.of_nat (length l) :: flat_map f l.

Definition tok_attrval (v : attrval) : list N :=
  match v with
  | VOrigin o => [1; o]
  | VASPath s q => 2 :: tok_list (fun x => [x]) s ++ tok_list (fun x => [x]) q
  | VAddr a => 3 :: tok_bytes a
  | VU32 x => [4; x]
  | VAtomic => [5]
  | VAggregator a ip => 6 :: a :: tok_bytes ip
  | VU32s l => 7 :: tok_list (fun x => [x]) l
  | VAddrs l => 8 :: tok_list tok_bytes l
  | VLarge l => 9 :: tok_list (fun t => [fst (fst t); snd (fst t); snd t]) l
  end.

Definition tok_mpcall (c : option mpcall) : list N :=
  match c with
  | None => [0]
  | Some (MPReach afi safi nh nlri) => 1 :: afi :: safi :: tok_bytes nh ++ tok_bytes nlri
  | Some (MPUnreach afi safi wd) => 2 :: afi :: safi :: tok_bytes wd
  end.

Definition tok_call (c : call) : list N :=
  match c with
  | CWr b => 1 :: tok_bytes b
  | CPa code flags b => 2 :: code :: flags :: tok_bytes b
  | CNl b => 3 :: tok_bytes b
  end.

(* an optional error tree given as tokens: [] = nil *)
Definition oerr_of (l : list N) : option err :=
  match l with
  | [] => None
  | _ => match untok_err (S (length l)) l with Some (e, _) => Some e | None => Some EOther end
  end.

(* script: [n; len1; tree1...; len2; tree2...]; entries with len 0 are nil *)
Fixpoint script_list (fuel : nat) (l : list N) : list (option err) :=
  match fuel with
  | O => []
  | S f =>
      match l with
      | len :: r => oerr_of (take len r) :: script_list f (drop len r)
      | [] => []
      end
  end.
Definition script_of (l : list N) : script :=
  let sl := script_list (S (length l)) l in
  fun k => nth k sl None.

(* ---- server.go / peer.go tokens ---- *)
(* 3 = an IPv4-mapped IPv6 address (::ffff:a.b.c.d): netip reports Is6, not Is4 *)
Definition akind_of (k : N) : akind := match k with 1 => A4 | 2 => A6 | 3 => A6 | _ => AInvalid end.
Definition tok_akind (k : akind) : N := match k with AInvalid => 0 | A4 => 1 | A6 => 2 end.
Definition tok_cfg (c : pcfg) : list N := [tok_akind (a_kind (c_remote c)); a_id (c_remote c); c_las c; c_ras c].
Definition cfg_key (c : pcfg) : N := tok_akind (a_kind (c_remote c)) * 18446744073709551616 + a_id (c_remote c).
Fixpoint insert_cfg (c : pcfg) (l : list pcfg) : list pcfg :=
  match l with
  | [] => [c]
  | x :: r => if cfg_key c <=? cfg_key x then c :: l else x :: insert_cfg c r
  end.
Definition sort_cfgs (l : list pcfg) : list pcfg := fold_right insert_cfg [] l.

Fixpoint sops_of (fuel : nat) (l : list N) : list sop :=
  match fuel with
  | O => []
  | S f =>
      match l with
      | 1 :: kr :: ir :: las :: ras :: kl :: il :: hold :: port :: pas :: r =>
          OAdd (mkCfg (mkAddr (akind_of kr) ir) las ras)
               (mkOpts (mkAddr (akind_of kl) il) hold (Z.of_N port - 100000) (negb (pas =? 0))) :: sops_of f r
      | 2 :: k :: i :: r => ODel (mkAddr (akind_of k) i) :: sops_of f r
      | 3 :: k :: i :: r => OGet (mkAddr (akind_of k) i) :: sops_of f r
      | 4 :: r => OList :: sops_of f r
      | 5 :: r => OServe :: sops_of f r
      | 6 :: r => OClose :: sops_of f r
      | 7 :: r => OBreak :: sops_of f r
      | _ => []
      end
  end.
Definition tok_sres (r : sres) : N :=
  match r with RNil => 0 | RExists => 1 | RNotExist => 2 | RClosed => 3 | RInvalid => 4 end.
Definition tok_sout (o : sout) : list N :=
  match o with
  | SRes r => [tok_sres r]
  | SGet None => [2]
  | SGet (Some c) => 0 :: tok_cfg c
  | SList l => N.of_nat (length l) :: flat_map tok_cfg (sort_cfgs l)
  | SServe b => [5; tok_bool b]
  | SServeBusy => [5; 3]
  | SClose b => [6; tok_bool b]
  | SBreak b => [7; tok_bool b]
  end.

(* peers for the admission op: [n; (kR iR kL iL)*] *)
Fixpoint accept_peers (k : nat) (l : list N) (s : server) : server * list N :=
  match k with
  | O => (s, l)
  | S k' =>
      match l with
      | kr :: ir :: kl :: il :: r =>
          accept_peers k' r (fst (server_step s (OAdd (mkCfg (mkAddr (akind_of kr) ir) 65001 65000)
                                                     (mkOpts (mkAddr (akind_of kl) il) 90 179 true))))
      | _ => (s, l)
      end
  end.

(* hold-down schedule from gaps, by the closed form: streak index resets on a gap >= 300 s *)
Fixpoint spec_delays (gaps : list N) (k : nat) (first : bool) : list N :=
  match gaps with
  | [] => []
  | g :: r =>
      let k' := if first || (sec 300 <=? g) then O else S k in
      spec_streak_delay k' :: spec_delays r k' false
  end.
Fixpoint times_of (gaps : list N) (t : N) : list N :=
  match gaps with [] => [] | g :: r => (t + g) :: times_of r (t + g) end.

(* ---- connection scenarios ---- *)
Definition tok_errclass (e : errclass) : list N :=
  match e with
  | ENone => [0]
  | ENotifOut n => [1; n_code n; n_sub n]
  | ENotifIn n => [2; n_code n; n_sub n]
  | EOtherErr => [3]
  end.
Definition tok_frame (b : bytes) : list N :=
  (* a written message as the remote's strict parser sees it: type and body; 0 if malformed *)
  match spec_frame_parse b with
  | Some (t, body) => 1 :: t :: tok_bytes body
  | None => 1 :: 0 :: tok_bytes b
  end.
Definition tok_action (a : caction) : list N :=
  match a with
  | AWrite b => tok_frame b
  | AOnOpen id caps => 2 :: 1 :: id :: tok_caps caps
  | AOnEstablished => [2; 2]
  | AHandler b => 2 :: 3 :: tok_bytes b
  | AOnClose => [2; 4]
  | ACloseConn => [3]
  | AReturn d e => 4 :: d :: tok_errclass e
  | AArmHold ns => [5; 1; ns]
  | AArmKA ns => [5; 2; ns]
  | AStopHold => [5; 3]
  | AStopKA => [5; 4]
  end.

Fixpoint take_notifs (k : nat) (ints : list N) (bs : list bytes) : list (option notif) * list N * list bytes :=
  match k with
  | O => ([], ints, bs)
  | S k' =>
      match ints, bs with
      | flag :: c :: sb :: ir, d :: br =>
          let '(l, ir', br') := take_notifs k' ir br in
          ((if flag =? 0 then None else Some (mkNotif c sb d)) :: l, ir', br')
      | _, _ => ([], ints, bs)
      end
  end.

(* the connection with its keep-alive manager (TimedW.v), no time passing: every input of the connection is followed by
   the manager's approval where one is awaited and by the serving of every waiting reset token, oldest first *)
Fixpoint serve_all (fuel : nat) (cf : cconf) (pl : cplugin) (xs : xstate) : xstate * list caction :=
  match fuel with
  | O => (xs, [])
  | S f => match xstep cf pl xs 0 (XReset 0) with
           | Some (xs', a) => let (xs'', a') := serve_all f cf pl xs' in (xs'', a ++ a')
           | None => (xs, [])
           end
  end.
Definition xstep_served (cf : cconf) (pl : cplugin) (xs : xstate) (i : cinput) : xstate * list caction :=
  match xstep cf pl xs 0 (XConn i) with
  | Some (xs', a) => let (xs'', a') := serve_all (S (length (xs_pending xs'))) cf pl xs' in (xs'', a ++ a')
  | None => (xs, [])
  end.
Fixpoint xrun_auto (cf : cconf) (pl : cplugin) (xs : xstate) (ins : list cinput) : xstate * list caction :=
  match ins with
  | [] => (xs, [])
  | i :: r =>
      let (xs1, a1) := xstep_served cf pl xs i in
      let (xs1', a1') := match c_phase (ts_conn (xs_t xs1)) with
                         | PWaitOC | PWaitEst => xstep_served cf pl xs1 IApprove
                         | _ => (xs1, [])
                         end in
      let (xs2, a2) := xrun_auto cf pl xs1' r in (xs2, a1 ++ a1' ++ a2)
  end.

Definition conn_scenario_with (full : cconf -> cplugin -> list cinput -> list caction) (ints : list N) (bs : list bytes) : list N :=
  match ints, bs with
  | lid :: las :: ras :: hold :: eof :: stop_after :: of :: oc :: os :: nh :: ir, stream :: od :: br =>
      let '(hs, ir1, br1) := take_notifs (N.to_nat nh) ir br in
      match ir1 with
      | nw :: ir2 =>
          let writes := firstn (N.to_nat nw) br1 in
          let br2 := skipn (N.to_nat nw) br1 in
          let caps := match ir2 with _ :: codes => zip_caps codes br2 | [] => [] end in
          let cf := mkConf lid las ras hold in
          let pl := mkPlug (if of =? 0 then None else Some (mkNotif oc os od))
                           (fun k => nth k hs None) writes in
          let evs := read_stream stream (negb (eof =? 0)) in
          (* the harness always closes the server at the end: a final stop request *)
          (* stop_after: k < 9000 = stop request after k reader events; 9000+k = the stop arrives
             while the transition produced by the k-th event is still being offered to the manager
             (no approval); 9999 = only the final stop when the harness closes the server; 9998 = no
             stop at all (the connection ends by itself; another connection follows) *)
          let run_ins :=
            if stop_after <? 9000 then
              snd (conn_run_auto cf pl cinit (map IRd (firstn (N.to_nat stop_after) evs) ++ [IStop]))
            else if stop_after <? 9998 then
              let k := N.to_nat (stop_after - 9000) in
              let (st1, a1) := conn_run_auto cf pl cinit (map IRd (firstn (k - 1) evs)) in
              let (st2, a2) := conn_run cf pl st1 (map IRd (firstn 1 (skipn (k - 1) evs)) ++ [IStop]) in
              a1 ++ a2
            else
              full cf pl (map IRd evs ++ (if stop_after =? 9998 then [] else [IStop])) in
          let first := send_open cf lid caps in
          match first with
          | AWrite _ :: _ =>
              flat_map tok_action first ++ flat_map tok_action run_ins
          | _ => flat_map tok_action first
          end
      | [] => [998]
      end
  | _, _ => [998]
  end.

Definition conn_scenario := conn_scenario_with (fun cf pl ins => snd (conn_run_auto cf pl cinit ins)).
(* op 62: the same scenario with the keep-alive manager: adds the re-arm operations caused by UPDATE writes *)
Definition conn_scenario_x := conn_scenario_with (fun cf pl ins => snd (xrun_auto cf pl (xinit 0) ins)).

(* ---- peer manager replay ---- *)
Definition st_of (n : N) : st :=
  match n with 0 => Disabled | 1 => Idle | 2 => Connect | 3 => Active | 4 => OpenSent | 5 => OpenConfirm | _ => Established end.
Definition dir_of (n : N) : dir := if n =? 0 then DOut else DIn.
Definition nd (i : dir) : N := match i with DOut => 0 | DIn => 1 end.
Definition nstN (x : st) : N := N.of_nat (st_num x).
Definition tok_mout (o : mout) : list N :=
  match o with
  | MDisable i => [10; nd i]
  | MReply i t => [11; nd i; nstN (t_from t); nstN (t_to t)]
  | MEnable i => [12; nd i]
  | MDamp => [13]
  | MDone => [14]
  end.
Definition is_reply (o : mout) : bool := match o with MReply _ _ => true | _ => false end.

(* state: model, expected outputs still to be seen, whether a reply was skipped (legal only when
   the peer is closing, which must then show up later in the trace) *)
Fixpoint mgr_replay (fuel : nat) (m : mst) (pend : list mout) (skipped : bool) (evs : list N) (idx : N) : list N :=
  match fuel with
  | O => [0; idx; 997]
  | S f =>
      match evs with
      | [] => match filter (fun o => negb (is_reply o)) pend with
              | [] => if skipped && negb (is_nil pend) then [0; idx; 996] else [1; idx]
              | o :: _ => 0 :: idx :: 900 :: tok_mout o       (* an expected output never happened *)
              end
      | c :: r =>
          if 10 <=? c then
            (* a logged output: must be the next expected one *)
            match pend with
            | o :: pr =>
                let t := tok_mout o in
                if beqb (firstn (length t) evs) t then mgr_replay f m pr skipped (skipn (length t) evs) (idx + 1)
                else if is_reply o then mgr_replay f m pr true evs idx     (* reply skipped: closing *)
                else 0 :: idx :: 901 :: t
            | [] => [0; idx; 902; c]          (* an output the model does not produce *)
            end
          else
            (* a logged input: nothing but skippable replies may be outstanding *)
            match filter (fun o => negb (is_reply o)) pend with
            | o :: _ => 0 :: idx :: 903 :: tok_mout o
            | [] =>
                let skipped' := skipped || negb (is_nil pend) in
                let go (i : minp) (rest : list N) :=
                    match mgr_step m i with
                    | Some (m', outs) => mgr_replay f m' outs (match i with IClose => false | _ => skipped' end) rest (idx + 1)
                    | None => [0; idx; 904; c]
                    end in
                match c, r with
                | 1, i :: a :: b :: rest => go (ITrans (dir_of i) (mkT (st_of a) (st_of b))) rest
                | 2, i :: d :: rest => go (IErr (dir_of i) (negb (d =? 0))) rest
                | 3, h :: pin :: so :: rest =>
                    if Bool.eqb (m_hold m) (negb (h =? 0)) && Bool.eqb (get (m_present m) DIn) (negb (pin =? 0))
                       && st_eqb (get (m_state m) DOut) (st_of so)
                    then go IConn rest else [0; idx; 905; tok_bool (m_hold m); tok_bool (get (m_present m) DIn); nstN (get (m_state m) DOut)]
                | 4, rest => go ITimer rest
                | 5, rest => go IClose rest
                | 6, rest => go ICollideStopped rest
                | 7, a :: b :: rest => go (ICollideOther (mkT (st_of a) (st_of b))) rest
                | _, _ => [0; idx; 906; c]
                end
            end
      end
  end.

Definition run_model (op : N) (ints : list N) (bs : list bytes) : list N :=
  match op with
  | 1 => tok_bytes (notif_encode (mkNotif (nthN ints 0) (nthN ints 1) (nthB bs 0)))
  | 2 => match notif_decode (nthB bs 0) with
         | Some n => 0 :: tok_notif n
         | None => [1]
         end
  | 3 => match open_decode (nthB bs 0) with
         | Ok o => 0 :: tok_open o
         | Err n => 1 :: tok_notif n
         | _ => [2]
         end
  | 4 => match handle_open (nthN ints 0) (nthN ints 1) (nthN ints 2) (nthB bs 0) with
         | OAccept id caps hold => 0 :: id :: hold :: tok_caps caps
         | OReject n => 1 :: tok_notif n
         | OPanic => [2]
         end
  | 5 => match open_encode (new_open_message (nthN ints 0) (nthN ints 1) (nthN ints 2)
                                               (zip_caps (skipn 3 ints) bs)) with
         | Some b => 0 :: tok_bytes b
         | None => [1]
         end
  | 12 => match open_encode (open_of ints bs) with
          | Some b => 0 :: tok_bytes b
          | None => [1]
          end
  | 6 => match open_decode (nthB bs 0) with
         | Ok o => match open_encode o with
                   | Some b => 0 :: tok_bytes b
                   | None => [1]
                   end
         | Err _ => [3]
         | _ => [2]
         end
  | 7 => match message_from_bytes (nthB bs 0) (nthN ints 0) with
         | Ok m => 0 :: tok_msg m
         | Err (MEnotif n) => 1 :: tok_notif n
         | Err MEother => [3]
         | _ => [2]
         end
  | 8 => match aptuples_decode (nthB bs 0) with
         | Ok l => 0 :: N.of_nat (length l) :: flat_map tok_aptuple l
         | Err n => 1 :: tok_notif n
         | _ => [2]
         end
  | 9 => tok_cap (addpath_cap (aptuples_of ints))
  | 10 => tok_cap (mp_cap (nthN ints 0) (nthN ints 1))
  | 11 => tok_bytes (prepend_header (nthB bs 0) (nthN ints 0))
  | 20 => (* decodePrefixes / decodeAddPathPrefixes: ints [ipv6; addpath] *)
      let ipv6 := negb (nthN ints 0 =? 0) in
      if nthN ints 1 =? 0 then
        match decode_prefixes (nthB bs 0) ipv6 with
        | Ok l => 0 :: tok_list tok_prefix l
        | Err _ => [1]
        | _ => [2]
        end
      else
        match decode_ap_prefixes (nthB bs 0) ipv6 with
        | Ok l => 0 :: tok_list tok_apprefix l
        | Err _ => [1]
        | _ => [2]
        end
  | 21 => (* exported wrappers: 0 NLRI, 1 NLRI add-path, 2 withdrawn, 3 withdrawn add-path, 4 MP IPv6, 5 MP IPv6 add-path *)
      let k := nthN ints 0 in
      let b := nthB bs 0 in
      let n := if k <? 2 then nlri_err else plain_upd_err in
      let ipv6 := 4 <=? k in
      if k mod 2 =? 0 then
        match map_err (decode_prefixes b ipv6) n with
        | Ok l => 0 :: tok_list tok_prefix l
        | Err n => 1 :: tok_notif n
        | _ => [2]
        end
      else
        match map_err (decode_ap_prefixes b ipv6) n with
        | Ok l => 0 :: tok_list tok_apprefix l
        | Err n => 1 :: tok_notif n
        | _ => [2]
        end
  | 22 => match decode_ipv6_nexthops (nthB bs 0) with
          | Ok l => 0 :: tok_list tok_bytes l
          | Err n => 1 :: tok_notif n
          | _ => [2]
          end
  | 23 => match attr_decode (nthN ints 0) (nthN ints 1) (nthB bs 0) with
          | Ok v => 0 :: tok_attrval v
          | Err e => 1 :: tok_err e
          | _ => [2]
          end
  | 24 => let p := nthN ints 0 in
          [tok_bool (flag_optional p); tok_bool (flag_transitive p); tok_bool (flag_partial p); tok_bool (flag_extlen p)]
  | 25 => match mp_reach (nthN ints 0) (nthB bs 0) (oerr_of (skipn 1 ints)) with
          | Ok (c, e) => 0 :: tok_mpcall c ++ tok_oerr e
          | _ => [2]
          end
  | 26 => match mp_unreach (nthN ints 0) (nthB bs 0) (oerr_of (skipn 1 ints)) with
          | Ok (c, e) => 0 :: tok_mpcall c ++ tok_oerr e
          | _ => [2]
          end
  | 27 => match update_decode (script_of ints) (nthB bs 0) with
          | Ok (cs, e) => 0 :: tok_list tok_call cs ++ tok_oerr e
          | _ => [2]
          end
  | 28 => tok_onotif (unfe (oerr_of ints))
  | 40 => flat_map tok_sout (snd (server_run server_init (sops_of (S (length ints)) ints)))
  | 41 => match ints with
          | n :: r =>
              let (s, r') := accept_peers (N.to_nat n) r server_init in
              match r' with
              | [ks; is_; kd; id_; dok] =>
                  match server_accepts s (mkAddr (akind_of ks) is_) (mkAddr (akind_of kd) id_) (negb (dok =? 0)) with
                  | HandTo a => [1; tok_akind (a_kind a); a_id a]
                  | Refuse => [0]
                  end
              | _ => [998]
              end
          | [] => [998]
          end
  | 42 => match sops_of 1 (1 :: ints) with
          | [OAdd c o] => [tok_bool (opts_validate o && cfg_validate c o)]
          | _ => [998]
          end
  | 43 => damp_run damp_init (times_of ints 1000000000000)
  | 44 => [tok_bool (new_server_ok (mkAddr (akind_of (nthN ints 0)) (nthN ints 1)))]
  | 60 => conn_scenario ints bs
  | 62 => conn_scenario_x ints bs
  | 70 => (* peer manager replay: ints [passive; dominant; events...] *)
      let (m0, outs0) := mgr_init (negb (nthN ints 0 =? 0)) (negb (nthN ints 1 =? 0)) in
      mgr_replay (S (length ints)) m0 outs0 false (skipn 2 ints) 0
  | 61 => (* the reader over a chunked stream: ints [eof; chunk sizes...] *)
      let stream := nthB bs 0 in
      let fix cut (sizes : list N) (s : bytes) : list bytes :=
          match sizes with
          | [] => [s]
          | n :: r => take n s :: cut r (drop n s)
          end in
      let chunks := cut (skipn 1 ints) stream in
      let (st, evs) := feed_all rinit chunks in
      let evs := evs ++ (if nthN ints 0 =? 0 then [] else feed_eof st) in
      flat_map (fun e => match e with
                         | RMsg m => 1 :: tok_msg m
                         | RErrNotif n => 2 :: tok_notif n
                         | RErrIO => [3]
                         end) evs
  | _ => [999]
  end.

(* ---- oracles: [1] holds, [0; clause] violated, [2] outside the quantifier ---- *)
Definition ok := [1].
Definition bad (clause : N) := [0; clause].
Definition na := [2].

Definition oracle (op : N) (ints : list N) (bs : list bytes) (out : list N) : list N :=
  match op with
  | 101 => (* C15/C08: an encoded NOTIFICATION strict-parses to exactly (code, subcode, data) *)
      let n := mkNotif (nthN ints 0) (nthN ints 1) (nthB bs 0) in
      if negb (notif_repr n) then na else
      match untok_bytes out with
      | Some (m, []) =>
          match spec_frame_parse m with
          | Some (t, body) => if (t =? 3) && beqb body (spec_notif_body n) then ok else bad 1
          | None => bad 2
          end
      | _ => bad 3
      end
  | 102 => (* C15: NOTIFICATION decode is the inverse of the body layout *)
      match out with
      | 0 :: c :: s :: r =>
          match untok_bytes r with
          | Some (d, []) => if beqb (spec_notif_body (mkNotif c s d)) (nthB bs 0) then ok else bad 1
          | _ => bad 3
          end
      | [1] => if blen (nthB bs 0) <? 2 then ok else bad 2
      | _ => bad 3
      end
  | 103 => (* C15: OPEN decode accepts only canonical encodings of representable values *)
      let b := nthB bs 0 in
      match out with
      | 0 :: r =>
          match untok_open r with
          | Some o => if open_repr o && beqb (spec_open_body o) b then ok else bad 1
          | None => bad 3
          end
      | 1 :: _ =>
          (* rejected: no representable value encodes to b (decided by the verified decoder) *)
          match open_decode b with
          | Ok _ => bad 2
          | _ => ok
          end
      | _ => bad 4  (* panic or garbage *)
      end
  | 104 => (* C02: accepted iff acceptable, with exactly the sender's id, hold time and capabilities;
              refused with a notification naming a fault that this OPEN has *)
      let lid := nthN ints 0 in let las := nthN ints 1 in let ras := nthN ints 2 in
      let b := nthB bs 0 in
      match out with
      | 0 :: id :: hold :: r =>
          match open_decode b, untok_caps r with
          | Ok o, Some (caps, []) =>
              if open_acceptable lid las ras o && (id =? o_id o) && (hold =? o_hold o)
                 && beqb (flat_map tok_cap caps) (flat_map tok_cap (concat (o_params o)))
                 && (N.of_nat (length caps) =? N.of_nat (length (concat (o_params o))))
              then ok else bad 1
          | _, _ => bad 2
          end
      | 1 :: c :: s :: r =>
          match untok_bytes r with
          | Some (d, []) =>
              let n := mkNotif c s d in
              if blen b <? 10 then
                (if (c =? 1) && (s =? 2) && beqb d b then ok else bad 3)
              else
                match open_decode b with
                | Ok o => if negb (open_acceptable lid las ras o) && semantic_fault lid las ras o n
                          then ok else bad 4
                | _ => if (c =? 2) && is_nil d
                          && (((s =? 0) && fault_inconsistent b) || ((s =? 4) && fault_unknown_param b))
                       then ok else bad 5
                end
          | _ => bad 6
          end
      | _ => bad 7
      end
  | 105 => (* C14: the OPEN sent is the canonical encoding of the intended OPEN, or nothing *)
      let asn := nthN ints 0 in let hold := nthN ints 1 in let id := nthN ints 2 in
      let caps := zip_caps (skipn 3 ints) bs in
      if negb (cfg_wf asn hold id caps) then na else
      let o := intended_open asn hold id caps in
      match out with
      | 0 :: r =>
          match untok_bytes r with
          | Some (m, []) =>
              if open_repr o && beqb m (spec_frame_enc 1 (spec_open_body o)) then ok else bad 1
          | _ => bad 3
          end
      | [1] => if open_repr o then bad 2 else ok
      | _ => bad 4
      end
  | 112 => (* C15: the encoder emits the canonical encoding of a representable OPEN (which the strict decoder maps back
              to it: open_roundtrip) *)
      let o := open_of ints bs in
      if negb (open_repr o) then na     (* the property speaks about representable OPENs only *)
      else
      match out with
      | 0 :: r =>
          match untok_bytes r with
          | Some (m, []) => if beqb m (spec_frame_enc 1 (spec_open_body o)) then ok else bad 1
          | _ => bad 3
          end
      | [1] => bad 2
      | _ => bad 4
      end
  | 106 => (* C15: re-encoding an accepted OPEN body reproduces it *)
      let b := nthB bs 0 in
      match out with
      | 0 :: r =>
          match untok_bytes r with
          | Some (m, []) => if beqb m (spec_frame_enc 1 b) then ok else bad 1
          | _ => bad 3
          end
      | [3] => ok
      | _ => bad 2
      end
  | 108 => (* C15: add-path tuples: accepted iff non-empty multiple of 4 with directions 1..3 *)
      let b := nthB bs 0 in
      match out with
      | 0 :: n :: r =>
          let l := aptuples_of r in
          if (N.of_nat (length l) =? n) && forallb aptuple_repr l
             && beqb (flat_map spec_aptuple_enc l) b && negb (n =? 0) then ok else bad 1
      | 1 :: _ =>
          match aptuples_decode b with
          | Ok _ => bad 2
          | _ => ok
          end
      | _ => bad 3
      end
  | 109 => (* C15: add-path capability = code 69, tuples encoded in order *)
      let l := aptuples_of ints in
      if negb (forallb aptuple_repr l) then na else
      match out with
      | 69 :: r =>
          match untok_bytes r with
          | Some (v, []) => if beqb v (flat_map spec_aptuple_enc l) then ok else bad 1
          | _ => bad 3
          end
      | _ => bad 2
      end
  | 110 => (* C15: MP capability = code 1, AFI(2) reserved(1)=0 SAFI(1) *)
      let afi := nthN ints 0 in let safi := nthN ints 1 in
      if negb ((afi <? 65536) && (safi <? 256)) then na else
      match out with
      | [1; 4; a1; a0; 0; s] => if (a1 * 256 + a0 =? afi) && (s =? safi) then ok else bad 1
      | _ => bad 2
      end
  | 111 => (* C04/C08: header: marker, true length, type; body verbatim *)
      let b := nthB bs 0 in
      if negb ((blen b <=? 4077) && known_type (nthN ints 0)) then na else
      match untok_bytes out with
      | Some (m, []) =>
          match spec_frame_parse m with
          | Some (t, body) => if (t =? nthN ints 0) && beqb body b then ok else bad 1
          | None => bad 2
          end
      | _ => bad 3
      end
  | 120 => oracle_prefixes (negb (nthN ints 0 =? 0)) (negb (nthN ints 1 =? 0)) (nthB bs 0) out None
  | 121 => let k := nthN ints 0 in
           oracle_prefixes (4 <=? k) (negb (k mod 2 =? 0)) (nthB bs 0) out
                           (Some (if k <? 2 then mkNotif 3 10 [] else mkNotif 3 0 []))
  | 122 => oracle_v6nh (nthB bs 0) out
  | 123 => oracle_attr (nthN ints 0) (nthN ints 1) (nthB bs 0) out
  | 124 => oracle_flags (nthN ints 0) out
  | 125 => oracle_mp_reach (nthN ints 0) (nthB bs 0) (oerr_of (skipn 1 ints)) out
  | 126 => oracle_mp_unreach (nthN ints 0) (nthB bs 0) (oerr_of (skipn 1 ints)) out
  | 127 => oracle_calls (nthB bs 0)
                        (forallb (fun o => match o with None => true | Some _ => false end)
                                 (script_list (S (length ints)) ints)) out
  | 128 => oracle_unfe (oerr_of ints) out
  | 129 => oracle_errors (nthB bs 0) (script_of ints) out
  | 130 => oracle_events (nthB bs 0) (script_of ints) out
  | 161 => (* C08/C03: whatever the segmentation, the reader hands over exactly what the
              length fields dictate for the whole stream (reference: the unchunked parse) *)
      let evs := read_stream (nthB bs 0) (negb (nthN ints 0 =? 0)) in
      if beqb out (flat_map (fun e => match e with
                                      | RMsg m => 1 :: tok_msg m
                                      | RErrNotif n => 2 :: tok_notif n
                                      | RErrIO => [3]
                                      end) evs) then ok else bad 1
  | 141 => (* C13: accepted iff source configured and (no local address or destination = it) *)
      match ints with
      | n :: r =>
          let (s, r') := accept_peers (N.to_nat n) r server_init in
          match r' with
          | [ks; is_; kd; id_; dok] =>
              let src := mkAddr (akind_of ks) is_ in
              let want := spec_accepts (abs s)
                            (fun a => match lookup a (s_peers s) with
                                      | Some (_, o) => if is_valid (o_local o) then Some (o_local o) else None
                                      | None => None end)
                            src (mkAddr (akind_of kd) id_) (negb (dok =? 0)) in
              match out with
              | [1; k; i] => if want && (k =? ks) && (i =? is_) then ok else bad 1
              | [0] => if want then bad 2 else ok
              | _ => bad 3
              end
          | _ => na
          end
      | [] => na
      end
  | 142 => match sops_of 1 (1 :: ints) with
           | [OAdd c o] => if beqb out [tok_bool (usable c o)] then ok else bad 1
           | _ => na
           end
  | 143 => if beqb out (spec_delays ints O true) then ok else bad 1
  | 144 => if beqb out [tok_bool (nthN ints 0 =? 1)] then ok else bad 1
  | _ => [999]
  end.

Definition dispatch (op : N) (ints : list N) (bs : list bytes) (out : list N) : list N :=
  if op <? 100 then run_model op ints bs else oracle op ints bs out.
