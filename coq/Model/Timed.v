(* Timed.v — one connection with a clock: the timer actions of Conn.conn_step become deadlines,
   a timer input is enabled only at or after its deadline (Go timers never fire early), and firing
   disarms the timer.  Ghost fields record when traffic was last received / a KEEPALIVE last sent.
   Definitions only. *)
From Verif Require Import Base Consts Packet Conn.

Record tstate := mkTS {
  ts_conn : cstate;
  ts_now : N;                 (* ns *)
  ts_hold : option N;         (* deadline of the armed hold timer *)
  ts_ka : option N;           (* deadline of the armed keep-alive timer *)
  ts_last_rx : N;             (* ghost: when the last OPEN/KEEPALIVE/UPDATE was accepted *)
  ts_last_ka : N              (* ghost: when the last KEEPALIVE was written *)
}.

Definition is_ka_write (a : caction) : bool :=
  match a with AWrite b => beqb b keepalive_encode | _ => false end.

Fixpoint apply_actions (now : N) (h k : option N) (lk : N) (acts : list caction) : option N * option N * N :=
  match acts with
  | [] => (h, k, lk)
  | a :: r =>
      match a with
      | AArmHold ns => apply_actions now (Some (now + ns)) k lk r
      | AStopHold => apply_actions now None k lk r
      | AArmKA ns => apply_actions now h (Some (now + ns)) lk r
      | AStopKA => apply_actions now h None lk r
      | _ => apply_actions now h k (if is_ka_write a then now else lk) r
      end
  end.

(* traffic that restarts the hold timer when it is accepted *)
Definition rx_kind (ph : cphase) (i : cinput) : bool :=
  match ph, i with
  | POpenSent, IRd (RMsg (MOpen _)) => true
  | POpenConfirm, IRd (RMsg MKeepalive) => true
  | PEstablished, IRd (RMsg MKeepalive) => true
  | PEstablished, IRd (RMsg (MUpdate _)) => true
  | _, _ => false
  end.

Definition selecting (ph : cphase) : bool :=
  match ph with POpenSent | POpenConfirm | PEstablished => true | _ => false end.
Definition due (t : option N) (now : N) : bool := match t with Some dl => dl <=? now | None => false end.

(* one timed step: d nanoseconds pass, then input i is processed; None = i is not enabled then *)
Definition tstep (cf : cconf) (pl : cplugin) (ts : tstate) (d : N) (i : cinput) : option (tstate * list caction) :=
  let now := ts_now ts + d in
  (* a timer's expiry is consumed only by a state function that selects on it; while the FSM waits for the
     peer manager (PWaitOC, PWaitEst) an expired timer stays pending *)
  let enabled := match i with
                 | IHold => selecting (c_phase (ts_conn ts)) && due (ts_hold ts) now
                 | IKA => selecting (c_phase (ts_conn ts)) && due (ts_ka ts) now
                 | _ => true
                 end in
  if negb enabled then None else
  let h0 := match i with IHold => None | _ => ts_hold ts end in     (* a timer that fired is no longer armed *)
  let k0 := match i with IKA => None | _ => ts_ka ts end in
  let (c', acts) := conn_step cf pl (ts_conn ts) i in
  let '(h, k, lk) := apply_actions now h0 k0 (ts_last_ka ts) acts in
  let accepted := rx_kind (c_phase (ts_conn ts)) i
                  && match c_phase c' with PDone => false | _ => true end in
  Some (mkTS c' now h k (if accepted then now else ts_last_rx ts) lk, acts).

Fixpoint trun (cf : cconf) (pl : cplugin) (ts : tstate) (ins : list (N * cinput)) : option tstate :=
  match ins with
  | [] => Some ts
  | (d, i) :: r => match tstep cf pl ts d i with
                   | Some (ts', _) => trun cf pl ts' r
                   | None => None
                   end
  end.

(* the connection right after sendOpenAndSetHoldTimer at time t0 *)
Definition tinit (t0 : N) : tstate := mkTS cinit t0 (Some (t0 + c_longHoldTime)) None t0 t0.

Definition up (ph : cphase) : bool :=
  match ph with PWaitOC | POpenConfirm | PWaitEst | PEstablished => true | _ => false end.
