(* Conn.v — Layer B: one connection.  The reader goroutine (fsm.read) as a function of
   the received byte stream, and the FSM goroutine's OpenSent / OpenConfirm /
   Established state functions as a step function over reader events, timer expiries
   and stop requests, emitting writes, plugin calls, connection close and the
   (desired state, error) it returns to fsm.run.  Definitions only. *)
From Verif Require Import Base Consts Packet.

(* ---------- reader ---------- *)
Inductive revent :=
| RMsg (m : msg)
| RErrNotif (n : notif)     (* notificationError, out = true *)
| RErrIO.                   (* io error, or a NOTIFICATION too short to decode *)

Definition hdr_err (sub : N) (d : bytes) : notif := mkNotif c_NOTIF_CODE_MESSAGE_HEADER_ERR sub d.

(* one iteration of the read loop over the bytes available so far *)
Inductive rone :=
| RWait                         (* io.ReadFull is still waiting for header or body bytes *)
| RFault (e : revent)           (* an error is reported and the reader returns *)
| RGood (m : msg) (rest : bytes).

Definition read_one (s : bytes) : rone :=
  if blen s <? c_headerLength then RWait else
  let hdr := take c_headerLength s in
  if negb (beqb (take 16 hdr) marker) then
    RFault (RErrNotif (hdr_err c_NOTIF_SUBCODE_CONN_NOT_SYNCHRONIZED []))
  else
    match drop 16 hdr with
    | l1 :: l0 :: t :: _ =>
        let len := get16 l1 l0 in
        if (len <? c_headerLength) || (c_maxMessageLength <? len) then
          RFault (RErrNotif (hdr_err c_NOTIF_SUBCODE_BAD_MESSAGE_LEN []))
        else if blen s <? len then RWait
        else
          let body := take (len - c_headerLength) (drop c_headerLength s) in
          match message_from_bytes body t with
          | Ok m => RGood m (drop len s)
          | Err (MEnotif n) => RFault (RErrNotif n)
          | _ => RFault RErrIO     (* a NOTIFICATION shorter than 2 bytes: a plain error *)
          end
    | _ => RWait   (* unreachable: the header has 19 bytes *)
    end.

(* the loop. Result: events, the unconsumed suffix, and whether the reader has stopped *)
Fixpoint read_loop (fuel : nat) (s : bytes) : list revent * bytes * bool :=
  match fuel with
  | O => ([], s, false)
  | S f =>
      match read_one s with
      | RWait => ([], s, false)
      | RFault e => ([e], s, true)
      | RGood m rest => let '(evs, r, stopped) := read_loop f rest in (RMsg m :: evs, r, stopped)
      end
  end.

(* chunk-fed reader state: buffered bytes and whether it has stopped *)
Record rstate := mkR { r_buf : bytes; r_stopped : bool }.
Definition rinit : rstate := mkR [] false.
Definition feed (st : rstate) (chunk : bytes) : rstate * list revent :=
  if r_stopped st then (st, []) else
  let s := r_buf st ++ chunk in
  let '(evs, rest, stopped) := read_loop (S (length s)) s in
  (mkR rest stopped, evs).
(* the remote closes its side (FIN/RST): a waiting ReadFull fails *)
Definition feed_eof (st : rstate) : list revent :=
  if r_stopped st then [] else [RErrIO].

Fixpoint feed_all (st : rstate) (chunks : list bytes) : rstate * list revent :=
  match chunks with
  | [] => (st, [])
  | c :: r => let (st1, e1) := feed st c in
              let (st2, e2) := feed_all st1 r in (st2, e1 ++ e2)
  end.

(* the whole stream at once, then (optionally) end of stream *)
Definition read_stream (s : bytes) (eof : bool) : list revent :=
  let (st, evs) := feed rinit s in
  evs ++ (if eof then feed_eof st else []).

(* ---------- FSM side ---------- *)
(* PWaitOC / PWaitEst: fsm.run is offering the transition to OpenConfirm / Established to the
   peer manager and has not been answered yet *)
Inductive cphase := POpenSent | PWaitOC | POpenConfirm | PWaitEst | PEstablished | PDone.

Inductive cinput :=
| IRd (e : revent)
| IHold            (* hold timer expired *)
| IKA              (* keep-alive timer expired *)
| IStop            (* closeCh closed, or the collision value sent on it *)
| IApprove.        (* the peer manager echoed the offered transition *)

Inductive errclass :=
| ENone
| ENotifOut (n : notif)
| ENotifIn (n : notif)
| EOtherErr.

Inductive caction :=
| AWrite (b : bytes)
| AOnOpen (id : N) (caps : list cap)
| AOnEstablished
| AHandler (b : bytes)
| AOnClose
| ACloseConn
| AArmHold (ns : N) | AArmKA (ns : N) | AStopHold | AStopKA
| AReturn (desired : N) (e : errclass).    (* desired fsmState as its numeric value *)

(* plugin behaviour for this connection *)
Record cplugin := mkPlug {
  pl_on_open : option notif;
  pl_handler : nat -> option notif;     (* result for the k-th UPDATE *)
  pl_est_writes : list bytes            (* WriteUpdate calls made inside OnEstablished *)
}.

Record cconf := mkConf { cf_lid : N; cf_las : N; cf_ras : N; cf_hold : N (* local hold time, seconds *) }.

Record cstate := mkC { c_phase : cphase; c_holdns : N; c_nupd : nat }.
Definition cinit : cstate := mkC POpenSent 0 O.

Definition second : N := 1000000000.
Definition update_frame (b : bytes) : bytes := prepend_header b c_updateMessageType.

Definition fsm_err (sub t : N) : notif := mkNotif c_NOTIF_CODE_FSM_ERR sub [t].
Definition cease : notif := mkNotif c_NOTIF_CODE_CEASE 0 [].
Definition hold_expired : notif := mkNotif c_NOTIF_CODE_HOLD_TIMER_EXPIRED 0 [].

(* leaving a state towards Idle/Disabled: what runs after the inner function returns *)
Definition teardown (ph : cphase) : list caction :=
  match ph with
  | PEstablished => [ACloseConn; AStopHold; AStopKA; AOnClose]
  | POpenConfirm | PWaitEst => [ACloseConn; AStopHold; AStopKA]
  | _ => [ACloseConn; AStopHold]
  end.

Definition finish (st : cstate) (pre : list caction) (desired : N) (e : errclass) : cstate * list caction :=
  (mkC PDone (c_holdns st) (c_nupd st), pre ++ teardown (c_phase st) ++ [AReturn desired e]).

Definition send_and_finish (st : cstate) (n : notif) (desired : N) : cstate * list caction :=
  finish st [AWrite (notif_encode n)] desired (ENotifOut n).

Definition conn_step (cf : cconf) (pl : cplugin) (st : cstate) (i : cinput) : cstate * list caction :=
  match c_phase st with
  | PDone => (st, [])
  | PWaitOC =>
      match i with
      | IApprove => (mkC POpenConfirm (c_holdns st) (c_nupd st), [])
      | IStop => (* disabled while transitioning with a live connection: Cease, then cleanup() *)
          (mkC PDone (c_holdns st) (c_nupd st),
           [AWrite (notif_encode cease); ACloseConn; AStopHold; AStopKA])   (* fsm.run returns *)
      | _ => (st, [])   (* not selecting on the reader or timers here *)
      end
  | PWaitEst =>
      match i with
      | IApprove =>
          (mkC PEstablished (c_holdns st) (c_nupd st),
           AOnEstablished :: map (fun b => AWrite (update_frame b)) (pl_est_writes pl))
      | IStop =>
          (mkC PDone (c_holdns st) (c_nupd st),
           [AWrite (notif_encode cease); ACloseConn; AStopHold; AStopKA])
      | _ => (st, [])
      end
  | POpenSent =>
      match i with
      | IStop => send_and_finish st cease c_disabledState
      | IHold => send_and_finish st hold_expired c_idleState
      | IKA | IApprove => (st, [])   (* no keep-alive timer exists in OpenSent *)
      | IRd (RErrNotif n) => send_and_finish st n c_idleState
      | IRd RErrIO => finish st [] c_activeState EOtherErr
      | IRd (RMsg (MNotif n)) => finish st [] c_idleState (ENotifIn n)
      | IRd (RMsg (MOpen o)) =>
          match open_validate (cf_lid cf) (cf_las cf) (cf_ras cf) o with
          | Some n => send_and_finish st n c_idleState
          | None =>
              match pl_on_open pl with
              | Some n => finish st [AOnOpen (o_id o) (get_capabilities o); AWrite (notif_encode n)]
                                 c_idleState (ENotifOut n)
              | None =>
                  let remote := o_hold o * second in
                  let localh := cf_hold cf * second in
                  let h := if localh <? remote then localh else remote in
                  (mkC PWaitOC h (c_nupd st),
                   [AOnOpen (o_id o) (get_capabilities o); AWrite keepalive_encode]
                   ++ (if h =? 0 then [AStopHold] else [AArmKA (h / 3); AArmHold h])
                   ++ [AReturn c_openConfirmState ENone])
              end
          end
      | IRd (RMsg m) => send_and_finish st (fsm_err c_NOTIF_SUBCODE_RX_UNEXPECTED_MESSAGE_OPENSENT (msg_type m)) c_idleState
      end
  | POpenConfirm =>
      match i with
      | IStop => send_and_finish st cease c_disabledState
      | IHold => if c_holdns st =? 0 then (st, []) else send_and_finish st hold_expired c_idleState
      | IKA => if c_holdns st =? 0 then (st, []) else (st, [AWrite keepalive_encode; AArmKA (c_holdns st / 3)])
      | IApprove => (st, [])
      | IRd (RErrNotif n) => send_and_finish st n c_idleState
      | IRd RErrIO => finish st [] c_idleState EOtherErr
      | IRd (RMsg MKeepalive) =>
          (mkC PWaitEst (c_holdns st) (c_nupd st),
           (if c_holdns st =? 0 then [] else [AArmHold (c_holdns st)])
           ++ [AReturn c_establishedState ENone])
      | IRd (RMsg (MNotif n)) => finish st [] c_idleState (ENotifIn n)
      | IRd (RMsg m) => send_and_finish st (fsm_err c_NOTIF_SUBCODE_RX_UNEXPECTED_MESSAGE_OPENCONFIRM (msg_type m)) c_idleState
      end
  | PEstablished =>
      match i with
      | IStop => send_and_finish st cease c_disabledState
      | IHold => if c_holdns st =? 0 then (st, []) else send_and_finish st hold_expired c_idleState
      | IKA => if c_holdns st =? 0 then (st, []) else (st, [AWrite keepalive_encode; AArmKA (c_holdns st / 3)])
      | IApprove => (st, [])
      | IRd (RErrNotif n) => send_and_finish st n c_idleState
      | IRd RErrIO => finish st [] c_idleState EOtherErr
      | IRd (RMsg (MNotif n)) => finish st [] c_idleState (ENotifIn n)
      | IRd (RMsg MKeepalive) => (st, if c_holdns st =? 0 then [] else [AArmHold (c_holdns st)])
      | IRd (RMsg (MUpdate b)) =>
          match pl_handler pl (c_nupd st) with
          | Some n => finish (mkC PEstablished (c_holdns st) (S (c_nupd st)))
                             [AHandler b; AWrite (notif_encode n)] c_idleState (ENotifOut n)
          | None => (mkC PEstablished (c_holdns st) (S (c_nupd st)),
                     AHandler b :: (if c_holdns st =? 0 then [] else [AArmHold (c_holdns st)]))
          end
      | IRd (RMsg m) => send_and_finish st (fsm_err c_NOTIF_SUBCODE_RX_UNEXPECTED_MESSAGE_ESTABLISHED (msg_type m)) c_idleState
      end
  end.

Fixpoint conn_run (cf : cconf) (pl : cplugin) (st : cstate) (ins : list cinput) : cstate * list caction :=
  match ins with
  | [] => (st, [])
  | i :: r => let (st1, a1) := conn_step cf pl st i in
              let (st2, a2) := conn_run cf pl st1 r in (st2, a1 ++ a2)
  end.

(* a connection on its own: the manager always echoes an offered transition at once *)
Fixpoint conn_run_auto (cf : cconf) (pl : cplugin) (st : cstate) (ins : list cinput) : cstate * list caction :=
  match ins with
  | [] => (st, [])
  | i :: r =>
      let (st1, a1) := conn_step cf pl st i in
      let (st1', a1') := match c_phase st1 with
                         | PWaitOC | PWaitEst => conn_step cf pl st1 IApprove
                         | _ => (st1, [])
                         end in
      let (st2, a2) := conn_run_auto cf pl st1' r in (st2, a1 ++ a1' ++ a2)
  end.

(* sendOpenAndSetHoldTimer: the OPEN (or nothing, then close) that starts a connection *)
Definition send_open (cf : cconf) (id : N) (caps : list cap) : list caction :=
  match open_encode (new_open_message (cf_las cf) (cf_hold cf) id caps) with
  | Some b => [AWrite b; AArmHold c_longHoldTime]
  | None => [ACloseConn; AReturn c_idleState ENone]
  end.
