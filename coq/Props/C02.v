(* C02 — OPEN handshake: exactly the valid OPENs are accepted (decode + validate half;
   the FSM half is in Props/C02 via Conn.v once Layer B lands). *)
From Verif Require Import Base Consts Packet PacketSpec OpenSpec OpenProofs2.

Theorem c02_accept_iff : forall lid las ras b id caps hold,
  wf_bytes b = true -> ras < 4294967296 ->
  (handle_open lid las ras b = OAccept id caps hold <->
   exists o, open_repr o = true /\ spec_open_body o = b
             /\ open_acceptable lid las ras o = true
             /\ id = o_id o /\ caps = concat (o_params o) /\ hold = o_hold o).
Proof. exact handle_open_accept_iff. Qed.
Print Assumptions c02_accept_iff.

Theorem c02_reject_sound : forall lid las ras b n,
  wf_bytes b = true -> ras < 4294967296 ->
  handle_open lid las ras b = OReject n ->
  (blen b < 10 /\ n = mkNotif 1 2 b)
  \/ (10 <= blen b /\ (n = mkNotif 2 0 [] \/ n = mkNotif 2 4 [])
      /\ forall o, open_repr o = true -> spec_open_body o <> b)
  \/ (exists o, open_repr o = true /\ spec_open_body o = b
                /\ open_acceptable lid las ras o = false
                /\ semantic_fault lid las ras o n = true).
Proof. exact handle_open_reject_sound. Qed.
Print Assumptions c02_reject_sound.

(* the structural refusals name a fault the optional-parameters field actually has: subcode 4 only
   with a parameter of unknown type present, subcode 0 only if the field's length octet disagrees with
   the body, the field is empty or overruns, or a capabilities parameter is empty or overruns *)
From Verif Require Import OpenProofs3.
Theorem c02_structural_fault : forall lid las ras b n,
  wf_bytes b = true -> 10 <= blen b ->
  handle_open lid las ras b = OReject n ->
  (forall o, open_repr o = true -> spec_open_body o <> b) ->
  (n = mkNotif 2 0 [] /\ fault_inconsistent b = true)
  \/ (n = mkNotif 2 4 [] /\ fault_unknown_param b = true).
Proof. exact handle_open_structural. Qed.
Print Assumptions c02_structural_fault.

Example c02_structural_examples :
  handle_open 1 65001 65000 [4; 253;232; 0;90; 10;0;0;2; 4; 3;2;0;0] = OReject (mkNotif 2 4 [])
  /\ fault_unknown_param [4; 253;232; 0;90; 10;0;0;2; 4; 3;2;0;0] = true
  /\ handle_open 1 65001 65000 [4; 253;232; 0;90; 10;0;0;2; 0] = OReject (mkNotif 2 0 [])
  /\ fault_inconsistent [4; 253;232; 0;90; 10;0;0;2; 0] = true.
Proof. vm_compute. repeat split. Qed.

Theorem c02_no_panic : forall lid las ras b,
  wf_bytes b = true -> handle_open lid las ras b <> OPanic.
Proof. exact handle_open_total. Qed.
Print Assumptions c02_no_panic.

(* FSM half: what the OpenSent state does with a received OPEN — accepted: OnOpenMessage
   once with the sender's id and capabilities, KEEPALIVE, timers, OpenConfirm; refused: one
   NOTIFICATION, close, no OnOpenMessage; the plugin's notification is sent verbatim; a
   finished connection never becomes Established (PDone is absorbing) *)
From Verif Require Import Conn ConnProofs.
Theorem c02_fsm_open : forall cf pl h k o,
  conn_step cf pl (mkC POpenSent h k) (IRd (RMsg (MOpen o))) =
  match open_validate (cf_lid cf) (cf_las cf) (cf_ras cf) o with
  | Some n => (mkC PDone h k, [AWrite (notif_encode n); ACloseConn; AStopHold; AReturn 1 (ENotifOut n)])
  | None =>
      match pl_on_open pl with
      | Some n => (mkC PDone h k, [AOnOpen (o_id o) (get_capabilities o); AWrite (notif_encode n);
                                   ACloseConn; AStopHold; AReturn 1 (ENotifOut n)])
      | None =>
          (mkC PWaitOC (negotiated cf o) k,
           [AOnOpen (o_id o) (get_capabilities o); AWrite keepalive_encode]
           ++ (if negotiated cf o =? 0 then [AStopHold]
               else [AArmKA (negotiated cf o / 3); AArmHold (negotiated cf o)])
           ++ [AReturn 5 ENone])
      end
  end.
Proof. exact open_in_opensent. Qed.
Print Assumptions c02_fsm_open.

Theorem c02_finished_stays_finished : forall cf pl ins st,
  c_phase st = PDone -> conn_run cf pl st ins = (st, []).
Proof. exact done_absorbing. Qed.
Print Assumptions c02_finished_stays_finished.
