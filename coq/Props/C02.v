(* C02 — OPEN handshake: exactly the valid OPENs are accepted (decode + validate half;
   the FSM half is in Props/C02 via Conn.v once Layer B lands). *)
From Verif Require Import Base Consts Packet PacketSpec OpenSpec OpenProofs2.

Theorem c02_accept_iff : forall lid las ras b id caps hold,
  wf_bytes b = true -> ras < 4294967296 ->
  (handle_open lid las ras b = OAccept id caps hold <->
   exists o, open_repr o = true /\ spec_open_body o = b
             /\ open_acceptable lid las ras o = true
             /\ id = o_id o /\ caps = concat (o_params o) /\ hold = o_hold o).
Proof. exact handle_open_accept_iff. Qed.
Print Assumptions c02_accept_iff.

Theorem c02_reject_sound : forall lid las ras b n,
  wf_bytes b = true -> ras < 4294967296 ->
  handle_open lid las ras b = OReject n ->
  (blen b < 10 /\ n = mkNotif 1 2 b)
  \/ (10 <= blen b /\ (n = mkNotif 2 0 [] \/ n = mkNotif 2 4 [])
      /\ forall o, open_repr o = true -> spec_open_body o <> b)
  \/ (exists o, open_repr o = true /\ spec_open_body o = b
                /\ open_acceptable lid las ras o = false
                /\ semantic_fault lid las ras o n = true).
Proof. exact handle_open_reject_sound. Qed.
Print Assumptions c02_reject_sound.

Theorem c02_no_panic : forall lid las ras b,
  wf_bytes b = true -> handle_open lid las ras b <> OPanic.
Proof. exact handle_open_total. Qed.
Print Assumptions c02_no_panic.
