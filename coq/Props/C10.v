(* C10 — shutdown from any state is prompt, complete and leak-free (logic part). *)
From Coq Require Import List Bool NArith.
Import ListNotations.
From Verif Require Import Closure Peer PeerProofs PeerCorollaries.

(* after Close/DeletePeer (peer.closeCh closed), in every reachable state that is not yet done
   some shutdown step is enabled: none of them waits for a timer or for network input (they are the
   closeCh branches, the manager's micro-operations and goroutine exits) *)
Theorem c10_progress : forall p d s,
  reachable p d s -> s_pclosed s = true -> s_mdone s = false ->
  exists l s', progress_label s l = true /\ step s l = Some s'.
Proof. exact shutdown_progress. Qed.
Print Assumptions c10_progress.

(* every shutdown step strictly decreases a rank: no sequence of them is longer than rk s *)
Theorem c10_bounded : forall p d n s s2,
  reachable p d s -> s_pclosed s = true -> shutdown_path s n s2 ->
  n <= rk s /\ reachable p d s2 /\ rk s2 + n <= rk s.
Proof. exact shutdown_bounded. Qed.
Print Assumptions c10_bounded.

(* by the time the manager is done: no FSM goroutine, no pending operation, no timer *)
Theorem c10_all_gone : forall p d s,
  reachable p d s -> s_mdone s = true ->
  fst (s_fsm s) = None /\ snd (s_fsm s) = None /\ s_ops s = [] /\ s_timer s = false.
Proof. exact stopped_means_gone. Qed.
Print Assumptions c10_all_gone.

(* a connection of an FSM that was approved into OpenSent/OpenConfirm/Established is never closed
   by a stop without a Cease NOTIFICATION first *)
Theorem c10_cease_first : forall p d s,
  reachable p d s -> fbad (fst (s_fsm s)) = false /\ fbad (snd (s_fsm s)) = false.
Proof. exact cease_before_close. Qed.
Print Assumptions c10_cease_first.
