(* C05 — decoder half: the exported decoding entry points return instead of panicking
   for every byte slice (Go panics are explicit results of the model). *)
From Verif Require Import Base Consts Packet Errors Update PacketSpec UpdateSpec
                          PacketProofs PrefixProofs UpdateProofs TotalProofs.

Theorem c05_update_decode : forall sc b, wf_bytes b = true -> returns (update_decode sc b).
Proof. exact update_decode_total. Qed.
Print Assumptions c05_update_decode.

Theorem c05_attr_decoders : forall code flags b,
  flags < 256 -> wf_bytes b = true -> blen b < 65536 -> returns (attr_decode code flags b).
Proof. exact attr_decode_total. Qed.
Print Assumptions c05_attr_decoders.

Theorem c05_prefixes : forall ipv6 b, wf_bytes b = true ->
  decode_prefixes b ipv6 <> Panic /\ decode_prefixes b ipv6 <> OutOfFuel.
Proof. exact prefixes_total. Qed.
Print Assumptions c05_prefixes.

Theorem c05_addpath_prefixes : forall ipv6 b, wf_bytes b = true ->
  decode_ap_prefixes b ipv6 <> Panic /\ decode_ap_prefixes b ipv6 <> OutOfFuel.
Proof. exact ap_prefixes_total. Qed.
Print Assumptions c05_addpath_prefixes.

Theorem c05_mp_splitters : forall flags b cb,
  flags < 256 -> blen b < 65536 -> returns (mp_reach flags b cb) /\ returns (mp_unreach flags b cb).
Proof. exact mp_splitters_total. Qed.
Print Assumptions c05_mp_splitters.

Theorem c05_addpath_tuples : forall b, wf_bytes b = true ->
  aptuples_decode b <> Panic /\ aptuples_decode b <> OutOfFuel.
Proof. exact aptuples_decode_total. Qed.
Print Assumptions c05_addpath_tuples.

(* what the reader applies to every received message body *)
Theorem c05_message_from_bytes : forall b t, wf_bytes b = true -> returns (message_from_bytes b t).
Proof. exact message_from_bytes_total. Qed.
Print Assumptions c05_message_from_bytes.

(* API-order half (registry / lifecycle model, Server.v): a second Serve on a serving server is refused and changes
   nothing; a server whose Serve has returned (Close, failing listener) is never restarted by any later call sequence.
   (The panic these orders caused on the pinned tree is finding D16, repaired.) *)
From Coq Require Import List.
From Verif Require Import Server ServerSpec ServerProofs.
Theorem c05_second_serve_refused : forall s,
  s_serving s = true -> s_closed s = false -> server_step s OServe = (s, SServeBusy).
Proof. exact serve_while_serving. Qed.
Print Assumptions c05_second_serve_refused.

Theorem c05_finished_server_never_serves : forall ops s,
  inv s -> s_closed s = true -> s_serving s = false ->
  Forall (fun st => s_serving st = false /\ s_running st = nil) (run_states s ops).
Proof. exact finished_server_never_serves. Qed.
Print Assumptions c05_finished_server_never_serves.
