(* C05 — decoder half: the exported decoding entry points return instead of panicking
   for every byte slice (Go panics are explicit results of the model). *)
From Verif Require Import Base Consts Packet Errors Update PacketSpec UpdateSpec
                          PacketProofs PrefixProofs UpdateProofs TotalProofs.

Theorem c05_update_decode : forall sc b, wf_bytes b = true -> returns (update_decode sc b).
Proof. exact update_decode_total. Qed.
Print Assumptions c05_update_decode.

Theorem c05_attr_decoders : forall code flags b,
  flags < 256 -> wf_bytes b = true -> blen b < 65536 -> returns (attr_decode code flags b).
Proof. exact attr_decode_total. Qed.
Print Assumptions c05_attr_decoders.

Theorem c05_prefixes : forall ipv6 b, wf_bytes b = true ->
  decode_prefixes b ipv6 <> Panic /\ decode_prefixes b ipv6 <> OutOfFuel.
Proof. exact prefixes_total. Qed.
Print Assumptions c05_prefixes.

Theorem c05_addpath_prefixes : forall ipv6 b, wf_bytes b = true ->
  decode_ap_prefixes b ipv6 <> Panic /\ decode_ap_prefixes b ipv6 <> OutOfFuel.
Proof. exact ap_prefixes_total. Qed.
Print Assumptions c05_addpath_prefixes.

Theorem c05_mp_splitters : forall flags b cb,
  flags < 256 -> blen b < 65536 -> returns (mp_reach flags b cb) /\ returns (mp_unreach flags b cb).
Proof. exact mp_splitters_total. Qed.
Print Assumptions c05_mp_splitters.

Theorem c05_addpath_tuples : forall b, wf_bytes b = true ->
  aptuples_decode b <> Panic /\ aptuples_decode b <> OutOfFuel.
Proof. exact aptuples_decode_total. Qed.
Print Assumptions c05_addpath_tuples.

(* what the reader applies to every received message body *)
Theorem c05_message_from_bytes : forall b t, wf_bytes b = true -> returns (message_from_bytes b t).
Proof. exact message_from_bytes_total. Qed.
Print Assumptions c05_message_from_bytes.
