(* C03 — inbound UPDATEs reach the handler exactly once, in order, byte-exact. *)
From Verif Require Import Base Consts Packet PacketSpec Conn ConnProofs ReaderProofs.

(* any segmentation of a stream of UPDATEs (bodies 0..4077) and KEEPALIVEs yields exactly
   those messages, in order, bodies byte-identical *)
Theorem c03_reader_delivery : forall l chunks,
  Forall upd_or_ka l -> concat chunks = frames l ->
  snd (feed_all rinit chunks) = map (fun tb => RMsg (msg_of tb)) l.
Proof. exact updates_delivered. Qed.
Print Assumptions c03_reader_delivery.

(* while Established and the handler returns nil: one handler call per UPDATE, in order, with
   the body; KEEPALIVEs produce none; the session stays Established *)
Theorem c03_handler_calls : forall cf pl l st,
  c_phase st = PEstablished -> (forall k, pl_handler pl k = None) ->
  let (st', acts) := conn_run cf pl st (map (fun tb => IRd (RMsg (msg_of tb))) l) in
  handler_calls acts = update_bodies l /\ c_phase st' = PEstablished
  /\ c_nupd st' = (c_nupd st + length (update_bodies l))%nat.
Proof. exact established_delivery. Qed.
Print Assumptions c03_handler_calls.

(* a non-nil Notification from the handler: sent verbatim, session ends with OnClose, and no
   later UPDATE of that connection is delivered *)
Theorem c03_handler_notification : forall cf pl h k b n later,
  pl_handler pl k = Some n ->
  conn_run cf pl (mkC PEstablished h k) (IRd (RMsg (MUpdate b)) :: later) =
  (mkC PDone h (S k),
   [AHandler b; AWrite (notif_encode n); ACloseConn; AStopHold; AStopKA; AOnClose; AReturn 1 (ENotifOut n)]).
Proof. exact handler_notification. Qed.
Print Assumptions c03_handler_notification.

(* no UPDATE before OnEstablished has returned or after OnClose has begun: the callback monitor
   accepts every action sequence the connection can produce *)
Theorem c03_window : forall cf pl ins,
  exists m', mon_run (false, 0) (snd (conn_run cf pl cinit ins)) = Some m'
             /\ (c_phase (fst (conn_run cf pl cinit ins)) = PDone -> snd m' <> 1).
Proof. exact callbacks_wellformed. Qed.
Print Assumptions c03_window.
