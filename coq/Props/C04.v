(* C04 — outbound byte stream is whole well-formed messages. *)
From Verif Require Import Base Consts Packet PacketSpec Conn ConnProofs FrameProofs.

(* every write the connection state machine performs is one whole well-formed message *)
Theorem c04_every_write_wellformed : forall cf pl st i,
  plugin_ok pl -> input_ok i -> cf_ras cf < 4294967296 ->
  Forall wf_frame (writes (snd (conn_step cf pl st i))).
Proof. exact writes_wellformed. Qed.
Print Assumptions c04_every_write_wellformed.

(* WriteUpdate(b), b up to 4077 bytes: one UPDATE whose body equals b *)
Theorem c04_update_frame : forall b, blen b <= 4077 -> wf_frame (update_frame b).
Proof. exact update_frame_wf. Qed.
Print Assumptions c04_update_frame.

(* whole messages are self-delimiting: any serialisation of atomic well-formed writes (from any
   number of goroutines) parses back to exactly those messages, in the order they were written *)
Theorem c04_frames_self_delimiting : forall (fs : list (N * bytes)) fuel,
  Forall (fun tb => blen (snd tb) <= 4077 /\ known_type (fst tb) = true) fs ->
  (length fs < fuel)%nat ->
  spec_stream_parse fuel (flat_map (fun tb => spec_frame_enc (fst tb) (snd tb)) fs) = Some fs.
Proof. exact frames_self_delimiting. Qed.
Print Assumptions c04_frames_self_delimiting.

(* ---- any number of concurrent writers (Writers.v): every interleaving of WriteUpdate calls, the FSM's
   own writes and session ends, with one conn.Write per message (atomic: trusted runtime fact) ---- *)
From Coq Require Import List. Import ListNotations.
From Verif Require Import Writers WritersProofs.

(* each nil-returning WriteUpdate(b) appears exactly once as an UPDATE with body b, successive calls of one
   writer in call order, on the connection the writer is bound to, and nothing else is attributed to it *)
Theorem c04_exactly_once_in_order : forall es c w,
  from_writer (fst (wrun winit es)) c w = map update_frame (acked es (snd (wrun winit es)) c w).
Proof. exact writer_exactly_once_init. Qed.
Print Assumptions c04_exactly_once_in_order.

(* the remote's strict parser recovers exactly the appended frames from the byte stream of every connection *)
Theorem c04_stream_is_whole_messages : forall es c,
  Forall wevent_ok es ->
  let s := fst (wrun winit es) in
  spec_stream_parse (S (length (frames_of s c))) (wire_of s c) = Some (map frame_tb (frames_of s c)).
Proof. exact wire_parses. Qed.
Print Assumptions c04_stream_is_whole_messages.

(* once the session has ended: WriteUpdate fails, and no frame is ever added to that connection again
   (writes go only to the connection named in the call: a writer never reaches a later connection) *)
Theorem c04_after_end_fails : forall s c w b, ended s c = true -> wstep s (WWrite c w b) = (s, Some false).
Proof. exact ended_writer_inert. Qed.
Print Assumptions c04_after_end_fails.

Theorem c04_nothing_after_end : forall es s c, ended s c = true -> frames_of (fst (wrun s es)) c = frames_of s c.
Proof. exact nothing_after_end. Qed.
Print Assumptions c04_nothing_after_end.

Example c04_writers_example :
  let es := [WWrite 1 7 [1]; WFsm 1 keepalive_encode; WWrite 1 8 [2]; WWrite 1 7 [3]; WEnd 1; WWrite 1 7 [4]; WWrite 2 9 [5]] in
  snd (wrun winit es) = [Some true; None; Some true; Some true; None; Some false; Some true]
  /\ from_writer (fst (wrun winit es)) 1 7 = [update_frame [1]; update_frame [3]]
  /\ frames_of (fst (wrun winit es)) 2 = [update_frame [5]].
Proof. vm_compute. repeat split. Qed.
