(* C04 — outbound byte stream is whole well-formed messages. *)
From Verif Require Import Base Consts Packet PacketSpec Conn ConnProofs FrameProofs.

(* every write the connection state machine performs is one whole well-formed message *)
Theorem c04_every_write_wellformed : forall cf pl st i,
  plugin_ok pl -> input_ok i -> cf_ras cf < 4294967296 ->
  Forall wf_frame (writes (snd (conn_step cf pl st i))).
Proof. exact writes_wellformed. Qed.
Print Assumptions c04_every_write_wellformed.

(* WriteUpdate(b), b up to 4077 bytes: one UPDATE whose body equals b *)
Theorem c04_update_frame : forall b, blen b <= 4077 -> wf_frame (update_frame b).
Proof. exact update_frame_wf. Qed.
Print Assumptions c04_update_frame.

(* whole messages are self-delimiting: any serialisation of atomic well-formed writes (from any
   number of goroutines) parses back to exactly those messages, in the order they were written *)
Theorem c04_frames_self_delimiting : forall (fs : list (N * bytes)) fuel,
  Forall (fun tb => blen (snd tb) <= 4077 /\ known_type (fst tb) = true) fs ->
  (length fs < fuel)%nat ->
  spec_stream_parse fuel (flat_map (fun tb => spec_frame_enc (fst tb) (snd tb)) fs) = Some fs.
Proof. exact frames_self_delimiting. Qed.
Print Assumptions c04_frames_self_delimiting.
