(* C20 — peer registry behaves as a consistent map and rejects unusable configs. *)
From Verif Require Import Base Consts Server ServerSpec ServerProofs.
From Coq Require Import ZArith.

(* AddPeer accepts exactly the usable configurations *)
Theorem c20_validate_iff : forall c o, opts_validate o && cfg_validate c o = usable c o.
Proof. exact validate_iff_usable. Qed.
Print Assumptions c20_validate_iff.

Theorem c20_router_id : forall r, new_server_ok r = true <-> a_kind r = A4.
Proof. exact new_server_iff. Qed.
Print Assumptions c20_router_id.

(* every registry operation refines the abstract map keyed by remote address: results
   (ErrPeerAlreadyExists, ErrPeerNotExist, configurations, ListPeers = exactly the present
   configurations), effect on the map, no side effect on rejection, Serve/Close lifecycle *)
Theorem c20_refines : forall s op,
  inv s ->
  let (s', out) := server_step s op in
  spec_step (abs s) (s_serving s) (s_closed s) op out (abs s') (s_serving s') (s_closed s').
Proof. exact step_refines. Qed.
Print Assumptions c20_refines.

(* the invariant (distinct valid keys; serving => every registered peer runs, not serving
   => none runs) holds initially and after every operation sequence *)
Theorem c20_init_inv : inv server_init.
Proof. exact init_inv. Qed.
Print Assumptions c20_init_inv.

Theorem c20_step_inv : forall s op, inv s -> inv (fst (server_step s op)).
Proof. exact step_inv. Qed.
Print Assumptions c20_step_inv.

Theorem c20_run_inv : forall ops s, inv s -> Forall inv (run_states s ops).
Proof. exact run_inv. Qed.
Print Assumptions c20_run_inv.

(* API orders that must neither restart nor disturb a server (C05: no sequence of documented calls may break it) *)
Theorem c20_serve_while_serving : forall s,
  s_serving s = true -> s_closed s = false -> server_step s OServe = (s, SServeBusy).
Proof. exact serve_while_serving. Qed.
Print Assumptions c20_serve_while_serving.

Theorem c20_listener_failure_is_final : forall s, s_serving s = true ->
  let s' := fst (server_step s OBreak) in s_closed s' = true /\ s_serving s' = false /\ s_running s' = [].
Proof. exact break_finishes. Qed.
Print Assumptions c20_listener_failure_is_final.

Theorem c20_finished_server_never_serves : forall ops s,
  inv s -> s_closed s = true -> s_serving s = false ->
  Forall (fun st => s_serving st = false /\ s_running st = []) (run_states s ops).
Proof. exact finished_server_never_serves. Qed.
Print Assumptions c20_finished_server_never_serves.
