(* C20 — peer registry behaves as a consistent map and rejects unusable configs. *)
From Verif Require Import Base Consts Server ServerSpec ServerProofs.
From Coq Require Import ZArith.

(* AddPeer accepts exactly the usable configurations *)
Theorem c20_validate_iff : forall c o, opts_validate o && cfg_validate c o = usable c o.
Proof. exact validate_iff_usable. Qed.
Print Assumptions c20_validate_iff.

Theorem c20_router_id : forall r, new_server_ok r = true <-> a_kind r = A4.
Proof. exact new_server_iff. Qed.
Print Assumptions c20_router_id.

(* every registry operation refines the abstract map keyed by remote address: results
   (ErrPeerAlreadyExists, ErrPeerNotExist, configurations, ListPeers = exactly the present
   configurations), effect on the map, no side effect on rejection, Serve/Close lifecycle *)
Theorem c20_refines : forall s op,
  inv s ->
  let (s', out) := server_step s op in
  spec_step (abs s) (s_serving s) (s_closed s) op out (abs s') (s_serving s') (s_closed s').
Proof. exact step_refines. Qed.
Print Assumptions c20_refines.

(* the invariant (distinct valid keys; serving => every registered peer runs, not serving
   => none runs) holds initially and after every operation sequence *)
Theorem c20_init_inv : inv server_init.
Proof. exact init_inv. Qed.
Print Assumptions c20_init_inv.

Theorem c20_step_inv : forall s op, inv s -> inv (fst (server_step s op)).
Proof. exact step_inv. Qed.
Print Assumptions c20_step_inv.

Theorem c20_run_inv : forall ops s, inv s -> Forall inv (run_states s ops).
Proof. exact run_inv. Qed.
Print Assumptions c20_run_inv.
