(* C17 — UpdateDecoder reports errors with the RFC 7606 approach they require. *)
From Verif Require Import Base Consts Packet Errors Update PacketSpec UpdateSpec UpdateProofs ErrorProofs.

(* callbacks returning nil: nil iff the sections are consistent, the attribute walk ends
   cleanly and the mandatory attributes are present whenever routes are announced; with
   inconsistent lengths or a body shorter than 4 a bare Notification (3,1)/(3,0) *)
Theorem c17_nil_iff_clean : forall sc b,
  nil_script sc -> wf_bytes b = true ->
  match spec_sections b with
  | None => exists n, update_decode sc b = Ok ([], Some (ENotif n)) /\ n_code n = 3
                      /\ n_sub n = (if blen b <? 4 then 0 else 1) /\ n_data n = []
  | Some (W, A, Nl) =>
      exists e,
        update_decode sc b =
          Ok (CWr W :: map item_call (fst (attr_items A))
                ++ match snd (attr_items A) with EndDupMP => [] | _ => [CNl Nl] end, e)
        /\ (e = None <-> snd (attr_items A) = EndClean /\ missing_attrs (fst (attr_items A)) Nl = false)
  end.
Proof. exact update_decode_nil. Qed.
Print Assumptions c17_nil_iff_clean.

(* any callback behaviour: Decode returns (no panic) ... *)
Theorem c17_total : forall sc b,
  wf_bytes b = true -> exists calls e, update_decode sc b = Ok (calls, e).
Proof. exact decode_total. Qed.
Print Assumptions c17_total.

(* ... and never returns nil when a callback it invoked returned an error *)
Theorem c17_callback_error_reported : forall sc b calls,
  wf_bytes b = true -> update_decode sc b = Ok (calls, None) ->
  forall j, (j < length calls)%nat -> sc j = None.
Proof. exact decode_nil_callbacks_nil. Qed.
Print Assumptions c17_callback_error_reported.

(* UpdateNotificationFromErr: nil to nil, otherwise the first leaf (pre-order) of the
   strongest class present: Notification > treat-as-withdraw > attribute-discard >
   other UpdateError > generic UPDATE Message Error *)
Theorem c17_from_err : forall e, unfe e = spec_unfe e.
Proof. exact unfe_spec. Qed.
Print Assumptions c17_from_err.

Theorem c17_from_err_nil_iff : forall e, unfe e = None <-> e = None.
Proof. exact unfe_nil_iff. Qed.
Print Assumptions c17_from_err_nil_iff.

(* any callback behaviour (stateful, any error class at any position): Decode makes exactly the
   specification's calls cut at the first callback error that contains a Notification, and the
   error tree it returns has exactly these leaves, in this order: every error the callbacks
   returned up to that point, the structural findings (Notification (3,1) for a repeated MP
   attribute; treat-as-withdraw with (3,0) for an attribute overrunning the block; treat-as-withdraw
   with Missing Well-known Attribute (3,3,[code]) when routes are announced without ORIGIN/AS_PATH) *)
From Verif Require Import UpdateErrProofs.
Theorem c17_errors_exact : forall sc b,
  wf_bytes b = true ->
  exists e, update_decode sc b = Ok (spec_calls_script sc b, e)
            /\ oleaves e = flat_map leaves (spec_err_events sc b).
Proof. exact decode_errors_exact. Qed.
Print Assumptions c17_errors_exact.

(* "contains every error the callbacks returned up to the point decoding stopped", in order *)
Theorem c17_contains_callback_errors : forall sc b,
  subseq_of (cb_errors sc 0 (length (spec_calls_script sc b))) (spec_err_events sc b).
Proof. exact callback_errors_contained. Qed.
Print Assumptions c17_contains_callback_errors.

(* the notification UpdateNotificationFromErr derives from Decode's result is the first-by-severity
   choice over exactly that event list *)
Theorem c17_notification_of_result : forall sc b calls x,
  wf_bytes b = true -> update_decode sc b = Ok (calls, Some x) ->
  unfe (Some x) = spec_unfe (Some (EJoin (spec_err_events sc b))).
Proof. exact decode_notification. Qed.
Print Assumptions c17_notification_of_result.

(* the structural classes the property names are present whenever decoding was not stopped earlier *)
Theorem c17_structural_classes : forall sc b W A Nl,
  spec_sections b = Some (W, A, Nl) -> has_notif_o (sc O) = false ->
  snd (fst (attr_cb_events sc 1 (length (fst (attr_items A))))) = false ->
  match snd (attr_items A) with
  | EndDupMP => In (ENotif (mkNotif 3 1 [])) (spec_err_events sc b)
  | EndOverrun c => In (ETaw c (Some (mkNotif 3 0 []))) (spec_err_events sc b)
  | EndClean => True
  end
  /\ (snd (attr_items A) <> EndDupMP -> missing_attrs (fst (attr_items A)) Nl = true ->
      let m := if existsb (N.eqb 1) (map item_code (fst (attr_items A))) then 2 else 1 in
      In (ETaw m (Some (mkNotif 3 3 [m]))) (spec_err_events sc b)).
Proof. exact decode_event_classes. Qed.
Print Assumptions c17_structural_classes.

(* non-vacuity: NLRI 10.0.0.0/8 with only ORIGIN present, the ORIGIN callback returns an
   attribute-discard error, the NLRI callback a treat-as-withdraw error *)
Example c17_events_example :
  let b := [0;0; 0;4; 64;1;1;0; 8;10] in
  let sc := fun k => match k with 1%nat => Some (EDiscard 1 None) | 2%nat => Some (ETaw 0 None) | _ => None end in
  spec_err_events sc b = [EDiscard 1 None; ETaw 2 (Some (mkNotif 3 3 [2])); ETaw 0 None]
  /\ update_decode sc b = Ok ([CWr []; CPa 1 64 [0]; CNl [8; 10]],
                             Some (EJoin [EJoin [EJoin [EJoin [EDiscard 1 None]; ETaw 2 (Some (mkNotif 3 3 [2]))]]; ETaw 0 None])).
Proof. vm_compute. split; reflexivity. Qed.
