(* C17 — UpdateDecoder reports errors with the RFC 7606 approach they require. *)
From Verif Require Import Base Consts Packet Errors Update PacketSpec UpdateSpec UpdateProofs ErrorProofs.

(* callbacks returning nil: nil iff the sections are consistent, the attribute walk ends
   cleanly and the mandatory attributes are present whenever routes are announced; with
   inconsistent lengths or a body shorter than 4 a bare Notification (3,1)/(3,0) *)
Theorem c17_nil_iff_clean : forall sc b,
  nil_script sc -> wf_bytes b = true ->
  match spec_sections b with
  | None => exists n, update_decode sc b = Ok ([], Some (ENotif n)) /\ n_code n = 3
                      /\ n_sub n = (if blen b <? 4 then 0 else 1) /\ n_data n = []
  | Some (W, A, Nl) =>
      exists e,
        update_decode sc b =
          Ok (CWr W :: map item_call (fst (attr_items A))
                ++ match snd (attr_items A) with EndDupMP => [] | _ => [CNl Nl] end, e)
        /\ (e = None <-> snd (attr_items A) = EndClean /\ missing_attrs (fst (attr_items A)) Nl = false)
  end.
Proof. exact update_decode_nil. Qed.
Print Assumptions c17_nil_iff_clean.

(* any callback behaviour: Decode returns (no panic) ... *)
Theorem c17_total : forall sc b,
  wf_bytes b = true -> exists calls e, update_decode sc b = Ok (calls, e).
Proof. exact decode_total. Qed.
Print Assumptions c17_total.

(* ... and never returns nil when a callback it invoked returned an error *)
Theorem c17_callback_error_reported : forall sc b calls,
  wf_bytes b = true -> update_decode sc b = Ok (calls, None) ->
  forall j, (j < length calls)%nat -> sc j = None.
Proof. exact decode_nil_callbacks_nil. Qed.
Print Assumptions c17_callback_error_reported.

(* UpdateNotificationFromErr: nil to nil, otherwise the first leaf (pre-order) of the
   strongest class present: Notification > treat-as-withdraw > attribute-discard >
   other UpdateError > generic UPDATE Message Error *)
Theorem c17_from_err : forall e, unfe e = spec_unfe e.
Proof. exact unfe_spec. Qed.
Print Assumptions c17_from_err.

Theorem c17_from_err_nil_iff : forall e, unfe e = None <-> e = None.
Proof. exact unfe_nil_iff. Qed.
Print Assumptions c17_from_err_nil_iff.
