(* C09 — state-dependent message handling follows RFC 4271 8.2.2 / RFC 6608. *)
From Verif Require Import Base Consts Packet PacketSpec Conn ConnProofs.

(* every (state, message) pair that is not legal progress and not a NOTIFICATION: exactly
   NOTIFICATION (FSM Error, subcode 1/2/3 for OpenSent/OpenConfirm/Established, data = the
   message's type octet), then close (and OnClose if Established), back to Idle *)
Theorem c09_unexpected_message : forall cf pl st m,
  live (c_phase st) = true -> legal (c_phase st) m = false -> (forall n, m <> MNotif n) ->
  let n := mkNotif 5 (state_sub (c_phase st)) [msg_type m] in
  conn_step cf pl st (IRd (RMsg m)) =
  (mkC PDone (c_holdns st) (c_nupd st),
   [AWrite (notif_encode n)] ++ teardown (c_phase st) ++ [AReturn 1 (ENotifOut n)]).
Proof. exact unexpected_message. Qed.
Print Assumptions c09_unexpected_message.

(* the legal pairs are exactly OPEN/OpenSent, KEEPALIVE/OpenConfirm, KEEPALIVE+UPDATE/Established *)
Theorem c09_legal_table : forall ph m,
  legal ph m = true <->
  (ph = POpenSent /\ (exists o, m = MOpen o)) \/ (ph = POpenConfirm /\ m = MKeepalive)
  \/ (ph = PEstablished /\ (m = MKeepalive \/ exists b, m = MUpdate b)).
Proof.
  intros ph m. destruct ph, m; cbn; split; intros H; try discriminate; try reflexivity;
    try (destruct H as [[? ?]|[[? ?]|[? ?]]]; try discriminate; fail);
    eauto 7.
  all: destruct H as [[H1 [x H2]]|[[H1 H2]|[H1 [H2|[x H2]]]]]; discriminate.
Qed.
Print Assumptions c09_legal_table.

Theorem c09_notification_received : forall cf pl st n,
  live (c_phase st) = true ->
  conn_step cf pl st (IRd (RMsg (MNotif n))) =
  (mkC PDone (c_holdns st) (c_nupd st), teardown (c_phase st) ++ [AReturn 1 (ENotifIn n)]).
Proof. exact notification_received. Qed.
Print Assumptions c09_notification_received.

Theorem c09_notification_no_reply : forall cf pl st n,
  live (c_phase st) = true -> writes (snd (conn_step cf pl st (IRd (RMsg (MNotif n))))) = [].
Proof. exact notification_received_silent. Qed.
Print Assumptions c09_notification_no_reply.

Theorem c09_tcp_failure_silent : forall cf pl st,
  live (c_phase st) = true ->
  writes (snd (conn_step cf pl st (IRd RErrIO))) = []
  /\ c_phase (fst (conn_step cf pl st (IRd RErrIO))) = PDone.
Proof. exact tcp_failure_silent. Qed.
Print Assumptions c09_tcp_failure_silent.

(* OnClose exactly once for an Established session, whatever happens (callback monitor) *)
Theorem c09_onclose_once : forall cf pl ins,
  exists m', mon_run (false, 0) (snd (conn_run cf pl cinit ins)) = Some m'
             /\ (c_phase (fst (conn_run cf pl cinit ins)) = PDone -> snd m' <> 1).
Proof. exact callbacks_wellformed. Qed.
Print Assumptions c09_onclose_once.

(* the connection ends in the middle of a message (header complete, body not): after the complete messages before it the
   reader reports a plain I/O error — no phantom message is decoded, no NOTIFICATION-carrying error arises — and the state
   machine ends silently (c09_tcp_failure_silent) *)
From Verif Require Import ReaderProofs.
Theorem c09_eof_mid_message : forall l ms part,
  Forall2 good_msg l ms -> read_one part = RWait ->
  read_stream (frames l ++ part) true = map RMsg ms ++ [RErrIO].
Proof. exact eof_mid_message. Qed.
Print Assumptions c09_eof_mid_message.

Theorem c09_incomplete_is_waiting : forall l1 l0 t rest,
  let len := l1 * 256 + l0 in
  19 <= len <= 4096 -> 19 + blen rest < len -> read_one (marker ++ l1 :: l0 :: t :: rest) = RWait.
Proof. exact read_one_incomplete. Qed.
Print Assumptions c09_incomplete_is_waiting.
