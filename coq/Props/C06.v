(* C06 — hold time negotiation, hold-timer expiry and keepalive cadence (timer logic). *)
From Verif Require Import Base Consts Packet PacketSpec Conn ConnProofs.

(* hold time in force = min(local, received); on acceptance the keep-alive timer is armed with a
   third of it and the hold timer with it, or, when it is zero, the hold timer is stopped *)
Theorem c06_negotiated : forall cf o, negotiated cf o = N.min (cf_hold cf) (o_hold o) * second.
Proof. exact negotiated_min. Qed.
Print Assumptions c06_negotiated.

Theorem c06_open_accept_timers : forall cf pl h k o,
  conn_step cf pl (mkC POpenSent h k) (IRd (RMsg (MOpen o))) =
  match open_validate (cf_lid cf) (cf_las cf) (cf_ras cf) o with
  | Some n => (mkC PDone h k, [AWrite (notif_encode n); ACloseConn; AStopHold; AReturn 1 (ENotifOut n)])
  | None =>
      match pl_on_open pl with
      | Some n => (mkC PDone h k, [AOnOpen (o_id o) (get_capabilities o); AWrite (notif_encode n);
                                   ACloseConn; AStopHold; AReturn 1 (ENotifOut n)])
      | None =>
          (mkC PWaitOC (negotiated cf o) k,
           [AOnOpen (o_id o) (get_capabilities o); AWrite keepalive_encode]
           ++ (if negotiated cf o =? 0 then [AStopHold]
               else [AArmKA (negotiated cf o / 3); AArmHold (negotiated cf o)])
           ++ [AReturn 5 ENone])
      end
  end.
Proof. exact open_in_opensent. Qed.
Print Assumptions c06_open_accept_timers.

(* expiry: NOTIFICATION (Hold Timer Expired), close, Idle — in OpenConfirm and Established *)
Theorem c06_hold_expiry : forall cf pl st,
  (c_phase st = POpenConfirm \/ c_phase st = PEstablished) -> c_holdns st <> 0 ->
  conn_step cf pl st IHold =
  (mkC PDone (c_holdns st) (c_nupd st),
   [AWrite (notif_encode (mkNotif 4 0 []))] ++ teardown (c_phase st) ++ [AReturn 1 (ENotifOut (mkNotif 4 0 []))]).
Proof. exact hold_expiry. Qed.
Print Assumptions c06_hold_expiry.

(* keep-alive timer: send KEEPALIVE and re-arm with a third of the hold time *)
Theorem c06_keepalive_timer : forall cf pl st,
  (c_phase st = POpenConfirm \/ c_phase st = PEstablished) -> c_holdns st <> 0 ->
  conn_step cf pl st IKA = (st, [AWrite keepalive_encode; AArmKA (c_holdns st / 3)]).
Proof. exact keepalive_timer. Qed.
Print Assumptions c06_keepalive_timer.

(* zero: no timer is ever armed, timer events do nothing *)
Theorem c06_zero_hold : forall cf pl st i,
  c_holdns st = 0 -> c_phase st <> POpenSent ->
  existsb arms (snd (conn_step cf pl st i)) = false
  /\ c_holdns (fst (conn_step cf pl st i)) = 0
  /\ ((i = IHold \/ i = IKA) -> conn_step cf pl st i = (st, [])).
Proof. exact zero_hold_no_timers. Qed.
Print Assumptions c06_zero_hold.

(* ---- timed runs (Timed.v): every timed run of any length; timers never fire early ---- *)
From Coq Require Import List. Import ListNotations.
From Verif Require Import Timed TimedProofs.

(* never torn down for hold-timer expiry earlier than the hold time after the last accepted
   OPEN / KEEPALIVE / UPDATE *)
Theorem c06_no_early_expiry : forall cf pl ts d r,
  reachable_t cf pl ts -> up (c_phase (ts_conn ts)) = true -> c_holdns (ts_conn ts) <> 0 ->
  tstep cf pl ts d IHold = Some r ->
  ts_last_rx ts + c_holdns (ts_conn ts) <= ts_now ts + d.
Proof. exact no_early_expiry. Qed.
Print Assumptions c06_no_early_expiry.

(* once it fires (the remote was silent that long): Hold Timer Expired, close, session over *)
Theorem c06_expiry_action : forall cf pl ts d ts' acts,
  (c_phase (ts_conn ts) = POpenConfirm \/ c_phase (ts_conn ts) = PEstablished) -> c_holdns (ts_conn ts) <> 0 ->
  tstep cf pl ts d IHold = Some (ts', acts) ->
  acts = [AWrite (notif_encode (mkNotif 4 0 []))] ++ teardown (c_phase (ts_conn ts))
         ++ [AReturn 1 (ENotifOut (mkNotif 4 0 []))]
  /\ c_phase (ts_conn ts') = PDone.
Proof. exact expiry_action. Qed.
Print Assumptions c06_expiry_action.

(* while the session is up the keep-alive timer is armed with a deadline at most a third of the hold
   time after the last KEEPALIVE; served within L, never more than H/3 + L passes without one *)
Theorem c06_keepalive_cadence : forall cf pl ts d L,
  reachable_t cf pl ts -> up (c_phase (ts_conn ts)) = true -> c_holdns (ts_conn ts) <> 0 ->
  served_within L ts d ->
  ts_now ts + d <= ts_last_ka ts + c_holdns (ts_conn ts) / 3 + L.
Proof. exact keepalive_cadence. Qed.
Print Assumptions c06_keepalive_cadence.

Theorem c06_keepalive_fire : forall cf pl ts d ts' acts,
  (c_phase (ts_conn ts) = POpenConfirm \/ c_phase (ts_conn ts) = PEstablished) -> c_holdns (ts_conn ts) <> 0 ->
  tstep cf pl ts d IKA = Some (ts', acts) ->
  acts = [AWrite keepalive_encode; AArmKA (c_holdns (ts_conn ts) / 3)]
  /\ ts_ka ts' = Some (ts_now ts + d + c_holdns (ts_conn ts) / 3) /\ ts_last_ka ts' = ts_now ts + d.
Proof. exact keepalive_fire. Qed.
Print Assumptions c06_keepalive_fire.

(* hold time 0: neither timer can ever fire while the session is up *)
Theorem c06_zero_never_fires : forall cf pl ts d i,
  reachable_t cf pl ts -> up (c_phase (ts_conn ts)) = true -> c_holdns (ts_conn ts) = 0 ->
  (i = IHold \/ i = IKA) -> tstep cf pl ts d i = None.
Proof. exact zero_hold_never_fires. Qed.
Print Assumptions c06_zero_never_fires.

(* non-vacuity: local hold 9 s, remote proposes 30 s; OPEN accepted at 1 s, approved, KEEPALIVE at 2 s,
   approved (Established), keep-alive timer fires at 4 s, UPDATE at 10 s; the hold timer cannot fire
   at 18.9 s (None) and does at 19 s *)
Example c06_timed_example :
  let cf := mkConf 167772161 65001 65000 9 in
  let pl := mkPlug None (fun _ => None) [] in
  let o := mkOpen 4 65000 30 167772162 [[mkCap 65 [0;0;253;232]]] in
  let s := 1000000000 in
  let pre := [(1 * s, IRd (RMsg (MOpen o))); (0, IApprove); (1 * s, IRd (RMsg MKeepalive)); (0, IApprove);
              (2 * s, IKA); (6 * s, IRd (RMsg (MUpdate [0;0;0;0])))] in
  match trun cf pl (tinit 0) pre with
  | Some ts => c_phase (ts_conn ts) = PEstablished /\ c_holdns (ts_conn ts) = 9 * s /\ ts_last_rx ts = 10 * s
               /\ tstep cf pl ts (89 * s / 10) IHold = None
               /\ (exists r, tstep cf pl ts (9 * s) IHold = Some r)
  | None => False
  end.
Proof. vm_compute. repeat split. eexists. reflexivity. Qed.

(* ---- timed runs with local WriteUpdate calls (TimedW.v): every interleaving of the connection's own inputs,
        plugin writes and the keep-alive manager serving their reset requests ---- *)
From Verif Require Import TimedW TimedWProofs.

(* "never lets more than about one third of the hold time pass without sending a KEEPALIVE or UPDATE", for all
   local WriteUpdate patterns: the keep-alive timer is armed with a deadline at most H/3 + (largest latency between an
   UPDATE write and the manager serving its reset) after the last KEEPALIVE or UPDATE written; served within L *)
Theorem c06_cadence_with_writes : forall cf pl xs d L,
  reachable_x cf pl xs -> up (c_phase (ts_conn (xs_t xs))) = true -> c_holdns (ts_conn (xs_t xs)) <> 0 ->
  served_within L (xs_t xs) d ->
  ts_now (xs_t xs) + d <= last_tx xs + c_holdns (ts_conn (xs_t xs)) / 3 + xs_maxlat xs + L.
Proof. exact x_keepalive_cadence. Qed.
Print Assumptions c06_cadence_with_writes.

Theorem c06_armed_with_writes : forall cf pl xs,
  reachable_x cf pl xs -> up (c_phase (ts_conn (xs_t xs))) = true -> c_holdns (ts_conn (xs_t xs)) <> 0 ->
  exists dl, ts_ka (xs_t xs) = Some dl /\ dl <= last_tx xs + c_holdns (ts_conn (xs_t xs)) / 3 + xs_maxlat xs.
Proof. exact x_keepalive_armed. Qed.
Print Assumptions c06_armed_with_writes.

(* local writes never make the hold timer fire early (they restart the keep-alive timer only) *)
Theorem c06_no_early_expiry_with_writes : forall cf pl xs d r,
  reachable_x cf pl xs -> up (c_phase (ts_conn (xs_t xs))) = true -> c_holdns (ts_conn (xs_t xs)) <> 0 ->
  xstep cf pl xs d (XConn IHold) = Some r ->
  ts_last_rx (xs_t xs) + c_holdns (ts_conn (xs_t xs)) <= ts_now (xs_t xs) + d.
Proof. exact x_no_early_expiry. Qed.
Print Assumptions c06_no_early_expiry_with_writes.

Theorem c06_reset_action : forall cf pl xs d k xs' acts,
  c_holdns (ts_conn (xs_t xs)) <> 0 -> xstep cf pl xs d (XReset k) = Some (xs', acts) ->
  acts = [AArmKA (c_holdns (ts_conn (xs_t xs)) / 3)]
  /\ ts_ka (xs_t xs') = Some (ts_now (xs_t xs) + d + c_holdns (ts_conn (xs_t xs)) / 3)
  /\ ts_conn (xs_t xs') = ts_conn (xs_t xs) /\ ts_hold (xs_t xs') = ts_hold (xs_t xs).
Proof. exact x_reset_action. Qed.
Print Assumptions c06_reset_action.

(* hold time 0 and local writes: nothing is armed, nothing fires *)
Theorem c06_zero_with_writes : forall cf pl xs d,
  reachable_x cf pl xs -> up (c_phase (ts_conn (xs_t xs))) = true -> c_holdns (ts_conn (xs_t xs)) = 0 ->
  xstep cf pl xs d (XConn IHold) = None /\ xstep cf pl xs d (XConn IKA) = None
  /\ (forall k xs' acts, xstep cf pl xs d (XReset k) = Some (xs', acts) ->
        acts = [] /\ ts_ka (xs_t xs') = None /\ ts_hold (xs_t xs') = None /\ xs_resets xs' = xs_resets xs)
  /\ (forall b xs' acts, xstep cf pl xs d (XWrite b) = Some (xs', acts) ->
        ts_ka (xs_t xs') = None /\ ts_hold (xs_t xs') = None).
Proof. exact x_zero_hold. Qed.
Print Assumptions c06_zero_with_writes.

Theorem c06_resets_le_writes : forall cf pl xs, reachable_x cf pl xs -> xs_resets xs <= xs_writes xs.
Proof. exact x_resets_le_writes. Qed.
Print Assumptions c06_resets_le_writes.

(* non-vacuity: hold 9 s; Established at 2 s with one UPDATE written inside OnEstablished; a plugin write at 3 s;
   the manager serves the two resets at 3.5 s and 3.6 s (out of order); deadline = 3.6 s + 3 s; the timer cannot
   fire at 6.5 s and does at 6.6 s; largest latency 1.6 s (the write at 2 s served at 3.6 s) *)
Example c06_writes_example :
  let cf := mkConf 167772161 65001 65000 9 in
  let pl := mkPlug None (fun _ => None) [[0;0;0;0]] in
  let o := mkOpen 4 65000 30 167772162 [[mkCap 65 [0;0;253;232]]] in
  let s := 1000000000 in
  let pre := [(1 * s, XConn (IRd (RMsg (MOpen o)))); (0, XConn IApprove); (1 * s, XConn (IRd (RMsg MKeepalive)));
              (0, XConn IApprove); (1 * s, XWrite [0;0;0;0]); (s / 2, XReset 1); (s / 10, XReset 0)] in
  match xrun cf pl (xinit 0) pre with
  | Some (xs, _) => c_phase (ts_conn (xs_t xs)) = PEstablished /\ xs_writes xs = 2 /\ xs_resets xs = 2
               /\ xs_pending xs = [] /\ xs_maxlat xs = 16 * s / 10 /\ last_tx xs = 3 * s
               /\ ts_ka (xs_t xs) = Some (66 * s / 10)
               /\ xstep cf pl xs (29 * s / 10) (XConn IKA) = None
               /\ (exists r, xstep cf pl xs (3 * s) (XConn IKA) = Some r)
  | None => False
  end.
Proof. vm_compute. repeat split. eexists. reflexivity. Qed.

(* the tie's runner for these theorems (extracted op 62: every reset token served at once) is a conservative extension of the
   runner every other connection-level comparison uses (op 60): same actions in the same order apart from additional
   keep-alive arm operations, on every input sequence without timer expiries *)
From Verif Require Import Dispatch TimedWTie.
Theorem c06_op62_conservative : forall cf pl ins xs,
  forallb no_timer ins = true ->
  ts_conn (xs_t (fst (xrun_auto cf pl xs ins))) = fst (conn_run_auto cf pl (ts_conn (xs_t xs)) ins)
  /\ filter not_armka (snd (xrun_auto cf pl xs ins)) = filter not_armka (snd (conn_run_auto cf pl (ts_conn (xs_t xs)) ins)).
Proof. exact xrun_auto_conservative. Qed.
Print Assumptions c06_op62_conservative.

(* the latency term cannot be dropped: the manager re-arms from the instant it serves the token, so a reachable state has its
   keep-alive deadline later than last-KEEPALIVE-or-UPDATE + H/3 (by the 0.6 s the token waited, in this run).  This is why the
   property says "about" a third; on the implementation the wait is a goroutine rendezvous (microseconds, measured by the live part) *)
Theorem c06_latency_term_is_needed : exists cf pl xs dl,
  reachable_x cf pl xs /\ up (c_phase (ts_conn (xs_t xs))) = true /\ c_holdns (ts_conn (xs_t xs)) <> 0
  /\ ts_ka (xs_t xs) = Some dl /\ last_tx xs + c_holdns (ts_conn (xs_t xs)) / 3 < dl.
Proof.
  pose (cf := mkConf 167772161 65001 65000 9).
  pose (pl := mkPlug None (fun _ => None) []).
  pose (o := mkOpen 4 65000 30 167772162 [[mkCap 65 [0;0;253;232]]]).
  pose (s := 1000000000).
  pose (ins := [(1 * s, XConn (IRd (RMsg (MOpen o)))); (0, XConn IApprove); (1 * s, XConn (IRd (RMsg MKeepalive)));
                (0, XConn IApprove); (1 * s, XWrite [0;0;0;0]); (6 * s / 10, XReset 0)]).
  destruct (xrun cf pl (xinit 0) ins) as [[xs acts]|] eqn:E; [|vm_compute in E; discriminate].
  exists cf, pl, xs, (66 * s / 10).
  split; [exists 0, ins, acts; exact E|].
  vm_compute in E. injection E as <- _. vm_compute. repeat split; try reflexivity. discriminate.
Qed.
Print Assumptions c06_latency_term_is_needed.

(* ... and when the plugin writes nothing inside OnEstablished the two runners perform exactly the same actions *)
Theorem c06_op62_exact : forall cf pl ins xs,
  pl_est_writes pl = [] -> xs_pending xs = [] -> forallb no_timer ins = true ->
  snd (xrun_auto cf pl xs ins) = snd (conn_run_auto cf pl (ts_conn (xs_t xs)) ins).
Proof. exact xrun_auto_exact. Qed.
Print Assumptions c06_op62_exact.
