(* C06 — hold time negotiation, hold-timer expiry and keepalive cadence (timer logic). *)
From Verif Require Import Base Consts Packet PacketSpec Conn ConnProofs.

(* hold time in force = min(local, received); on acceptance the keep-alive timer is armed with a
   third of it and the hold timer with it, or, when it is zero, the hold timer is stopped *)
Theorem c06_negotiated : forall cf o, negotiated cf o = N.min (cf_hold cf) (o_hold o) * second.
Proof. exact negotiated_min. Qed.
Print Assumptions c06_negotiated.

Theorem c06_open_accept_timers : forall cf pl h k o,
  conn_step cf pl (mkC POpenSent h k) (IRd (RMsg (MOpen o))) =
  match open_validate (cf_lid cf) (cf_las cf) (cf_ras cf) o with
  | Some n => (mkC PDone h k, [AWrite (notif_encode n); ACloseConn; AStopHold; AReturn 1 (ENotifOut n)])
  | None =>
      match pl_on_open pl with
      | Some n => (mkC PDone h k, [AOnOpen (o_id o) (get_capabilities o); AWrite (notif_encode n);
                                   ACloseConn; AStopHold; AReturn 1 (ENotifOut n)])
      | None =>
          (mkC PWaitOC (negotiated cf o) k,
           [AOnOpen (o_id o) (get_capabilities o); AWrite keepalive_encode]
           ++ (if negotiated cf o =? 0 then [AStopHold]
               else [AArmKA (negotiated cf o / 3); AArmHold (negotiated cf o)])
           ++ [AReturn 5 ENone])
      end
  end.
Proof. exact open_in_opensent. Qed.
Print Assumptions c06_open_accept_timers.

(* expiry: NOTIFICATION (Hold Timer Expired), close, Idle — in OpenConfirm and Established *)
Theorem c06_hold_expiry : forall cf pl st,
  (c_phase st = POpenConfirm \/ c_phase st = PEstablished) -> c_holdns st <> 0 ->
  conn_step cf pl st IHold =
  (mkC PDone (c_holdns st) (c_nupd st),
   [AWrite (notif_encode (mkNotif 4 0 []))] ++ teardown (c_phase st) ++ [AReturn 1 (ENotifOut (mkNotif 4 0 []))]).
Proof. exact hold_expiry. Qed.
Print Assumptions c06_hold_expiry.

(* keep-alive timer: send KEEPALIVE and re-arm with a third of the hold time *)
Theorem c06_keepalive_timer : forall cf pl st,
  (c_phase st = POpenConfirm \/ c_phase st = PEstablished) -> c_holdns st <> 0 ->
  conn_step cf pl st IKA = (st, [AWrite keepalive_encode; AArmKA (c_holdns st / 3)]).
Proof. exact keepalive_timer. Qed.
Print Assumptions c06_keepalive_timer.

(* zero: no timer is ever armed, timer events do nothing *)
Theorem c06_zero_hold : forall cf pl st i,
  c_holdns st = 0 -> c_phase st <> POpenSent ->
  existsb arms (snd (conn_step cf pl st i)) = false
  /\ c_holdns (fst (conn_step cf pl st i)) = 0
  /\ ((i = IHold \/ i = IKA) -> conn_step cf pl st i = (st, [])).
Proof. exact zero_hold_no_timers. Qed.
Print Assumptions c06_zero_hold.
