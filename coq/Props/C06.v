From Verif Require Import Base.
