(* C12 — hold-down schedule: 60 s at first, doubling with each further protocol error up to
   300 s, back to 60 s once 300 s pass without one. *)
From Verif Require Import Base Consts Server ServerSpec ServerProofs.

(* a streak: the first error after >= 300 s of quiet (or the first ever), then errors each
   less than 300 s after the previous one: the i-th gets min(60 s * 2^i, 300 s) *)
Theorem c12_delay_schedule : forall t0 times d,
  (d_last d = None /\ d_delay d = 0) \/ (exists t, d_last d = Some t /\ A <= t0 - t) ->
  streak_from t0 times ->
  forall i dl, nth_error (damp_run d (t0 :: times)) i = Some dl -> dl = spec_streak_delay i.
Proof. exact delay_schedule. Qed.
Print Assumptions c12_delay_schedule.

Example c12_schedule_values :
  map spec_streak_delay [0; 1; 2; 3; 4]%nat = [sec 60; sec 120; sec 240; sec 300; sec 300].
Proof. exact schedule_values. Qed.
