(* C12 — hold-down schedule: 60 s at first, doubling with each further protocol error up to
   300 s, back to 60 s once 300 s pass without one. *)
From Verif Require Import Base Consts Server ServerSpec ServerProofs.

(* a streak: the first error after >= 300 s of quiet (or the first ever), then errors each
   less than 300 s after the previous one: the i-th gets min(60 s * 2^i, 300 s) *)
Theorem c12_delay_schedule : forall t0 times d,
  (d_last d = None /\ d_delay d = 0) \/ (exists t, d_last d = Some t /\ A <= t0 - t) ->
  streak_from t0 times ->
  forall i dl, nth_error (damp_run d (t0 :: times)) i = Some dl -> dl = spec_streak_delay i.
Proof. exact delay_schedule. Qed.
Print Assumptions c12_delay_schedule.

Example c12_schedule_values :
  map spec_streak_delay [0; 1; 2; 3; 4]%nat = [sec 60; sec 120; sec 240; sec 300; sec 300].
Proof. exact schedule_values. Qed.

(* peer manager (Layer C), every interleaving *)
From Coq Require Import List Bool.
From Verif Require Import Closure Peer PeerProofs PeerCorollaries.

(* while held down (manager at its loop) no FSM exists: both connections were dropped, nothing
   dials; inbound connections are refused (c13_busy) *)
Theorem c12_hold_down_no_fsm : forall p d s,
  reachable p d s -> at_loop s = true -> s_hold s = true -> fst (s_fsm s) = None /\ snd (s_fsm s) = None.
Proof. exact hold_down_no_fsm. Qed.
Print Assumptions c12_hold_down_no_fsm.

(* the retry timer is armed exactly while held down, so the period ends and the peer is retried *)
Theorem c12_hold_down_timer : forall p d s,
  reachable p d s -> at_loop s = true -> s_pclosed s = false -> s_hold s = s_timer s.
Proof. exact hold_down_timer. Qed.
Print Assumptions c12_hold_down_timer.

(* exactly an error of the damping kind (a NOTIFICATION other than Cease, sent or received)
   received by the manager schedules a hold-down; Cease, transport errors, stops never do *)
Theorem c12_only_protocol_errors : forall p d tr s l s',
  run sys label step (init p d) tr = Some s -> step s l = Some s' -> damp_ok s l s' = true.
Proof. exact damping_only_by_protocol_error. Qed.
Print Assumptions c12_only_protocol_errors.

(* recorded finding D14: the full statement "every protocol error an FSM has to report reaches the
   manager" is false of the faithful model; the witness trace is replayed on the implementation
   by scenario known.D14.error-dropped-by-stop *)
From Verif Require Import PeerFindings.
Theorem c12_every_protocol_error_reported_refuted : ~ every_protocol_error_reported.
Proof. exact error_report_refuted. Qed.
Print Assumptions c12_every_protocol_error_reported_refuted.

Theorem c12_error_reported_partial : forall p d tr s i,
  run sys label step (init p d) tr = Some s ->
  (match get (s_fsm s) i with Some f => f_closed f | None => false end) = false -> report_lost s i = false.
Proof. exact error_reported_partial. Qed.
Print Assumptions c12_error_reported_partial.
