(* C13 — only connections from configured peers to the configured address are served
   (admission decision of the server). *)
From Verif Require Import Base Consts Server ServerSpec ServerProofs.

Theorem c13_accepted_iff : forall s src dst dst_ok,
  (server_accepts s src dst dst_ok = HandTo src <->
   spec_accepts (abs s)
     (fun a => match lookup a (s_peers s) with
               | Some (_, o) => if is_valid (o_local o) then Some (o_local o) else None
               | None => None end) src dst dst_ok = true)
  /\ (server_accepts s src dst dst_ok = Refuse \/ server_accepts s src dst dst_ok = HandTo src).
Proof. exact accepts_spec. Qed.
Print Assumptions c13_accepted_iff.

(* peer side (Layer C), every interleaving: an inbound connection handed to the manager is
   refused exactly when an inbound FSM exists, the outbound FSM is Established or the peer is held
   down; a refused connection changes nothing; an accepted one creates the inbound FSM *)
From Coq Require Import List Bool.
From Verif Require Import Closure Peer PeerProofs PeerCorollaries.
Theorem c13_busy : forall p d tr s s',
  run sys label step (init p d) tr = Some s -> step s LMInConn = Some s' ->
  let busy := s_hold s || present (snd (s_fsm s)) || st_eqb (fst (s_state s)) Established in
  s_refused s' = busy /\ (busy = true -> core_eqb s s' = true)
  /\ (busy = false -> present (snd (s_fsm s')) = true /\ fconn (snd (s_fsm s')) = true).
Proof. exact refused_connection_inert. Qed.
Print Assumptions c13_busy.
