(* C13 — only connections from configured peers to the configured address are served
   (admission decision of the server). *)
From Verif Require Import Base Consts Server ServerSpec ServerProofs.

Theorem c13_admit_iff : forall s src dst dst_ok,
  (server_admit s src dst dst_ok = AdmitTo src <->
   spec_admit (abs s)
     (fun a => match lookup a (s_peers s) with
               | Some (_, o) => if is_valid (o_local o) then Some (o_local o) else None
               | None => None end) src dst dst_ok = true)
  /\ (server_admit s src dst dst_ok = Refuse \/ server_admit s src dst dst_ok = AdmitTo src).
Proof. exact admit_spec. Qed.
Print Assumptions c13_admit_iff.
