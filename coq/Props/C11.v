(* C11 — reconnection liveness and retry pacing after non-damping faults (logic part). *)
From Coq Require Import List Bool NArith.
Import ListNotations.
From Verif Require Import Closure Peer PeerProofs PeerCorollaries.

(* a passive peer never has an outbound FSM, hence never dials — in every reachable state *)
Theorem c11_passive_never_dials : forall d s, reachable true d s -> fst (s_fsm s) = None.
Proof. exact passive_never_dials. Qed.
Print Assumptions c11_passive_never_dials.

(* after an inbound session ends the inbound FSM is retired and the outbound FSM enabled at once *)
Theorem c11_resume : forall s t,
  st_ltb (t_to t) (t_from t) = true -> t_to t <> Established ->
  handle s DIn t = [OStop DIn; OEnable DOut].
Proof. exact inbound_down_resumes_outbound. Qed.
Print Assumptions c11_resume.

Theorem c11_enable_outbound : forall s,
  s_passive s = false -> fst (s_fsm s) = None ->
  fst (s_fsm (enable s DOut)) = Some (mkF (FOffer (mkT Disabled Idle)) false false false false).
Proof. exact enable_outbound. Qed.
Print Assumptions c11_enable_outbound.

(* a transport fault or Cease (an error that is not of the damping kind) never starts a hold-down *)
Theorem c11_no_damping : forall p d tr s l s',
  run sys label step (init p d) tr = Some s -> step s l = Some s' -> damp_ok s l s' = true.
Proof. exact damping_only_by_protocol_error. Qed.
Print Assumptions c11_no_damping.

(* ---- timed runs of the outbound FSM's Idle / Connect / Active states (Dial.v), any length ---- *)
From Coq Require Import List NArith. Import ListNotations.
From Verif Require Import Dial DialProofs.

(* every attempt made from Idle is at least the idle-hold time after the previous attempt made from Idle;
   every attempt made on connect-retry expiry at least the connect-retry time after the previous attempt *)
Theorem c11_dial_pacing : forall cf t0 ins s,
  drun cf (dinit t0) ins = Some s -> spaced cf (ds_dials s).
Proof. exact dial_pacing. Qed.
Print Assumptions c11_dial_pacing.

(* while every attempt is refused (none is made on connect-retry expiry) successive attempts are at least
   the idle-hold time apart: never back-to-back redialling *)
Theorem c11_refused_attempts_spaced : forall cf l,
  spaced cf l -> forallb (fun x => snd x) l = true -> consecutive_gap (dc_idle_hold cf) l.
Proof. exact refused_attempts_spaced. Qed.
Print Assumptions c11_refused_attempts_spaced.

(* non-vacuity: idle-hold 5 s, connect-retry 2 s: first attempt at once, refused; the next cannot be made
   at 4.9 s and is made at 5 s; a stalled attempt is abandoned and re-made when connect-retry expires *)
Local Open Scope N_scope.
Example c11_dial_example :
  let cf := mkDC 5000 2000 in
  drun cf (dinit 0) [(0, DIdleFire); (10, DDialErr); (4890, DIdleFire)] = None
  /\ (exists s, drun cf (dinit 0) [(0, DIdleFire); (10, DDialErr); (4990, DIdleFire); (2000, DRetryFireErr)] = Some s
                /\ map fst (ds_dials s) = [7000; 5000; 0]).
Proof. vm_compute. split; [reflexivity|eexists; split; reflexivity]. Qed.
