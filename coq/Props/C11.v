(* C11 — reconnection liveness and retry pacing after non-damping faults (logic part). *)
From Coq Require Import List Bool NArith.
Import ListNotations.
From Verif Require Import Closure Peer PeerProofs PeerCorollaries.

(* a passive peer never has an outbound FSM, hence never dials — in every reachable state *)
Theorem c11_passive_never_dials : forall d s, reachable true d s -> fst (s_fsm s) = None.
Proof. exact passive_never_dials. Qed.
Print Assumptions c11_passive_never_dials.

(* after an inbound session ends the inbound FSM is retired and the outbound FSM enabled at once *)
Theorem c11_resume : forall s t,
  st_ltb (t_to t) (t_from t) = true -> t_to t <> Established ->
  handle s DIn t = [OStop DIn; OEnable DOut].
Proof. exact inbound_down_resumes_outbound. Qed.
Print Assumptions c11_resume.

Theorem c11_enable_outbound : forall s,
  s_passive s = false -> fst (s_fsm s) = None ->
  fst (s_fsm (enable s DOut)) = Some (mkF (FOffer (mkT Disabled Idle)) false false false false).
Proof. exact enable_outbound. Qed.
Print Assumptions c11_enable_outbound.

(* a transport fault or Cease (an error that is not of the damping kind) never starts a hold-down *)
Theorem c11_no_damping : forall p d tr s l s',
  run sys label step (init p d) tr = Some s -> step s l = Some s' -> damp_ok s l s' = true.
Proof. exact damping_only_by_protocol_error. Qed.
Print Assumptions c11_no_damping.
