(* C15 — OPEN / NOTIFICATION / capability codecs round-trip and are strict.
   Property theorems only; proofs live in Proofs/PacketProofs.v. *)
From Verif Require Import Base Consts Packet PacketSpec PacketProofs.

(* every NOTIFICATION that fits a message reaches the wire as one well-formed
   message of type 3 carrying exactly code, subcode, data; decoding that body
   gives the notification back *)
Theorem c15_notif_roundtrip : forall n,
  notif_repr n = true ->
  spec_frame_parse (notif_encode n) = Some (3, spec_notif_body n)
  /\ notif_decode (spec_notif_body n) = Some n.
Proof. exact notif_roundtrip. Qed.
Print Assumptions c15_notif_roundtrip.

(* an accepted NOTIFICATION body is exactly code, subcode, data; re-encoding reproduces it *)
Theorem c15_notif_inverse : forall b n,
  notif_decode b = Some n -> spec_notif_body n = b /\ notif_body n = b.
Proof. exact notif_decode_inverse. Qed.
Print Assumptions c15_notif_inverse.

(* only bodies lacking the fixed fields are refused *)
Theorem c15_notif_reject_iff : forall b, notif_decode b = None <-> blen b < 2.
Proof. exact notif_decode_none_iff. Qed.
Print Assumptions c15_notif_reject_iff.

(* decode (encode o) = o for every representable OPEN *)
Theorem c15_open_roundtrip : forall o,
  open_repr o = true -> open_decode (spec_open_body o) = Ok o.
Proof. exact open_roundtrip. Qed.
Print Assumptions c15_open_roundtrip.

(* strictness: whatever the decoder accepts is the canonical encoding of a
   representable value: fixed fields present, every nested length octet equal
   to the bytes that follow, nothing left over *)
Theorem c15_open_strict : forall b o,
  wf_bytes b = true -> open_decode b = Ok o ->
  open_repr o = true /\ spec_open_body o = b.
Proof. exact open_decode_inverse. Qed.
Print Assumptions c15_open_strict.

(* re-encoding an accepted OPEN body reproduces it (as one well-formed message) *)
Theorem c15_open_reencode : forall b o,
  wf_bytes b = true -> open_decode b = Ok o ->
  open_encode o = Some (spec_frame_enc 1 b).
Proof. exact open_reencode. Qed.
Print Assumptions c15_open_reencode.

(* the encoder is the specification encoder on representable values *)
Theorem c15_open_encode_spec : forall o,
  open_repr o = true -> open_body o = Some (spec_open_body o).
Proof. exact open_body_spec. Qed.
Print Assumptions c15_open_encode_spec.

(* the decoder returns a value or an error for every byte string: no panic, no partial result *)
Theorem c15_open_total : forall b,
  wf_bytes b = true -> open_decode b <> Panic /\ open_decode b <> OutOfFuel.
Proof. exact open_decode_total. Qed.
Print Assumptions c15_open_total.

(* add-path tuples: round trip for send/receive 1..3 *)
Theorem c15_addpath_roundtrip : forall l,
  l <> [] -> forallb aptuple_repr l = true ->
  aptuples_decode (flat_map spec_aptuple_enc l) = Ok l.
Proof. exact aptuples_roundtrip. Qed.
Print Assumptions c15_addpath_roundtrip.

(* ... and nothing else is accepted *)
Theorem c15_addpath_strict : forall b l,
  wf_bytes b = true -> aptuples_decode b = Ok l ->
  l <> [] /\ forallb aptuple_repr l = true /\ flat_map spec_aptuple_enc l = b.
Proof. exact aptuples_decode_inverse. Qed.
Print Assumptions c15_addpath_strict.

Theorem c15_addpath_total : forall b,
  wf_bytes b = true -> aptuples_decode b <> Panic /\ aptuples_decode b <> OutOfFuel.
Proof. exact aptuples_decode_total. Qed.
Print Assumptions c15_addpath_total.

Theorem c15_addpath_cap : forall ts,
  forallb aptuple_repr ts = true ->
  addpath_cap ts = mkCap 69 (flat_map spec_aptuple_enc ts).
Proof. exact addpath_cap_spec. Qed.
Print Assumptions c15_addpath_cap.

(* multiprotocol capability: code 1, AFI(2) reserved(1)=0 SAFI(1) *)
Theorem c15_mp_cap : forall afi safi,
  afi < 65536 -> mp_cap afi safi = mkCap 1 [afi / 256; afi mod 256; 0; safi].
Proof. exact mp_cap_spec. Qed.
Print Assumptions c15_mp_cap.
