(* C14 — the OPEN corebgp sends reflects configuration and plugin capabilities. *)
From Verif Require Import Base Consts Packet PacketSpec OpenSpec OpenProofs.

(* For every configuration and capability list: if the intended OPEN (version 4,
   AS or AS_TRANS, hold time, router id, one capabilities parameter = 4-octet-AS
   capability then the plugin's capabilities minus code 65) is representable, the
   encoder emits exactly its canonical encoding as one well-formed message;
   otherwise it emits nothing. *)
Theorem c14_open_sent : forall asn hold id caps,
  cfg_wf asn hold id caps = true ->
  open_encode (new_open_message asn hold id caps) =
  if open_repr (intended_open asn hold id caps)
  then Some (spec_frame_enc 1 (spec_open_body (intended_open asn hold id caps)))
  else None.
Proof. exact open_sent_spec. Qed.
Print Assumptions c14_open_sent.

(* hence nothing malformed reaches the wire: whatever is emitted strict-parses as
   one OPEN message whose body decodes to the intended OPEN (all four nested
   length octets agree, by C15's strictness theorem) *)
Theorem c14_no_malformed : forall asn hold id caps m,
  cfg_wf asn hold id caps = true ->
  open_encode (new_open_message asn hold id caps) = Some m ->
  exists body, spec_frame_parse m = Some (1, body)
            /\ open_decode body = Ok (intended_open asn hold id caps).
Proof. exact open_sent_wellformed. Qed.
Print Assumptions c14_no_malformed.
