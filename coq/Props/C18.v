(* C18 — typed path-attribute decoders accept exactly well-formed attributes. *)
From Verif Require Import Base Consts Packet Errors Update PacketSpec UpdateSpec UpdateOracles AttrProofs.

(* attr_sound code flags b: the decoder accepts iff the Optional/Transitive bits are
   the RFC's and the value satisfies the RFC rule; on success the value re-encodes
   to the input (value_exact); on failure the error has the approach RFC 7606
   assigns and the RFC 4271 fallback subcode/data (spec_attr_failure). *)
Theorem c18_origin : forall flags b, flags < 256 -> wf_bytes b = true -> blen b < 65536 -> attr_sound 1 flags b.
Proof. exact origin_sound. Qed.
Print Assumptions c18_origin.

Theorem c18_next_hop_originator_id : forall code flags b,
  (code = 3 \/ code = 9) -> flags < 256 -> wf_bytes b = true -> blen b < 65536 -> attr_sound code flags b.
Proof. exact addr4_sound. Qed.
Print Assumptions c18_next_hop_originator_id.

Theorem c18_med_local_pref : forall code flags b,
  (code = 4 \/ code = 5) -> flags < 256 -> wf_bytes b = true -> blen b < 65536 -> attr_sound code flags b.
Proof. exact u32attr_sound. Qed.
Print Assumptions c18_med_local_pref.

Theorem c18_aggregator : forall flags b, flags < 256 -> wf_bytes b = true -> blen b < 65536 -> attr_sound 7 flags b.
Proof. exact aggregator_sound. Qed.
Print Assumptions c18_aggregator.

Theorem c18_communities : forall flags b, flags < 256 -> wf_bytes b = true -> blen b < 65536 -> attr_sound 8 flags b.
Proof. exact communities_sound. Qed.
Print Assumptions c18_communities.

Theorem c18_cluster_list : forall flags b, flags < 256 -> wf_bytes b = true -> blen b < 65536 -> attr_sound 10 flags b.
Proof. exact cluster_list_sound. Qed.
Print Assumptions c18_cluster_list.

Theorem c18_large_communities : forall flags b, flags < 256 -> wf_bytes b = true -> blen b < 65536 -> attr_sound 32 flags b.
Proof. exact large_communities_sound. Qed.
Print Assumptions c18_large_communities.

(* AS_PATH: accepted iff RFC flags and a sequence of well-formed segments; failure class/subcode;
   the decoded value is the LAST segment of each type ... *)
Theorem c18_as_path : forall flags b,
  flags < 256 -> wf_bytes b = true -> blen b < 65536 ->
  match attr_decode 2 flags b with
  | Ok v => flags_match flags (false, true) && rfc_value_ok 2 b = true
            /\ exists segs, aspath_segments b = Some segs
                            /\ v = VASPath (last_of 1 segs []) (last_of 2 segs [])
  | Err e => flags_match flags (false, true) && rfc_value_ok 2 b = false
             /\ spec_attr_failure 2 flags b e = true
  | _ => False
  end.
Proof. exact aspath_decode_spec. Qed.
Print Assumptions c18_as_path.

(* ... so "losing no AS number" holds when each segment type occurs at most once (partial) ... *)
Theorem c18_as_path_value_partial : forall flags b s q,
  flags < 256 -> wf_bytes b = true -> blen b < 65536 ->
  attr_decode 2 flags b = Ok (VASPath s q) ->
  forall segs, aspath_segments b = Some segs ->
  (count_type 1 segs <= 1)%nat -> (count_type 2 segs <= 1)%nat ->
  s = flat_map snd (filter (fun t => fst t =? 1) segs) /\ q = flat_map snd (filter (fun t => fst t =? 2) segs).
Proof. exact aspath_value_partial. Qed.
Print Assumptions c18_as_path_value_partial.

(* ... and the full statement is false of the code that exists: known finding D10 *)
Theorem c18_as_path_value_refuted :
  exists b s q segs, wf_bytes b = true /\ attr_decode 2 64 b = Ok (VASPath s q)
    /\ aspath_segments b = Some segs
    /\ s <> flat_map snd (filter (fun t => fst t =? 1) segs).
Proof. exact aspath_value_refuted. Qed.
Print Assumptions c18_as_path_value_refuted.

(* ATOMIC_AGGREGATE: what the code does (flags validated as Optional+Transitive) ... *)
Theorem c18_atomic_aggregate_partial : forall flags b,
  flags < 256 -> wf_bytes b = true -> blen b < 65536 ->
  match attr_decode 6 flags b with
  | Ok v => flags_match flags (true, true) && (blen b =? 0) = true /\ v = VAtomic
  | Err e => flags_match flags (true, true) && (blen b =? 0) = false
             /\ (flags_match flags (true, true) = false -> e = ETaw 6 (Some (mkNotif 3 4 (spec_attr_tlv 6 b))))
             /\ (flags_match flags (true, true) = true -> e = EDiscard 6 (Some (mkNotif 3 5 (spec_attr_tlv 6 b))))
  | _ => False
  end.
Proof. exact atomic_aggregate_partial. Qed.
Print Assumptions c18_atomic_aggregate_partial.

(* ... which refutes the RFC statement (well-known, 0x40): known finding D9 *)
Theorem c18_atomic_aggregate_refuted :
  exists flags b, flags < 256 /\ wf_bytes b = true
    /\ flags_match flags (false, true) && rfc_value_ok 6 b = true
    /\ attr_decode 6 flags b = Err (ETaw 6 (Some (mkNotif 3 4 [6; 0]))).
Proof. exact atomic_aggregate_refuted. Qed.
Print Assumptions c18_atomic_aggregate_refuted.

(* the flag accessors report the four high bits *)
Theorem c18_flag_accessors : forall p,
  p < 256 ->
  flag_optional p = N.testbit p 7 /\ flag_transitive p = N.testbit p 6
  /\ flag_partial p = N.testbit p 5 /\ flag_extlen p = N.testbit p 4.
Proof. exact flag_accessors_spec. Qed.
Print Assumptions c18_flag_accessors.
