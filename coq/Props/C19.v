(* C19 — prefix, NLRI, add-path and MP_REACH/MP_UNREACH decoders are exact. *)
From Verif Require Import Base Consts Packet Errors Update PacketSpec UpdateSpec PrefixProofs.

(* decoding returns exactly the encoded sequence of (length, address bits) *)
Theorem c19_prefixes_roundtrip : forall ipv6 ps,
  forallb (prefix_wf ipv6) ps = true -> decode_prefixes (spec_prefixes_enc ps) ipv6 = Ok ps.
Proof. exact prefixes_roundtrip. Qed.
Print Assumptions c19_prefixes_roundtrip.

(* never invents, drops or reorders a route; consumes the whole field *)
Theorem c19_prefixes_inverse : forall ipv6 b ps,
  wf_bytes b = true -> decode_prefixes b ipv6 = Ok ps ->
  forallb (prefix_wf ipv6) ps = true /\ spec_prefixes_enc ps = b.
Proof. exact prefixes_inverse. Qed.
Print Assumptions c19_prefixes_inverse.

(* fails exactly when the field is not the encoding of any list of well-formed
   prefixes (a length octet above 32/128, or the field ends inside an entry) *)
Theorem c19_prefixes_fail_iff : forall ipv6 b,
  wf_bytes b = true ->
  (decode_prefixes b ipv6 = Err tt <-> forall ps, forallb (prefix_wf ipv6) ps = true -> spec_prefixes_enc ps <> b).
Proof. exact prefixes_fail_iff. Qed.
Print Assumptions c19_prefixes_fail_iff.

Theorem c19_prefixes_total : forall ipv6 b,
  wf_bytes b = true -> decode_prefixes b ipv6 <> Panic /\ decode_prefixes b ipv6 <> OutOfFuel.
Proof. exact prefixes_total. Qed.
Print Assumptions c19_prefixes_total.

Theorem c19_addpath_roundtrip : forall ipv6 l,
  forallb (apprefix_wf ipv6) l = true ->
  decode_ap_prefixes (flat_map spec_apprefix_enc l) ipv6 = Ok l.
Proof. exact ap_prefixes_roundtrip. Qed.
Print Assumptions c19_addpath_roundtrip.

Theorem c19_addpath_inverse : forall ipv6 b l,
  wf_bytes b = true -> decode_ap_prefixes b ipv6 = Ok l ->
  forallb (apprefix_wf ipv6) l = true /\ flat_map spec_apprefix_enc l = b.
Proof. exact ap_prefixes_inverse. Qed.
Print Assumptions c19_addpath_inverse.

Theorem c19_addpath_total : forall ipv6 b,
  wf_bytes b = true -> decode_ap_prefixes b ipv6 <> Panic /\ decode_ap_prefixes b ipv6 <> OutOfFuel.
Proof. exact ap_prefixes_total. Qed.
Print Assumptions c19_addpath_total.

(* failures carry the notification the wrapper assigns (Invalid Network Field for NLRI,
   plain UPDATE Message Error for withdrawn routes and MP fields) *)
Theorem c19_wrapper_notifs : forall b ipv6 n l,
  (map_err (decode_prefixes b ipv6) n = Ok l <-> decode_prefixes b ipv6 = Ok l)
  /\ (forall n', map_err (decode_prefixes b ipv6) n = Err n' -> n' = n).
Proof. exact wrapper_notifs. Qed.
Print Assumptions c19_wrapper_notifs.

(* MP_REACH_NLRI: the callback gets AFI, SAFI, the next hop delimited by the length
   octet and everything after the reserved octet, iff the attribute is long
   enough; otherwise no callback and a session-reset-class error *)
Theorem c19_mp_reach : forall flags b cb,
  flags < 256 -> blen b < 65536 ->
  mp_reach flags b cb =
  Ok (let fe := spec_flag_err 14 flags b (true, false) in
      match b with
      | a1 :: a0 :: safi :: nh :: rest =>
          if nh + 1 <=? blen rest
          then (Some (MPReach (a1 * 256 + a0) safi (take nh rest) (drop (nh + 1) rest)), join2 fe cb)
          else (None, join2 fe (Some mp_len_notif))
      | _ => (None, join2 fe (Some mp_len_notif))
      end).
Proof. exact mp_reach_spec. Qed.
Print Assumptions c19_mp_reach.

Theorem c19_mp_unreach : forall flags b cb,
  flags < 256 -> blen b < 65536 ->
  mp_unreach flags b cb =
  Ok (let fe := spec_flag_err 15 flags b (true, false) in
      match b with
      | a1 :: a0 :: safi :: wd => (Some (MPUnreach (a1 * 256 + a0) safi wd), join2 fe cb)
      | _ => (None, join2 fe (Some mp_len_notif))
      end).
Proof. exact mp_unreach_spec. Qed.
Print Assumptions c19_mp_unreach.

Theorem c19_mp_short_session_reset : forall fe,
  has_notif_o (join2 fe (Some mp_len_notif)) = true.
Proof. exact mp_short_is_session_reset. Qed.
Print Assumptions c19_mp_short_session_reset.

(* IPv6 next hops: 16 or 32 octets only *)
Theorem c19_ipv6_nexthops : forall nh,
  (blen nh = 16 \/ blen nh = 32 ->
     exists l, decode_ipv6_nexthops nh = Ok l /\ concat l = nh /\ Forall (fun a => blen a = 16) l)
  /\ (blen nh <> 16 -> blen nh <> 32 -> decode_ipv6_nexthops nh = Err (mkNotif 3 0 [])).
Proof. exact ipv6_nexthops_spec. Qed.
Print Assumptions c19_ipv6_nexthops.
