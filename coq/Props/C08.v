(* C08 — receive-side header validation and stream framing. *)
From Verif Require Import Base Consts Packet PacketSpec Conn ConnProofs ReaderProofs PacketProofs.

(* messages are delimited solely by the length field, independent of segmentation *)
Theorem c08_segmentation_independent : forall chunks,
  snd (feed_all rinit chunks) = snd (feed rinit (concat chunks)).
Proof. exact chunking_invariance_init. Qed.
Print Assumptions c08_segmentation_independent.

(* every well-formed message preceding the rest of the stream is processed *)
Theorem c08_wellformed_prefix : forall l ms tail,
  Forall2 good_msg l ms ->
  parse (frames l ++ tail) = (let '(evs, r, st) := parse tail in (map RMsg ms ++ evs, r, st)).
Proof. exact parse_frames. Qed.
Print Assumptions c08_wellformed_prefix.

(* the first fault: exactly the messages before it, then its notification; nothing after *)
Theorem c08_first_fault : forall l ms bad tail e,
  Forall2 good_msg l ms -> read_one bad = RFault e ->
  fst (fst (parse (frames l ++ bad ++ tail))) = map RMsg ms ++ [e]
  /\ snd (parse (frames l ++ bad ++ tail)) = true.
Proof. exact first_fault. Qed.
Print Assumptions c08_first_fault.

Theorem c08_bad_marker : forall s,
  19 <= blen s -> take 16 s <> marker -> read_one s = RFault (RErrNotif (mkNotif 1 1 [])).
Proof. exact read_one_bad_marker. Qed.
Print Assumptions c08_bad_marker.

Theorem c08_bad_length : forall l1 l0 t rest,
  let len := l1 * 256 + l0 in (len < 19 \/ 4096 < len) ->
  read_one (marker ++ l1 :: l0 :: t :: rest) = RFault (RErrNotif (mkNotif 1 2 [])).
Proof. exact read_one_bad_len. Qed.
Print Assumptions c08_bad_length.

Theorem c08_bad_type : forall t body rest,
  blen body <= 4077 -> t < 256 -> (t < 1 \/ 4 < t) ->
  read_one (spec_frame_enc t body ++ rest) = RFault (RErrNotif (mkNotif 1 3 [t])).
Proof. exact read_one_bad_type. Qed.
Print Assumptions c08_bad_type.

(* in each of OpenSent/OpenConfirm/Established the reader's notification is written, then close *)
Theorem c08_notification_then_close : forall cf pl st n,
  live (c_phase st) = true ->
  conn_step cf pl st (IRd (RErrNotif n)) =
  (mkC PDone (c_holdns st) (c_nupd st),
   [AWrite (notif_encode n)] ++ teardown (c_phase st) ++ [AReturn 1 (ENotifOut n)]).
Proof. exact reader_notification_sent. Qed.
Print Assumptions c08_notification_then_close.

(* a NOTIFICATION reaches the wire with exactly its code, subcode and data *)
Theorem c08_notification_on_wire : forall n,
  notif_repr n = true ->
  spec_frame_parse (notif_encode n) = Some (3, spec_notif_body n)
  /\ notif_decode (spec_notif_body n) = Some n.
Proof. exact notif_roundtrip. Qed.
Print Assumptions c08_notification_on_wire.
