(* C01 — one Established session per peer; well-formed plugin callback history. *)
From Coq Require Import List Bool NArith.
Import ListNotations.
From Verif Require Import Closure Peer PeerProofs PeerCorollaries.
From Verif Require Base Conn ConnProofs.

(* Layer C: for every interleaving of the peer manager and the two FSM goroutines (any trace of any
   length of the transition system, for passive/active and dominant/non-dominant peers), the two
   FSMs are never both inside the Established state function — so OnEstablished/handler/OnClose
   of the two connections cannot overlap *)
Theorem c01_one_established : forall p d s,
  reachable p d s -> ~ (in_est (fst (s_fsm s)) = true /\ in_est (snd (s_fsm s)) = true).
Proof. exact mutual_exclusion. Qed.
Print Assumptions c01_one_established.

(* a transition to Established is approved only after the other FSM was stopped and its goroutine
   has finished (OStop = close closeCh and wait for doneCh) *)
Theorem c01_established_stops_other : forall s i t,
  t_to t = Established -> handle s i t = [OStop (other i); OReply i t].
Proof. exact established_stops_other. Qed.
Print Assumptions c01_established_stops_other.

(* by the time Close/DeletePeer returned (manager done) no FSM goroutine exists: every
   OnEstablished has had its OnClose (with c01_callbacks below) and no callback can start *)
Theorem c01_stopped_means_gone : forall p d s,
  reachable p d s -> s_mdone s = true ->
  fst (s_fsm s) = None /\ snd (s_fsm s) = None /\ s_ops s = [] /\ s_timer s = false.
Proof. exact stopped_means_gone. Qed.
Print Assumptions c01_stopped_means_gone.

(* Layer B, per connection and for every input sequence: OnOpenMessage at most once and before
   OnEstablished; handler calls only between OnEstablished and OnClose; OnClose exactly once for
   an Established session *)
Theorem c01_callbacks : forall cf pl ins,
  exists m', ConnProofs.mon_run (false, 0%N) (snd (Conn.conn_run cf pl Conn.cinit ins)) = Some m'
             /\ (Conn.c_phase (fst (Conn.conn_run cf pl Conn.cinit ins)) = Conn.PDone -> snd m' <> 1%N).
Proof. exact ConnProofs.callbacks_wellformed. Qed.
Print Assumptions c01_callbacks.
