(* C07 — connection collision is resolved per RFC 4271 6.8, in every arrival order. *)
From Coq Require Import List Bool NArith.
Import ListNotations.
From Verif Require Import Closure Peer PeerProofs PeerCorollaries.

(* the decision: when FSM i asks for OpenConfirm while the other FSM is in OpenConfirm, connection i
   survives iff it was initiated by the dominant speaker (i = outbound iff locally initiated);
   whichever FSM reaches OpenConfirm second *)
Theorem c07_decision : forall s i t,
  t_to t = OpenConfirm -> get (s_state s) (other i) = OpenConfirm ->
  (i = DIn -> st_ltb (t_to t) (t_from t) = false) ->
  handle s i t = if Bool.eqb (s_dominant s) (dir_eqb i DOut) then [OCollide i t] else [OStop i].
Proof. exact collision_decision. Qed.
Print Assumptions c07_decision.

Theorem c07_established_first : forall s i t,
  t_to t = OpenConfirm -> get (s_state s) (other i) = Established ->
  (i = DIn -> st_ltb (t_to t) (t_from t) = false) ->
  handle s i t = [OStop i].
Proof. exact established_first. Qed.
Print Assumptions c07_established_first.

(* all orders and timings (closure over every interleaving, including both outcomes of the
   three-way select): whenever the manager is back at its loop and the peer is not being shut
   down, at most one FSM is at or beyond OpenConfirm — exactly one connection survived *)
Theorem c07_resolved : forall p d s,
  reachable p d s -> at_loop s = true -> s_pclosed s = false ->
  ~ (ge_oc (fst (s_state s)) = true /\ ge_oc (snd (s_state s)) = true)
  /\ ~ (pc_ge_oc (fst (s_fsm s)) = true /\ pc_ge_oc (snd (s_fsm s)) = true).
Proof. exact collision_resolved. Qed.
Print Assumptions c07_resolved.

(* the loser gets Cease before its connection is closed (monitor bit never set) *)
Theorem c07_loser_ceased : forall p d s,
  reachable p d s -> fbad (fst (s_fsm s)) = false /\ fbad (snd (s_fsm s)) = false.
Proof. exact cease_before_close. Qed.
Print Assumptions c07_loser_ceased.
