(* C16 — UpdateDecoder partitions an UPDATE exactly as its length fields dictate. *)
From Verif Require Import Base Consts Packet Errors Update PacketSpec UpdateSpec UpdateProofs.

(* For every byte string and callbacks that return nil, the sequence of callback
   invocations (withdrawn bytes; each first-occurrence attribute in wire order with type,
   flags and value honouring Extended Length; later duplicates skipped; a repeated
   MP_REACH/MP_UNREACH aborts; an overrun ends attribute iteration but the NLRI is still
   delivered) is exactly the specification's spec_calls. *)
Theorem c16_calls : forall sc b,
  nil_script sc -> wf_bytes b = true ->
  exists e, update_decode sc b = Ok (spec_calls b, e).
Proof. exact decode_calls_spec. Qed.
Print Assumptions c16_calls.

(* length fields that overrun the message abort decoding before any callback runs,
   whatever the callbacks are *)
Theorem c16_overrun_first : forall sc b,
  wf_bytes b = true -> spec_sections b = None ->
  exists n, update_decode sc b = Ok ([], Some (ENotif n)).
Proof. exact decode_overrun_no_callback. Qed.
Print Assumptions c16_overrun_first.

(* a concrete, non-trivial instance: duplicate ORIGIN skipped, extended length honoured *)
Example c16_example :
  spec_calls [0; 1; 0;  0; 12;  64; 1; 1; 0;  64; 1; 1; 2;  80; 2; 0; 0;  8; 10]
  = [CWr [0]; CPa 1 64 [0]; CPa 2 80 []; CNl [8; 10]].
Proof. vm_compute. reflexivity. Qed.

(* for every callback behaviour the calls are the specification's, cut at the first callback error
   that contains a Notification (wire order, exact type/flags/value; nothing after the stop) *)
From Verif Require Import UpdateErrProofs.
Theorem c16_calls_any_callbacks : forall sc b,
  wf_bytes b = true -> exists e, update_decode sc b = Ok (spec_calls_script sc b, e).
Proof. exact decode_calls_any. Qed.
Print Assumptions c16_calls_any_callbacks.
