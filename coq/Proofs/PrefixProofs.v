(* PrefixProofs.v — C19: prefix / add-path prefix list decoders are exact
   inverses of the specification encoders; MP splitters; IPv6 next hops. *)
From Verif Require Import Base Consts Packet Errors Update PacketSpec UpdateSpec BaseLemmas PacketProofs.
From Coq Require Import ZifyN ZifyNat ZifyBool.
Ltac Zify.zify_post_hook ::= Z.div_mod_to_equations.

Definition addr_len (ipv6 : bool) : N := if ipv6 then 16 else 4.
Definition max_bits (ipv6 : bool) : N := if ipv6 then 128 else 32.

Lemma octets_of_le ipv6 bits : bits <= max_bits ipv6 -> octets_of bits <= addr_len ipv6.
Proof. unfold octets_of, max_bits, addr_len. destruct ipv6; lia. Qed.

Lemma all_zero_repeat n : all_zero (repeat 0 n) = true.
Proof. induction n; cbn; auto. Qed.

Lemma all_zero_eq b : all_zero b = true -> b = repeat 0 (length b).
Proof.
  induction b as [|x b IH]; cbn [all_zero forallb length repeat]; [reflexivity|]. intros H.
  apply andb_true_iff in H as [Hx H]. apply N.eqb_eq in Hx. subst x. f_equal. auto.
Qed.

Lemma wf_bytes_repeat0 n : wf_bytes (repeat 0 n) = true.
Proof. induction n; cbn; auto. Qed.

Lemma pad_to_restore n o addr :
  length addr = n -> all_zero (drop o addr) = true -> pad_to n (take o addr) = addr.
Proof.
  intros Hl Hz. unfold pad_to. rewrite <- (take_drop o addr) at 3. f_equal.
  rewrite (all_zero_eq _ Hz). f_equal. unfold take, drop. rewrite firstn_length, skipn_length. lia.
Qed.

(* the decoder's view of one prefix, in specification terms *)
Lemma decode_prefix_step ipv6 bl r :
  bl < 256 ->
  decode_prefix (bl :: r) ipv6 =
  if max_bits ipv6 <? bl then Err tt
  else if blen r <? octets_of bl then Err tt
  else Ok (mkPrefix bl (pad_to (N.to_nat (addr_len ipv6)) (take (octets_of bl) r)), drop (octets_of bl) r).
Proof.
  intros Hbl. unfold decode_prefix, max_bits, addr_len.
  destruct ipv6; cbn [negb andb orb].
  - destruct (128 <? bl) eqn:E; [reflexivity|].
    assert (Ho : u8 (bl + 7) / 8 = octets_of bl) by (unfold octets_of; rewrite u8_small by lia; reflexivity).
    rewrite Ho. destruct (blen r <? octets_of bl) eqn:E2; [reflexivity|].
    assert (octets_of bl <= 16) by (unfold octets_of; lia).
    destruct (16 <? octets_of bl) eqn:E3; [lia|].
    rewrite slice_to_spec, slice_from_spec by lia. reflexivity.
  - destruct (32 <? bl) eqn:E; [reflexivity|].
    assert (Ho : u8 (bl + 7) / 8 = octets_of bl) by (unfold octets_of; rewrite u8_small by lia; reflexivity).
    rewrite Ho. destruct (blen r <? octets_of bl) eqn:E2; [reflexivity|].
    assert (octets_of bl <= 4) by (unfold octets_of; lia).
    destruct (4 <? octets_of bl) eqn:E3; [lia|].
    rewrite slice_to_spec, slice_from_spec by lia. reflexivity.
Qed.

Lemma prefix_wf_parts ipv6 p :
  prefix_wf ipv6 p = true ->
  p_bits p <= max_bits ipv6 /\ blen (p_addr p) = addr_len ipv6 /\ wf_bytes (p_addr p) = true
  /\ all_zero (drop (octets_of (p_bits p)) (p_addr p)) = true.
Proof.
  unfold prefix_wf, max_bits, addr_len. intros H.
  apply andb_true_iff in H as [H Hz]. apply andb_true_iff in H as [H Hw]. apply andb_true_iff in H as [Hb Hl].
  destruct ipv6; repeat split; try assumption; lia.
Qed.

Lemma spec_prefix_enc_len ipv6 p :
  prefix_wf ipv6 p = true -> blen (spec_prefix_enc p) = 1 + octets_of (p_bits p).
Proof.
  intros H. apply prefix_wf_parts in H as (Hb & Hl & _ & _).
  unfold spec_prefix_enc. rewrite blen_cons, blen_take; [reflexivity|].
  pose proof (octets_of_le ipv6 _ Hb). lia.
Qed.

Lemma decode_prefix_enc ipv6 p rest :
  prefix_wf ipv6 p = true -> decode_prefix (spec_prefix_enc p ++ rest) ipv6 = Ok (p, rest).
Proof.
  intros H. pose proof (prefix_wf_parts _ _ H) as (Hb & Hl & Hw & Hz).
  pose proof (octets_of_le ipv6 _ Hb) as Ho.
  unfold spec_prefix_enc. cbn [app]. rewrite decode_prefix_step by (unfold max_bits in Hb; destruct ipv6; lia).
  destruct (max_bits ipv6 <? p_bits p) eqn:E; [lia|].
  assert (Hlt : blen (take (octets_of (p_bits p)) (p_addr p)) = octets_of (p_bits p)) by (apply blen_take; lia).
  set (a := take (octets_of (p_bits p)) (p_addr p)) in *.
  destruct (blen (a ++ rest) <? octets_of (p_bits p)) eqn:E2; [rewrite blen_app in E2; lia|].
  rewrite <- Hlt. rewrite take_app_exact, drop_app_exact. subst a.
  rewrite pad_to_restore; [destruct p; reflexivity| |assumption].
  unfold blen in Hl. lia.
Qed.

Lemma decode_prefix_inv ipv6 b p rest :
  wf_bytes b = true -> decode_prefix b ipv6 = Ok (p, rest) ->
  prefix_wf ipv6 p = true /\ b = spec_prefix_enc p ++ rest.
Proof.
  intros Hw H. destruct b as [|bl r]; [discriminate|].
  cbn [wf_bytes forallb] in Hw. apply andb_true_iff in Hw as [Hbl Hr]. apply wf_byte_lt in Hbl.
  rewrite decode_prefix_step in H by assumption.
  destruct (max_bits ipv6 <? bl) eqn:E; [discriminate|].
  destruct (blen r <? octets_of bl) eqn:E2; [discriminate|].
  injection H as <- <-.
  assert (Ho : octets_of bl <= addr_len ipv6) by (apply octets_of_le; lia).
  assert (Hlt : length (take (octets_of bl) r) = N.to_nat (octets_of bl)).
  { unfold take. rewrite firstn_length. unfold blen in E2. lia. }
  split.
  - unfold prefix_wf; cbn [p_bits p_addr]. unfold pad_to.
    rewrite wf_bytes_app, wf_bytes_take, wf_bytes_repeat0 by assumption.
    assert (Hd : drop (octets_of bl) (take (octets_of bl) r ++ repeat 0 (N.to_nat (addr_len ipv6) - length (take (octets_of bl) r)))
                 = repeat 0 (N.to_nat (addr_len ipv6) - length (take (octets_of bl) r))).
    { unfold drop. rewrite skipn_app, Hlt, Nat.sub_diag, skipn_all2 by lia. reflexivity. }
    rewrite Hd, all_zero_repeat. rewrite blen_app, blen_repeat. unfold blen. rewrite Hlt.
    unfold max_bits, addr_len in *. destruct ipv6; cbn [andb]; lia.
  - unfold spec_prefix_enc; cbn [p_bits p_addr app]. f_equal.
    unfold pad_to. unfold take at 1. rewrite firstn_app, Hlt, Nat.sub_diag. cbn [firstn].
    rewrite app_nil_r. fold (take (octets_of bl) (take (octets_of bl) r)).
    unfold take. rewrite firstn_firstn, Nat.min_id. symmetry. apply firstn_skipn.
Qed.

(* ---- lists ---- *)
Lemma decode_prefixes_loop_rt ipv6 : forall ps f,
  forallb (prefix_wf ipv6) ps = true -> (length (spec_prefixes_enc ps) < f)%nat ->
  decode_prefixes_loop f (spec_prefixes_enc ps) ipv6 = Ok ps.
Proof.
  induction ps as [|p ps IH]; intros f Hall Hf.
  - destruct f; [lia|]. reflexivity.
  - destruct f as [|f]; [lia|]. cbn [forallb] in Hall. apply andb_true_iff in Hall as [Hp Hall].
    unfold spec_prefixes_enc in *. cbn [flat_map decode_prefixes_loop].
    assert (E : 0 <? blen (spec_prefix_enc p ++ flat_map spec_prefix_enc ps) = true).
    { rewrite blen_app, (spec_prefix_enc_len ipv6) by assumption. lia. }
    rewrite E, decode_prefix_enc by assumption. cbn [rbind fst snd].
    rewrite IH; [reflexivity|assumption|].
    cbn [flat_map] in Hf. rewrite app_length in Hf.
    pose proof (spec_prefix_enc_len ipv6 p Hp) as Hl. unfold blen in Hl. lia.
Qed.

Lemma decode_prefixes_loop_inv ipv6 : forall f b ps,
  wf_bytes b = true -> decode_prefixes_loop f b ipv6 = Ok ps ->
  forallb (prefix_wf ipv6) ps = true /\ spec_prefixes_enc ps = b.
Proof.
  induction f as [|f IH]; intros b ps Hw H; [discriminate|].
  cbn [decode_prefixes_loop] in H. destruct (0 <? blen b) eqn:E.
  - destruct (decode_prefix b ipv6) as [[p rest]| | |] eqn:Ep; try discriminate. cbn [rbind fst snd] in H.
    apply decode_prefix_inv in Ep as [Hp Hb]; [|assumption].
    destruct (decode_prefixes_loop f rest ipv6) as [l| | |] eqn:El; try discriminate.
    cbn [rbind] in H. injection H as <-.
    apply IH in El as [Hall Henc].
    + split; [cbn; rewrite Hp; exact Hall|]. unfold spec_prefixes_enc in *. cbn [flat_map]. rewrite Henc. auto.
    + subst b. rewrite wf_bytes_app in Hw. apply andb_true_iff in Hw as [_ Hw]. exact Hw.
  - injection H as <-. split; [reflexivity|]. symmetry. apply blen_0. lia.
Qed.

Lemma decode_prefix_total ipv6 b :
  wf_bytes b = true -> decode_prefix b ipv6 <> Panic /\ decode_prefix b ipv6 <> OutOfFuel.
Proof.
  intros Hw. destruct b as [|bl r]; [split; discriminate|].
  cbn [wf_bytes forallb] in Hw. apply andb_true_iff in Hw as [Hbl Hr]. apply wf_byte_lt in Hbl.
  rewrite decode_prefix_step by assumption.
  destruct (max_bits ipv6 <? bl); [split; discriminate|].
  destruct (blen r <? octets_of bl); split; discriminate.
Qed.

Lemma decode_prefix_shrinks ipv6 b p rest :
  decode_prefix b ipv6 = Ok (p, rest) -> wf_bytes b = true -> (length rest < length b)%nat.
Proof.
  intros H Hw. apply decode_prefix_inv in H as [_ ->]; [|assumption].
  unfold spec_prefix_enc. cbn [app length]. rewrite app_length. lia.
Qed.

Lemma decode_prefixes_loop_total ipv6 : forall f b,
  wf_bytes b = true -> (length b < f)%nat ->
  decode_prefixes_loop f b ipv6 <> Panic /\ decode_prefixes_loop f b ipv6 <> OutOfFuel.
Proof.
  induction f as [|f IH]; intros b Hw Hf; [lia|].
  cbn [decode_prefixes_loop]. destruct (0 <? blen b); [|split; discriminate].
  destruct (decode_prefix_total ipv6 b Hw) as [T1 T2].
  destruct (decode_prefix b ipv6) as [[p rest]| | |] eqn:Ep; cbn [rbind fst snd]; try (split; congruence).
  pose proof (decode_prefix_shrinks _ _ _ _ Ep Hw) as Hs.
  pose proof Ep as Ep'. apply decode_prefix_inv in Ep' as [_ Hb]; [|assumption].
  destruct (IH rest) as [I1 I2]; [|lia|].
  - subst b. rewrite wf_bytes_app in Hw. apply andb_true_iff in Hw as [_ Hw]. exact Hw.
  - destruct (decode_prefixes_loop f rest ipv6); cbn [rbind]; split; congruence.
Qed.

Theorem prefixes_roundtrip ipv6 ps :
  forallb (prefix_wf ipv6) ps = true -> decode_prefixes (spec_prefixes_enc ps) ipv6 = Ok ps.
Proof. intros H. apply decode_prefixes_loop_rt; [assumption|lia]. Qed.

Theorem prefixes_inverse ipv6 b ps :
  wf_bytes b = true -> decode_prefixes b ipv6 = Ok ps ->
  forallb (prefix_wf ipv6) ps = true /\ spec_prefixes_enc ps = b.
Proof. intros Hw H. eapply decode_prefixes_loop_inv; eassumption. Qed.

Theorem prefixes_total ipv6 b :
  wf_bytes b = true -> decode_prefixes b ipv6 <> Panic /\ decode_prefixes b ipv6 <> OutOfFuel.
Proof. intros Hw. apply decode_prefixes_loop_total; [assumption|lia]. Qed.

(* failure exactly when no well-formed list encodes to the field *)
Theorem prefixes_fail_iff ipv6 b :
  wf_bytes b = true ->
  (decode_prefixes b ipv6 = Err tt <-> forall ps, forallb (prefix_wf ipv6) ps = true -> spec_prefixes_enc ps <> b).
Proof.
  intros Hw. split.
  - intros H ps Hall Henc. subst b. rewrite prefixes_roundtrip in H by assumption. discriminate.
  - intros H. destruct (prefixes_total ipv6 b Hw) as [T1 T2].
    destruct (decode_prefixes b ipv6) as [ps|[]| |] eqn:E; try congruence.
    apply prefixes_inverse in E as [Hall Henc]; [|assumption]. exfalso. eapply H; eassumption.
Qed.

(* ---- add-path prefix lists ---- *)
Lemma spec_apprefix_enc_len ipv6 a :
  apprefix_wf ipv6 a = true -> blen (spec_apprefix_enc a) = 5 + octets_of (p_bits (app_prefix a)).
Proof.
  unfold apprefix_wf. intros H. apply andb_true_iff in H as [_ H].
  unfold spec_apprefix_enc. rewrite blen_app, (spec_prefix_enc_len ipv6) by assumption.
  change (blen (be32 (app_id a))) with 4. lia.
Qed.

Lemma ap_step ipv6 f i3 i2 i1 i0 x r :
  decode_ap_prefixes_loop (S f) (i3 :: i2 :: i1 :: i0 :: x :: r) ipv6 =
  (do pr <- decode_prefix (x :: r) ipv6;
   do l <- decode_ap_prefixes_loop f (snd pr) ipv6;
   Ok (mkAPP (get32 i3 i2 i1 i0) (fst pr) :: l)).
Proof. reflexivity. Qed.

Lemma decode_ap_loop_rt ipv6 : forall l f,
  forallb (apprefix_wf ipv6) l = true -> (length (flat_map spec_apprefix_enc l) < f)%nat ->
  decode_ap_prefixes_loop f (flat_map spec_apprefix_enc l) ipv6 = Ok l.
Proof.
  induction l as [|a l IH]; intros f Hall Hf.
  - destruct f; [lia|]. reflexivity.
  - destruct f as [|f]; [lia|]. cbn [forallb] in Hall. apply andb_true_iff in Hall as [Ha Hall].
    pose proof Ha as Ha'. unfold apprefix_wf in Ha'. apply andb_true_iff in Ha' as [Hid Hp].
    cbn [flat_map]. unfold spec_apprefix_enc at 1. unfold be32, spec_prefix_enc. cbn [app].
    rewrite ap_step.
    change (p_bits (app_prefix a) :: take (octets_of (p_bits (app_prefix a))) (p_addr (app_prefix a)) ++ flat_map spec_apprefix_enc l)
      with (spec_prefix_enc (app_prefix a) ++ flat_map spec_apprefix_enc l).
    rewrite decode_prefix_enc by assumption. cbn [rbind fst snd].
    rewrite IH; [|assumption|].
    + cbn [rbind]. rewrite put32_get32_top by lia. destruct a; reflexivity.
    + cbn [flat_map] in Hf. rewrite app_length in Hf.
      pose proof (spec_apprefix_enc_len ipv6 a Ha) as Hl. unfold blen in Hl. lia.
Qed.

Lemma decode_ap_loop_inv ipv6 : forall f b l,
  wf_bytes b = true -> decode_ap_prefixes_loop f b ipv6 = Ok l ->
  forallb (apprefix_wf ipv6) l = true /\ flat_map spec_apprefix_enc l = b.
Proof.
  induction f as [|f IH]; intros b l Hw H; [discriminate|].
  destruct b as [|i3 [|i2 [|i1 [|i0 [|x r]]]]];
    try (cbn in H; discriminate); try (cbn in H; injection H as <-; split; reflexivity).
  rewrite ap_step in H.
  cbn [wf_bytes forallb] in Hw. repeat (apply andb_true_iff in Hw as [?Hb Hw]).
  repeat match goal with Hx : wf_byte _ = true |- _ => apply wf_byte_lt in Hx end.
  assert (Hwr : wf_bytes (x :: r) = true) by (cbn [wf_bytes forallb]; rewrite Hw; unfold wf_byte; lia).
  destruct (decode_prefix (x :: r) ipv6) as [[p rest]| | |] eqn:Ep; try discriminate. cbn [rbind fst snd] in H.
  apply decode_prefix_inv in Ep as [Hp Hb']; [|assumption].
  destruct (decode_ap_prefixes_loop f rest ipv6) as [l'| | |] eqn:El; try discriminate.
  cbn [rbind] in H. injection H as <-.
  apply IH in El as [Hall Henc].
  - split.
    + cbn [forallb]. rewrite Hall. unfold apprefix_wf; cbn [app_id app_prefix]. rewrite Hp.
      pose proof (get32_lt i3 i2 i1 i0 Hb Hb0 Hb1 Hb2). lia.
    + cbn [flat_map]. rewrite Henc. unfold spec_apprefix_enc; cbn [app_id app_prefix].
      unfold be32. rewrite be32_get32' by assumption. cbn [app]. rewrite Hb'. reflexivity.
  - rewrite Hb' in Hwr. rewrite wf_bytes_app in Hwr. apply andb_true_iff in Hwr as [_ Hwr]. exact Hwr.
Qed.

Lemma decode_ap_loop_total ipv6 : forall f b,
  wf_bytes b = true -> (length b < f)%nat ->
  decode_ap_prefixes_loop f b ipv6 <> Panic /\ decode_ap_prefixes_loop f b ipv6 <> OutOfFuel.
Proof.
  induction f as [|f IH]; intros b Hw Hf; [lia|].
  destruct b as [|i3 [|i2 [|i1 [|i0 [|x r]]]]]; try (cbn; split; discriminate).
  rewrite ap_step.
  assert (Hwr : wf_bytes (x :: r) = true).
  { cbn [wf_bytes forallb] in Hw. repeat (apply andb_true_iff in Hw as [?Hb Hw]).
    cbn [wf_bytes forallb]. rewrite Hw, Hb3. reflexivity. }
  destruct (decode_prefix_total ipv6 (x :: r) Hwr) as [T1 T2].
  destruct (decode_prefix (x :: r) ipv6) as [[p rest]| | |] eqn:Ep; cbn [rbind fst snd]; try (split; congruence).
  pose proof (decode_prefix_shrinks _ _ _ _ Ep Hwr) as Hs.
  pose proof Ep as Ep'. apply decode_prefix_inv in Ep' as [_ Hb]; [|assumption].
  destruct (IH rest) as [I1 I2].
  - rewrite Hb in Hwr. rewrite wf_bytes_app in Hwr. apply andb_true_iff in Hwr as [_ Hwr]. exact Hwr.
  - cbn [length] in *. lia.
  - destruct (decode_ap_prefixes_loop f rest ipv6); cbn [rbind]; split; congruence.
Qed.

Theorem ap_prefixes_roundtrip ipv6 l :
  forallb (apprefix_wf ipv6) l = true ->
  decode_ap_prefixes (flat_map spec_apprefix_enc l) ipv6 = Ok l.
Proof. intros H. apply decode_ap_loop_rt; [assumption|lia]. Qed.

Theorem ap_prefixes_inverse ipv6 b l :
  wf_bytes b = true -> decode_ap_prefixes b ipv6 = Ok l ->
  forallb (apprefix_wf ipv6) l = true /\ flat_map spec_apprefix_enc l = b.
Proof. intros Hw H. eapply decode_ap_loop_inv; eassumption. Qed.

Theorem ap_prefixes_total ipv6 b :
  wf_bytes b = true -> decode_ap_prefixes b ipv6 <> Panic /\ decode_ap_prefixes b ipv6 <> OutOfFuel.
Proof. intros Hw. apply decode_ap_loop_total; [assumption|lia]. Qed.

(* ---- wrappers: the notification a failure carries ---- *)
Theorem wrapper_notifs b ipv6 n l :
  (map_err (decode_prefixes b ipv6) n = Ok l <-> decode_prefixes b ipv6 = Ok l)
  /\ (forall n', map_err (decode_prefixes b ipv6) n = Err n' -> n' = n).
Proof.
  unfold map_err. destruct (decode_prefixes b ipv6); split; try (split; congruence); intros; congruence.
Qed.

(* ---- MP_REACH_NLRI / MP_UNREACH_NLRI splitters ---- *)
Lemma flags_validate_spec flags code b o t :
  flags < 256 -> blen b < 65536 ->
  flags_validate flags code b o t = spec_flag_err code flags b (o, t).
Proof.
  intros Hf Hb. unfold flags_validate, spec_flag_err, flags_match, flag_optional, flag_transitive. cbn [fst snd].
  assert (E1 : negb ((flags / 128) mod 2 =? 0) = (128 <=? flags mod 256)) by lia.
  assert (E2 : negb ((flags / 64) mod 2 =? 0) = (64 <=? flags mod 128)) by lia.
  rewrite E1, E2.
  assert (Hd : attr_err_data code b = spec_attr_tlv code b).
  { unfold attr_err_data, spec_attr_tlv, c_NOTIF_CODE_UPDATE_MESSAGE_ERR. cbn [app].
    destruct (255 <? blen b) eqn:E; destruct (blen b <=? 255) eqn:E'; try lia.
    - rewrite u16_small by lia. rewrite put16_be16 by lia. reflexivity.
    - rewrite u8_small by lia. reflexivity. }
  rewrite Hd.
  destruct (128 <=? flags mod 256), (64 <=? flags mod 128), o, t; reflexivity.
Qed.

Definition mp_len_notif : err := ENotif (mkNotif 3 5 []).

Theorem mp_reach_spec flags b cb :
  flags < 256 -> blen b < 65536 ->
  mp_reach flags b cb =
  Ok (let fe := spec_flag_err 14 flags b (true, false) in
      match b with
      | a1 :: a0 :: safi :: nh :: rest =>
          if nh + 1 <=? blen rest
          then (Some (MPReach (a1 * 256 + a0) safi (take nh rest) (drop (nh + 1) rest)), join2 fe cb)
          else (None, join2 fe (Some mp_len_notif))
      | _ => (None, join2 fe (Some mp_len_notif))
      end).
Proof.
  intros Hf Hb. unfold mp_reach. rewrite flags_validate_spec by assumption.
  change c_PATH_ATTR_MP_REACH_NLRI with 14.
  destruct b as [|a1 [|a0 [|safi [|nh rest]]]]; try reflexivity.
  assert (E : blen (a1 :: a0 :: safi :: nh :: rest) <? 5 = (blen rest <? 1)) by (rewrite !blen_cons; lia).
  rewrite E.
  destruct (blen rest <? 1) eqn:E1.
  - destruct (nh + 1 <=? blen rest) eqn:E2; [lia|reflexivity].
  - destruct (blen rest <? nh + 1) eqn:E2; destruct (nh + 1 <=? blen rest) eqn:E3; try lia; [reflexivity|].
    rewrite slice_to_spec, slice_from_spec by lia. reflexivity.
Qed.

Theorem mp_unreach_spec flags b cb :
  flags < 256 -> blen b < 65536 ->
  mp_unreach flags b cb =
  Ok (let fe := spec_flag_err 15 flags b (true, false) in
      match b with
      | a1 :: a0 :: safi :: wd => (Some (MPUnreach (a1 * 256 + a0) safi wd), join2 fe cb)
      | _ => (None, join2 fe (Some mp_len_notif))
      end).
Proof.
  intros Hf Hb. unfold mp_unreach. rewrite flags_validate_spec by assumption.
  destruct b as [|a1 [|a0 [|safi wd]]]; reflexivity.
Qed.

(* a too-short MP attribute is reported with a session-reset-class error *)
Theorem mp_short_is_session_reset fe : has_notif_o (join2 fe (Some mp_len_notif)) = true.
Proof. destruct fe; cbn; rewrite ?orb_true_r; reflexivity. Qed.

(* ---- IPv6 next hops ---- *)
Lemma chunks16_concat : forall f b, (length b < f)%nat -> concat (chunks16 f b) = b.
Proof.
  induction f as [|f IH]; intros b Hf; [lia|]. cbn [chunks16].
  destruct (0 <? blen b) eqn:E.
  - cbn [concat]. destruct (Nat.le_gt_cases (length b) 16) as [Hle|Hgt].
    + unfold take, drop. change (N.to_nat 16) with 16%nat.
      rewrite firstn_all2 by exact Hle. rewrite skipn_all2 by exact Hle.
      destruct f; cbn; rewrite app_nil_r; reflexivity.
    + rewrite IH; [apply take_drop|]. unfold drop. change (N.to_nat 16) with 16%nat.
      rewrite skipn_length. lia.
  - symmetry. apply blen_0. lia.
Qed.

Lemma chunks16_all16 : forall f b, (length b < f)%nat -> (length b mod 16 = 0)%nat ->
  Forall (fun a => blen a = 16) (chunks16 f b).
Proof.
  induction f as [|f IH]; intros b Hf Hm; [lia|]. cbn [chunks16].
  destruct (0 <? blen b) eqn:E; [|constructor].
  assert (Hge : (16 <= length b)%nat).
  { unfold blen in E. destruct (Nat.le_gt_cases 16 (length b)); [assumption|].
    rewrite Nat.mod_small in Hm by lia. lia. }
  constructor.
  - unfold take, blen. change (N.to_nat 16) with 16%nat. rewrite firstn_length. lia.
  - apply IH.
    + unfold drop. change (N.to_nat 16) with 16%nat. rewrite skipn_length. lia.
    + unfold drop. change (N.to_nat 16) with 16%nat. rewrite skipn_length.
      clear - Hm Hge. lia.
Qed.

Theorem ipv6_nexthops_spec nh :
  (blen nh = 16 \/ blen nh = 32 ->
     exists l, decode_ipv6_nexthops nh = Ok l /\ concat l = nh /\ Forall (fun a => blen a = 16) l)
  /\ (blen nh <> 16 -> blen nh <> 32 -> decode_ipv6_nexthops nh = Err (mkNotif 3 0 [])).
Proof.
  unfold decode_ipv6_nexthops. split.
  - intros H. exists (chunks16 (S (length nh)) nh).
    destruct (negb (blen nh =? 16) && negb (blen nh =? 32)) eqn:E; [lia|].
    split; [reflexivity|]. split; [apply chunks16_concat; lia|].
    apply chunks16_all16; [lia|]. unfold blen in H. destruct H as [H|H].
    + replace (length nh) with 16%nat by lia. reflexivity.
    + replace (length nh) with 32%nat by lia. reflexivity.
  - intros H1 H2. destruct (negb (blen nh =? 16) && negb (blen nh =? 32)) eqn:E; [reflexivity|lia].
Qed.
