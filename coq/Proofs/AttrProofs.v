(* AttrProofs.v — C18: the typed path-attribute decoders against the RFC table. *)
From Verif Require Import Base Consts Packet Errors Update PacketSpec OpenSpec UpdateSpec UpdateOracles
                          BaseLemmas PacketProofs PrefixProofs.
From Coq Require Import ZifyN ZifyNat ZifyBool.
Ltac Zify.zify_post_hook ::= Z.div_mod_to_equations.

(* ---- flag accessors: a finite sweep over all 256 octets ---- *)
Definition flags_sweep : bool :=
  forallb (fun p =>
    Bool.eqb (flag_optional p) (N.testbit p 7) && Bool.eqb (flag_transitive p) (N.testbit p 6)
    && Bool.eqb (flag_partial p) (N.testbit p 5) && Bool.eqb (flag_extlen p) (N.testbit p 4))
    (map N.of_nat (seq 0 256)).

Theorem flag_accessors_spec p :
  p < 256 ->
  flag_optional p = N.testbit p 7 /\ flag_transitive p = N.testbit p 6
  /\ flag_partial p = N.testbit p 5 /\ flag_extlen p = N.testbit p 4.
Proof.
  intros Hp. assert (Hs : flags_sweep = true) by (vm_compute; reflexivity).
  unfold flags_sweep in Hs. rewrite forallb_forall in Hs.
  specialize (Hs p). assert (Hin : In p (map N.of_nat (seq 0 256))).
  { apply in_map_iff. exists (N.to_nat p). split; [lia|]. apply in_seq. lia. }
  apply Hs in Hin. repeat (apply andb_true_iff in Hin as [Hin ?H]).
  repeat match goal with H : Bool.eqb _ _ = true |- _ => apply eqb_prop in H end.
  auto.
Qed.

(* ---- value lemmas ---- *)
Lemma be32_wf a b c d : a < 256 -> b < 256 -> c < 256 -> d < 256 -> be32 (get32 a b c d) = [a; b; c; d].
Proof. intros. unfold be32. apply be32_get32'; assumption. Qed.

Lemma wf4 a b c d r :
  wf_bytes (a :: b :: c :: d :: r) = true -> a < 256 /\ b < 256 /\ c < 256 /\ d < 256 /\ wf_bytes r = true.
Proof.
  cbn [wf_bytes forallb]. intros H. repeat (apply andb_true_iff in H as [?Hb H]).
  repeat match goal with Hx : wf_byte _ = true |- _ => apply wf_byte_lt in Hx end. auto.
Qed.

Lemma u32s_spec : forall n b,
  length b = (4 * n)%nat -> wf_bytes b = true ->
  flat_map be32 (u32s b) = b /\ forallb u32_ok (u32s b) = true /\ length (u32s b) = n.
Proof.
  induction n as [|n IH]; intros b Hl Hw.
  - destruct b; [|discriminate]. repeat split.
  - destruct b as [|a [|b0 [|c [|d r]]]]; try (cbn in Hl; lia).
    apply wf4 in Hw as (Ha & Hb & Hc & Hd & Hr).
    destruct (IH r) as (I1 & I2 & I3); [cbn [length] in Hl; lia|assumption|].
    cbn [u32s flat_map forallb length]. rewrite I1, I2, I3, be32_wf by assumption.
    unfold u32_ok. pose proof (get32_lt a b0 c d Ha Hb Hc Hd). repeat split; [lia].
Qed.

Lemma addrs4_spec : forall n b,
  length b = (4 * n)%nat ->
  concat (addrs4 b) = b /\ forallb (fun a => blen a =? 4) (addrs4 b) = true.
Proof.
  induction n as [|n IH]; intros b Hl.
  - destruct b; [|discriminate]. split; reflexivity.
  - destruct b as [|a [|b0 [|c [|d r]]]]; try (cbn in Hl; lia).
    destruct (IH r) as (I1 & I2); [cbn [length] in Hl; lia|].
    cbn [addrs4 concat forallb app]. rewrite I1, I2. split; reflexivity.
Qed.

Lemma large_set_spec : forall n b,
  length b = (12 * n)%nat -> wf_bytes b = true ->
  flat_map (fun t => be32 (fst (fst t)) ++ be32 (snd (fst t)) ++ be32 (snd t)) (large_set b) = b
  /\ forallb (fun t => u32_ok (fst (fst t)) && u32_ok (snd (fst t)) && u32_ok (snd t)) (large_set b) = true.
Proof.
  induction n as [|n IH]; intros b Hl Hw.
  - destruct b; [|discriminate]. split; reflexivity.
  - destruct b as [|a1 [|a2 [|a3 [|a4 [|b1 [|b2 [|b3 [|b4 [|c1 [|c2 [|c3 [|c4 r]]]]]]]]]]]];
      try (cbn in Hl; lia).
    apply wf4 in Hw as (? & ? & ? & ? & Hw). apply wf4 in Hw as (? & ? & ? & ? & Hw).
    apply wf4 in Hw as (? & ? & ? & ? & Hw).
    destruct (IH r) as (I1 & I2); [cbn [length] in Hl; lia|assumption|].
    cbn [large_set flat_map forallb fst snd]. rewrite I1, I2, !be32_wf by assumption.
    unfold u32_ok.
    pose proof (get32_lt a1 a2 a3 a4). pose proof (get32_lt b1 b2 b3 b4). pose proof (get32_lt c1 c2 c3 c4).
    split; [reflexivity|]. lia.
Qed.

Lemma len_mult (b : bytes) k : (0 < k)%nat -> blen b mod N.of_nat k = 0 -> exists n, length b = (k * n)%nat.
Proof.
  intros Hk H. unfold blen in H. exists (length b / k)%nat.
  assert (Hm : (length b mod k = 0)%nat).
  { apply Nat2N.inj. rewrite Nat2N.inj_mod. exact H. }
  pose proof (Nat.div_mod (length b) k). lia.
Qed.

(* the shape of a flag-conflict failure *)
Lemma flag_failure_ok code flags b want :
  rfc_flags code = Some want -> flags_match flags want = false ->
  spec_attr_failure code flags b (ETaw code (Some (mkNotif 3 4 (spec_attr_tlv code b)))) = true.
Proof.
  intros Hr Hf. unfold spec_attr_failure. rewrite Hr, Hf. cbn [negb].
  rewrite N.eqb_refl, beqb_refl. reflexivity.
Qed.

(* length-failure shapes *)
Lemma len_failure_taw code flags b want :
  rfc_flags code = Some want -> flags_match flags want = true -> rfc_approach code = AppTaw ->
  code <> 1 -> code <> 2 -> blen b < 65536 ->
  spec_attr_failure code flags b (taw_len code b) = true.
Proof.
  intros Hr Hf Ha H1 H2 Hb. unfold spec_attr_failure, taw_len, attr_len_err, upd_err.
  rewrite Hr, Hf, Ha. cbn [negb n_code n_sub n_data]. rewrite N.eqb_refl.
  change (c_NOTIF_CODE_UPDATE_MESSAGE_ERR =? 3) with true. cbn [andb].
  assert (Hd : attr_err_data code b = spec_attr_tlv code b).
  { unfold attr_err_data, spec_attr_tlv. cbn [app].
    destruct (255 <? blen b) eqn:E; destruct (blen b <=? 255) eqn:E'; try lia.
    - rewrite u16_small by lia. rewrite put16_be16 by lia. reflexivity.
    - rewrite u8_small by lia. reflexivity. }
  rewrite Hd, beqb_refl.
  destruct code as [|p]; [reflexivity|].
  destruct p as [[[|[]|]|[]|]|[[]|[]|]|]; try reflexivity; congruence.
Qed.

Lemma len_failure_discard code flags b want :
  rfc_flags code = Some want -> flags_match flags want = true -> rfc_approach code = AppDiscard ->
  code <> 1 -> code <> 2 -> blen b < 65536 ->
  spec_attr_failure code flags b (discard_len code b) = true.
Proof.
  intros Hr Hf Ha H1 H2 Hb. unfold spec_attr_failure, discard_len, attr_len_err, upd_err.
  rewrite Hr, Hf, Ha. cbn [negb n_code n_sub n_data]. rewrite N.eqb_refl.
  change (c_NOTIF_CODE_UPDATE_MESSAGE_ERR =? 3) with true. cbn [andb].
  assert (Hd : attr_err_data code b = spec_attr_tlv code b).
  { unfold attr_err_data, spec_attr_tlv. cbn [app].
    destruct (255 <? blen b) eqn:E; destruct (blen b <=? 255) eqn:E'; try lia.
    - rewrite u16_small by lia. rewrite put16_be16 by lia. reflexivity.
    - rewrite u8_small by lia. reflexivity. }
  rewrite Hd, beqb_refl.
  destruct code as [|p]; [reflexivity|].
  destruct p as [[[|[]|]|[]|]|[[]|[]|]|]; try reflexivity; congruence.
Qed.

Lemma attr_err_data_spec code b : blen b < 65536 -> attr_err_data code b = spec_attr_tlv code b.
Proof.
  intros Hb. unfold attr_err_data, spec_attr_tlv. cbn [app].
  destruct (255 <? blen b) eqn:E; destruct (blen b <=? 255) eqn:E'; try lia.
  - rewrite u16_small by lia. rewrite put16_be16 by lia. reflexivity.
  - rewrite u8_small by lia. reflexivity.
Qed.

Definition attr_sound (code flags : N) (b : bytes) : Prop :=
  match rfc_flags code with
  | None => True
  | Some want =>
    match attr_decode code flags b with
    | Ok v => flags_match flags want && rfc_value_ok code b = true /\ value_exact code b v = true
    | Err e => flags_match flags want && rfc_value_ok code b = false /\ spec_attr_failure code flags b e = true
    | _ => False
    end
  end.

Ltac eval_code_tests :=
  repeat match goal with
  | |- context [N.eqb ?x ?y] =>
      let r := eval vm_compute in (N.eqb x y) in
      match r with
      | true => change (N.eqb x y) with true
      | false => change (N.eqb x y) with false
      end
  end.

Ltac attr_start :=
  intros Hf Hw Hb; unfold attr_sound; cbn [rfc_flags];
  unfold attr_decode; eval_code_tests; cbv iota;
  rewrite flags_validate_spec by assumption; unfold spec_flag_err;
  match goal with |- context [flags_match ?f ?w] =>
    destruct (flags_match f w) eqn:Ef; cbn [andb];
    [|split; [reflexivity|eapply flag_failure_ok; [reflexivity|exact Ef]]]
  end.

Theorem origin_sound flags b : flags < 256 -> wf_bytes b = true -> blen b < 65536 -> attr_sound 1 flags b.
Proof.
  attr_start.
  destruct b as [|o [|x r]]; cbn [rfc_value_ok].
  - split; [reflexivity|]. unfold spec_attr_failure. cbn [rfc_flags]. rewrite Ef. cbn.
    reflexivity.
  - destruct (2 <? o) eqn:E.
    + split; [lia|]. unfold spec_attr_failure. cbn [rfc_flags]. rewrite Ef.
      rewrite attr_err_data_spec by assumption. cbn [negb rfc_approach n_code n_sub n_data upd_err].
      rewrite beqb_refl. reflexivity.
    + split; [lia|]. unfold value_exact. cbn. rewrite N.eqb_refl. reflexivity.
  - split; [reflexivity|]. unfold spec_attr_failure. cbn [rfc_flags]. rewrite Ef.
    rewrite attr_err_data_spec by assumption. cbn [negb rfc_approach n_code n_sub n_data upd_err].
    rewrite beqb_refl.
    replace (blen (o :: x :: r) =? 1) with false by (rewrite !blen_cons; lia). reflexivity.
Qed.

(* fixed-length-4 address attributes: NEXT_HOP (3), ORIGINATOR_ID (9) *)
Lemma addr4_sound code flags b :
  (code = 3 \/ code = 9) -> flags < 256 -> wf_bytes b = true -> blen b < 65536 -> attr_sound code flags b.
Proof.
  intros [-> | ->]; attr_start.
  all: destruct (blen b =? 4) eqn:E; cbn [negb rfc_value_ok];
    [split; [assumption|]; unfold value_exact; cbn; apply beqb_refl
    |split; [assumption|]; eapply len_failure_taw; [reflexivity|exact Ef|reflexivity|discriminate|discriminate|assumption]].
Qed.

(* 4-octet integers: MED (4), LOCAL_PREF (5) *)
Lemma u32attr_sound code flags b :
  (code = 4 \/ code = 5) -> flags < 256 -> wf_bytes b = true -> blen b < 65536 -> attr_sound code flags b.
Proof.
  intros [-> | ->]; attr_start.
  all: destruct b as [|a [|b0 [|c [|d [|e r]]]]]; cbn [rfc_value_ok];
    try (split; [rewrite ?blen_cons, ?blen_nil; try reflexivity; lia|];
         eapply len_failure_taw; [reflexivity|exact Ef|reflexivity|discriminate|discriminate|assumption]).
  all: apply wf4 in Hw as (Ha & Hb0 & Hc & Hd & _); split; [reflexivity|];
    unfold value_exact, u32_ok; cbn [value_shape_ok spec_attrval_enc andb];
    rewrite be32_wf, beqb_refl by assumption;
    pose proof (get32_lt a b0 c d Ha Hb0 Hc Hd); lia.
Qed.

Theorem aggregator_sound flags b : flags < 256 -> wf_bytes b = true -> blen b < 65536 -> attr_sound 7 flags b.
Proof.
  attr_start.
  destruct b as [|a [|b0 [|c [|d [|i3 [|i2 [|i1 [|i0 [|e r]]]]]]]]]; cbn [rfc_value_ok];
    try (split; [rewrite ?blen_cons, ?blen_nil; try reflexivity; lia|];
         eapply len_failure_discard; [reflexivity|exact Ef|reflexivity|discriminate|discriminate|assumption]).
  apply wf4 in Hw as (Ha & Hb0 & Hc & Hd & _). split; [reflexivity|].
  unfold value_exact, u32_ok. cbn [value_shape_ok spec_attrval_enc andb].
  rewrite be32_wf by assumption. cbn [app]. rewrite beqb_refl.
  pose proof (get32_lt a b0 c d Ha Hb0 Hc Hd). cbn. lia.
Qed.

Theorem communities_sound flags b : flags < 256 -> wf_bytes b = true -> blen b < 65536 -> attr_sound 8 flags b.
Proof.
  attr_start.
  destruct ((blen b <? 4) || negb (blen b mod 4 =? 0)) eqn:E; cbn [rfc_value_ok].
  - split; [lia|]. eapply len_failure_taw; [reflexivity|exact Ef|reflexivity|discriminate|discriminate|assumption].
  - split; [lia|]. destruct (len_mult b 4) as [n Hn]; [lia|lia|].
    destruct (u32s_spec n b Hn Hw) as (I1 & I2 & _).
    unfold value_exact. cbn [value_shape_ok spec_attrval_enc andb]. rewrite I1, I2, beqb_refl. reflexivity.
Qed.

Theorem cluster_list_sound flags b : flags < 256 -> wf_bytes b = true -> blen b < 65536 -> attr_sound 10 flags b.
Proof.
  attr_start.
  destruct ((blen b <? 4) || negb (blen b mod 4 =? 0)) eqn:E; cbn [rfc_value_ok].
  - split; [lia|]. eapply len_failure_taw; [reflexivity|exact Ef|reflexivity|discriminate|discriminate|assumption].
  - split; [lia|]. destruct (len_mult b 4) as [n Hn]; [lia|lia|].
    destruct (addrs4_spec n b Hn) as (I1 & I2).
    unfold value_exact. cbn [value_shape_ok spec_attrval_enc andb]. rewrite I1, I2, beqb_refl. reflexivity.
Qed.

Theorem large_communities_sound flags b : flags < 256 -> wf_bytes b = true -> blen b < 65536 -> attr_sound 32 flags b.
Proof.
  attr_start.
  destruct ((blen b <? 12) || negb (blen b mod 12 =? 0)) eqn:E; cbn [rfc_value_ok].
  - split; [lia|]. eapply len_failure_taw; [reflexivity|exact Ef|reflexivity|discriminate|discriminate|assumption].
  - split; [lia|]. destruct (len_mult b 12) as [n Hn]; [lia|lia|].
    destruct (large_set_spec n b Hn Hw) as (I1 & I2).
    unfold value_exact. cbn [value_shape_ok spec_attrval_enc andb]. rewrite I1, I2, beqb_refl. reflexivity.
Qed.

(* ---- ATOMIC_AGGREGATE: the code validates the flags as Optional+Transitive (finding D9) ---- *)
Theorem atomic_aggregate_partial flags b :
  flags < 256 -> wf_bytes b = true -> blen b < 65536 ->
  match attr_decode 6 flags b with
  | Ok v => flags_match flags (true, true) && (blen b =? 0) = true /\ v = VAtomic
  | Err e => flags_match flags (true, true) && (blen b =? 0) = false
             /\ (flags_match flags (true, true) = false -> e = ETaw 6 (Some (mkNotif 3 4 (spec_attr_tlv 6 b))))
             /\ (flags_match flags (true, true) = true -> e = EDiscard 6 (Some (mkNotif 3 5 (spec_attr_tlv 6 b))))
  | _ => False
  end.
Proof.
  intros Hf Hw Hb. unfold attr_decode. eval_code_tests. cbv iota.
  rewrite flags_validate_spec by assumption. unfold spec_flag_err.
  destruct (flags_match flags (true, true)) eqn:Ef; cbn [andb].
  - destruct (blen b =? 0) eqn:E; cbn [negb].
    + split; reflexivity.
    + split; [reflexivity|]. split; [discriminate|]. intros _.
      unfold discard_len, attr_len_err, upd_err. rewrite attr_err_data_spec by assumption. reflexivity.
  - split; [reflexivity|]. split; [reflexivity|discriminate].
Qed.

(* the full statement (RFC flags: well-known, transitive) is false of the code that exists *)
Theorem atomic_aggregate_refuted :
  exists flags b, flags < 256 /\ wf_bytes b = true
    /\ flags_match flags (false, true) && rfc_value_ok 6 b = true
    /\ attr_decode 6 flags b = Err (ETaw 6 (Some (mkNotif 3 4 [6; 0]))).
Proof. exists 64, []. vm_compute. repeat split; reflexivity. Qed.

(* ---- AS_PATH ---- *)
Fixpoint last_of (t : N) (segs : list (N * list N)) (dflt : list N) : list N :=
  match segs with
  | [] => dflt
  | (t', l) :: r => last_of t r (if t' =? t then l else dflt)
  end.

Definition aspath_err_ok (e : err) : Prop :=
  exists n, e = ETaw 2 (Some n) /\ n_code n = 3 /\ (n_sub n = 11 \/ n_sub n = 5).

Lemma aspath_malformed_ok : aspath_err_ok aspath_malformed.
Proof. eexists. split; [reflexivity|]. split; [reflexivity|left; reflexivity]. Qed.
Lemma aspath_len_ok b : aspath_err_ok (ETaw c_PATH_ATTR_AS_PATH (Some (attr_len_err c_PATH_ATTR_AS_PATH b))).
Proof. eexists. split; [reflexivity|]. split; [reflexivity|right; reflexivity]. Qed.

Lemma spec_segments_even : forall f b segs, spec_segments f b = Some segs -> blen b mod 2 = 0.
Proof.
  induction f as [|f IH]; intros b segs H; [discriminate|]. cbn [spec_segments] in H.
  destruct b as [|t [|c r]]; [reflexivity|discriminate|].
  destruct (((t =? 1) || (t =? 2)) && (1 <=? c) && (c * 4 <=? blen r)) eqn:E; [|discriminate].
  destruct (spec_segments f (drop (c * 4) r)) as [l|] eqn:El; [|discriminate].
  apply IH in El. rewrite blen_drop in El. rewrite !blen_cons. lia.
Qed.

Lemma decode_u32_set_take c r :
  1 <= c -> c * 4 <= blen r -> decode_u32_set (take (c * 4) r) = Some (u32s (take (c * 4) r)).
Proof.
  intros Hc Hl. unfold decode_u32_set. rewrite blen_take by assumption.
  destruct ((c * 4 =? 0) || negb ((c * 4) mod 4 =? 0)) eqn:E; [lia|reflexivity].
Qed.

Lemma aspath_loop_spec : forall f b set seq,
  (length b < f)%nat ->
  match spec_segments f b with
  | Some segs => aspath_loop f b set seq = Ok (last_of 1 segs set, last_of 2 segs seq)
  | None => exists e, aspath_loop f b set seq = Err e /\ aspath_err_ok e
  end.
Proof.
  induction f as [|f IH]; intros b set seq Hf; [lia|].
  cbn [spec_segments aspath_loop].
  destruct b as [|t [|c r]].
  - reflexivity.
  - cbn. eexists. split; [reflexivity|apply aspath_len_ok].
  - assert (E0 : 0 <? blen (t :: c :: r) = true) by (rewrite !blen_cons; lia). rewrite E0.
    destruct (((t =? 1) || (t =? 2)) && (1 <=? c) && (c * 4 <=? blen r)) eqn:E.
    + apply andb_true_iff in E as [E Hl]. apply andb_true_iff in E as [Ht Hc].
      specialize (IH (drop (c * 4) r)).
      assert (Hfd : (length (drop (c * 4) r) < f)%nat).
      { unfold drop. rewrite skipn_length. cbn [length] in Hf. lia. }
      destruct (spec_segments f (drop (c * 4) r)) as [l|] eqn:El.
      * pose proof (spec_segments_even _ _ _ El) as Hev. rewrite blen_drop in Hev.
        assert (E1 : (blen (t :: c :: r) <? 6) || negb (blen (t :: c :: r) mod 2 =? 0) = false)
          by (rewrite !blen_cons; lia).
        rewrite E1.
        replace (c * 4 =? 0) with false by lia. replace (blen r <? c * 4) with false by lia.
        rewrite slice_to_spec, slice_from_spec by lia. cbn [of_opt rbind].
        rewrite decode_u32_set_take by lia.
        destruct (t =? 1) eqn:T1.
        -- rewrite (IH (u32s (take (c * 4) r)) seq Hfd). cbn [last_of]. rewrite T1.
           replace (t =? 2) with false by lia. reflexivity.
        -- assert (T2 : (t =? 2) = true) by lia. rewrite T2.
           rewrite (IH set (u32s (take (c * 4) r)) Hfd). cbn [last_of]. rewrite T1, T2. reflexivity.
      * destruct ((blen (t :: c :: r) <? 6) || negb (blen (t :: c :: r) mod 2 =? 0)).
        { eexists. split; [reflexivity|apply aspath_len_ok]. }
        replace (c * 4 =? 0) with false by lia. replace (blen r <? c * 4) with false by lia.
        rewrite slice_to_spec, slice_from_spec by lia. cbn [of_opt rbind].
        rewrite decode_u32_set_take by lia.
        destruct (t =? 1) eqn:T1.
        -- apply (IH (u32s (take (c * 4) r)) seq Hfd).
        -- assert (T2 : (t =? 2) = true) by lia. rewrite T2. apply (IH set (u32s (take (c * 4) r)) Hfd).
    + destruct ((blen (t :: c :: r) <? 6) || negb (blen (t :: c :: r) mod 2 =? 0)).
      { eexists. split; [reflexivity|apply aspath_len_ok]. }
      destruct (c * 4 =? 0) eqn:Ec; [eexists; split; [reflexivity|apply aspath_malformed_ok]|].
      destruct (blen r <? c * 4) eqn:El; [eexists; split; [reflexivity|apply aspath_malformed_ok]|].
      rewrite slice_to_spec, slice_from_spec by lia. cbn [of_opt rbind].
      assert (Ht : (t =? 1) = false /\ (t =? 2) = false) by lia. destruct Ht as [T1 T2].
      rewrite T1, T2. eexists; split; [reflexivity|apply aspath_malformed_ok].
Qed.

(* accepted exactly when the flags are the RFC's and the value is a sequence of
   well-formed segments; the decoded value is the last segment of each type *)
Theorem aspath_decode_spec flags b :
  flags < 256 -> wf_bytes b = true -> blen b < 65536 ->
  match attr_decode 2 flags b with
  | Ok v => flags_match flags (false, true) && rfc_value_ok 2 b = true
            /\ exists segs, aspath_segments b = Some segs
                            /\ v = VASPath (last_of 1 segs []) (last_of 2 segs [])
  | Err e => flags_match flags (false, true) && rfc_value_ok 2 b = false
             /\ spec_attr_failure 2 flags b e = true
  | _ => False
  end.
Proof.
  intros Hf Hw Hb. unfold attr_decode. eval_code_tests. cbv iota.
  rewrite flags_validate_spec by assumption. unfold spec_flag_err.
  destruct (flags_match flags (false, true)) eqn:Ef; cbn [andb];
    [|split; [reflexivity|eapply flag_failure_ok; [reflexivity|exact Ef]]].
  assert (Hfail : forall e, aspath_err_ok e -> spec_attr_failure 2 flags b e = true).
  { intros e (n & -> & Hc & Hs). unfold spec_attr_failure. cbn [rfc_flags]. rewrite Ef.
    cbn [negb rfc_approach]. rewrite Hc. destruct Hs as [-> | ->]; reflexivity. }
  cbn [rfc_value_ok]. unfold aspath_segments.
  destruct (blen b =? 0) eqn:E0.
  - assert (b = []) by (apply blen_0; lia). subst b. cbn. split; [reflexivity|].
    exists []. split; reflexivity.
  - pose proof (aspath_loop_spec (S (length b)) b [] [] (Nat.lt_succ_diag_r _)) as Hl.
    destruct (spec_segments (S (length b)) b) as [segs|] eqn:Es.
    + pose proof (spec_segments_even _ _ _ Es) as Hev.
      assert (H6 : 6 <= blen b).
      { cbn [spec_segments] in Es. destruct b as [|t [|c r]]; [cbn in E0; discriminate|discriminate|].
        destruct (((t =? 1) || (t =? 2)) && (1 <=? c) && (c * 4 <=? blen r)) eqn:E; [|discriminate].
        rewrite !blen_cons. lia. }
      replace ((blen b <? 6) || negb (blen b mod 2 =? 0)) with false by lia.
      rewrite Hl. split; [reflexivity|]. exists segs. split; reflexivity.
    + destruct ((blen b <? 6) || negb (blen b mod 2 =? 0)).
      * split; [reflexivity|]. apply Hfail. apply aspath_len_ok.
      * destruct Hl as (e & -> & He). split; [reflexivity|]. apply Hfail, He.
Qed.

(* no AS number is lost when each segment type occurs at most once ... *)
Definition count_type (t : N) (segs : list (N * list N)) : nat :=
  length (filter (fun s => fst s =? t) segs).

Lemma last_of_single t : forall segs dflt,
  (count_type t segs <= 1)%nat ->
  last_of t segs dflt = match filter (fun s => fst s =? t) segs with [] => dflt | _ => flat_map snd (filter (fun s => fst s =? t) segs) end.
Proof.
  induction segs as [|[t' l] segs IH]; intros dflt Hc; [reflexivity|].
  unfold count_type in *. cbn [filter fst last_of] in *.
  destruct (t' =? t) eqn:E.
  - cbn [length] in Hc. assert (Hz : length (filter (fun s => fst s =? t) segs) = 0%nat) by lia.
    rewrite IH by lia. destruct (filter (fun s => fst s =? t) segs); [|discriminate].
    cbn. rewrite app_nil_r. reflexivity.
  - apply IH. exact Hc.
Qed.

Theorem aspath_value_partial flags b s q :
  flags < 256 -> wf_bytes b = true -> blen b < 65536 ->
  attr_decode 2 flags b = Ok (VASPath s q) ->
  forall segs, aspath_segments b = Some segs ->
  (count_type 1 segs <= 1)%nat -> (count_type 2 segs <= 1)%nat ->
  s = flat_map snd (filter (fun t => fst t =? 1) segs) /\ q = flat_map snd (filter (fun t => fst t =? 2) segs).
Proof.
  intros Hf Hw Hb H segs Hs H1 H2.
  pose proof (aspath_decode_spec flags b Hf Hw Hb) as Hd. rewrite H in Hd.
  destruct Hd as (_ & segs' & Hs' & Hv). rewrite Hs in Hs'. injection Hs' as <-.
  injection Hv as -> ->.
  rewrite !last_of_single by assumption.
  split; destruct (filter _ segs); reflexivity.
Qed.

(* ... and is lost otherwise (finding D10) *)
Theorem aspath_value_refuted :
  exists b s q segs, wf_bytes b = true /\ attr_decode 2 64 b = Ok (VASPath s q)
    /\ aspath_segments b = Some segs
    /\ s <> flat_map snd (filter (fun t => fst t =? 1) segs).
Proof.
  exists [1; 1; 0; 0; 0; 7; 1; 1; 0; 0; 0; 8], [8], [], [(1, [7]); (1, [8])].
  vm_compute. repeat split; try reflexivity. discriminate.
Qed.
