(* UpdateErrProofs.v — C17, arbitrary callbacks: the error tree Decode returns has exactly the
   leaves the specification lists (every callback error up to the point decoding stopped, in
   order, interleaved with the structural findings), so UpdateNotificationFromErr applied to it
   is the first-by-severity choice over that list. *)
From Verif Require Import Base Consts Packet Errors Update PacketSpec OpenSpec UpdateSpec UpdateOracles
                          BaseLemmas PacketProofs UpdateProofs ErrorProofs.
From Coq Require Import ZifyN ZifyNat ZifyBool.
Ltac Zify.zify_post_hook ::= Z.div_mod_to_equations.

(* ---- join2 is a homomorphism for leaves; it never creates a Notification ---- *)
Lemma oleaves_join2 a b : oleaves (join2 a b) = oleaves a ++ oleaves b.
Proof. destruct a, b; cbn; rewrite ?app_nil_r; reflexivity. Qed.
Lemma has_notif_join2 a b : has_notif_o (join2 a b) = has_notif_o a || has_notif_o b.
Proof. destruct a, b; cbn; rewrite ?orb_false_r; reflexivity. Qed.
Lemma oleaves_olist e : oleaves e = flat_map leaves (olist e).
Proof. destruct e; cbn; rewrite ?app_nil_r; reflexivity. Qed.

Lemma attr_cb_events_count sc : forall n k, (snd (attr_cb_events sc k n) <= n)%nat.
Proof.
  induction n as [|n IH]; intros k; cbn; [lia|].
  specialize (IH (S k)). destruct (sc k) as [e|].
  - destruct (has_notif e); cbn; [lia|]. destruct (attr_cb_events sc (S k) n) as [[l s] c]. cbn in *. lia.
  - destruct (attr_cb_events sc (S k) n) as [[l s] c]. cbn in *. lia.
Qed.

(* ---- the attribute loop for an arbitrary script ---- *)
Definition end_events (aend : attrs_end) (miss : list err) : list err :=
  match aend with
  | EndDupMP => [ENotif malformed_attr_list]
  | EndOverrun c => total_attr_len_err c :: miss
  | EndClean => miss
  end.
Definition miss_of (st : pa_state) (h : bool) : list err :=
  if (seen (pa_seen st) c_PATH_ATTR_MP_REACH_NLRI || h)
     && (negb (seen (pa_seen st) c_PATH_ATTR_AS_PATH) || negb (seen (pa_seen st) c_PATH_ATTR_ORIGIN))
  then let missing := if negb (seen (pa_seen st) c_PATH_ATTR_ORIGIN) then c_PATH_ATTR_ORIGIN else c_PATH_ATTR_AS_PATH in
       [ETaw missing (Some (upd_err c_NOTIF_SUBCODE_MISSING_WELL_KNOWN_ATTR [missing]))]
  else [].

Lemma missing_check_leaves st h :
  oleaves (missing_check st h) = oleaves (pa_me st) ++ flat_map leaves (miss_of st h)
  /\ has_notif_o (missing_check st h) = has_notif_o (pa_me st).
Proof.
  unfold miss_of, missing_check.
  destruct (seen (pa_seen st) c_PATH_ATTR_MP_REACH_NLRI || h); [|cbn; rewrite app_nil_r; split; reflexivity].
  destruct (negb (seen (pa_seen st) c_PATH_ATTR_AS_PATH) || negb (seen (pa_seen st) c_PATH_ATTR_ORIGIN));
    [|cbn; rewrite app_nil_r; split; reflexivity].
  rewrite oleaves_join2, has_notif_join2. cbn. rewrite orb_false_r. split; reflexivity.
Qed.

Lemma pa_loop_events sc : forall f a h st,
  (length a < f)%nat ->
  let items := fst (spec_attrs f a (pa_seen st)) in
  let aend := snd (spec_attrs f a (pa_seen st)) in
  let cbs := fst (fst (attr_cb_events sc (pa_k st) (length items))) in
  let stopped := snd (fst (attr_cb_events sc (pa_k st) (length items))) in
  let ncalled := snd (attr_cb_events sc (pa_k st) (length items)) in
  exists st' pe,
    path_attrs_loop f sc a h st = Ok (st', pe)
    /\ pa_calls st' = pa_calls st ++ map item_call (firstn ncalled items)
    /\ pa_k st' = (pa_k st + ncalled)%nat
    /\ oleaves pe = oleaves (pa_me st) ++ flat_map leaves cbs
                    ++ (if stopped then [] else flat_map leaves (end_events aend (miss_of st' h)))
    /\ has_notif_o pe = has_notif_o (pa_me st) || stopped
                        || (negb stopped && match aend with EndDupMP => true | _ => false end)
    /\ (stopped = false ->
        forall c, seen (pa_seen st') c = existsb (N.eqb c) (map item_code items) || seen (pa_seen st) c).
Proof.
  induction f as [|f IH]; intros a h st Hf; [lia|].
  cbn [path_attrs_loop spec_attrs].
  destruct a as [|flags [|code r]].
  - cbn. exists st, (missing_check st h). destruct (missing_check_leaves st h) as [L Hn].
    rewrite app_nil_r. repeat split; try reflexivity; try lia.
    + exact L.
    + rewrite Hn, !orb_false_r. reflexivity.
  - cbn. eexists. eexists. split; [reflexivity|]. cbn [pa_calls pa_k pa_seen].
    set (st' := mkPa (pa_calls st) (join2 (pa_me st) (Some (total_attr_len_err 0))) (pa_seen st) (pa_k st)).
    destruct (missing_check_leaves st' h) as [L Hn]. rewrite app_nil_r.
    repeat split; try reflexivity; try lia.
    + rewrite L. subst st'. cbn [pa_me]. rewrite oleaves_join2. cbn. rewrite <- app_assoc. reflexivity.
    + rewrite Hn. subst st'. cbn [pa_me]. rewrite has_notif_join2. cbn. rewrite !orb_false_r. reflexivity.
  - rewrite attr_header_spec.
    assert (Hlen : forall len r', spec_attr_header flags r = Some (len, r') -> (length r' < length r)%nat).
    { unfold spec_attr_header. intros len r' H. destruct (16 <=? flags mod 32).
      - destruct r as [|l1 [|l0 r0]]; try discriminate. injection H as <- <-. cbn. lia.
      - destruct r as [|l0 r0]; try discriminate. injection H as <- <-. cbn. lia. }
    assert (Hover :
      let st' := mkPa (pa_calls st) (join2 (pa_me st) (Some (total_attr_len_err code))) (pa_seen st) (pa_k st) in
      exists st'' pe,
        Ok (st', missing_check st' h) = @Ok unit _ (st'', pe)
        /\ pa_calls st'' = pa_calls st ++ map item_call (firstn 0 (@nil (N * N * bytes)))
        /\ pa_k st'' = (pa_k st + 0)%nat
        /\ oleaves pe = oleaves (pa_me st) ++ flat_map leaves []
                        ++ flat_map leaves (end_events (EndOverrun code) (miss_of st'' h))
        /\ has_notif_o pe = has_notif_o (pa_me st) || false || (negb false && false)
        /\ (false = false -> forall c, seen (pa_seen st'') c = existsb (N.eqb c) (map item_code []) || seen (pa_seen st) c)).
    { cbv zeta. eexists. eexists. split; [reflexivity|]. cbn [pa_calls pa_k pa_seen].
      set (st' := mkPa (pa_calls st) (join2 (pa_me st) (Some (total_attr_len_err code))) (pa_seen st) (pa_k st)).
      destruct (missing_check_leaves st' h) as [L Hn]. cbn [firstn map]. rewrite app_nil_r.
      repeat split; try reflexivity; try lia.
      + rewrite L. subst st'. cbn [pa_me]. rewrite oleaves_join2. cbn. rewrite <- app_assoc. reflexivity.
      + rewrite Hn. subst st'. cbn [pa_me]. rewrite has_notif_join2. cbn. rewrite !orb_false_r. reflexivity. }
    destruct (spec_attr_header flags r) as [[len r']|] eqn:Eh; [|exact Hover].
    specialize (Hlen len r' eq_refl).
    destruct (blen r' <? len) eqn:El; [exact Hover|]. clear Hover.
    assert (Hfd : (length (drop len r') < f)%nat).
    { unfold drop. rewrite skipn_length. cbn [length] in Hf. lia. }
    unfold seen at 1.
    destruct (existsb (N.eqb code) (pa_seen st)) eqn:Es.
    + change c_PATH_ATTR_MP_REACH_NLRI with 14. change c_PATH_ATTR_MP_UNREACH_NLRI with 15.
      destruct ((code =? 14) || (code =? 15)) eqn:Emp.
      * cbn. exists st. eexists. split; [reflexivity|]. rewrite app_nil_r.
        repeat split; try reflexivity; try lia.
        -- rewrite oleaves_join2. cbn. reflexivity.
        -- rewrite has_notif_join2. cbn. rewrite !orb_false_r, orb_true_r. reflexivity.
      * rewrite slice_from_spec by lia. cbn [of_opt rbind]. apply IH. exact Hfd.
    + rewrite slice_to_spec by lia. cbn [of_opt rbind].
      rewrite slice_from_spec by lia. cbn [of_opt rbind].
      set (st1 := mkPa (pa_calls st ++ [CPa code flags (take len r')])
                       (match sc (pa_k st) with Some _ => join2 (pa_me st) (sc (pa_k st)) | None => pa_me st end)
                       (code :: pa_seen st) (S (pa_k st))).
      destruct (IH (drop len r') h st1 Hfd) as (st' & pe & H1 & H2 & H3 & H4 & H5 & H6).
      cbn [pa_seen pa_k pa_calls st1] in H1, H2, H3, H4, H5, H6.
      destruct (spec_attrs f (drop len r') (code :: pa_seen st)) as [items aend] eqn:Esp.
      cbn [fst snd length attr_cb_events] in *.
      destruct (sc (pa_k st)) as [e0|] eqn:Esc.
      * destruct (has_notif e0) eqn:En.
        -- (* the callback's error contains a Notification: decoding stops here *)
           eexists. eexists. split; [reflexivity|]. subst st1. cbn [pa_calls pa_k pa_me fst snd firstn map].
           repeat split; try reflexivity; try lia.
           ++ rewrite oleaves_join2. cbn. rewrite !app_nil_r. reflexivity.
           ++ rewrite has_notif_join2. cbn. rewrite En, !orb_true_r. reflexivity.
        -- destruct (attr_cb_events sc (S (pa_k st)) (length items)) as [[l s] c] eqn:Ecb. cbn [fst snd] in *.
           exists st', pe. split; [exact H1|]. cbn [firstn map].
           repeat split.
           ++ rewrite H2. rewrite <- app_assoc. reflexivity.
           ++ lia.
           ++ rewrite H4. subst st1. cbn [pa_me]. rewrite oleaves_join2. cbn [oleaves flat_map].
              rewrite <- !app_assoc. reflexivity.
           ++ rewrite H5. subst st1. cbn [pa_me]. rewrite has_notif_join2. cbn [has_notif_o]. rewrite En, orb_false_r. reflexivity.
           ++ intros Hs c0. rewrite (H6 Hs). cbn [map existsb item_code fst]. rewrite seen_cons.
              destruct (c0 =? code); destruct (existsb (N.eqb c0) (map item_code items)); reflexivity.
      * destruct (attr_cb_events sc (S (pa_k st)) (length items)) as [[l s] c] eqn:Ecb. cbn [fst snd] in *.
        exists st', pe. split; [exact H1|]. cbn [firstn map].
        repeat split.
        ++ rewrite H2. rewrite <- app_assoc. reflexivity.
        ++ lia.
        ++ rewrite H4. subst st1. cbn [pa_me]. reflexivity.
        ++ rewrite H5. subst st1. cbn [pa_me]. reflexivity.
        ++ intros Hs c0. rewrite (H6 Hs). cbn [map existsb item_code fst]. rewrite seen_cons.
           destruct (c0 =? code); destruct (existsb (N.eqb c0) (map item_code items)); reflexivity.
Qed.

(* ---- Decode, once the sections are known ---- *)
Lemma decode_sections sc b W A Nl :
  spec_sections b = Some (W, A, Nl) ->
  update_decode sc b =
    (let e0 := sc O in
     let me0 := match e0 with Some _ => join2 None e0 | None => None end in
     if has_notif_o e0 then Ok ([CWr W], me0) else
     do pr <- decode_path_attrs sc A (0 <? blen Nl) 1;
     let '(pcalls, k, pe) := pr in
     let me1 := match pe with Some _ => join2 me0 pe | None => me0 end in
     if has_notif_o pe then Ok (CWr W :: pcalls, me1) else
     let e2 := sc k in
     let me2 := match e2 with Some _ => join2 me1 e2 | None => me1 end in
     Ok (CWr W :: pcalls ++ [CNl Nl], me2)).
Proof.
  intros Es.
  apply sections_some in Es as (w1 & w0 & r & -> & E4 & E1 & p1 & p0 & r2 & Ed & E2 & -> & -> & ->).
  cbv zeta in *. unfold update_decode. rewrite E4. unfold get16. rewrite E1.
  rewrite slice_spec by lia. cbn [of_opt rbind].
  replace (w1 * 256 + w0 + 2 - (w1 * 256 + w0)) with 2 by lia.
  rewrite slice_from_spec by lia. cbn [of_opt rbind].
  assert (Hd : drop (w1 * 256 + w0 + 2) r = r2).
  { unfold drop. replace (N.to_nat (w1 * 256 + w0 + 2)) with (N.to_nat (w1 * 256 + w0) + 2)%nat by lia.
    rewrite <- skipn_skipn'. fold (drop (w1 * 256 + w0) r). rewrite Ed. reflexivity. }
  rewrite Hd, Ed. change (take 2 (p1 :: p0 :: r2)) with [p1; p0]. cbv iota beta. unfold get16. rewrite E2.
  rewrite slice_to_spec by lia. cbn [of_opt rbind].
  unfold has_notif_o.
  destruct (match sc 0%nat with Some e => has_notif e | None => false end); [reflexivity|].
  rewrite slice_to_spec, slice_from_spec by lia. cbn [of_opt rbind]. reflexivity.
Qed.

Lemma miss_of_spec st h items Nl :
  (forall c, seen (pa_seen st) c = existsb (N.eqb c) (map item_code items)) -> h = (0 <? blen Nl) ->
  miss_of st h = missing_event items Nl.
Proof.
  intros Hs ->. unfold miss_of, missing_event, missing_attrs.
  change c_PATH_ATTR_MP_REACH_NLRI with 14. change c_PATH_ATTR_AS_PATH with 2. change c_PATH_ATTR_ORIGIN with 1.
  change c_NOTIF_SUBCODE_MISSING_WELL_KNOWN_ATTR with 3.
  rewrite !Hs.
  destruct (existsb (N.eqb 14) (map item_code items)), (0 <? blen Nl),
           (existsb (N.eqb 1) (map item_code items)), (existsb (N.eqb 2) (map item_code items)); reflexivity.
Qed.

(* C17 (any callback behaviour): the calls Decode makes and the leaves of the error it returns *)
Theorem decode_errors_exact sc b :
  wf_bytes b = true ->
  exists e, update_decode sc b = Ok (spec_calls_script sc b, e)
            /\ oleaves e = flat_map leaves (spec_err_events sc b).
Proof.
  intros Hw. unfold spec_calls_script, spec_err_events.
  destruct (spec_sections b) as [[[W A] Nl]|] eqn:Es.
  2:{ destruct (sections_none_calls sc b Es Hw) as (n & H & Hc & Hsub & Hd).
      eexists. split; [exact H|]. destruct n as [c s d]. cbn in *. subst. reflexivity. }
  rewrite (decode_sections sc b W A Nl Es). cbv zeta.
  unfold attr_items.
  destruct (has_notif_o (sc O)) eqn:E0.
  { destruct (spec_attrs (S (length A)) A []) as [items aend].
    eexists. split; [reflexivity|]. destruct (sc O); [|discriminate]. cbn. rewrite !app_nil_r. reflexivity. }
  unfold decode_path_attrs.
  destruct (pa_loop_events sc (S (length A)) A (0 <? blen Nl) (mkPa [] None [] 1) (Nat.lt_succ_diag_r _))
    as (st' & pe & H1 & H2 & H3 & H4 & H5 & H6).
  cbn [pa_calls pa_me pa_seen pa_k] in H1, H2, H3, H4, H5, H6. rewrite H1. cbn [rbind].
  destruct (spec_attrs (S (length A)) A []) as [items aend] eqn:Esp. cbn [fst snd] in *.
  destruct (attr_cb_events sc 1 (length items)) as [[cbs stopped] ncalled] eqn:Ecb. cbn [fst snd] in *.
  assert (Hme0 : oleaves (match sc O with Some _ => join2 None (sc O) | None => None end) = flat_map leaves (olist (sc O))).
  { destruct (sc O); cbn; rewrite ?app_nil_r; reflexivity. }
  assert (Hjoin : forall me, oleaves (match pe with Some _ => join2 me pe | None => me end) = oleaves me ++ oleaves pe).
  { intros me. destruct pe; [apply oleaves_join2|cbn; rewrite app_nil_r; reflexivity]. }
  cbn [oleaves app] in H4. rewrite H5. cbn [has_notif_o orb].
  destruct stopped.
  - (* a callback's Notification stopped the attribute walk *)
    cbn [negb andb orb]. eexists. split; [rewrite H2; cbn [app]; rewrite ?app_nil_r; reflexivity|].
    rewrite Hjoin, Hme0, H4, !flat_map_app. cbn. rewrite !app_nil_r. reflexivity.
  - cbn [negb andb orb]. specialize (H6 eq_refl).
    assert (Hseen : forall c, seen (pa_seen st') c = existsb (N.eqb c) (map item_code items)).
    { intros c. rewrite H6. cbn. apply orb_false_r. }
    rewrite (miss_of_spec st' _ items Nl Hseen eq_refl) in H4.
    assert (Hn : ncalled = length items).
    { clear - Ecb. revert Ecb. generalize 1%nat. revert cbs ncalled.
      induction items as [|x xs IH]; intros cbs ncalled k E; cbn in E.
      - injection E as _ <-. reflexivity.
      - destruct (sc k) as [e|].
        + destruct (has_notif e); [discriminate|].
          destruct (attr_cb_events sc (S k) (length xs)) as [[l s] c] eqn:E2. injection E as _ -> <-.
          cbn. f_equal. eapply IH. exact E2.
        + destruct (attr_cb_events sc (S k) (length xs)) as [[l s] c] eqn:E2. injection E as _ -> <-.
          cbn. f_equal. eapply IH. exact E2. }
    subst ncalled. rewrite firstn_all in H2. rewrite firstn_all, H3.
    destruct aend as [|c|].
    + eexists. split; [rewrite H2; cbn [app]; rewrite ?app_nil_r; reflexivity|].
      assert (Hj2 : forall me, oleaves (match sc (1 + length items)%nat with Some _ => join2 me (sc (1 + length items)%nat) | None => me end)
                               = oleaves me ++ flat_map leaves (olist (sc (S (length items))))).
      { intros me. change (1 + length items)%nat with (S (length items)).
        destruct (sc (S (length items))); [rewrite oleaves_join2|]; cbn; rewrite ?app_nil_r; reflexivity. }
      rewrite Hj2, Hjoin, Hme0, H4. cbn [end_events]. rewrite !flat_map_app, <- !app_assoc. reflexivity.
    + eexists. split; [rewrite H2; cbn [app]; rewrite ?app_nil_r; reflexivity|].
      assert (Hj2 : forall me, oleaves (match sc (1 + length items)%nat with Some _ => join2 me (sc (1 + length items)%nat) | None => me end)
                               = oleaves me ++ flat_map leaves (olist (sc (S (length items))))).
      { intros me. change (1 + length items)%nat with (S (length items)).
        destruct (sc (S (length items))); [rewrite oleaves_join2|]; cbn; rewrite ?app_nil_r; reflexivity. }
      rewrite Hj2, Hjoin, Hme0, H4. cbn [end_events total_attr_len_err flat_map leaves app].
      rewrite !flat_map_app. cbn [flat_map leaves app]. rewrite <- !app_assoc. cbn [app].
      change (upd_err 0 []) with (mkNotif 3 0 []). rewrite !flat_map_app. reflexivity.
    + cbn [orb]. eexists. split; [rewrite H2; cbn [app]; rewrite ?app_nil_r; reflexivity|].
      rewrite Hjoin, Hme0, H4. cbn [end_events]. rewrite !flat_map_app. reflexivity.
Qed.

Theorem decode_calls_any sc b :
  wf_bytes b = true -> exists e, update_decode sc b = Ok (spec_calls_script sc b, e).
Proof. intros Hw. destruct (decode_errors_exact sc b Hw) as (e & H & _). exists e. exact H. Qed.

(* ---- corollaries in the words of the property ---- *)
(* a is a subsequence of b *)
Inductive subseq_of {A} : list A -> list A -> Prop :=
| sub_nil : forall l, subseq_of [] l
| sub_keep : forall x a b, subseq_of a b -> subseq_of (x :: a) (x :: b)
| sub_skip : forall x a b, subseq_of a b -> subseq_of a (x :: b).

Lemma subseq_refl {A} (l : list A) : subseq_of l l.
Proof. induction l; constructor; assumption. Qed.
Lemma subseq_app {A} (a b c d : list A) : subseq_of a b -> subseq_of c d -> subseq_of (a ++ c) (b ++ d).
Proof.
  induction 1 as [l|x a b H IH|x a b H IH]; intros Hc; cbn.
  - induction l as [|y l IHl]; cbn; [exact Hc|constructor; exact IHl].
  - constructor. apply IH. exact Hc.
  - constructor. apply IH. exact Hc.
Qed.
Lemma subseq_skip_l {A} (a b c : list A) : subseq_of a c -> subseq_of a (b ++ c).
Proof. intros H. induction b; cbn; [exact H|constructor; assumption]. Qed.

(* the errors returned by the callbacks with script indices k .. k+n-1 *)
Definition cb_errors (sc : script) (k n : nat) : list err := flat_map (fun j => olist (sc j)) (seq k n).

Lemma attr_cb_events_errors sc : forall n k,
  fst (fst (attr_cb_events sc k n)) = cb_errors sc k (snd (attr_cb_events sc k n)).
Proof.
  unfold cb_errors. induction n as [|n IH]; intros k; cbn; [reflexivity|].
  specialize (IH (S k)). destruct (sc k) as [e|] eqn:E.
  - destruct (has_notif e); cbn; [rewrite E; reflexivity|].
    destruct (attr_cb_events sc (S k) n) as [[l s] c]. cbn in *. rewrite E, IH. reflexivity.
  - destruct (attr_cb_events sc (S k) n) as [[l s] c]. cbn in *. rewrite E, IH. reflexivity.
Qed.

Lemma cb_errors_app sc k n m : cb_errors sc k (n + m) = cb_errors sc k n ++ cb_errors sc (k + n) m.
Proof. unfold cb_errors. rewrite seq_app, flat_map_app. reflexivity. Qed.

Lemma attr_cb_events_all sc : forall n k,
  snd (fst (attr_cb_events sc k n)) = false -> snd (attr_cb_events sc k n) = n.
Proof.
  induction n as [|n IH]; intros k; cbn; [reflexivity|].
  specialize (IH (S k)). destruct (sc k) as [e|].
  - destruct (has_notif e); cbn; [discriminate|].
    destruct (attr_cb_events sc (S k) n) as [[l s] c]. cbn in *. intros H. f_equal. apply IH. exact H.
  - destruct (attr_cb_events sc (S k) n) as [[l s] c]. cbn in *. intros H. f_equal. apply IH. exact H.
Qed.

(* "the returned error tree contains every error the callbacks returned up to the point decoding
   stopped", in order: the callback errors of the calls that were made are a subsequence of the events *)
Theorem callback_errors_contained sc b :
  subseq_of (cb_errors sc 0 (length (spec_calls_script sc b))) (spec_err_events sc b).
Proof.
  unfold spec_calls_script, spec_err_events.
  destruct (spec_sections b) as [[[W A] Nl]|]; [|constructor].
  destruct (attr_items A) as [items aend].
  destruct (has_notif_o (sc O)) eqn:E0.
  { cbn. unfold cb_errors. cbn. rewrite app_nil_r. apply subseq_refl. }
  pose proof (attr_cb_events_errors sc (length items) 1) as Hc.
  pose proof (attr_cb_events_count sc (length items) 1) as Hn.
  pose proof (attr_cb_events_all sc (length items) 1) as Ha.
  destruct (attr_cb_events sc 1 (length items)) as [[cbs stopped] ncalled]. cbn [fst snd] in *. subst cbs.
  assert (Hlen : length (firstn ncalled items) = ncalled) by (apply firstn_length_le; exact Hn).
  cbn [length]. rewrite app_length, map_length, Hlen.
  change (S (ncalled + ?x)) with (1 + (ncalled + x))%nat.
  rewrite !cb_errors_app. cbn [Nat.add].
  apply subseq_app; [unfold cb_errors; cbn; rewrite app_nil_r; apply subseq_refl|].
  apply subseq_app; [apply subseq_refl|].
  destruct stopped; [constructor|]. specialize (Ha eq_refl). subst ncalled.
  destruct aend as [|c|]; cbn [length]; unfold cb_errors; cbn [seq flat_map]; rewrite ?app_nil_r.
  - apply subseq_skip_l. apply subseq_refl.
  - constructor. apply subseq_skip_l. apply subseq_refl.
  - constructor.
Qed.

(* UpdateNotificationFromErr of Decode's result is the first-by-severity choice over the events *)
Lemma spec_unfe_leaves x y : leaves x = leaves y -> spec_unfe (Some x) = spec_unfe (Some y).
Proof. intros H. unfold spec_unfe. rewrite H. reflexivity. Qed.

Lemma leaves_join l : leaves (EJoin l) = flat_map leaves l.
Proof. induction l as [|x l IH]; cbn in *; [reflexivity|]. rewrite IH. reflexivity. Qed.

Theorem decode_notification sc b calls x :
  wf_bytes b = true -> update_decode sc b = Ok (calls, Some x) ->
  unfe (Some x) = spec_unfe (Some (EJoin (spec_err_events sc b))).
Proof.
  intros Hw H. destruct (decode_errors_exact sc b Hw) as (e & H1 & H2). rewrite H1 in H. injection H as _ ->.
  rewrite unfe_spec. apply spec_unfe_leaves. rewrite leaves_join. exact H2.
Qed.

(* the classes the property names, read off the event list *)
Theorem decode_event_classes sc b W A Nl :
  spec_sections b = Some (W, A, Nl) -> has_notif_o (sc O) = false ->
  snd (fst (attr_cb_events sc 1 (length (fst (attr_items A))))) = false ->
  match snd (attr_items A) with
  | EndDupMP => In (ENotif (mkNotif 3 1 [])) (spec_err_events sc b)
  | EndOverrun c => In (ETaw c (Some (mkNotif 3 0 []))) (spec_err_events sc b)
  | EndClean => True
  end
  /\ (snd (attr_items A) <> EndDupMP -> missing_attrs (fst (attr_items A)) Nl = true ->
      let m := if existsb (N.eqb 1) (map item_code (fst (attr_items A))) then 2 else 1 in
      In (ETaw m (Some (mkNotif 3 3 [m]))) (spec_err_events sc b)).
Proof.
  intros Es E0 Hs. unfold spec_err_events. rewrite Es.
  destruct (attr_items A) as [items aend]. cbn [fst snd] in *. rewrite E0.
  destruct (attr_cb_events sc 1 (length items)) as [[cbs stopped] n]. cbn [fst snd] in Hs. subst stopped.
  split.
  - destruct aend; [exact I| |]; apply in_or_app; right; apply in_or_app; right; left; reflexivity.
  - intros Hd Hm. cbv zeta. unfold missing_event. rewrite Hm.
    destruct aend as [|c|]; [| |congruence]; apply in_or_app; right; apply in_or_app; right.
    + left. reflexivity.
    + right. left. reflexivity.
Qed.
