(* TotalProofs.v — C05 (decoder half): every exported decoding entry point returns
   (a value or an error) for every byte string; no Panic, no OutOfFuel. *)
From Verif Require Import Base Consts Packet Errors Update PacketSpec OpenSpec UpdateSpec UpdateOracles
                          BaseLemmas PacketProofs PrefixProofs AttrProofs UpdateProofs.
From Coq Require Import ZifyN ZifyNat ZifyBool.

Definition returns {E A} (r : res E A) : Prop := r <> Panic /\ r <> OutOfFuel.

Lemma sound_returns code flags b want :
  rfc_flags code = Some want -> attr_sound code flags b -> returns (attr_decode code flags b).
Proof.
  unfold attr_sound, returns. intros -> H.
  destruct (attr_decode code flags b); try contradiction; split; discriminate.
Qed.

Theorem attr_decode_total code flags b :
  flags < 256 -> wf_bytes b = true -> blen b < 65536 -> returns (attr_decode code flags b).
Proof.
  intros Hf Hw Hb.
  destruct (N.eq_dec code 1) as [->|N1]; [eapply sound_returns; [reflexivity|apply origin_sound; assumption]|].
  destruct (N.eq_dec code 2) as [->|N2].
  { pose proof (aspath_decode_spec flags b Hf Hw Hb) as H. unfold returns.
    destruct (attr_decode 2 flags b); try contradiction; split; discriminate. }
  destruct (N.eq_dec code 3) as [->|N3]; [eapply sound_returns; [reflexivity|apply addr4_sound; auto]|].
  destruct (N.eq_dec code 4) as [->|N4]; [eapply sound_returns; [reflexivity|apply u32attr_sound; auto]|].
  destruct (N.eq_dec code 5) as [->|N5]; [eapply sound_returns; [reflexivity|apply u32attr_sound; auto]|].
  destruct (N.eq_dec code 6) as [->|N6].
  { pose proof (atomic_aggregate_partial flags b Hf Hw Hb) as H. unfold returns.
    destruct (attr_decode 6 flags b); try contradiction; split; discriminate. }
  destruct (N.eq_dec code 7) as [->|N7]; [eapply sound_returns; [reflexivity|apply aggregator_sound; assumption]|].
  destruct (N.eq_dec code 8) as [->|N8]; [eapply sound_returns; [reflexivity|apply communities_sound; assumption]|].
  destruct (N.eq_dec code 9) as [->|N9]; [eapply sound_returns; [reflexivity|apply addr4_sound; auto]|].
  destruct (N.eq_dec code 10) as [->|N10]; [eapply sound_returns; [reflexivity|apply cluster_list_sound; assumption]|].
  destruct (N.eq_dec code 32) as [->|N32]; [eapply sound_returns; [reflexivity|apply large_communities_sound; assumption]|].
  unfold attr_decode, c_PATH_ATTR_ORIGIN, c_PATH_ATTR_AS_PATH, c_PATH_ATTR_NEXT_HOP, c_PATH_ATTR_MED,
    c_PATH_ATTR_LOCAL_PREF, c_PATH_ATTR_ATOMIC_AGGREGATE, c_PATH_ATTR_AGGREGATOR, c_PATH_ATTR_COMMUNITY,
    c_PATH_ATTR_ORIGINATOR_ID, c_PATH_ATTR_CLUSTER_LIST, c_PATH_ATTR_LARGE_COMMUNITY.
  repeat match goal with |- context [code =? ?k] => replace (code =? k) with false by lia end.
  split; discriminate.
Qed.

Theorem message_from_bytes_total b t :
  wf_bytes b = true -> returns (message_from_bytes b t).
Proof.
  intros Hw. unfold message_from_bytes, returns.
  destruct (t =? c_openMessageType).
  - destruct (open_decode_total b Hw) as [H1 H2]. destruct (open_decode b); split; congruence.
  - destruct (t =? c_updateMessageType); [split; discriminate|].
    destruct (t =? c_notificationMessageType); [destruct (notif_decode b); split; discriminate|].
    destruct (t =? c_keepAliveMessageType); split; discriminate.
Qed.

Theorem mp_splitters_total flags b cb :
  flags < 256 -> blen b < 65536 -> returns (mp_reach flags b cb) /\ returns (mp_unreach flags b cb).
Proof.
  intros Hf Hb. rewrite mp_reach_spec, mp_unreach_spec by assumption. repeat split; discriminate.
Qed.

Theorem update_decode_total sc b : wf_bytes b = true -> returns (update_decode sc b).
Proof. intros Hw. destruct (decode_total sc b Hw) as (c & e & ->). split; discriminate. Qed.
