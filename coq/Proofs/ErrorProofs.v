(* ErrorProofs.v — C17: UpdateNotificationFromErr against its specification
   (first leaf of the strongest class in pre-order). *)
From Verif Require Import Base Consts Packet Errors Update PacketSpec UpdateSpec BaseLemmas.

Section ErrInd.
  Variable P : err -> Prop.
  Hypothesis Hn : forall n, P (ENotif n).
  Hypothesis Ht : forall c n, P (ETaw c n).
  Hypothesis Hd : forall c n, P (EDiscard c n).
  Hypothesis Hu : forall n, P (EUpd n).
  Hypothesis Ho : P EOther.
  Hypothesis Hj : forall l, Forall P l -> P (EJoin l).
  Hypothesis Hw : forall e, P e -> P (EWrap e).
  Fixpoint err_ind2 (e : err) : P e :=
    match e with
    | ENotif n => Hn n
    | ETaw c n => Ht c n
    | EDiscard c n => Hd c n
    | EUpd n => Hu n
    | EOther => Ho
    | EJoin l => Hj l ((fix go (l : list err) : Forall P l :=
                          match l with
                          | [] => Forall_nil P
                          | x :: r => Forall_cons x (err_ind2 x) (go r)
                          end) l)
    | EWrap e' => Hw e' (err_ind2 e')
    end.
End ErrInd.

Definition is_leaf (e : err) : bool := match e with EJoin _ | EWrap _ => false | _ => true end.

Fixpoint walk_leaves (l : list err) (a : unfe_acc) : unfe_acc :=
  match l with
  | [] => a
  | x :: r => match a_n a with
              | Some _ => a
              | None => walk_leaves r (unfe_walk x a)
              end
  end.

Lemma walk_leaves_stop l a n : a_n a = Some n -> walk_leaves l a = a.
Proof. intros H. destruct l; cbn; [reflexivity|]. rewrite H. reflexivity. Qed.

Lemma unfe_walk_stop e a n : a_n a = Some n -> unfe_walk e a = a.
Proof. intros H. destruct e; cbn; rewrite H; reflexivity. Qed.

Lemma walk_leaves_app l1 l2 a : walk_leaves (l1 ++ l2) a = walk_leaves l2 (walk_leaves l1 a).
Proof.
  revert a. induction l1 as [|x l1 IH]; intros a; [reflexivity|].
  cbn [app walk_leaves]. destruct (a_n a) eqn:E.
  - symmetry. eapply walk_leaves_stop. exact E.
  - apply IH.
Qed.

Definition join_leaves := fix go (l : list err) : list err :=
  match l with [] => [] | x :: r => leaves x ++ go r end.
Definition join_walk := fix walk (l : list err) (a : unfe_acc) : unfe_acc :=
  match l with
  | [] => a
  | x :: r => let a' := unfe_walk x a in
              match a_n a' with Some _ => a' | None => walk r a' end
  end.

Lemma unfe_walk_leaves : forall e a, unfe_walk e a = walk_leaves (leaves e) a.
Proof.
  induction e using err_ind2; intros a.
  - cbn. destruct (a_n a); reflexivity.
  - cbn. destruct (a_n a); reflexivity.
  - cbn. destruct (a_n a); reflexivity.
  - cbn. destruct (a_n a); reflexivity.
  - cbn. destruct (a_n a); reflexivity.
  - cbn [unfe_walk leaves]. fold join_leaves. fold join_walk.
    destruct (a_n a) eqn:Ea.
    + symmetry. eapply walk_leaves_stop. exact Ea.
    + clear Ea. revert a. induction H as [|x r Hx Hr IH]; intros a; [reflexivity|].
      cbn [join_walk join_leaves]. rewrite walk_leaves_app, <- Hx.
      destruct (a_n (unfe_walk x a)) eqn:E.
      * symmetry. eapply walk_leaves_stop. exact E.
      * apply IH.
  - cbn [unfe_walk leaves]. destruct (a_n a) eqn:Ea; [|apply IHe].
    symmetry. eapply walk_leaves_stop. exact Ea.
Qed.

Lemma leaves_are_leaves : forall e, forallb is_leaf (leaves e) = true.
Proof.
  induction e using err_ind2; try reflexivity.
  - cbn [leaves]. fold join_leaves. induction H as [|x r Hx Hr IH]; [reflexivity|].
    cbn [join_leaves]. rewrite forallb_app, Hx, IH. reflexivity.
  - exact IHe.
Qed.

(* what the accumulator holds after walking a list of leaves *)
Definition first_payload {A} (sel : err -> option A) (l : list err) : option A :=
  (fix go (l : list err) := match l with [] => None | x :: r => match sel x with Some v => Some v | None => go r end end) l.
Definition sel_n e := match e with ENotif n => Some n | _ => None end.
Definition sel_taw e := match e with ETaw _ n => Some n | _ => None end.
Definition sel_ad e := match e with EDiscard _ n => Some n | _ => None end.
Definition sel_ue e := match e with EUpd n => Some n | _ => None end.
Definition orelse {A} (a b : option A) : option A := match a with Some _ => a | None => b end.

Lemma walk_leaves_spec : forall l a,
  forallb is_leaf l = true -> a_n a = None ->
  let a' := walk_leaves l a in
  a_n a' = first_payload sel_n l
  /\ (first_payload sel_n l = None ->
      a_taw a' = orelse (a_taw a) (first_payload sel_taw l)
      /\ a_ad a' = orelse (a_ad a) (first_payload sel_ad l)
      /\ a_ue a' = orelse (a_ue a) (first_payload sel_ue l)).
Proof.
  induction l as [|x l IH]; intros a Hl Ha; cbv zeta.
  - cbn. rewrite Ha. split; [reflexivity|]. intros _.
    destruct (a_taw a), (a_ad a), (a_ue a); repeat split; reflexivity.
  - cbn [forallb] in Hl. apply andb_true_iff in Hl as [Hx Hl].
    cbn [walk_leaves]. rewrite Ha.
    destruct x; try discriminate; cbn [unfe_walk first_payload sel_n sel_taw sel_ad sel_ue]; rewrite Ha.
    + (* notification: stop *)
      rewrite (walk_leaves_stop l _ n) by reflexivity. cbn. split; [reflexivity|discriminate].
    + specialize (IH (mkAcc None (match a_taw a with None => Some n | s => s end) (a_ad a) (a_ue a)) Hl eq_refl).
      cbv zeta in IH. destruct IH as [I1 I2]. split; [exact I1|]. intros Hn. destruct (I2 Hn) as (J1 & J2 & J3).
      cbn [a_taw a_ad a_ue] in *. rewrite J1, J2, J3. destruct (a_taw a); repeat split; reflexivity.
    + specialize (IH (mkAcc None (a_taw a) (match a_ad a with None => Some n | s => s end) (a_ue a)) Hl eq_refl).
      cbv zeta in IH. destruct IH as [I1 I2]. split; [exact I1|]. intros Hn. destruct (I2 Hn) as (J1 & J2 & J3).
      cbn [a_taw a_ad a_ue] in *. rewrite J1, J2, J3. destruct (a_ad a); repeat split; reflexivity.
    + specialize (IH (mkAcc None (a_taw a) (a_ad a) (match a_ue a with None => Some n | s => s end)) Hl eq_refl).
      cbv zeta in IH. destruct IH as [I1 I2]. split; [exact I1|]. intros Hn. destruct (I2 Hn) as (J1 & J2 & J3).
      cbn [a_taw a_ad a_ue] in *. rewrite J1, J2, J3. destruct (a_ue a); repeat split; reflexivity.
    + specialize (IH a Hl Ha). cbv zeta in IH. exact IH.
Qed.

(* find-based specification in terms of first_payload *)
Lemma find_notif_payload l :
  forallb is_leaf l = true ->
  match find is_notif l with Some (ENotif n) => Some n | _ => None end = first_payload sel_n l.
Proof.
  induction l as [|x l IH]; intros H; [reflexivity|]. cbn [forallb] in H. apply andb_true_iff in H as [Hx H].
  destruct x; try discriminate; cbn; auto.
Qed.
Lemma find_taw_payload l :
  match find is_taw l with Some (ETaw _ n) => Some n | _ => None end = first_payload sel_taw l.
Proof. induction l as [|x l IH]; [reflexivity|]. destruct x; cbn; auto. Qed.
Lemma find_ad_payload l :
  match find is_discard l with Some (EDiscard _ n) => Some n | _ => None end = first_payload sel_ad l.
Proof. induction l as [|x l IH]; [reflexivity|]. destruct x; cbn; auto. Qed.
Lemma find_ue_payload l :
  match find is_upd l with Some (EUpd n) => Some n | _ => None end = first_payload sel_ue l.
Proof. induction l as [|x l IH]; [reflexivity|]. destruct x; cbn; auto. Qed.

Theorem unfe_spec e : unfe e = spec_unfe e.
Proof.
  destruct e as [e|]; [|reflexivity]. unfold unfe, spec_unfe, first_of.
  rewrite unfe_walk_leaves.
  pose proof (walk_leaves_spec (leaves e) (mkAcc None None None None) (leaves_are_leaves e) eq_refl) as H.
  cbv zeta in H. destruct H as [H1 H2]. cbn [a_taw a_ad a_ue orelse] in H2.
  pose proof (find_notif_payload (leaves e) (leaves_are_leaves e)) as F1.
  pose proof (find_taw_payload (leaves e)) as F2.
  pose proof (find_ad_payload (leaves e)) as F3.
  pose proof (find_ue_payload (leaves e)) as F4.
  rewrite H1.
  destruct (first_payload sel_n (leaves e)) as [n|] eqn:En.
  - destruct (find is_notif (leaves e)) as [[]|]; try discriminate. injection F1 as ->. reflexivity.
  - destruct (H2 eq_refl) as (J1 & J2 & J3). rewrite J1, J2, J3.
    assert (G1 : match find is_notif (leaves e) with Some (ENotif n) => Some n | _ => @None notif end = None) by exact F1.
    destruct (find is_notif (leaves e)) as [[]|] eqn:Ef; try discriminate;
      try (apply find_some in Ef as [_ Ef]; discriminate).
    all: destruct (first_payload sel_taw (leaves e)) as [t|] eqn:Et;
      [destruct (find is_taw (leaves e)) as [[]|]; try discriminate; injection F2 as ->; destruct t; reflexivity|].
    all: destruct (find is_taw (leaves e)) as [[]|] eqn:Eft; try discriminate;
      try (apply find_some in Eft as [_ Eft]; discriminate).
    all: destruct (first_payload sel_ad (leaves e)) as [d|] eqn:Ed;
      [destruct (find is_discard (leaves e)) as [[]|]; try discriminate; injection F3 as ->; destruct d; reflexivity|].
    all: destruct (find is_discard (leaves e)) as [[]|] eqn:Efd; try discriminate;
      try (apply find_some in Efd as [_ Efd]; discriminate).
    all: destruct (first_payload sel_ue (leaves e)) as [u|] eqn:Eu;
      [destruct (find is_upd (leaves e)) as [[]|]; try discriminate; injection F4 as ->; reflexivity|].
    all: destruct (find is_upd (leaves e)) as [[]|] eqn:Efu; try discriminate;
      try (apply find_some in Efu as [_ Efu]; discriminate).
    all: reflexivity.
Qed.

Theorem unfe_nil_iff e : unfe e = None <-> e = None.
Proof.
  split; [|intros ->; reflexivity]. destruct e as [e|]; [|reflexivity].
  unfold unfe. set (a := unfe_walk e _). destruct (a_n a), (a_taw a), (a_ad a), (a_ue a); discriminate.
Qed.
