(* PeerFindings.v — statements of C12 that are false of the faithful manager model (finding D14),
   with their witnesses.  The full-strength statement is kept visible next to the refutation. *)
From Coq Require Import List Bool.
From Verif Require Import Closure Peer PeerProofs PeerCorollaries.
Import ListNotations.

(* the full statement C12 asks for: whenever an FSM has returned a damping error (it has sent
   or received a NOTIFICATION other than Cease) the report reaches the manager, i.e. the FSM
   never leaves its error select through closeCh while the peer itself is not being shut down *)
Definition report_lost (s : sys) (i : dir) : bool :=
  match get (s_fsm s) i with
  | Some f => match f_pc f with FErrOffer _ _ EDamp => f_closed f && negb (s_pclosed s) | _ => false end
  | None => false
  end.
Definition every_protocol_error_reported : Prop :=
  forall p d tr s i, run sys label step (init p d) tr = Some s -> report_lost s i = false.

Definition reply3 (i : dir) : list label := [LMRecvTrans i; LMOp; LMReply i].
Definition d14_trace : list label :=
  reply3 DOut ++ [LFRun DOut (mkO Connect ENil false)] ++ reply3 DOut ++ [LFRun DOut (mkO OpenSent ENil false)]
  ++ reply3 DOut                                   (* outbound FSM in OpenSent *)
  ++ [LMInConn] ++ reply3 DIn ++ [LFRun DIn (mkO OpenSent ENil false)] ++ reply3 DIn
  ++ [LFRun DIn (mkO OpenConfirm ENil false)] ++ reply3 DIn    (* inbound FSM in OpenConfirm *)
  ++ [LFRun DOut (mkO Idle EDamp false)]           (* outbound: bad OPEN, NOTIFICATION sent, error to report *)
  ++ [LFRun DIn (mkO Established ENil false); LMRecvTrans DIn; LMOp; LMOp].  (* manager stops the outbound FSM *)
Definition d14_tail : list label :=
  [LFClose DOut; LFClose DOut; LFExit DOut; LMWaitDone DOut; LMReply DIn].

Theorem error_report_refuted : ~ every_protocol_error_reported.
Proof.
  intros H. specialize (H false true d14_trace).
  destruct (run sys label step (init false true) d14_trace) as [s|] eqn:E; [|vm_compute in E; discriminate].
  specialize (H s DOut eq_refl). vm_compute in E. injection E as <-. vm_compute in H. discriminate.
Qed.

(* what the loss means: the run continues to a quiescent state in which the inbound session is
   Established, no hold-down is in force and the manager never received the error *)
Theorem error_report_refuted_outcome :
  exists s, run sys label step (init false true) (d14_trace ++ d14_tail) = Some s
            /\ at_loop s = true /\ s_hold s = false /\ s_timer s = false
            /\ fst (s_fsm s) = None /\ in_est (snd (s_fsm s)) = true
            /\ existsb (fun l => match l with LMRecvErr _ => true | _ => false end) (d14_trace ++ d14_tail) = false.
Proof. eexists. vm_compute. repeat split. Qed.

(* the half that does hold (partial): an error the manager does receive is handled correctly —
   PeerCorollaries.damping_only_by_protocol_error — and the loss needs the peer's other FSM to be
   reaching Established (or a collision stop) at that moment: outside a stop of that FSM the
   error select has only the manager as a partner *)
Theorem error_reported_partial p d tr s i :
  run sys label step (init p d) tr = Some s ->
  (match get (s_fsm s) i with Some f => f_closed f | None => false end) = false -> report_lost s i = false.
Proof.
  intros _ Hc. unfold report_lost. destruct (get (s_fsm s) i) as [f|]; [|reflexivity].
  rewrite Hc. destruct (f_pc f) as [| | |? ? []| |]; reflexivity.
Qed.
