(* PeerCorollaries.v — the Layer C invariants in readable form. *)
From Coq Require Import List Bool PArith NArith Arith Lia FMapPositive.
Import ListNotations.
From Verif Require Import Closure Peer PeerProofs.

(* ---- corollaries, in readable form ---- *)
Definition reachable (p d : bool) (s : sys) : Prop := exists tr, run sys label step (init p d) tr = Some s.

Ltac split_good H :=
  unfold good_all in H; repeat (apply andb_true_iff in H; destruct H as [H ?Hg]).

Theorem mutual_exclusion p d s : reachable p d s -> ~ (in_est (fst (s_fsm s)) = true /\ in_est (snd (s_fsm s)) = true).
Proof.
  intros [tr Hr] [H1 H2]. pose proof (reachable_good p d tr s Hr) as H. split_good H.
  unfold good_mutex in H. rewrite H1, H2 in H. discriminate.
Qed.

Theorem stopped_means_gone p d s :
  reachable p d s -> s_mdone s = true ->
  fst (s_fsm s) = None /\ snd (s_fsm s) = None /\ s_ops s = [] /\ s_timer s = false.
Proof.
  intros [tr Hr] Hd. pose proof (reachable_good p d tr s Hr) as H. split_good H.
  unfold good_done in Hg7. rewrite Hd in Hg7. cbn in Hg7.
  repeat (apply andb_true_iff in Hg7; destruct Hg7 as [Hg7 ?Hx]).
  destruct (fst (s_fsm s)), (snd (s_fsm s)), (s_ops s), (s_timer s); try discriminate. auto.
Qed.

Theorem hold_down_no_fsm p d s :
  reachable p d s -> at_loop s = true -> s_hold s = true -> fst (s_fsm s) = None /\ snd (s_fsm s) = None.
Proof.
  intros [tr Hr] Ha Hh. pose proof (reachable_good p d tr s Hr) as H. split_good H.
  unfold good_hold in Hg6. rewrite Ha, Hh in Hg6. cbn in Hg6.
  apply andb_true_iff in Hg6 as [A B]. destruct (fst (s_fsm s)), (snd (s_fsm s)); try discriminate. auto.
Qed.

Theorem hold_down_timer p d s :
  reachable p d s -> at_loop s = true -> s_pclosed s = false -> s_hold s = s_timer s.
Proof.
  intros [tr Hr] Ha Hp. pose proof (reachable_good p d tr s Hr) as H. split_good H.
  unfold good_hold_timer in Hg5. rewrite Ha, Hp in Hg5. cbn in Hg5. apply eqb_prop in Hg5. exact Hg5.
Qed.

Theorem collision_resolved p d s :
  reachable p d s -> at_loop s = true -> s_pclosed s = false ->
  ~ (ge_oc (fst (s_state s)) = true /\ ge_oc (snd (s_state s)) = true)
  /\ ~ (pc_ge_oc (fst (s_fsm s)) = true /\ pc_ge_oc (snd (s_fsm s)) = true).
Proof.
  intros [tr Hr] Ha Hp. pose proof (reachable_good p d tr s Hr) as H. split_good H.
  unfold good_coll in Hg4. rewrite Ha, Hp in Hg4. cbn [negb orb] in Hg4. apply andb_true_iff in Hg4 as [A B].
  split; intros [X Y]; [rewrite X, Y in A|rewrite X, Y in B]; discriminate.
Qed.

Theorem cease_before_close p d s : reachable p d s -> fbad (fst (s_fsm s)) = false /\ fbad (snd (s_fsm s)) = false.
Proof.
  intros [tr Hr]. pose proof (reachable_good p d tr s Hr) as H. split_good H.
  unfold good_cease in Hg3. apply andb_true_iff in Hg3 as [A B].
  destruct (fbad (fst (s_fsm s))), (fbad (snd (s_fsm s))); try discriminate. auto.
Qed.

Ltac crush_step Es :=
  repeat match type of Es with
         | context [if ?c then _ else _] => destruct c
         | context [match ?x with _ => _ end] => destruct x
         end; try discriminate; try (injection Es as <-).

Lemma step_frame s l s' :
  step s l = Some s' -> s_passive s' = s_passive s /\ s_dominant s' = s_dominant s
                        /\ (s_pclosed s = true -> s_pclosed s' = true).
Proof.
  intros Es. destruct l; cbn [step] in Es; unfold enable, with_ops, with_fsm, with_state, at_loop in Es;
    crush_step Es; cbn; auto.
Qed.

Lemma run_passive : forall tr s0 s, run sys label step s0 tr = Some s -> s_passive s = s_passive s0.
Proof.
  induction tr as [|l r IH]; intros s0 s H; cbn in H; [injection H as <-; reflexivity|].
  destruct (step s0 l) as [s1|] eqn:Es; [|discriminate].
  rewrite (IH s1 s H). apply step_frame in Es. tauto.
Qed.

Theorem passive_never_dials d s : reachable true d s -> fst (s_fsm s) = None.
Proof.
  intros [tr Hr]. pose proof (reachable_good true d tr s Hr) as H. split_good H.
  pose proof (run_passive tr _ _ Hr) as Hp.
  assert (Hi : s_passive (init true d) = true) by (destruct d; reflexivity). rewrite Hi in Hp.
  unfold good_passive in Hg2. rewrite Hp in Hg2. cbn in Hg2. destruct (fst (s_fsm s)); [discriminate|reflexivity].
Qed.

Theorem shutdown_progress p d s :
  reachable p d s -> s_pclosed s = true -> s_mdone s = false ->
  exists l s', progress_label s l = true /\ step s l = Some s'.
Proof.
  intros [tr Hr] Hp Hd. pose proof (reachable_good p d tr s Hr) as H. split_good H.
  unfold good_progress in Hg. rewrite Hp, Hd in Hg. cbn [negb orb] in Hg.
  apply existsb_exists in Hg as (l & _ & Hl). apply andb_true_iff in Hl as [Hl He].
  unfold enabled in He. destruct (step s l) as [s'|] eqn:Es; [|discriminate]. exists l, s'. auto.
Qed.

Theorem shutdown_rank p d s l s' :
  reachable p d s -> s_pclosed s = true -> progress_label s l = true -> step s l = Some s' -> rk s' < rk s.
Proof.
  intros [tr Hr] Hp Hl Hs. pose proof (reachable_steps p d tr s l s' Hr Hs) as H.
  unfold step_all in H. apply andb_true_iff in H as [H _]. apply andb_true_iff in H as [H _].
  unfold rank_ok in H. rewrite Hp, Hl in H. cbn in H. apply Nat.ltb_lt. exact H.
Qed.

(* shutdown steps alone: any sequence of them from a reachable state after Close is shorter
   than the rank, so every maximal one is finite and (by shutdown_progress) ends with the manager done *)
Inductive shutdown_path : sys -> nat -> sys -> Prop :=
| sp_nil s : shutdown_path s 0 s
| sp_cons s l s1 n s2 : progress_label s l = true -> step s l = Some s1 -> shutdown_path s1 n s2 ->
                        shutdown_path s (S n) s2.

Lemma pclosed_stable s l s' : step s l = Some s' -> s_pclosed s = true -> s_pclosed s' = true.
Proof. intros Es Hp. apply step_frame in Es. tauto. Qed.

Theorem shutdown_bounded p d : forall n s s2,
  reachable p d s -> s_pclosed s = true -> shutdown_path s n s2 -> n <= rk s /\ reachable p d s2 /\ rk s2 + n <= rk s.
Proof.
  induction n as [|n IH]; intros s s2 Hr Hp Hpath; inversion Hpath; subst.
  - repeat split; [lia|exact Hr|lia].
  - match goal with H1 : progress_label s ?l = true, H2 : step s ?l = Some ?s1 |- _ =>
      pose proof (shutdown_rank p d s l s1 Hr Hp H1 H2) as Hlt;
      assert (Hr1 : reachable p d s1) by (destruct Hr as [tr Hr]; exists (tr ++ [l]);
        clear - Hr H2; revert Hr; generalize (init p d); induction tr as [|x r IHt]; intros s0 Hr; cbn in *;
          [injection Hr as ->; rewrite H2; reflexivity|destruct (step s0 x); [apply IHt; exact Hr|discriminate]]);
      pose proof (pclosed_stable s l s1 H2 Hp) as Hp1
    end.
    destruct (IH _ _ Hr1 Hp1 ltac:(eassumption)) as (A & B & C). repeat split; [lia|exact B|lia].
Qed.

Theorem refused_connection_inert p d tr s s' :
  run sys label step (init p d) tr = Some s -> step s LMInConn = Some s' ->
  let busy := s_hold s || present (snd (s_fsm s)) || st_eqb (fst (s_state s)) Established in
  s_refused s' = busy /\ (busy = true -> core_eqb s s' = true)
  /\ (busy = false -> present (snd (s_fsm s')) = true /\ fconn (snd (s_fsm s')) = true).
Proof.
  intros Hr Hs. pose proof (reachable_steps p d tr s LMInConn s' Hr Hs) as H.
  unfold step_all in H. apply andb_true_iff in H as [H _]. apply andb_true_iff in H as [_ H].
  unfold inconn_ok in H. cbv zeta. apply andb_true_iff in H as [A B]. apply eqb_prop in A.
  split; [exact A|]. destruct (s_hold s || present (snd (s_fsm s)) || st_eqb (fst (s_state s)) Established).
  - split; [intros _; exact B|discriminate].
  - split; [discriminate|intros _; apply andb_true_iff in B; exact B].
Qed.

Theorem damping_only_by_protocol_error p d tr s l s' :
  run sys label step (init p d) tr = Some s -> step s l = Some s' -> damp_ok s l s' = true.
Proof.
  intros Hr Hs. pose proof (reachable_steps p d tr s l s' Hr Hs) as H.
  unfold step_all in H. apply andb_true_iff in H as [_ H]. exact H.
Qed.

(* ---- the manager's decision rules ---- *)
(* the local speaker is dominant iff its BGP Identifier is higher, ties broken by the higher AS *)
Definition dominant_of (local_id remote_id local_as remote_as : N) : bool :=
  (remote_id <? local_id)%N || ((local_id =? remote_id)%N && (remote_as <? local_as)%N).

(* C07: both connections have exchanged OPENs (the other FSM is in OpenConfirm) and FSM i asks for
   OpenConfirm: FSM i's connection survives iff it was initiated by the dominant speaker (the
   outbound connection is the locally initiated one); the other one is stopped *)
Theorem collision_decision s i t :
  t_to t = OpenConfirm -> get (s_state s) (other i) = OpenConfirm ->
  (i = DIn -> st_ltb (t_to t) (t_from t) = false) ->
  handle s i t = if Bool.eqb (s_dominant s) (dir_eqb i DOut) then [OCollide i t] else [OStop i].
Proof.
  intros Ht Ho Hd. unfold handle. rewrite Ht. cbn [st_eqb st_num Nat.eqb].
  destruct i; cbn [dir_eqb andb].
  - rewrite Ho. reflexivity.
  - rewrite Ht in Hd. rewrite (Hd eq_refl). rewrite Ho. reflexivity.
Qed.

(* C07: if one connection is Established first, the other is stopped and never approved *)
Theorem established_first s i t :
  t_to t = OpenConfirm -> get (s_state s) (other i) = Established ->
  (i = DIn -> st_ltb (t_to t) (t_from t) = false) ->
  handle s i t = [OStop i].
Proof.
  intros Ht Ho Hd. unfold handle. rewrite Ht. cbn [st_eqb st_num Nat.eqb].
  destruct i; cbn [dir_eqb andb].
  - rewrite Ho. reflexivity.
  - rewrite Ht in Hd. rewrite (Hd eq_refl). rewrite Ho. reflexivity.
Qed.

(* C01: a transition to Established is approved only after the other FSM has been stopped *)
Theorem established_stops_other s i t :
  t_to t = Established -> handle s i t = [OStop (other i); OReply i t].
Proof. intros Ht. unfold handle. rewrite Ht. reflexivity. Qed.

(* C11: when the inbound FSM goes down it is retired and the outbound FSM is enabled at once *)
Theorem inbound_down_resumes_outbound s t :
  st_ltb (t_to t) (t_from t) = true -> t_to t <> Established ->
  handle s DIn t = [OStop DIn; OEnable DOut].
Proof.
  intros Hd He. unfold handle.
  destruct (st_eqb (t_to t) Established) eqn:E.
  - exfalso. apply He. destruct (t_to t); cbn in E; try discriminate. reflexivity.
  - cbn [dir_eqb andb]. rewrite Hd. reflexivity.
Qed.

(* a freshly enabled outbound FSM starts in Idle with an expired idle-hold timer (newFSM):
   its first Idle does not wait; a passive peer gets none *)
Theorem enable_outbound s :
  s_passive s = false -> fst (s_fsm s) = None ->
  fst (s_fsm (enable s DOut)) = Some (mkF (FOffer (mkT Disabled Idle)) false false false false).
Proof. intros Hp Hn. unfold enable. cbn [dir_eqb andb]. rewrite Hp. cbn [get]. rewrite Hn. reflexivity. Qed.
