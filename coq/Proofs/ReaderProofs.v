(* ReaderProofs.v — C08/C03: the reader delimits messages solely by the header length
   field, independent of TCP segmentation; delivers every well-formed message before the
   first fault; reports the fault with the RFC's notification; interprets nothing after. *)
From Verif Require Import Base Consts Packet PacketSpec Conn BaseLemmas PacketProofs TotalProofs ConnProofs.
From Coq Require Import ZifyN ZifyNat ZifyBool.

Lemma take_app_le n (s x : bytes) : n <= blen s -> take n (s ++ x) = take n s.
Proof.
  intros H. unfold take. rewrite firstn_app.
  replace (N.to_nat n - length s)%nat with 0%nat by (unfold blen in H; lia).
  cbn. apply app_nil_r.
Qed.
Lemma drop_app_le n (s x : bytes) : n <= blen s -> drop n (s ++ x) = drop n s ++ x.
Proof.
  intros H. unfold drop. rewrite skipn_app.
  replace (N.to_nat n - length s)%nat with 0%nat by (unfold blen in H; lia). reflexivity.
Qed.

(* decisions of one iteration depend only on the bytes of the message itself *)
Lemma read_one_app s x :
  match read_one s with
  | RWait => True
  | RFault e => read_one (s ++ x) = RFault e
  | RGood m rest => read_one (s ++ x) = RGood m (rest ++ x)
  end.
Proof.
  unfold read_one. unfold c_headerLength, c_maxMessageLength.
  destruct (blen s <? 19) eqn:E19; [exact I|].
  assert (E19' : blen (s ++ x) <? 19 = false) by (rewrite blen_app; lia). rewrite E19'.
  rewrite (take_app_le 19 s x) by lia.
  destruct (negb (beqb (take 16 (take 19 s)) marker)); [reflexivity|].
  destruct (drop 16 (take 19 s)) as [|l1 [|l0 [|t r]]]; try exact I.
  destruct ((get16 l1 l0 <? 19) || (4096 <? get16 l1 l0)) eqn:El; [reflexivity|].
  destruct (blen s <? get16 l1 l0) eqn:Eb; [exact I|].
  assert (Eb' : blen (s ++ x) <? get16 l1 l0 = false) by (rewrite blen_app; lia). rewrite Eb'.
  rewrite (drop_app_le 19 s x) by lia.
  rewrite (take_app_le (get16 l1 l0 - 19) (drop 19 s) x) by (rewrite blen_drop; lia).
  rewrite (drop_app_le (get16 l1 l0) s x) by lia.
  destruct (message_from_bytes _ t) as [m|[n|]| |]; reflexivity.
Qed.

Lemma read_one_good_shrinks s m rest : read_one s = RGood m rest -> (length rest + 19 <= length s)%nat.
Proof.
  unfold read_one, c_headerLength, c_maxMessageLength.
  destruct (blen s <? 19) eqn:E19; [discriminate|].
  destruct (negb (beqb (take 16 (take 19 s)) marker)); [discriminate|].
  destruct (drop 16 (take 19 s)) as [|l1 [|l0 [|t r]]]; try discriminate.
  destruct ((get16 l1 l0 <? 19) || (4096 <? get16 l1 l0)) eqn:El; [discriminate|].
  destruct (blen s <? get16 l1 l0) eqn:Eb; [discriminate|].
  destruct (message_from_bytes _ t) as [m'|[n|]| |]; try discriminate.
  intros [= <- <-]. unfold drop. rewrite skipn_length. unfold blen in *. lia.
Qed.

(* enough fuel is enough *)
Lemma read_loop_fuel : forall f1 f2 s,
  (length s < f1)%nat -> (length s < f2)%nat -> read_loop f1 s = read_loop f2 s.
Proof.
  induction f1 as [|f1 IH]; intros f2 s H1 H2; [lia|]. destruct f2 as [|f2]; [lia|].
  cbn [read_loop]. destruct (read_one s) as [|e|m rest] eqn:E; try reflexivity.
  apply read_one_good_shrinks in E. rewrite (IH f2 rest) by lia. reflexivity.
Qed.

Definition parse (s : bytes) := read_loop (S (length s)) s.
Arguments parse : simpl never.

Lemma parse_unfold s :
  parse s = match read_one s with
            | RWait => ([], s, false)
            | RFault e => ([e], s, true)
            | RGood m rest => let '(evs, r, st) := parse rest in (RMsg m :: evs, r, st)
            end.
Proof.
  unfold parse. cbn [read_loop]. destruct (read_one s) as [|e|m rest] eqn:E; try reflexivity.
  apply read_one_good_shrinks in E. rewrite (read_loop_fuel (length s) (S (length rest)) rest) by lia. reflexivity.
Qed.

(* appending bytes to a stream the reader is still waiting on continues the parse; after a
   fault nothing further is interpreted *)
Lemma parse_app : forall n s x, (length s <= n)%nat ->
  match parse s with
  | (evs, rest, false) => parse (s ++ x) = (let '(e2, r2, st2) := parse (rest ++ x) in (evs ++ e2, r2, st2))
  | (evs, rest, true) => fst (fst (parse (s ++ x))) = evs /\ snd (parse (s ++ x)) = true
  end.
Proof.
  induction n as [|n IH]; intros s x Hn.
  - destruct s; [|cbn in Hn; lia]. rewrite (parse_unfold []).
    change (read_one []) with RWait. cbv iota. cbn [app]. destruct (parse x) as [[e2 r2] st2]. reflexivity.
  - rewrite (parse_unfold s), (parse_unfold (s ++ x)). pose proof (read_one_app s x) as Ha.
    destruct (read_one s) as [|e|m rest] eqn:E.
    + rewrite <- (parse_unfold (s ++ x)). destruct (parse (s ++ x)) as [[e2 r2] st2]. reflexivity.
    + rewrite Ha. split; reflexivity.
    + rewrite Ha. pose proof (read_one_good_shrinks _ _ _ E) as Hs.
      specialize (IH rest x ltac:(lia)).
      destruct (parse rest) as [[evs r] st]. destruct st.
      * destruct IH as [I1 I2]. destruct (parse (rest ++ x)) as [[e2 r2] st2]. cbn [fst snd] in *. subst.
        split; reflexivity.
      * rewrite IH. destruct (parse (r ++ x)) as [[e2 r2] st2]. reflexivity.
Qed.

(* ---- segmentation independence ---- *)
Lemma feed_parse st chunk :
  r_stopped st = false ->
  feed st chunk = (let '(evs, rest, stopped) := parse (r_buf st ++ chunk) in (mkR rest stopped, evs)).
Proof. intros H. unfold feed, parse. rewrite H. reflexivity. Qed.

(* the reader's buffer never holds a complete step: what is left over is exactly what a
   fresh parse would also leave *)
Lemma parse_idem s : let '(evs, rest, st) := parse s in st = false -> parse rest = ([], rest, false).
Proof.
  remember (length s) as n eqn:Hn. revert s Hn. induction n as [n IH] using lt_wf_ind. intros s Hn.
  rewrite (parse_unfold s). destruct (read_one s) as [|e|m rest] eqn:E.
  - intros _. rewrite parse_unfold, E. reflexivity.
  - discriminate.
  - pose proof (read_one_good_shrinks _ _ _ E) as Hs.
    specialize (IH (length rest) ltac:(lia) rest eq_refl).
    destruct (parse rest) as [[evs r] st]. exact IH.
Qed.

Theorem chunking_invariance : forall chunks st,
  r_stopped st = false -> parse (r_buf st) = ([], r_buf st, false) ->
  let (st1, e1) := feed_all st chunks in
  let (st2, e2) := feed st (concat chunks) in
  e1 = e2 /\ r_stopped st1 = r_stopped st2 /\ (r_stopped st1 = false -> r_buf st1 = r_buf st2).
Proof.
  induction chunks as [|c r IH]; intros st Hs Hb.
  - cbn [feed_all concat]. rewrite feed_parse by assumption. rewrite app_nil_r, Hb. cbn. auto.
  - cbn [feed_all concat]. rewrite !feed_parse by assumption.
    pose proof (parse_app (length (r_buf st ++ c)) (r_buf st ++ c) (concat r) (Nat.le_refl _)) as Ha.
    pose proof (parse_idem (r_buf st ++ c)) as Hi.
    rewrite <- app_assoc in Ha.
    destruct (parse (r_buf st ++ c)) as [[ev1 rest1] stp1]. destruct stp1.
    + (* stopped: later chunks are ignored *)
      destruct Ha as [A1 A2]. destruct (parse (r_buf st ++ c ++ concat r)) as [[evc rc] stc]. cbn [fst snd] in *. subst.
      assert (Hst : forall l, feed_all (mkR rest1 true) l = (mkR rest1 true, [])).
      { induction l as [|x l IHl]; [reflexivity|]. cbn [feed_all]. unfold feed at 1. cbn [r_stopped]. rewrite IHl. reflexivity. }
      rewrite Hst. rewrite app_nil_r. cbn. repeat split. discriminate.
    + specialize (Hi eq_refl).
      specialize (IH (mkR rest1 false) eq_refl Hi). cbn [r_buf r_stopped] in IH.
      rewrite feed_parse in IH by reflexivity. cbn [r_buf] in IH. rewrite Ha.
      destruct (feed_all (mkR rest1 false) r) as [st1 e1].
      destruct (parse (rest1 ++ concat r)) as [[e2 r2] st2]. cbn [r_stopped r_buf] in *.
      destruct IH as (I1 & I2 & I3). subst e1. repeat split; assumption.
Qed.

(* from a fresh reader: any segmentation of the byte stream yields the same events *)
Corollary chunking_invariance_init chunks :
  snd (feed_all rinit chunks) = snd (feed rinit (concat chunks)).
Proof.
  pose proof (chunking_invariance chunks rinit eq_refl eq_refl) as H.
  destruct (feed_all rinit chunks), (feed rinit (concat chunks)). destruct H as (H & _). exact H.
Qed.

(* ---- what one iteration does, in specification terms ---- *)
Lemma marker_take : forall body t rest, take 16 (take 19 (spec_frame_enc t body ++ rest)) = marker.
Proof. intros. reflexivity. Qed.

Lemma read_one_good t body rest m :
  blen body <= 4077 -> t < 256 -> message_from_bytes body t = Ok m ->
  read_one (spec_frame_enc t body ++ rest) = RGood m rest.
Proof.
  intros Hb Ht Hm. unfold read_one, c_headerLength, c_maxMessageLength.
  assert (Hl : blen (spec_frame_enc t body) = 19 + blen body).
  { unfold spec_frame_enc, be16. rewrite !blen_app, blen_repeat, !blen_cons, blen_nil. lia. }
  assert (E19 : blen (spec_frame_enc t body ++ rest) <? 19 = false) by (rewrite blen_app; lia).
  rewrite E19, marker_take, beqb_refl. cbn [negb].
  change (drop 16 (take 19 (spec_frame_enc t body ++ rest)))
    with [(19 + blen body) / 256; (19 + blen body) mod 256; t].
  unfold get16.
  replace ((19 + blen body) / 256 * 256 + (19 + blen body) mod 256) with (19 + blen body) by lia.
  replace ((19 + blen body <? 19) || (4096 <? 19 + blen body)) with false by lia.
  replace (blen (spec_frame_enc t body ++ rest) <? 19 + blen body) with false by (rewrite blen_app; lia).
  assert (Hd19 : drop 19 (spec_frame_enc t body ++ rest) = body ++ rest) by reflexivity.
  rewrite Hd19. replace (19 + blen body - 19) with (blen body) by lia. rewrite take_app_exact, Hm.
  f_equal. rewrite <- Hl. apply drop_app_exact.
Qed.

Lemma read_one_bad_marker s :
  19 <= blen s -> take 16 s <> marker -> read_one s = RFault (RErrNotif (mkNotif 1 1 [])).
Proof.
  intros Hl Hm. unfold read_one, c_headerLength. replace (blen s <? 19) with false by lia.
  assert (Ht : take 16 (take 19 s) = take 16 s).
  { unfold take. rewrite firstn_firstn. reflexivity. }
  rewrite Ht. destruct (beqb (take 16 s) marker) eqn:E; [apply beqb_eq in E; contradiction|reflexivity].
Qed.

Lemma read_one_bad_len l1 l0 t rest :
  let len := l1 * 256 + l0 in (len < 19 \/ 4096 < len) ->
  read_one (marker ++ l1 :: l0 :: t :: rest) = RFault (RErrNotif (mkNotif 1 2 [])).
Proof.
  intros len Hl. unfold read_one, c_headerLength, c_maxMessageLength.
  assert (E19 : blen (marker ++ l1 :: l0 :: t :: rest) <? 19 = false).
  { rewrite blen_app, !blen_cons. change (blen marker) with 16. lia. }
  rewrite E19. change (take 16 (take 19 (marker ++ l1 :: l0 :: t :: rest))) with marker. rewrite beqb_refl. cbn [negb].
  change (drop 16 (take 19 (marker ++ l1 :: l0 :: t :: rest))) with [l1; l0; t]. unfold get16.
  fold len. replace ((len <? 19) || (4096 <? len)) with true by lia. reflexivity.
Qed.

Lemma read_one_bad_type t body rest :
  blen body <= 4077 -> t < 256 -> (t < 1 \/ 4 < t) ->
  read_one (spec_frame_enc t body ++ rest) = RFault (RErrNotif (mkNotif 1 3 [t])).
Proof.
  intros Hb Ht Hbad. unfold read_one, c_headerLength, c_maxMessageLength.
  assert (Hl : blen (spec_frame_enc t body) = 19 + blen body).
  { unfold spec_frame_enc, be16. rewrite !blen_app, blen_repeat, !blen_cons, blen_nil. lia. }
  assert (E19 : blen (spec_frame_enc t body ++ rest) <? 19 = false) by (rewrite blen_app; lia).
  rewrite E19, marker_take, beqb_refl. cbn [negb].
  change (drop 16 (take 19 (spec_frame_enc t body ++ rest)))
    with [(19 + blen body) / 256; (19 + blen body) mod 256; t].
  unfold get16.
  replace ((19 + blen body) / 256 * 256 + (19 + blen body) mod 256) with (19 + blen body) by lia.
  replace ((19 + blen body <? 19) || (4096 <? 19 + blen body)) with false by lia.
  replace (blen (spec_frame_enc t body ++ rest) <? 19 + blen body) with false by (rewrite blen_app; lia).
  unfold message_from_bytes, c_openMessageType, c_updateMessageType, c_notificationMessageType, c_keepAliveMessageType.
  replace (t =? 1) with false by lia. replace (t =? 2) with false by lia.
  replace (t =? 3) with false by lia. replace (t =? 4) with false by lia. reflexivity.
Qed.

(* ---- streams ---- *)
(* a well-formed message as (type, body) and what the reader makes of it *)
Definition good_msg (tb : N * bytes) (m : msg) : Prop :=
  blen (snd tb) <= 4077 /\ fst tb < 256 /\ message_from_bytes (snd tb) (fst tb) = Ok m.
Definition frames (l : list (N * bytes)) : bytes := flat_map (fun tb => spec_frame_enc (fst tb) (snd tb)) l.

(* C08: every well-formed message preceding the rest of the stream is delivered, in order,
   and then the rest is processed as if it stood alone *)
Theorem parse_frames : forall l ms tail,
  Forall2 good_msg l ms ->
  parse (frames l ++ tail) = (let '(evs, r, st) := parse tail in (map RMsg ms ++ evs, r, st)).
Proof.
  induction l as [|[t b] l IH]; intros ms tail H; inversion H as [|? m ? ms' Hg Hr]; subst.
  - cbn. destruct (parse tail) as [[e r] s]. reflexivity.
  - destruct Hg as (Hb & Ht & Hm). cbn [fst snd] in *.
    unfold frames. cbn [flat_map fst snd]. rewrite <- app_assoc. rewrite parse_unfold.
    rewrite (read_one_good t b _ m Hb Ht Hm). fold (frames l). rewrite (IH ms' tail Hr).
    destruct (parse tail) as [[e r] s]. reflexivity.
Qed.

(* the first fault after any number of well-formed messages: exactly those messages, then
   the RFC's notification, and the reader stops (nothing after the fault is interpreted) *)
Theorem first_fault l ms bad tail e :
  Forall2 good_msg l ms -> read_one bad = RFault e ->
  fst (fst (parse (frames l ++ bad ++ tail))) = map RMsg ms ++ [e]
  /\ snd (parse (frames l ++ bad ++ tail)) = true.
Proof.
  intros Hg Hb. rewrite (parse_frames l ms _ Hg). rewrite parse_unfold.
  pose proof (read_one_app bad tail) as Ha. rewrite Hb in Ha. rewrite Ha. split; reflexivity.
Qed.

(* C03: UPDATEs and KEEPALIVEs in any segmentation *)
Definition upd_or_ka (tb : N * bytes) : Prop :=
  (fst tb = 2 /\ blen (snd tb) <= 4077) \/ (fst tb = 4 /\ snd tb = []).
Definition msg_of (tb : N * bytes) : msg := if fst tb =? 2 then MUpdate (snd tb) else MKeepalive.

Lemma upd_or_ka_good tb : upd_or_ka tb -> good_msg tb (msg_of tb).
Proof.
  destruct tb as [t b]. unfold upd_or_ka, good_msg, msg_of. cbn [fst snd].
  intros [[-> Hb]|[-> ->]]; repeat split; try assumption; try reflexivity; cbn; lia.
Qed.

Theorem updates_delivered l chunks :
  Forall upd_or_ka l -> concat chunks = frames l ->
  snd (feed_all rinit chunks) = map (fun tb => RMsg (msg_of tb)) l.
Proof.
  intros Hl Hc. rewrite chunking_invariance_init, Hc. unfold feed. cbn [r_stopped rinit r_buf app].
  fold (parse (frames l)).
  assert (Hg : Forall2 good_msg l (map msg_of l)).
  { clear Hc. induction Hl; cbn [map]; constructor; [apply upd_or_ka_good; assumption|assumption]. }
  pose proof (parse_frames l (map msg_of l) [] Hg) as Hp. rewrite app_nil_r in Hp. rewrite Hp.
  rewrite parse_unfold. change (read_one []) with RWait. cbn. rewrite app_nil_r, map_map. reflexivity.
Qed.

(* ---- C03 at the FSM: delivered exactly once, in order, byte-exact ---- *)
Definition handler_calls (acts : list caction) : list bytes :=
  flat_map (fun a => match a with AHandler b => [b] | _ => [] end) acts.
Definition update_bodies (l : list (N * bytes)) : list bytes :=
  flat_map (fun tb => if fst tb =? 2 then [snd tb] else []) l.

Lemma handler_calls_app a b : handler_calls (a ++ b) = handler_calls a ++ handler_calls b.
Proof. unfold handler_calls. apply flat_map_app. Qed.

Theorem established_delivery cf pl : forall l st,
  c_phase st = PEstablished -> (forall k, pl_handler pl k = None) ->
  let (st', acts) := conn_run cf pl st (map (fun tb => IRd (RMsg (msg_of tb))) l) in
  handler_calls acts = update_bodies l /\ c_phase st' = PEstablished
  /\ c_nupd st' = (c_nupd st + length (update_bodies l))%nat.
Proof.
  induction l as [|[t b] l IH]; intros st Hp Hh.
  - cbn. repeat split; auto.
  - cbn [map conn_run]. destruct st as [ph h k]. cbn [c_phase] in Hp. subst ph.
    unfold msg_of at 1. cbn [fst snd]. destruct (t =? 2) eqn:Et.
    + cbn [conn_step c_phase c_holdns c_nupd]. rewrite Hh.
      specialize (IH (mkC PEstablished h (S k)) eq_refl Hh).
      destruct (conn_run cf pl (mkC PEstablished h (S k)) _) as [st' acts]. destruct IH as (I1 & I2 & I3).
      rewrite handler_calls_app. unfold update_bodies. cbn [flat_map fst snd]. rewrite Et.
      fold (update_bodies l). rewrite I1. cbn [c_nupd] in *.
      repeat split; [destruct (h =? 0); reflexivity|assumption|rewrite I3; cbn [length app]; lia].
    + cbn [conn_step c_phase c_holdns c_nupd].
      specialize (IH (mkC PEstablished h k) eq_refl Hh).
      destruct (conn_run cf pl (mkC PEstablished h k) _) as [st' acts]. destruct IH as (I1 & I2 & I3).
      rewrite handler_calls_app. unfold update_bodies. cbn [flat_map fst snd]. rewrite Et.
      fold (update_bodies l). rewrite I1.
      repeat split; [destruct (h =? 0); reflexivity|assumption|assumption].
Qed.

(* a handler notification: sent verbatim, the session ends (close, OnClose), and no later
   UPDATE of that connection is delivered *)
Theorem handler_notification cf pl h k b n later :
  pl_handler pl k = Some n ->
  conn_run cf pl (mkC PEstablished h k) (IRd (RMsg (MUpdate b)) :: later) =
  (mkC PDone h (S k),
   [AHandler b; AWrite (notif_encode n); ACloseConn; AStopHold; AStopKA; AOnClose; AReturn 1 (ENotifOut n)]).
Proof.
  intros Hn. cbn [conn_run conn_step c_phase c_holdns c_nupd]. rewrite Hn.
  unfold finish. cbn [c_phase c_holdns c_nupd teardown app].
  rewrite (ConnProofs.done_absorbing cf pl later (mkC PDone h (S k)) eq_refl). reflexivity.
Qed.

(* ---- the connection ends in the middle of a message (C09: a TCP close ends it silently; C08: nothing that was not
   received in full is interpreted) ---- *)
(* a header announcing a valid length whose body has not arrived in full: the reader is still waiting *)
Lemma read_one_incomplete l1 l0 t rest :
  let len := l1 * 256 + l0 in
  19 <= len <= 4096 -> 19 + blen rest < len ->
  read_one (marker ++ l1 :: l0 :: t :: rest) = RWait.
Proof.
  intros len Hl Hs. unfold read_one, c_headerLength, c_maxMessageLength.
  assert (Hb : blen (marker ++ l1 :: l0 :: t :: rest) = 19 + blen rest).
  { rewrite blen_app, !blen_cons. change (blen marker) with 16. lia. }
  replace (blen (marker ++ l1 :: l0 :: t :: rest) <? 19) with false by lia.
  change (take 16 (take 19 (marker ++ l1 :: l0 :: t :: rest))) with marker. rewrite beqb_refl. cbn [negb].
  change (drop 16 (take 19 (marker ++ l1 :: l0 :: t :: rest))) with [l1; l0; t]. unfold get16. fold len.
  replace ((len <? 19) || (4096 <? len)) with false by lia.
  replace (blen (marker ++ l1 :: l0 :: t :: rest) <? len) with true by lia. reflexivity.
Qed.

Lemma read_one_short s : blen s < 19 -> read_one s = RWait.
Proof. intros H. unfold read_one, c_headerLength. replace (blen s <? 19) with true by lia. reflexivity. Qed.

(* whatever complete messages precede it, an incomplete message followed by the end of the stream yields exactly
   those messages and then a plain I/O error: no phantom message, no NOTIFICATION-carrying error *)
Theorem eof_mid_message l ms part :
  Forall2 good_msg l ms -> read_one part = RWait ->
  read_stream (frames l ++ part) true = map RMsg ms ++ [RErrIO].
Proof.
  intros Hg Hp. unfold read_stream.
  rewrite (feed_parse rinit (frames l ++ part) eq_refl). cbn [r_buf rinit app].
  rewrite (parse_frames l ms part Hg). rewrite (parse_unfold part), Hp.
  cbn [feed_eof r_stopped]. rewrite app_nil_r. reflexivity.
Qed.
