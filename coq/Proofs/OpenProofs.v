(* OpenProofs.v — C14 (OPEN sent) and C02 (OPEN received) theorems. *)
From Verif Require Import Base Consts Packet PacketSpec OpenSpec BaseLemmas PacketProofs.
From Coq Require Import ZifyN ZifyNat ZifyBool.
Ltac Zify.zify_post_hook ::= Z.div_mod_to_equations.

(* ---------- C14 ---------- *)
Lemma new_open_message_intended asn hold id caps :
  cfg_wf asn hold id caps = true ->
  new_open_message asn hold id caps = intended_open asn hold id caps.
Proof.
  unfold cfg_wf. intros H.
  apply andb_true_iff in H as [H Hc]. apply andb_true_iff in H as [H Hi].
  apply andb_true_iff in H as [Ha Hh].
  unfold new_open_message, intended_open, four_octet_cap, c_asTrans, c_CAP_FOUR_OCTET_AS.
  rewrite put32_be32 by lia. rewrite (u16_small hold) by lia.
  destruct (65535 <? asn) eqn:E1; destruct (asn <=? 65535) eqn:E2; try lia; [reflexivity|].
  rewrite u16_small by lia. reflexivity.
Qed.

Lemma param_encode_some cs b :
  forallb cap_wf cs = true -> param_encode cs = Some b ->
  param_repr cs = true /\ b = spec_param_enc cs.
Proof.
  intros Hw H. unfold param_encode in H. destruct cs as [|c cs]; [discriminate|].
  destruct (existsb (fun c0 => 255 <? blen (cap_val c0)) (c :: cs)) eqn:Ex; [discriminate|].
  assert (Hall : forallb cap_repr (c :: cs) = true).
  { apply forallb_forall. intros x Hx.
    rewrite forallb_forall in Hw. specialize (Hw x Hx).
    assert (Hnb : (255 <? blen (cap_val x)) = false).
    { destruct (255 <? blen (cap_val x)) eqn:Eb; [|reflexivity].
      assert (existsb (fun c0 => 255 <? blen (cap_val c0)) (c :: cs) = true)
        by (apply existsb_exists; exists x; split; assumption). congruence. }
    unfold cap_wf in Hw. unfold cap_repr. rewrite Hw. cbn [andb]. lia. }
  rewrite flat_map_cap_encode in H by assumption.
  destruct (255 <? blen (spec_caps_enc (c :: cs))) eqn:El; [discriminate|].
  injection H as <-. split.
  - unfold param_repr. rewrite Hall. cbn [length Nat.eqb negb andb]. clear - El. lia.
  - unfold spec_param_enc.
    change (cap_code c :: blen (cap_val c) :: cap_val c ++ spec_caps_enc cs) with (spec_caps_enc (c :: cs)).
    rewrite u8_small by (clear - El; lia). reflexivity.
Qed.

Lemma params_encode_some ps b :
  forallb (forallb cap_wf) ps = true -> params_encode ps = Some b ->
  forallb param_repr ps = true /\ b = spec_params_enc ps.
Proof.
  revert b. induction ps as [|p ps IH]; intros b Hw H.
  - injection H as <-. split; reflexivity.
  - cbn [forallb] in Hw. apply andb_true_iff in Hw as [Hp Hw].
    cbn [params_encode] in H.
    destruct (param_encode p) as [a|] eqn:Ea; [|discriminate].
    destruct (params_encode ps) as [b'|] eqn:Eb; [|discriminate].
    injection H as <-.
    apply param_encode_some in Ea as [Hr ->]; [|assumption].
    destruct (IH b' Hw eq_refl) as [Hall ->].
    split; [cbn; rewrite Hr; exact Hall|reflexivity].
Qed.

Lemma open_body_some o b :
  (o_ver o <? 256) && (o_asn o <? 65536) && (o_hold o <? 65536) && (o_id o <? 4294967296) = true ->
  o_params o <> [] ->
  forallb (forallb cap_wf) (o_params o) = true ->
  open_body o = Some b -> open_repr o = true /\ b = spec_open_body o.
Proof.
  intros Hf Hne Hw H. pose proof H as H0. unfold open_body in H.
  destruct (params_encode (o_params o)) as [ps|] eqn:Ep; [|discriminate].
  apply params_encode_some in Ep as [Hall ->]; [|assumption].
  destruct (255 <? blen (spec_params_enc (o_params o))) eqn:El; [discriminate|].
  assert (Hr : open_repr o = true).
  { unfold open_repr. rewrite Hall, (ne_length_false _ Hne). cbn [negb]. lia. }
  split; [exact Hr|]. rewrite open_body_spec in H0 by assumption. congruence.
Qed.

Lemma filter_cap_wf f caps : forallb cap_wf caps = true -> forallb cap_wf (filter f caps) = true.
Proof.
  intros H. apply forallb_forall. intros x Hx. apply filter_In in Hx as [Hx _].
  rewrite forallb_forall in H. auto.
Qed.

Lemma wf_bytes_be32 x : x < 4294967296 -> wf_bytes (be32 x) = true.
Proof. intros H. unfold be32, wf_bytes, wf_byte. cbn [forallb]. lia. Qed.

Theorem open_sent_spec asn hold id caps :
  cfg_wf asn hold id caps = true ->
  open_encode (new_open_message asn hold id caps) =
  if open_repr (intended_open asn hold id caps)
  then Some (spec_frame_enc 1 (spec_open_body (intended_open asn hold id caps)))
  else None.
Proof.
  intros Hc. rewrite new_open_message_intended by assumption.
  set (o := intended_open asn hold id caps).
  unfold cfg_wf in Hc.
  apply andb_true_iff in Hc as [Hc Hcaps]. apply andb_true_iff in Hc as [Hc Hi].
  apply andb_true_iff in Hc as [Ha Hh].
  destruct (open_repr o) eqn:Er.
  - unfold open_encode. rewrite open_body_spec by assumption.
    rewrite prepend_header_spec; [reflexivity|].
    unfold open_repr in Er. unfold spec_open_body, be16, be32.
    rewrite !blen_app, !blen_cons, !blen_nil. lia.
  - unfold open_encode. destruct (open_body o) as [b|] eqn:Eb; [|reflexivity].
    apply open_body_some in Eb as [Hr _]; [congruence| | |].
    + subst o. unfold intended_open; cbn [o_ver o_asn o_hold o_id].
      destruct (asn <=? 65535) eqn:E; lia.
    + subst o. unfold intended_open; cbn [o_params]. discriminate.
    + subst o. unfold intended_open; cbn [o_params forallb].
      rewrite filter_cap_wf by assumption.
      unfold cap_wf at 1; cbn [cap_code cap_val]. rewrite wf_bytes_be32 by lia. reflexivity.
Qed.

(* whatever reaches the wire strict-parses, and decodes to the intended OPEN *)
Theorem open_sent_wellformed asn hold id caps m :
  cfg_wf asn hold id caps = true ->
  open_encode (new_open_message asn hold id caps) = Some m ->
  exists body, spec_frame_parse m = Some (1, body)
            /\ open_decode body = Ok (intended_open asn hold id caps).
Proof.
  intros Hc H. rewrite open_sent_spec in H by assumption.
  destruct (open_repr (intended_open asn hold id caps)) eqn:Er; [|discriminate].
  injection H as <-. exists (spec_open_body (intended_open asn hold id caps)). split.
  - apply spec_frame_parse_enc; [|reflexivity].
    unfold open_repr in Er. unfold spec_open_body, be16, be32.
    rewrite !blen_app, !blen_cons, !blen_nil. lia.
  - apply open_roundtrip. assumption.
Qed.

Example c14_example :
  cfg_wf 4200000001 90 167772161 [mkCap 1 [0;1;0;1]; mkCap 65 [1;2;3;4]; mkCap 69 [0;1;1;3]] = true
  /\ open_repr (intended_open 4200000001 90 167772161
                 [mkCap 1 [0;1;0;1]; mkCap 65 [1;2;3;4]; mkCap 69 [0;1;1;3]]) = true.
Proof. vm_compute. split; reflexivity. Qed.

(* ---------- C02 ---------- *)
Lemma is_multicast4_spec id : id < 4294967296 -> is_multicast4 id = multicast_id id.
Proof. unfold is_multicast4, multicast_id. intros. lia. Qed.

Lemma be32_get32 a b c d : a < 256 -> b < 256 -> c < 256 -> d < 256 ->
  be32 (get32 a b c d) = [a; b; c; d].
Proof. unfold be32, get32. intros. repeat f_equal; lia. Qed.

Lemma get32_be32_eq a b c d r : a < 256 -> b < 256 -> c < 256 -> d < 256 -> r < 4294967296 ->
  (get32 a b c d =? r) = beqb [a; b; c; d] (be32 r).
Proof.
  intros. destruct (get32 a b c d =? r) eqn:E.
  - apply N.eqb_eq in E. subst r. rewrite be32_get32 by assumption. symmetry. apply beqb_refl.
  - destruct (beqb [a; b; c; d] (be32 r)) eqn:E2; [|reflexivity].
    apply beqb_eq in E2. unfold be32 in E2. injection E2 as -> -> -> ->.
    unfold get32 in E. lia.
Qed.

Lemma beqb_len_ne a b : blen a <> blen b -> beqb a b = false.
Proof.
  intros H. destruct (beqb a b) eqn:E; [|reflexivity]. apply beqb_eq in E. subst. congruence.
Qed.

Lemma validate_caps_spec remoteAS : forall cs found,
  remoteAS < 4294967296 -> forallb cap_repr cs = true ->
  match validate_caps remoteAS cs found with
  | Ok f => f = found || existsb is_as4 cs /\ forallb (as4_ok remoteAS) cs = true
  | Err n => (n = open_err 2 [] /\ forallb (as4_ok remoteAS) cs = false)
             \/ (n = open_err 0 []
                 /\ existsb (fun c => is_as4 c && negb (blen (cap_val c) =? 4)) cs = true)
  | _ => False
  end.
Proof.
  induction cs as [|c cs IH]; intros found Hr Hall.
  - cbn. split; [rewrite orb_false_r|]; reflexivity.
  - cbn [forallb] in Hall. apply andb_true_iff in Hall as [Hc Hall].
    cbn [validate_caps existsb forallb].
    destruct (cap_code c =? c_CAP_FOUR_OCTET_AS) eqn:E65.
    + assert (Has4 : is_as4 c = true) by exact E65.
      unfold cap_repr in Hc. apply andb_true_iff in Hc as [Hc Hlen]. apply andb_true_iff in Hc as [Hcode Hw].
      destruct (cap_val c) as [|a [|b [|c0 [|d [|e r]]]]] eqn:Ev;
        try (right; split; [reflexivity|]; rewrite Has4; reflexivity);
        try (right; split; [reflexivity|]; rewrite Has4, !blen_cons; cbn [andb orb];
             match goal with |- (negb ?x || _) = true => replace x with false by (clear; lia) end; reflexivity).
      cbn [wf_bytes forallb] in Hw. repeat (apply andb_true_iff in Hw as [?Hb Hw]).
      repeat match goal with Hx : wf_byte _ = true |- _ => apply wf_byte_lt in Hx end.
      assert (Hok : as4_ok remoteAS c = (get32 a b c0 d =? remoteAS)).
      { unfold as4_ok. rewrite Has4, Ev. cbn [negb orb]. symmetry. apply get32_be32_eq; assumption. }
      rewrite Hok, Has4.
      destruct (get32 a b c0 d =? remoteAS) eqn:Eg.
      * specialize (IH true Hr Hall). cbn [andb orb].
        destruct (validate_caps remoteAS cs true) as [f|n| |]; try contradiction.
        -- destruct IH as [-> IH]. split; [rewrite orb_true_r; reflexivity|exact IH].
        -- destruct IH as [[-> IH]|[-> IH]]; [left|right]; (split; [reflexivity|]).
           ++ exact IH.
           ++ rewrite IH. apply orb_true_r.
      * left. split; reflexivity.
    + assert (Has4 : is_as4 c = false) by exact E65.
      assert (Hok : as4_ok remoteAS c = true) by (unfold as4_ok; rewrite Has4; reflexivity).
      rewrite Hok, Has4. cbn [andb orb].
      specialize (IH found Hr Hall).
      destruct (validate_caps remoteAS cs found) as [f|n| |]; try contradiction; exact IH.
Qed.


Lemma cap_encode_as4' r : r < 4294967296 -> cap_encode (four_octet_cap r) = 65 :: 4 :: be32 r.
Proof.
  intros H. unfold cap_encode, four_octet_cap, c_CAP_FOUR_OCTET_AS; cbn [cap_code cap_val].
  rewrite put32_be32 by assumption. reflexivity.
Qed.
