(* TimedWProofs.v — C06 with local WriteUpdate calls (TimedW.v), for every timed run of any length and every
   interleaving of the connection's own inputs, plugin writes and the keep-alive manager's reset serving:
   the keep-alive timer is always armed while the session is up, no later than a third of the hold time after
   the last KEEPALIVE *or UPDATE* written plus the largest write-to-reset latency seen; hold-timer expiry is still
   never early; with hold time 0 writes re-arm nothing. *)
From Verif Require Import Base Consts Packet PacketSpec Conn Timed TimedW BaseLemmas PacketProofs ConnProofs TimedProofs.
From Coq Require Import ZifyN ZifyNat ZifyBool.

Definition xinv (xs : xstate) : Prop :=
  tinv (xs_t xs)
  /\ xs_last_ka xs <= ts_now (xs_t xs)
  /\ xs_last_upd xs <= ts_now (xs_t xs)
  /\ Forall (fun w => w <= xs_last_upd xs) (xs_pending xs)
  /\ ts_last_ka (xs_t xs) <= last_tx xs + xs_maxlat xs
  /\ xs_resets xs + N.of_nat (length (xs_pending xs)) <= xs_writes xs.

Lemma xinv_init t0 : xinv (xinit t0).
Proof.
  unfold xinv, xinit, last_tx. cbn [xs_t xs_last_ka xs_last_upd xs_pending xs_maxlat xs_resets xs_writes].
  repeat split; try apply tinv_init; try apply Forall_nil; cbn; lia.
Qed.

(* the arm base after a step of the connection: now if a KEEPALIVE was written, unchanged otherwise *)
Lemma apply_actions_lk_eq now : forall acts h k lk,
  snd (apply_actions now h k lk acts) = if existsb is_ka_write acts then now else lk.
Proof.
  induction acts as [|a r IH]; intros h k lk; cbn [apply_actions existsb snd]; [reflexivity|].
  destruct a; cbn [is_ka_write orb]; try apply IH.
  rewrite IH. destruct (beqb b keepalive_encode); cbn [orb]; [|reflexivity].
  destruct (existsb is_ka_write r); reflexivity.
Qed.

Lemma tstep_facts cf pl ts d i ts' acts :
  tstep cf pl ts d i = Some (ts', acts) ->
  ts_now ts' = ts_now ts + d
  /\ ts_last_ka ts' = if existsb is_ka_write acts then ts_now ts + d else ts_last_ka ts.
Proof.
  unfold tstep. destruct (negb _); [discriminate|].
  destruct (conn_step cf pl (ts_conn ts) i) as [c' a'].
  pose proof (apply_actions_lk_eq (ts_now ts + d) a'
                (match i with IHold => None | _ => ts_hold ts end)
                (match i with IKA => None | _ => ts_ka ts end) (ts_last_ka ts)) as Hk.
  destruct (apply_actions _ _ _ _ a') as [[h k] lk]. cbn [snd] in Hk.
  intros H. injection H as <- <-. cbn [ts_now ts_last_ka]. split; [reflexivity|exact Hk].
Qed.

Lemma tinv_advance ts now : tinv ts -> ts_now ts <= now -> tinv (advance ts now).
Proof.
  intros [Hl Hi] Hn. split; [cbn [advance ts_last_ka ts_now]; lia|exact Hi].
Qed.

Lemma Forall_le_mono (l : list N) a b : a <= b -> Forall (fun w => w <= a) l -> Forall (fun w => w <= b) l.
Proof. intros Hab H. eapply Forall_impl; [|exact H]. cbn. intros; lia. Qed.

Lemma Forall_remove_nth {A} (P : A -> Prop) : forall k l, Forall P l -> Forall P (remove_nth k l).
Proof.
  induction k as [|k IH]; intros [|x r] H; cbn [remove_nth]; try exact H.
  - inversion H; assumption.
  - inversion H; subst. constructor; [assumption|apply IH; assumption].
Qed.

Lemma length_remove_nth {A} : forall k (l : list A) w, nth_error l k = Some w -> S (length (remove_nth k l)) = length l.
Proof.
  induction k as [|k IH]; intros [|x r] w H; cbn in H; try discriminate; cbn [remove_nth length].
  - reflexivity.
  - f_equal. eapply IH; exact H.
Qed.

Lemma nth_error_Forall {A} (P : A -> Prop) : forall k l w, Forall P l -> nth_error l k = Some w -> P w.
Proof.
  induction k as [|k IH]; intros [|x r] w H E; cbn in E; try discriminate; inversion H; subst.
  - injection E as <-. assumption.
  - eapply IH; eassumption.
Qed.

Lemma Forall_repeat (P : N -> Prop) x n : P x -> Forall P (repeat x n).
Proof. intros Hx. induction n; cbn; constructor; assumption. Qed.

Theorem xstep_inv cf pl xs d i xs' acts :
  xinv xs -> xstep cf pl xs d i = Some (xs', acts) -> xinv xs'.
Proof.
  intros (Ht & Hka & Hup & Hp & Hb & Hc) Hs. unfold xstep in Hs. unfold last_tx in *.
  destruct i as [ci|b|k].
  - destruct (tstep cf pl (xs_t xs) d ci) as [[ts' a]|] eqn:Et; [|discriminate].
    pose proof (tstep_inv _ _ _ _ _ _ _ Ht Et) as Ht'.
    destruct (tstep_facts _ _ _ _ _ _ _ Et) as [Hn Hl].
    destruct (est ts').
    + injection Hs as <- <-. unfold xinv, last_tx.
      cbn [xs_t xs_last_ka xs_last_upd xs_pending xs_maxlat xs_resets xs_writes].
      rewrite Hn, Hl, app_length, repeat_length.
      refine (conj _ (conj _ (conj _ (conj _ (conj _ _))))).
      * exact Ht'.
      * destruct (existsb is_ka_write a); lia.
      * destruct (Nat.eqb (count_upd a) 0); lia.
      * apply Forall_app. split.
        -- destruct (Nat.eqb (count_upd a) 0); [exact Hp|]. eapply Forall_le_mono; [|exact Hp]. lia.
        -- destruct (Nat.eqb (count_upd a) 0) eqn:E0.
           ++ apply Nat.eqb_eq in E0. rewrite E0. constructor.
           ++ apply Forall_repeat. lia.
      * destruct (existsb is_ka_write a); destruct (Nat.eqb (count_upd a) 0); lia.
      * lia.
    + injection Hs as <- <-. unfold xinv, last_tx.
      cbn [xs_t xs_last_ka xs_last_upd xs_pending xs_maxlat xs_resets xs_writes length].
      rewrite Hn, Hl. refine (conj _ (conj _ (conj _ (conj _ (conj _ _))))).
      * exact Ht'.
      * destruct (existsb is_ka_write a); lia.
      * lia.
      * apply Forall_nil.
      * destruct (existsb is_ka_write a); lia.
      * lia.
  - destruct (est (xs_t xs)); [|discriminate]. injection Hs as <- <-. unfold xinv, last_tx.
    cbn [xs_t xs_last_ka xs_last_upd xs_pending xs_maxlat xs_resets xs_writes advance ts_now ts_last_ka].
    rewrite app_length. cbn [length].
    refine (conj _ (conj _ (conj _ (conj _ (conj _ _))))); try lia.
    + apply tinv_advance; [exact Ht|lia].
    + apply Forall_app. split; [eapply Forall_le_mono; [|exact Hp]; lia|constructor; [lia|constructor]].
  - destruct (est (xs_t xs)) eqn:Ee; [|discriminate].
    destruct (nth_error (xs_pending xs) k) as [w|] eqn:En; [|discriminate].
    pose proof (nth_error_Forall _ _ _ _ Hp En) as Hw. cbn beta in Hw.
    pose proof (length_remove_nth _ _ _ En) as Hlen.
    destruct (c_holdns (ts_conn (xs_t xs)) =? 0) eqn:E0.
    + injection Hs as <- <-. unfold xinv, last_tx.
      cbn [xs_t xs_last_ka xs_last_upd xs_pending xs_maxlat xs_resets xs_writes advance ts_now ts_last_ka].
      refine (conj _ (conj _ (conj _ (conj _ (conj _ _))))); try lia.
      * apply tinv_advance; [exact Ht|lia].
      * apply Forall_remove_nth. exact Hp.
    + injection Hs as <- <-. unfold xinv, last_tx.
      cbn [xs_t xs_last_ka xs_last_upd xs_pending xs_maxlat xs_resets xs_writes rearm ts_now ts_last_ka].
      refine (conj _ (conj _ (conj _ (conj _ (conj _ _))))); try lia.
      * (* tinv of the re-armed state *)
        destruct Ht as [Hl Hi]. unfold est in Ee.
        destruct (xs_t xs) as [[ph H n] now h kk lrx lka].
        cbn [ts_conn c_phase c_holdns ts_now ts_hold ts_ka ts_last_rx ts_last_ka] in *.
        destruct ph; try discriminate. cbv zeta in Hi. cbn [c_phase c_holdns] in Hi. rewrite E0 in Hi.
        destruct Hi as [Hh _]. unfold tinv, rearm.
        cbn [ts_conn c_phase c_holdns ts_now ts_hold ts_ka ts_last_rx ts_last_ka]. rewrite E0.
        split; [lia|]. split; [exact Hh|]. eexists. split; [reflexivity|lia].
      * apply Forall_remove_nth. exact Hp.
Qed.

Theorem xrun_inv cf pl : forall ins xs xs' acts, xinv xs -> xrun cf pl xs ins = Some (xs', acts) -> xinv xs'.
Proof.
  induction ins as [|[d i] r IH]; intros xs xs' acts Hi Hr; cbn [xrun] in Hr.
  - injection Hr as <- <-. exact Hi.
  - destruct (xstep cf pl xs d i) as [[xs1 a]|] eqn:Es; [|discriminate].
    destruct (xrun cf pl xs1 r) as [[xs2 a2]|] eqn:Er; [|discriminate]. injection Hr as <- <-.
    eapply IH; [eapply xstep_inv; eassumption|exact Er].
Qed.

Definition reachable_x cf pl (xs : xstate) : Prop := exists t0 ins acts, xrun cf pl (xinit t0) ins = Some (xs, acts).

Lemma reachable_xinv cf pl xs : reachable_x cf pl xs -> xinv xs.
Proof. intros (t0 & ins & acts & H). eapply xrun_inv; [apply xinv_init|exact H]. Qed.

(* while the session is up with hold time H <> 0: the keep-alive timer is armed, and its deadline is at most
   H/3 + (largest write-to-reset latency) after the last KEEPALIVE or UPDATE written *)
Theorem x_keepalive_armed cf pl xs :
  reachable_x cf pl xs -> up (c_phase (ts_conn (xs_t xs))) = true -> c_holdns (ts_conn (xs_t xs)) <> 0 ->
  exists dl, ts_ka (xs_t xs) = Some dl /\ dl <= last_tx xs + c_holdns (ts_conn (xs_t xs)) / 3 + xs_maxlat xs.
Proof.
  intros Hr Hup Hh. apply reachable_xinv in Hr as ([_ Hi] & _ & _ & _ & Hb & _). cbv zeta in Hi. revert Hi.
  destruct (c_phase (ts_conn (xs_t xs))); try discriminate;
    (destruct (c_holdns (ts_conn (xs_t xs)) =? 0) eqn:E0; [apply N.eqb_eq in E0; contradiction|]);
    intros [_ (dl & Hk & Hdl)]; exists dl; (split; [exact Hk|lia]).
Qed.

Theorem x_keepalive_cadence cf pl xs d L :
  reachable_x cf pl xs -> up (c_phase (ts_conn (xs_t xs))) = true -> c_holdns (ts_conn (xs_t xs)) <> 0 ->
  served_within L (xs_t xs) d ->
  ts_now (xs_t xs) + d <= last_tx xs + c_holdns (ts_conn (xs_t xs)) / 3 + xs_maxlat xs + L.
Proof.
  intros Hr Hup Hh Hs. destruct (x_keepalive_armed cf pl xs Hr Hup Hh) as (dl & Hk & Hdl).
  unfold served_within in Hs. rewrite Hk in Hs. lia.
Qed.

(* local writes never make the hold timer fire early *)
Theorem x_no_early_expiry cf pl xs d r :
  reachable_x cf pl xs -> up (c_phase (ts_conn (xs_t xs))) = true -> c_holdns (ts_conn (xs_t xs)) <> 0 ->
  xstep cf pl xs d (XConn IHold) = Some r ->
  ts_last_rx (xs_t xs) + c_holdns (ts_conn (xs_t xs)) <= ts_now (xs_t xs) + d.
Proof.
  intros Hr Hup Hh Hs. apply reachable_xinv in Hr as ([_ Hi] & _).
  unfold xstep in Hs. destruct (tstep cf pl (xs_t xs) d IHold) as [r0|] eqn:Et; [|discriminate]. clear Hs.
  unfold tstep in Et. destruct (negb _) eqn:En; [discriminate|]. apply negb_false_iff in En.
  apply andb_true_iff in En as [_ En]. cbv zeta in Hi. revert Hi.
  destruct (c_phase (ts_conn (xs_t xs))); try discriminate;
    (destruct (c_holdns (ts_conn (xs_t xs)) =? 0) eqn:E0; [apply N.eqb_eq in E0; contradiction|]);
    intros [Hh' _]; rewrite Hh' in En; cbn [due] in En; lia.
Qed.

(* a served reset re-arms with exactly a third of the hold time, counted from the moment it is served *)
Theorem x_reset_action cf pl xs d k xs' acts :
  c_holdns (ts_conn (xs_t xs)) <> 0 -> xstep cf pl xs d (XReset k) = Some (xs', acts) ->
  acts = [AArmKA (c_holdns (ts_conn (xs_t xs)) / 3)]
  /\ ts_ka (xs_t xs') = Some (ts_now (xs_t xs) + d + c_holdns (ts_conn (xs_t xs)) / 3)
  /\ ts_conn (xs_t xs') = ts_conn (xs_t xs) /\ ts_hold (xs_t xs') = ts_hold (xs_t xs).
Proof.
  intros Hh Hs. unfold xstep in Hs. destruct (est _); [|discriminate].
  destruct (nth_error _ _); [|discriminate].
  destruct (c_holdns (ts_conn (xs_t xs)) =? 0) eqn:E0; [apply N.eqb_eq in E0; contradiction|].
  injection Hs as <- <-. repeat split.
Qed.

(* hold time 0: no write and no reset ever arms a timer, and no timer can fire *)
Theorem x_zero_hold cf pl xs d :
  reachable_x cf pl xs -> up (c_phase (ts_conn (xs_t xs))) = true -> c_holdns (ts_conn (xs_t xs)) = 0 ->
  xstep cf pl xs d (XConn IHold) = None /\ xstep cf pl xs d (XConn IKA) = None
  /\ (forall k xs' acts, xstep cf pl xs d (XReset k) = Some (xs', acts) ->
        acts = [] /\ ts_ka (xs_t xs') = None /\ ts_hold (xs_t xs') = None /\ xs_resets xs' = xs_resets xs)
  /\ (forall b xs' acts, xstep cf pl xs d (XWrite b) = Some (xs', acts) ->
        ts_ka (xs_t xs') = None /\ ts_hold (xs_t xs') = None).
Proof.
  intros Hr Hup Hh. apply reachable_xinv in Hr as ([_ Hv] & _).
  assert (Ht : ts_hold (xs_t xs) = None /\ ts_ka (xs_t xs) = None).
  { cbv zeta in Hv. revert Hv. destruct (c_phase (ts_conn (xs_t xs))); try discriminate; rewrite Hh; intros Hv; exact Hv. }
  destruct Ht as [Hth Htk]. repeat split.
  - unfold xstep, tstep. rewrite Hth. cbn [due]. rewrite andb_false_r. reflexivity.
  - unfold xstep, tstep. rewrite Htk. cbn [due]. rewrite andb_false_r. reflexivity.
  - unfold xstep in H. destruct (est _); [|discriminate]. destruct (nth_error _ _); [|discriminate].
    rewrite Hh in H. cbn in H. injection H as <- <-. reflexivity.
  - unfold xstep in H. destruct (est _); [|discriminate]. destruct (nth_error _ _); [|discriminate].
    rewrite Hh in H. cbn in H. injection H as <- <-. exact Htk.
  - unfold xstep in H. destruct (est _); [|discriminate]. destruct (nth_error _ _); [|discriminate].
    rewrite Hh in H. cbn in H. injection H as <- <-. exact Hth.
  - unfold xstep in H. destruct (est _); [|discriminate]. destruct (nth_error _ _); [|discriminate].
    rewrite Hh in H. cbn in H. injection H as <- <-. reflexivity.
  - unfold xstep in H. destruct (est _); [|discriminate]. injection H as <- <-. exact Htk.
  - unfold xstep in H. destruct (est _); [|discriminate]. injection H as <- <-. exact Hth.
Qed.

(* the manager re-arms at most once per UPDATE written *)
Theorem x_resets_le_writes cf pl xs : reachable_x cf pl xs -> xs_resets xs <= xs_writes xs.
Proof. intros Hr. apply reachable_xinv in Hr as (_ & _ & _ & _ & _ & Hc). lia. Qed.

(* without local writes the extended system is Timed.v: XConn steps are tstep on the embedded state *)
Theorem x_conn_is_tstep cf pl xs d i xs' acts :
  xstep cf pl xs d (XConn i) = Some (xs', acts) -> tstep cf pl (xs_t xs) d i = Some (xs_t xs', acts).
Proof.
  unfold xstep. destruct (tstep cf pl (xs_t xs) d i) as [[ts' a]|]; [|discriminate].
  destruct (est ts'); intros H; injection H as <- <-; reflexivity.
Qed.
