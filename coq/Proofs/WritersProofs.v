(* WritersProofs.v — C04 for every interleaving of writers, FSM writes and session ends. *)
From Verif Require Import Base Consts Packet PacketSpec Conn Writers BaseLemmas PacketProofs ConnProofs FrameProofs.
From Coq Require Import ZifyN ZifyNat ZifyBool.

Lemma wrun_app s es1 es2 :
  wrun s (es1 ++ es2) =
  let (s1, o1) := wrun s es1 in let (s2, o2) := wrun s1 es2 in (s2, o1 ++ o2).
Proof.
  revert s. induction es1 as [|e r IH]; intros s; cbn [wrun app].
  - destruct (wrun s es2). reflexivity.
  - destruct (wstep s e) as [s1 o]. rewrite IH. destruct (wrun s1 r) as [s2 os]. destruct (wrun s2 es2). reflexivity.
Qed.

(* each nil-returning WriteUpdate(b) appears exactly once, as update_frame b, in call order, on the
   connection its writer is bound to; nothing else is attributed to that writer *)
Theorem writer_exactly_once : forall es s c w,
  from_writer (fst (wrun s es)) c w = from_writer s c w ++ map update_frame (acked es (snd (wrun s es)) c w).
Proof.
  induction es as [|e r IH]; intros s c w; cbn [wrun fst snd acked map]; [rewrite app_nil_r; reflexivity|].
  destruct (wstep s e) as [s1 o] eqn:Es. specialize (IH s1 c w).
  destruct (wrun s1 r) as [s2 os]. cbn [fst snd] in *. rewrite IH. clear IH.
  destruct e as [c' w' b|c' f|c']; cbn [wstep] in Es.
  - destruct (ended s c'); injection Es as <- <-; [reflexivity|].
    unfold from_writer at 1. cbn [w_wire]. rewrite flat_map_app. cbn [flat_map].
    fold (from_writer s c w). destruct (Nat.eqb c' c && Nat.eqb w' w); cbn [map app]; rewrite ?app_nil_r, <- ?app_assoc; reflexivity.
  - destruct (ended s c'); injection Es as <- <-; [reflexivity|].
    unfold from_writer at 1. cbn [w_wire]. rewrite flat_map_app. cbn [flat_map]. rewrite app_nil_r. reflexivity.
  - injection Es as <- <-. reflexivity.
Qed.

Theorem writer_exactly_once_init es c w :
  from_writer (fst (wrun winit es)) c w = map update_frame (acked es (snd (wrun winit es)) c w).
Proof. exact (writer_exactly_once es winit c w). Qed.

(* once a session has ended its writer fails and the wire of every connection is unchanged by it *)
Theorem ended_writer_inert s c w b :
  ended s c = true -> wstep s (WWrite c w b) = (s, Some false).
Proof. intros H. cbn [wstep]. rewrite H. reflexivity. Qed.

Lemma ended_mono s e c : ended s c = true -> ended (fst (wstep s e)) c = true.
Proof.
  intros H. destruct e as [c' w' b|c' f|c']; cbn [wstep].
  - destruct (ended s c'); exact H.
  - destruct (ended s c'); exact H.
  - unfold ended. cbn [fst w_ended existsb]. unfold ended in H. rewrite H. apply orb_true_r.
Qed.

Theorem ended_forever : forall es s c, ended s c = true -> ended (fst (wrun s es)) c = true.
Proof.
  induction es as [|e r IH]; intros s c H; cbn [wrun fst]; [exact H|].
  pose proof (ended_mono s e c H) as H1. destruct (wstep s e) as [s1 o]. cbn [fst] in H1.
  specialize (IH s1 c H1). destruct (wrun s1 r). exact IH.
Qed.

Theorem nothing_after_end : forall es s c,
  ended s c = true -> frames_of (fst (wrun s es)) c = frames_of s c.
Proof.
  induction es as [|e r IH]; intros s c H; cbn [wrun fst]; [reflexivity|].
  pose proof (ended_mono s e c H) as H1. destruct (wstep s e) as [s1 o] eqn:Es. cbn [fst] in H1.
  specialize (IH s1 c H1). destruct (wrun s1 r) as [s2 os]. cbn [fst] in *. rewrite IH. clear IH.
  destruct e as [c' w' b|c' f|c']; cbn [wstep] in Es.
  - destruct (ended s c') eqn:Ee; injection Es as <- <-; [reflexivity|].
    unfold frames_of. cbn [w_wire]. rewrite flat_map_app. cbn [flat_map fst].
    destruct (Nat.eqb c' c) eqn:Ec; [apply Nat.eqb_eq in Ec; subst; congruence|]. rewrite !app_nil_r. reflexivity.
  - destruct (ended s c') eqn:Ee; injection Es as <- <-; [reflexivity|].
    unfold frames_of. cbn [w_wire]. rewrite flat_map_app. cbn [flat_map fst].
    destruct (Nat.eqb c' c) eqn:Ec; [apply Nat.eqb_eq in Ec; subst; congruence|]. rewrite !app_nil_r. reflexivity.
  - injection Es as <- <-. reflexivity.
Qed.

(* the byte stream of a connection is the concatenation of the whole frames appended to it *)
Lemma wire_is_frames s c : wire_of s c = concat (frames_of s c).
Proof.
  unfold wire_of, frames_of. induction (w_wire s) as [|x l IH]; cbn [flat_map]; [reflexivity|].
  cbv beta. rewrite concat_app, IH.
  destruct x as [[c' w'] f]. cbn [fst snd]. destruct (Nat.eqb c' c); cbn [concat app]; rewrite ?app_nil_r; reflexivity.
Qed.

(* every frame on the wire is well formed provided the FSM's own are and bodies are at most 4077 bytes *)
Definition wevent_ok (e : wevent) : Prop :=
  match e with
  | WWrite _ _ b => blen b <= 4077
  | WFsm _ f => wf_frame f
  | WEnd _ => True
  end.

Theorem wire_frames_wellformed : forall es s c,
  Forall wevent_ok es -> Forall wf_frame (frames_of s c) ->
  Forall wf_frame (frames_of (fst (wrun s es)) c).
Proof.
  induction es as [|e r IH]; intros s c Hes Hs; cbn [wrun fst]; [exact Hs|].
  inversion Hes as [|? ? He Hr]; subst.
  destruct (wstep s e) as [s1 o] eqn:Es.
  assert (H1 : Forall wf_frame (frames_of s1 c)).
  { destruct e as [c' w' b|c' f|c']; cbn [wstep] in Es.
    - destruct (ended s c'); injection Es as <- <-; [exact Hs|].
      unfold frames_of. cbn [w_wire]. rewrite flat_map_app. apply Forall_app. split; [exact Hs|].
      cbn [flat_map fst snd]. destruct (Nat.eqb c' c); [|constructor].
      constructor; [apply update_frame_wf; exact He|constructor].
    - destruct (ended s c'); injection Es as <- <-; [exact Hs|].
      unfold frames_of. cbn [w_wire]. rewrite flat_map_app. apply Forall_app. split; [exact Hs|].
      cbn [flat_map fst snd]. destruct (Nat.eqb c' c); [|constructor]. constructor; [exact He|constructor].
    - injection Es as <- <-. exact Hs. }
  specialize (IH s1 c Hr H1). destruct (wrun s1 r). exact IH.
Qed.

(* ... so the remote's strict stream parser recovers exactly the frames that were appended, in order *)
Definition frame_tb (f : bytes) : N * bytes :=
  match spec_frame_parse f with Some tb => tb | None => (0, []) end.

Lemma wf_frame_tb f :
  wf_frame f ->
  f = spec_frame_enc (fst (frame_tb f)) (snd (frame_tb f))
  /\ blen (snd (frame_tb f)) <= 4077 /\ known_type (fst (frame_tb f)) = true.
Proof.
  intros (t & body & Hp & He). unfold frame_tb. rewrite Hp. cbn [fst snd]. split; [exact He|].
  unfold spec_frame_parse in Hp.
  destruct ((19 <=? blen f) && (blen f <=? 4096) && beqb (firstn 16 f) (repeat 255 16)) eqn:E; [|discriminate].
  apply andb_true_iff in E as [E _]. apply andb_true_iff in E as [_ E].
  destruct (skipn 16 f) as [|l1 [|l0 [|t' body']]]; try discriminate.
  destruct ((l1 * 256 + l0 =? blen f) && known_type t') eqn:E2; [|discriminate].
  injection Hp as -> ->. apply andb_true_iff in E2 as [_ Hk]. split; [|exact Hk].
  rewrite He, blen_frame in E. lia.
Qed.

Theorem wire_parses es c :
  Forall wevent_ok es ->
  let s := fst (wrun winit es) in
  spec_stream_parse (S (length (frames_of s c))) (wire_of s c) = Some (map frame_tb (frames_of s c)).
Proof.
  intros Hes s.
  pose proof (wire_frames_wellformed es winit c Hes (Forall_nil _)) as Hwf. fold s in Hwf.
  rewrite wire_is_frames.
  assert (Hc : concat (frames_of s c)
               = flat_map (fun tb => spec_frame_enc (fst tb) (snd tb)) (map frame_tb (frames_of s c))).
  { induction Hwf as [|f l Hf Hl IH]; cbn [concat map flat_map]; [reflexivity|].
    rewrite <- IH. destruct (wf_frame_tb f Hf) as [He _]. rewrite <- He. reflexivity. }
  rewrite Hc. apply frames_self_delimiting.
  - clear Hc. induction Hwf as [|f l Hf Hl IH]; cbn [map]; constructor; [|exact IH].
    destruct (wf_frame_tb f Hf) as (_ & Hb & Hk). split; assumption.
  - rewrite map_length. lia.
Qed.
