(* OpenProofs3.v — C02: a refusal for a structural reason names a fault that the optional-parameters
   field actually has: subcode 4 only if a parameter of unknown type is present, subcode 0 only if the
   field is empty, overruns, or a capabilities parameter is empty / overruns (walk by declared lengths). *)
From Verif Require Import Base Consts Packet PacketSpec OpenSpec BaseLemmas PacketProofs OpenProofs OpenProofs2.
From Coq Require Import ZifyN ZifyNat ZifyBool.
Ltac Zify.zify_post_hook ::= Z.div_mod_to_equations.

Definition bad_caps_param (tv : N * bytes) : bool :=
  (fst tv =? 2) && (let (cs, ok2) := tlvs (snd tv) in negb ok2 || is_nil cs).

Lemma tlv_walk_step g t l r :
  l <= blen r ->
  tlv_walk (S g) (t :: l :: r) = ((t, take l r) :: fst (tlv_walk g (drop l r)), snd (tlv_walk g (drop l r))).
Proof.
  intros Hl. cbn [tlv_walk]. replace (l <=? blen r) with true by lia.
  destruct (tlv_walk g (drop l r)). reflexivity.
Qed.

(* a capability list that the decoder refuses is empty or does not walk *)
Lemma caps_decode_err_walk : forall f g b n,
  wf_bytes b = true -> blen b < 256 -> (length b < g)%nat ->
  caps_decode f b = Err n -> b = [] \/ snd (tlv_walk g b) = false.
Proof.
  induction f as [|f IH]; intros g b n Hw Hb Hg H; [discriminate|].
  cbn [caps_decode] in H.
  destruct b as [|code [|len r]]; [left; reflexivity|right; destruct g; reflexivity|].
  right. destruct g as [|g]; [cbn in Hg; lia|].
  destruct (blen (code :: len :: r) <? len + 2) eqn:E.
  { cbn [tlv_walk]. rewrite !blen_cons in E. replace (len <=? blen r) with false by lia. reflexivity. }
  assert (Hl : len <= blen r) by (rewrite !blen_cons in E; lia).
  cbn [wf_bytes forallb] in Hw.
  apply andb_true_iff in Hw as [Hc Hw]. apply andb_true_iff in Hw as [Hlen Hr].
  rewrite tlv_value in H by assumption. cbn [rbind] in H.
  rewrite tlv_rest in H by assumption. cbn [rbind] in H.
  rewrite tlv_walk_step by assumption. cbn [snd].
  destruct (blen (drop len r) =? 0) eqn:E0; [discriminate|].
  destruct (caps_decode f (drop len r)) as [cs|e| |] eqn:Er; cbn [rbind] in H; try discriminate.
  apply (IH g) in Er.
  - destruct Er as [Er|Er]; [rewrite Er in E0; discriminate|exact Er].
  - apply wf_bytes_drop; assumption.
  - rewrite blen_drop. rewrite !blen_cons in Hb. lia.
  - unfold drop. rewrite skipn_length. cbn [length] in Hg. lia.
Qed.

Lemma params_decode_err_walk : forall f g b n,
  wf_bytes b = true -> blen b < 256 -> (length b < g)%nat ->
  params_decode f b = Err n ->
  (n = open_err 0 [] /\ (b = [] \/ snd (tlv_walk g b) = false \/ existsb bad_caps_param (fst (tlv_walk g b)) = true))
  \/ (n = open_err 4 [] /\ existsb (fun tv => negb (fst tv =? 2)) (fst (tlv_walk g b)) = true).
Proof.
  induction f as [|f IH]; intros g b n Hw Hb Hg H; [discriminate|].
  cbn [params_decode] in H.
  destruct b as [|code [|len r]].
  - injection H as <-. left. split; [reflexivity|left; reflexivity].
  - injection H as <-. left. split; [reflexivity|right; left; destruct g; reflexivity].
  - destruct g as [|g]; [cbn in Hg; lia|].
    destruct (blen (code :: len :: r) <? len + 2) eqn:E.
    { injection H as <-. left. split; [reflexivity|]. right. left.
      cbn [tlv_walk]. rewrite !blen_cons in E. replace (len <=? blen r) with false by lia. reflexivity. }
    assert (Hl : len <= blen r) by (rewrite !blen_cons in E; lia).
    cbn [wf_bytes forallb] in Hw.
    apply andb_true_iff in Hw as [Hc Hw]. apply andb_true_iff in Hw as [Hlen Hr].
    rewrite tlv_value in H by assumption. cbn [rbind] in H.
    rewrite tlv_rest in H by assumption. cbn [rbind] in H.
    rewrite tlv_walk_step by assumption. cbn [fst snd existsb].
    change c_capabilityOptionalParamType with 2 in H.
    destruct (code =? 2) eqn:Ecode.
    2:{ injection H as <-. right. split; [reflexivity|]. reflexivity. }
    destruct (caps_decode (S (length (take len r))) (take len r)) as [cs|e| |] eqn:Ec; cbn [rbind] in H; try discriminate.
    + destruct (blen (drop len r) =? 0) eqn:E0; [discriminate|].
      destruct (params_decode f (drop len r)) as [ps|e'| |] eqn:Er; cbn [rbind] in H; try discriminate.
      injection H as <-.
      apply (IH g) in Er.
      * destruct Er as [[-> Hc0]|[-> Hc4]].
        -- left. split; [reflexivity|]. right.
           destruct Hc0 as [Hc0|[Hc0|Hc0]].
           ++ rewrite Hc0 in E0. discriminate.
           ++ left. exact Hc0.
           ++ right. rewrite Hc0. apply orb_true_r.
        -- right. split; [reflexivity|]. rewrite Hc4. apply orb_true_r.
      * apply wf_bytes_drop; assumption.
      * rewrite blen_drop. rewrite !blen_cons in Hb. lia.
      * unfold drop. rewrite skipn_length. cbn [length] in Hg. lia.
    + injection H as <-. pose proof (caps_decode_err _ _ _ Ec) as ->.
      left. split; [reflexivity|]. right. right.
      unfold bad_caps_param at 1. cbn [fst snd]. rewrite Ecode. cbn [andb].
      apply (caps_decode_err_walk _ (S (length (take len r)))) in Ec.
      * unfold tlvs. destruct Ec as [Ec|Ec].
        -- rewrite Ec. reflexivity.
        -- destruct (tlv_walk (S (length (take len r))) (take len r)) as [cs ok]. cbn [snd] in Ec. subst ok. reflexivity.
      * apply wf_bytes_take; assumption.
      * rewrite blen_take by assumption. apply wf_byte_lt; assumption.
      * lia.
Qed.

(* C02: the structural refusals name a fault that is present *)
Theorem handle_open_structural lid las ras b n :
  wf_bytes b = true -> 10 <= blen b ->
  handle_open lid las ras b = OReject n ->
  (forall o, open_repr o = true -> spec_open_body o <> b) ->
  (n = mkNotif 2 0 [] /\ fault_inconsistent b = true)
  \/ (n = mkNotif 2 4 [] /\ fault_unknown_param b = true).
Proof.
  intros Hw Hlen H Hno. unfold handle_open in H.
  destruct (open_decode b) as [o|e| |] eqn:Ed; try discriminate.
  { exfalso. destruct (open_decode_inverse b o Hw Ed) as [Ho Hb]. exact (Hno o Ho Hb). }
  injection H as <-. unfold open_decode in Ed.
  destruct b as [|v [|a1 [|a0 [|h1 [|h0 [|i3 [|i2 [|i1 [|i0 [|ol rest]]]]]]]]]];
    try (rewrite ?blen_cons, ?blen_nil in Hlen; lia).
  unfold fault_inconsistent, fault_unknown_param.
  assert (Hbl : blen (v :: a1 :: a0 :: h1 :: h0 :: i3 :: i2 :: i1 :: i0 :: ol :: rest) - 10 = blen rest)
    by (rewrite !blen_cons; lia).
  rewrite Hbl in Ed.
  destruct (ol =? blen rest) eqn:Eol; cbn [negb] in Ed.
  2:{ injection Ed as <-. left. split; [reflexivity|]. destruct (tlvs rest). reflexivity. }
  destruct (params_decode (S (length rest)) rest) as [ps|e'| |] eqn:Ep; cbn [rbind] in Ed; try discriminate.
  injection Ed as <-.
  assert (Hwr : wf_bytes rest = true).
  { cbn [wf_bytes forallb] in Hw. repeat (apply andb_true_iff in Hw as [_ Hw]). exact Hw. }
  assert (Hol : ol < 256).
  { cbn [wf_bytes forallb] in Hw. do 9 (apply andb_true_iff in Hw as [_ Hw]). apply andb_true_iff in Hw as [Hw _].
    apply wf_byte_lt. exact Hw. }
  apply (params_decode_err_walk _ (S (length rest))) in Ep; [|exact Hwr|lia|lia].
  unfold tlvs. destruct (tlv_walk (S (length rest)) rest) as [ts ok] eqn:Ew. cbn [fst snd] in Ep.
  destruct Ep as [[-> Hc0]|[-> Hc4]].
  - left. split; [reflexivity|]. cbn [negb orb].
    destruct Hc0 as [Hc0|[Hc0|Hc0]].
    + subst rest. cbn in Ew. injection Ew as <- <-. reflexivity.
    + subst ok. reflexivity.
    + apply orb_true_iff. right. exact Hc0.
  - right. split; [reflexivity|exact Hc4].
Qed.
