(* ServerProofs.v — C20 (registry refinement, lifecycle, validation), C13 (admission
   predicate), C12 (hold-down schedule). *)
From Verif Require Import Base Consts Server ServerSpec BaseLemmas.
From Coq Require Import ZArith ZifyN ZifyNat ZifyBool.
Ltac Zify.zify_post_hook ::= Z.div_mod_to_equations.

(* ---- validation ---- *)
Theorem validate_iff_usable c o : opts_validate o && cfg_validate c o = usable c o.
Proof.
  unfold opts_validate, cfg_validate, usable, is_valid, is4, is6.
  destruct (a_kind (c_remote c)), (a_kind (o_local o)); cbn [akind_eqb negb andb orb Bool.eqb];
  destruct (c_las c =? 0), (c_ras c =? 0); cbn [negb andb orb]; try lia;
  rewrite ?andb_true_r, ?andb_false_r; try lia.
Qed.

Theorem new_server_iff r : new_server_ok r = true <-> a_kind r = A4.
Proof. unfold new_server_ok, is4. destruct (a_kind r); cbn; split; congruence. Qed.

(* ---- registry invariant ---- *)
Lemma addr_eqb_refl a : addr_eqb a a = true.
Proof. unfold addr_eqb. destruct (a_kind a); cbn; rewrite ?N.eqb_refl; reflexivity. Qed.
Lemma addr_eqb_sym a b : addr_eqb a b = addr_eqb b a.
Proof. unfold addr_eqb. destruct (a_kind a), (a_kind b); cbn; rewrite ?(N.eqb_sym (a_id a)); reflexivity. Qed.
Lemma addr_eqb_valid_eq a b : is_valid a = true -> addr_eqb a b = true -> a = b.
Proof.
  unfold addr_eqb, is_valid. destruct a as [ka ia], b as [kb ib]; cbn.
  destruct ka, kb; cbn; try discriminate; intros _ H; apply N.eqb_eq in H; subst; reflexivity.
Qed.
Lemma addr_eqb_trans a b c : addr_eqb a b = true -> addr_eqb b c = true -> addr_eqb a c = true.
Proof.
  unfold addr_eqb. destruct (a_kind a), (a_kind b), (a_kind c); cbn; try discriminate; auto;
  intros H1 H2; apply N.eqb_eq in H1; apply N.eqb_eq in H2; apply N.eqb_eq; congruence.
Qed.

Definition keys_ok (m : list (addr * (pcfg * popts))) : Prop :=
  (forall k v, In (k, v) m -> is_valid k = true /\ k = c_remote (fst v))
  /\ NoDup (map fst m).

Definition inv (s : server) : Prop := keys_ok (s_peers s) /\ lifecycle_ok s.

Lemma lookup_none_notin a m :
  lookup a m = None -> forall k v, In (k, v) m -> addr_eqb k a = false.
Proof.
  unfold lookup. intros H k v Hin.
  destruct (find (fun kv => addr_eqb (fst kv) a) m) eqn:E; [discriminate|].
  eapply find_none in E; [|exact Hin]. exact E.
Qed.

Lemma lookup_some a m c o :
  lookup a m = Some (c, o) -> exists k, In (k, (c, o)) m /\ addr_eqb k a = true.
Proof.
  unfold lookup. destruct (find (fun kv => addr_eqb (fst kv) a) m) as [[k v]|] eqn:E; [|discriminate].
  intros [= ->]. apply find_some in E as [Hin Hk]. exists k. split; assumption.
Qed.

Lemma lookup_cons a k v m :
  lookup a ((k, v) :: m) = if addr_eqb k a then Some v else lookup a m.
Proof. unfold lookup. cbn [find fst snd]. destruct (addr_eqb k a); reflexivity. Qed.

Lemma lookup_remove a x m :
  lookup x (remove_key a m) = if addr_eqb x a then None else lookup x m.
Proof.
  induction m as [|[k v] m IH]; [destruct (addr_eqb x a); reflexivity|].
  unfold remove_key in *. cbn [filter fst]. destruct (addr_eqb k a) eqn:Eka; cbn [negb].
  - rewrite IH, lookup_cons. destruct (addr_eqb x a) eqn:Exa; [reflexivity|].
    destruct (addr_eqb k x) eqn:Ekx; [|reflexivity].
    rewrite addr_eqb_sym in Ekx. rewrite (addr_eqb_trans x k a Ekx Eka) in Exa. discriminate.
  - rewrite !lookup_cons, IH. destruct (addr_eqb k x) eqn:Ekx; [|reflexivity].
    destruct (addr_eqb x a) eqn:Exa; [|reflexivity].
    rewrite (addr_eqb_trans k x a Ekx Exa) in Eka. discriminate.
Qed.

Lemma in_remove_key a m k v : In (k, v) (remove_key a m) <-> In (k, v) m /\ addr_eqb k a = false.
Proof.
  unfold remove_key. rewrite filter_In. cbn [fst]. split; intros [H1 H2]; split; auto.
  - destruct (addr_eqb k a); [discriminate|reflexivity].
  - rewrite H2. reflexivity.
Qed.

Lemma map_fst_remove_key a m : map fst (remove_key a m) = remove_addr a (map fst m).
Proof.
  induction m as [|[k v] m IH]; [reflexivity|]. unfold remove_key, remove_addr in *. cbn [filter map fst].
  destruct (addr_eqb k a); cbn [negb map fst]; rewrite IH; reflexivity.
Qed.

Lemma NoDup_filter {A} (f : A -> bool) l : NoDup l -> NoDup (filter f l).
Proof.
  induction 1 as [|x l Hx Hl IH]; [constructor|]. cbn. destruct (f x); [|exact IH].
  constructor; [|exact IH]. intros Hin. apply filter_In in Hin as [Hin _]. contradiction.
Qed.

(* every operation preserves the invariant *)
Theorem step_inv s op : inv s -> inv (fst (server_step s op)).
Proof.
  intros [[Hk Hnd] Hl]. unfold inv, server_step.
  destruct op as [c o|a|a| | | |].
  - destruct (negb (opts_validate o)) eqn:Eo; [split; [split|]; assumption|].
    destruct (negb (cfg_validate c o)) eqn:Ec; [split; [split|]; assumption|].
    destruct (lookup (c_remote c) (s_peers s)) as [v|] eqn:El; [split; [split|]; assumption|].
    cbn [fst s_peers s_serving s_running].
    assert (Hv : is_valid (c_remote c) = true).
    { pose proof (validate_iff_usable c o) as Hu. unfold usable in Hu.
      destruct (opts_validate o); [|discriminate]. destruct (cfg_validate c o); [|discriminate].
      cbn in Hu. destruct (is_valid (c_remote c)); [reflexivity|discriminate]. }
    split; [split|].
    + intros k v [Heq|Hin]; [injection Heq as <- <-; split; [assumption|reflexivity]|eapply Hk; exact Hin].
    + cbn [map fst]. constructor; [|assumption]. intros Hin. apply in_map_iff in Hin as [[k v] [Hkk Hin]].
      cbn in Hkk. subst k. pose proof (lookup_none_notin _ _ El _ _ Hin) as Hne.
      rewrite addr_eqb_refl in Hne. discriminate.
    + unfold lifecycle_ok in *. cbn [s_serving s_running s_peers]. destruct (s_serving s).
      * cbn [map fst]. intros a. cbn [In]. rewrite (Hl a). reflexivity.
      * exact Hl.
  - destruct (lookup a (s_peers s)) as [v|] eqn:El; [|split; [split|]; assumption].
    cbn [fst s_peers s_serving s_running]. split; [split|].
    + intros k v0 Hin. apply in_remove_key in Hin as [Hin _]. eapply Hk; exact Hin.
    + rewrite map_fst_remove_key. apply NoDup_filter. assumption.
    + unfold lifecycle_ok in *. cbn [s_serving s_running s_peers]. destruct (s_serving s).
      * rewrite map_fst_remove_key. intros x. unfold remove_addr. rewrite !filter_In, (Hl x). reflexivity.
      * rewrite Hl. reflexivity.
  - split; [split|]; assumption.
  - split; [split|]; assumption.
  - destruct (s_closed s); [split; [split|]; assumption|].
    destruct (s_serving s) eqn:Esv; [split; [split|]; assumption|].
    cbn [fst s_peers s_serving s_running]. split; [split; assumption|].
    unfold lifecycle_ok. cbn [s_serving s_running s_peers]. intros a; reflexivity.
  - destruct (s_serving s) eqn:Es; cbn [fst s_peers s_serving s_running];
      (split; [split; assumption|]); unfold lifecycle_ok in *; cbn [s_serving s_running].
    + reflexivity.
    + rewrite Es in Hl. exact Hl.
  - destruct (s_serving s) eqn:Es; cbn [fst s_peers s_serving s_running].
    + split; [split; assumption|]. unfold lifecycle_ok. cbn [s_serving s_running]. reflexivity.
    + split; [split; assumption|]. exact Hl.
Qed.

Theorem init_inv : inv server_init.
Proof. split; [split; [intros k v []|constructor]|reflexivity]. Qed.

(* every operation refines the abstract map specification *)
Theorem step_refines s op :
  inv s ->
  let (s', out) := server_step s op in
  spec_step (abs s) (s_serving s) (s_closed s) op out (abs s') (s_serving s') (s_closed s').
Proof.
  intros [[Hk Hnd] Hl]. unfold server_step, spec_step.
  destruct op as [c o|a|a| | | |].
  - rewrite <- validate_iff_usable.
    destruct (opts_validate o) eqn:Eo; cbn [negb andb].
    2:{ repeat split; reflexivity. }
    destruct (cfg_validate c o) eqn:Ec; cbn [negb].
    2:{ repeat split; reflexivity. }
    unfold abs at 1. destruct (lookup (c_remote c) (s_peers s)) as [[c' o']|] eqn:El.
    + repeat split; reflexivity.
    + cbn [s_serving s_closed]. repeat split; try reflexivity.
      intros a. unfold abs, aupd. cbn [s_peers]. rewrite lookup_cons. rewrite (addr_eqb_sym a).
      destruct (addr_eqb (c_remote c) a); reflexivity.
  - unfold abs at 1. destruct (lookup a (s_peers s)) as [[c' o']|] eqn:El.
    + cbn [s_serving s_closed]. repeat split; try reflexivity.
      intros x. unfold abs, aupd. cbn [s_peers]. rewrite lookup_remove. destruct (addr_eqb x a); reflexivity.
    + repeat split; reflexivity.
  - repeat split; reflexivity.
  - split; [|repeat split; reflexivity].
    intros c. rewrite in_map_iff. split.
    + intros [[k [c' o']] [Heq Hin]]. cbn in Heq. subst c'. exists k. unfold abs.
      destruct (Hk _ _ Hin) as [Hv Hkr]. cbn in Hkr.
      unfold lookup. destruct (find (fun kv => addr_eqb (fst kv) k) (s_peers s)) as [[k2 [c2 o2]]|] eqn:Ef.
      * apply find_some in Ef as [Hin2 Hk2]. cbn in Hk2.
        destruct (Hk _ _ Hin2) as [Hv2 _]. apply addr_eqb_valid_eq in Hk2; [|assumption]. subst k2.
        (* distinct keys: the two entries coincide *)
        assert (Heq : (c2, o2) = (c, o')).
        { clear - Hnd Hin Hin2. induction (s_peers s) as [|[k0 v0] m IH]; [contradiction|].
          cbn [map fst] in Hnd. inversion Hnd as [|? ? Hnin Hnd']; subst.
          destruct Hin as [Heq|Hin]; destruct Hin2 as [Heq2|Hin2].
          - congruence.
          - injection Heq as -> ->. exfalso. apply Hnin. apply in_map_iff. exists (k, (c2, o2)). split; [reflexivity|assumption].
          - injection Heq2 as -> ->. exfalso. apply Hnin. apply in_map_iff. exists (k, (c, o')). split; [reflexivity|assumption].
          - apply IH; assumption. }
        injection Heq as -> _. reflexivity.
      * eapply find_none in Ef; [|exact Hin]. cbn in Ef. rewrite addr_eqb_refl in Ef. discriminate.
    + intros [a Ha]. unfold abs in Ha. destruct (lookup a (s_peers s)) as [[c' o']|] eqn:El; [|discriminate].
      injection Ha as ->. apply lookup_some in El as [k [Hin _]]. exists (k, (c, o')). split; [reflexivity|assumption].
  - destruct (s_closed s) eqn:Ecl.
    + cbn. repeat split; rewrite ?orb_false_r, ?Ecl; try reflexivity. right. reflexivity.
    + destruct (s_serving s) eqn:Esv.
      * repeat split; assumption.
      * cbn [s_serving s_closed negb]. repeat split; rewrite ?orb_true_r, ?Ecl; try reflexivity. left. reflexivity.
  - destruct (s_serving s) eqn:Es; cbn [s_serving s_closed]; repeat split; rewrite ?Es; reflexivity.
  - destruct (s_serving s) eqn:Es; cbn [s_serving s_closed]; repeat split;
      rewrite ?Es, ?orb_true_r, ?orb_false_r; reflexivity.
Qed.

(* lifted to every operation sequence from the initial server *)
Fixpoint run_states (s : server) (ops : list sop) : list server :=
  match ops with [] => [s] | op :: r => s :: run_states (fst (server_step s op)) r end.

Theorem run_inv ops : forall s, inv s -> Forall inv (run_states s ops).
Proof.
  induction ops as [|op r IH]; intros s H; cbn [run_states].
  - constructor; [assumption|constructor].
  - constructor; [assumption|]. apply IH. apply step_inv. assumption.
Qed.

(* ---- admission ---- *)
Theorem accepts_spec s src dst dst_ok :
  (server_accepts s src dst dst_ok = HandTo src <->
   spec_accepts (abs s)
     (fun a => match lookup a (s_peers s) with
               | Some (_, o) => if is_valid (o_local o) then Some (o_local o) else None
               | None => None end) src dst dst_ok = true)
  /\ (server_accepts s src dst dst_ok = Refuse \/ server_accepts s src dst dst_ok = HandTo src).
Proof.
  unfold server_accepts, spec_accepts, abs.
  destruct (lookup src (s_peers s)) as [[c o]|]; [|split; [split; discriminate|left; reflexivity]].
  destruct (is_valid (o_local o)).
  - destruct (dst_ok && addr_eqb (o_local o) dst); split; try (split; congruence); auto.
  - split; [split; reflexivity|right; reflexivity].
Qed.

(* ---- hold-down schedule ---- *)
Definition A := c_errorAmnesiaTime.

Lemma damp_step_fresh d now :
  (d_last d = None /\ d_delay d = 0) \/ (exists t, d_last d = Some t /\ A <= now - t) ->
  d_delay (damp_step d now) = sec 60.
Proof.
  unfold damp_step, A, c_errorDelayMinTime, sec. intros [[-> ->]|[t [-> H]]]; cbn [d_delay].
  - reflexivity.
  - destruct (c_errorAmnesiaTime <=? now - t) eqn:E; [reflexivity|lia].
Qed.

Lemma damp_step_streak d now t :
  d_last d = Some t -> now - t < A -> 0 < d_delay d ->
  d_delay (damp_step d now) = N.min (2 * d_delay d) (sec 300).
Proof.
  unfold damp_step, A, c_errorDelayMaxTime, sec. intros -> H Hp. cbn [d_delay].
  destruct (c_errorAmnesiaTime <=? now - t) eqn:E; [lia|].
  destruct (0 <? d_delay d) eqn:E2; [reflexivity|lia].
Qed.

(* the k-th error (k = 0, 1, ...) of a streak gets min(60 s * 2^k, 300 s) *)
Fixpoint streak_from (t : N) (times : list N) : Prop :=
  match times with [] => True | t' :: r => t <= t' /\ t' - t < A /\ streak_from t' r end.

Lemma streak_delays : forall times d t k,
  d_last d = Some t -> d_delay d = spec_streak_delay k -> streak_from t times ->
  forall i dl, nth_error (damp_run d times) i = Some dl -> dl = spec_streak_delay (k + 1 + i).
Proof.
  induction times as [|t' r IH]; intros d t k Hl Hd Hs i dl Hn; [destruct i; discriminate|].
  cbn [streak_from] in Hs. destruct Hs as (Hle & Hgap & Hs).
  cbn [damp_run] in Hn.
  assert (Hstep : d_delay (damp_step d t') = spec_streak_delay (k + 1)).
  { rewrite (damp_step_streak d t' t Hl Hgap).
    - rewrite Hd. unfold spec_streak_delay, sec.
      replace (N.of_nat (k + 1)) with (N.of_nat k + 1) by lia. rewrite N.pow_add_r. lia.
    - rewrite Hd. unfold spec_streak_delay, sec. pose proof (N.pow_nonzero 2 (N.of_nat k)). lia. }
  destruct i as [|i].
  - cbn in Hn. injection Hn as <-. rewrite Nat.add_0_r. exact Hstep.
  - cbn [nth_error] in Hn. eapply IH in Hn; [|reflexivity|exact Hstep|exact Hs].
    rewrite Hn. f_equal. lia.
Qed.

Theorem delay_schedule t0 times d :
  (d_last d = None /\ d_delay d = 0) \/ (exists t, d_last d = Some t /\ A <= t0 - t) ->
  streak_from t0 times ->
  forall i dl, nth_error (damp_run d (t0 :: times)) i = Some dl -> dl = spec_streak_delay i.
Proof.
  intros Hf Hs i dl Hn. cbn [damp_run] in Hn. cbv zeta in Hn.
  pose proof (damp_step_fresh d t0 Hf) as H0.
  destruct i as [|i].
  - cbn [nth_error] in Hn. injection Hn as Hn. rewrite <- Hn. etransitivity; [exact H0|reflexivity].
  - cbn [nth_error] in Hn.
    eapply (streak_delays times (damp_step d t0) t0 0) in Hn; [|reflexivity|etransitivity; [exact H0|reflexivity]|exact Hs].
    rewrite Hn. f_equal.
Qed.

Example schedule_values :
  map spec_streak_delay [0; 1; 2; 3; 4]%nat = [sec 60; sec 120; sec 240; sec 300; sec 300].
Proof. vm_compute. reflexivity. Qed.

(* ---- lifecycle corollaries (C05/C20: API orders that must not disturb or restart a server) ---- *)
(* a serving server refuses a second Serve and is left exactly as it was *)
Theorem serve_while_serving s :
  s_serving s = true -> s_closed s = false -> server_step s OServe = (s, SServeBusy).
Proof. intros Hs Hc. unfold server_step. rewrite Hc, Hs. reflexivity. Qed.

(* once Serve has returned (Close, or a failing listener) nothing restarts the server: whatever operations follow,
   it never serves again and no peer runs *)
Lemma finished_step s op :
  s_closed s = true -> s_serving s = false ->
  s_closed (fst (server_step s op)) = true /\ s_serving (fst (server_step s op)) = false.
Proof.
  intros Hc Hs. unfold server_step. destruct op as [c o|a|a| | | |].
  - destruct (negb (opts_validate o)); [split; assumption|]. destruct (negb (cfg_validate c o)); [split; assumption|].
    destruct (lookup (c_remote c) (s_peers s)); split; assumption.
  - destruct (lookup a (s_peers s)); split; assumption.
  - split; assumption.
  - split; assumption.
  - rewrite Hc. split; assumption.
  - rewrite Hs. split; reflexivity.
  - rewrite Hs. split; assumption.
Qed.

Theorem finished_server_never_serves ops : forall s,
  inv s -> s_closed s = true -> s_serving s = false ->
  Forall (fun st => s_serving st = false /\ s_running st = []) (run_states s ops).
Proof.
  induction ops as [|op r IH]; intros s Hi Hc Hs; cbn [run_states].
  - constructor; [|constructor]. split; [exact Hs|]. destruct Hi as [_ Hl]. unfold lifecycle_ok in Hl. rewrite Hs in Hl. exact Hl.
  - constructor.
    + split; [exact Hs|]. destruct Hi as [_ Hl]. unfold lifecycle_ok in Hl. rewrite Hs in Hl. exact Hl.
    + destruct (finished_step s op Hc Hs) as [Hc' Hs']. apply IH; [apply step_inv; exact Hi|exact Hc'|exact Hs'].
Qed.

(* a failing listener ends a running Serve for good *)
Theorem break_finishes s : s_serving s = true ->
  let s' := fst (server_step s OBreak) in s_closed s' = true /\ s_serving s' = false /\ s_running s' = [].
Proof. intros Hs. unfold server_step. rewrite Hs. repeat split. Qed.
