(* PeerProofs.v — Layer C theorems by explicit finite inductive invariant (Closure.v):
   the reachable-state set of the peer manager || FSM system is computed inside Coq,
   membership of the initial state, goodness of every member and closure under every
   label are checked by the kernel (vm_compute), and Closure.closure_sound lifts this to
   every trace of any length. *)
From Coq Require Import List Bool PArith NArith Lia FMapPositive.
Import ListNotations.
From Verif Require Import Closure Peer.

(* ---- decidable equality and a hashing key ---- *)
Definition sys_eq_dec : forall a b : sys, {a = b} + {a <> b}.
Proof. repeat decide equality. Defined.
Definition sys_eqb (a b : sys) : bool := if sys_eq_dec a b then true else false.
Lemma sys_eqb_eq a b : sys_eqb a b = true -> a = b.
Proof. unfold sys_eqb. destruct (sys_eq_dec a b); [auto|discriminate]. Qed.

Definition nb (b : bool) : N := if b then 1%N else 0%N.
Definition nst (s : st) : N := N.of_nat (st_num s).
Definition ndir (i : dir) : N := match i with DOut => 0 | DIn => 1 end.
Definition ntrans (t : trans) : N := (nst (t_from t) * 7 + nst (t_to t))%N.
Definition nfpc (p : fpc) : N :=
  match p with
  | FOffer t => ntrans t
  | FAwait t => 50 + ntrans t
  | FRun s => 100 + nst s
  | FErrOffer s d e => 110 + (nst s * 7 + nst d) * 3 + N.of_nat (ekind_num e)
  | FExit => 300
  | FDone => 301
  end%N.
Definition nfsm (f : option fsm) : N :=
  match f with
  | None => 0
  | Some f => 1 + (nfpc (f_pc f) * 16 + nb (f_closed f) * 8 + nb (f_conn f) * 4 + nb (f_ceased f) * 2 + nb (f_bad f))
  end%N.
Definition nmop (m : mop) : N :=
  match m with
  | OStop i => ndir i
  | OWaitDone i => 2 + ndir i
  | OReply i t => 4 + ndir i * 49 + ntrans t
  | OEnable i => 110 + ndir i
  | OHandle i t => 112 + ndir i * 49 + ntrans t
  | OCollide i t => 220 + ndir i * 49 + ntrans t
  | ODamp => 330
  | OFinish => 331
  end%N.
Definition nops (l : list mop) : N := fold_left (fun acc m => acc * 337 + nmop m + 1)%N l 0%N.
Definition sys_key (s : sys) : positive :=
  N.succ_pos
    ((((((nops (s_ops s) * 49 + nst (fst (s_state s)) * 7 + nst (snd (s_state s))) * 5000 + nfsm (fst (s_fsm s))) * 5000
        + nfsm (snd (s_fsm s))) * 128
       + nb (s_hold s) * 64 + nb (s_timer s) * 32 + nb (s_pclosed s) * 16 + nb (s_mdone s) * 8
       + nb (s_passive s) * 4 + nb (s_dominant s) * 2 + nb (s_refused s)))%N).

Lemma labels_complete : forall l, In l labels.
Proof.
  intros l.
  destruct l as [| | | |i|i| |i| |i| | | |i|i [d e b]|i];
    try destruct i; try destruct d; try destruct e; try destruct b;
    vm_compute; repeat (first [left; reflexivity | right]).
Qed.

Definition R_of (passive dominant : bool) : rset sys :=
  reach sys label step labels sys_key sys_eqb 2000 (init passive dominant).

Definition mem_R := mem sys sys_key sys_eqb.

(* ---- state invariants ---- *)
Definition present (f : option fsm) : bool := match f with Some _ => true | None => false end.
Definition in_est (f : option fsm) : bool :=
  match f with Some f => match f_pc f with FRun Established => true | _ => false end | None => false end.
Definition ge_oc (x : st) : bool := st_ltb OpenSent x.
Definition pc_ge_oc (f : option fsm) : bool :=
  match f with
  | Some f => match f_pc f with
              | FRun s => ge_oc s
              | FOffer t | FAwait t => ge_oc (t_from t)
              | FErrOffer s _ _ => ge_oc s
              | _ => false
              end
  | None => false
  end.
Definition fbad (f : option fsm) : bool := match f with Some f => f_bad f | None => false end.
Definition fconn (f : option fsm) : bool := match f with Some f => f_conn f | None => false end.

(* C01: the two FSM goroutines are never both inside the Established state function *)
Definition good_mutex (s : sys) : bool := negb (in_est (fst (s_fsm s)) && in_est (snd (s_fsm s))).
(* C10: once the manager has finished (Close/DeletePeer returned) no FSM goroutine exists, so no
   connection is held and no callback can start *)
Definition good_done (s : sys) : bool :=
  negb (s_mdone s)
  || (negb (present (fst (s_fsm s))) && negb (present (snd (s_fsm s)))
      && match s_ops s with [] => true | _ => false end && negb (s_timer s)).
(* C12: while held down (manager at its loop) no FSM exists: both connections dropped, no dialling *)
Definition good_hold (s : sys) : bool :=
  negb (at_loop s && s_hold s) || (negb (present (fst (s_fsm s))) && negb (present (snd (s_fsm s)))).
(* C12: the hold-down timer is armed exactly while held down (so the peer is retried) *)
Definition good_hold_timer (s : sys) : bool := negb (at_loop s && negb (s_pclosed s)) || Bool.eqb (s_hold s) (s_timer s).
(* C07: outside shutdown, when the manager is back at its loop at most one FSM is at or beyond OpenConfirm *)
Definition good_coll (s : sys) : bool :=
  s_pclosed s || negb (at_loop s)
  || (negb (ge_oc (fst (s_state s)) && ge_oc (snd (s_state s)))
      && negb (pc_ge_oc (fst (s_fsm s)) && pc_ge_oc (snd (s_fsm s)))).
(* C10/C07: a connection of an FSM approved past Active is never closed by a stop without Cease *)
Definition good_cease (s : sys) : bool := negb (fbad (fst (s_fsm s))) && negb (fbad (snd (s_fsm s))).
(* C11: a passive peer never has an outbound FSM (so it never dials) *)
Definition good_passive (s : sys) : bool := negb (s_passive s) || negb (present (fst (s_fsm s))).
(* the manager's table agrees with the FSM goroutines: an absent FSM is recorded Disabled *)
Definition good_table (s : sys) : bool :=
  (present (fst (s_fsm s)) || st_eqb (fst (s_state s)) Disabled)
  && (present (snd (s_fsm s)) || st_eqb (snd (s_state s)) Disabled).
(* an FSM that finished holds no connection *)
Definition good_closed (s : sys) : bool :=
  let ok f := match f with Some f => match f_pc f with FExit | FDone => negb (f_conn f) | _ => true end | None => true end in
  ok (fst (s_fsm s)) && ok (snd (s_fsm s)).

(* C10: progress after Close without waiting for the network or a timer *)
Definition self_progress (f : option fsm) : bool :=
  match f with Some f => match f_pc f with FRun Active => f_conn f | _ => false end | None => false end.
Definition progress_label (s : sys) (l : label) : bool :=
  match l with
  | LMPickClose | LMOp | LMReplySkip | LMCollideSkip | LMWaitDone _ | LFClose _ | LFExit _ => true
  | LFRun i o => o_stop o || self_progress (get (s_fsm s) i)
  | _ => false
  end.
Definition enabled (s : sys) (l : label) : bool := match step s l with Some _ => true | None => false end.
Definition good_progress (s : sys) : bool :=
  negb (s_pclosed s) || s_mdone s || existsb (fun l => progress_label s l && enabled s l) labels.

Definition good_all (s : sys) : bool :=
  good_mutex s && good_done s && good_hold s && good_hold_timer s && good_coll s && good_cease s
  && good_passive s && good_table s && good_closed s && good_progress s.

(* ---- step properties ---- *)
Definition rk_fsm (f : option fsm) : nat :=
  match f with
  | None => 0
  | Some f => match f_pc f with FRun _ => 5 | FErrOffer _ _ _ => 4 | FOffer _ | FAwait _ => 3 | FExit => 2 | FDone => 1 end
  end.
Definition rk_op (m : mop) : nat :=
  match m with
  | OFinish => 1 | OWaitDone _ => 2 | OStop _ => 3 | OReply _ _ => 1 | ODamp => 1 | OEnable _ => 4
  | OCollide _ _ => 1 | OHandle _ _ => 8
  end.
Definition has_finish (l : list mop) : bool := existsb (fun m => match m with OFinish => true | _ => false end) l.
Definition rk (s : sys) : nat :=
  fold_right (fun m acc => rk_op m + acc) 0 (s_ops s) + rk_fsm (fst (s_fsm s)) + rk_fsm (snd (s_fsm s))
  + (if s_mdone s || has_finish (s_ops s) then 0 else 8).
(* every shutdown step strictly decreases the rank *)
Definition rank_ok (s : sys) (l : label) (s' : sys) : bool :=
  negb (s_pclosed s && progress_label s l) || Nat.ltb (rk s') (rk s).
(* C13: a refused inbound connection changes nothing (but the monitor bit); an accepted one
   creates the inbound FSM holding the connection.  Refused exactly when an inbound FSM exists,
   the outbound FSM is Established, or the peer is held down *)
Definition core_eqb (a b : sys) : bool :=
  sys_eqb (mkSys (s_ops a) (s_state a) (s_fsm a) (s_hold a) (s_timer a) (s_pclosed a) (s_mdone a) (s_passive a) (s_dominant a) false)
          (mkSys (s_ops b) (s_state b) (s_fsm b) (s_hold b) (s_timer b) (s_pclosed b) (s_mdone b) (s_passive b) (s_dominant b) false).
Definition inconn_ok (s : sys) (l : label) (s' : sys) : bool :=
  match l with
  | LMInConn =>
      let busy := s_hold s || present (snd (s_fsm s)) || st_eqb (fst (s_state s)) Established in
      Bool.eqb (s_refused s') busy
      && (if busy then core_eqb s s' else present (snd (s_fsm s')) && fconn (snd (s_fsm s')))
  | _ => true
  end.
(* C12: exactly an error of the damping kind (a non-Cease notification) received by the manager
   schedules a hold-down; nothing else sets inHoldDown *)
Definition has_damp (l : list mop) : bool := existsb (fun m => match m with ODamp => true | _ => false end) l.
Definition damp_ok (s : sys) (l : label) (s' : sys) : bool :=
  match l with
  | LMRecvErr i =>
      match get (s_fsm s) i with
      | Some f => match f_pc f with
                  | FErrOffer _ _ EDamp => has_damp (s_ops s')
                  | FErrOffer _ _ _ => negb (has_damp (s_ops s')) && Bool.eqb (s_hold s') (s_hold s)
                  | _ => true
                  end
      | None => true
      end
  | LMOp => Bool.eqb (has_damp (s_ops s)) (has_damp (s_ops s') || (negb (s_hold s) && s_hold s'))
            || negb (has_damp (s_ops s))
  | _ => (negb (s_hold s') || s_hold s) && Bool.eqb (has_damp (s_ops s')) (has_damp (s_ops s))
  end.
Definition step_all (s : sys) (l : label) (s' : sys) : bool := rank_ok s l s' && inconn_ok s l s' && damp_ok s l s'.

(* ---- the closure argument, for every value of the two configuration bits ---- *)
Lemma closure_checks : forall p d,
  mem sys sys_key sys_eqb (init p d) (R_of p d) = true
  /\ closed_under sys label step labels sys_key sys_eqb (R_of p d) = true
  /\ all_good sys good_all (R_of p d) = true
  /\ all_good_steps sys label step labels step_all (R_of p d) = true.
Proof. intros [|] [|]; vm_compute; repeat split. Qed.

Theorem reachable_good p d tr s : run sys label step (init p d) tr = Some s -> good_all s = true.
Proof.
  intros Hr. destruct (closure_checks p d) as (Hi & Hc & Hg & _).
  exact (closure_sound sys label step labels labels_complete sys_key sys_eqb sys_eqb_eq good_all
                       (R_of p d) (init p d) Hi Hg Hc tr s Hr).
Qed.

Theorem reachable_steps p d tr s l s' :
  run sys label step (init p d) tr = Some s -> step s l = Some s' -> step_all s l s' = true.
Proof.
  intros Hr Hs. destruct (closure_checks p d) as (Hi & Hc & _ & Hg).
  exact (closure_sound_step sys label step labels labels_complete sys_key sys_eqb sys_eqb_eq step_all
                            (R_of p d) (init p d) Hi Hc Hg tr s l s' Hr Hs).
Qed.

