(* FrameProofs.v — C04: everything written on a connection is a whole well-formed
   message, and a concatenation of well-formed messages parses back uniquely. *)
From Verif Require Import Base Consts Packet PacketSpec OpenSpec Conn BaseLemmas PacketProofs OpenProofs ConnProofs.
From Coq Require Import ZifyN ZifyNat ZifyBool.

Definition wf_frame (m : bytes) : Prop := exists t body, spec_frame_parse m = Some (t, body) /\ m = spec_frame_enc t body.

Lemma frame_enc_wf t body : blen body <= 4077 -> known_type t = true -> wf_frame (spec_frame_enc t body).
Proof. intros Hb Ht. exists t, body. split; [apply spec_frame_parse_enc; assumption|reflexivity]. Qed.

Lemma notif_encode_wf n : notif_repr n = true -> wf_frame (notif_encode n).
Proof.
  intros H. unfold notif_encode. rewrite notif_body_spec.
  unfold notif_repr in H. apply andb_true_iff in H as [H Hl].
  rewrite prepend_header_spec by (unfold spec_notif_body; rewrite !blen_cons; lia).
  apply frame_enc_wf; [unfold spec_notif_body; rewrite !blen_cons; lia|reflexivity].
Qed.

Lemma keepalive_wf : wf_frame keepalive_encode.
Proof. exists 4, []. split; vm_compute; reflexivity. Qed.

Lemma update_frame_wf b : blen b <= 4077 -> wf_frame (update_frame b).
Proof. intros H. unfold update_frame. rewrite prepend_header_spec by assumption. apply frame_enc_wf; [assumption|reflexivity]. Qed.

(* the stream of several writes, in whatever order they were serialised, parses back to
   exactly those messages *)
Lemma blen_frame t body : blen (spec_frame_enc t body) = 19 + blen body.
Proof. unfold spec_frame_enc, be16. rewrite !blen_app, blen_repeat, !blen_cons, blen_nil. lia. Qed.

Theorem frames_self_delimiting : forall (fs : list (N * bytes)) fuel,
  Forall (fun tb => blen (snd tb) <= 4077 /\ known_type (fst tb) = true) fs ->
  (length fs < fuel)%nat ->
  spec_stream_parse fuel (flat_map (fun tb => spec_frame_enc (fst tb) (snd tb)) fs) = Some fs.
Proof.
  induction fs as [|[t b] fs IH]; intros fuel H Hf; (destruct fuel as [|fuel]; [cbn in Hf; lia|]).
  - reflexivity.
  - inversion H as [|? ? [Hb Ht] Hr]; subst. cbn [fst snd] in *.
    cbn [flat_map fst snd]. set (rest := flat_map (fun tb => spec_frame_enc (fst tb) (snd tb)) fs).
    cbn [spec_stream_parse].
    assert (Hne : spec_frame_enc t b ++ rest <> []) by (unfold spec_frame_enc; discriminate).
    destruct (spec_frame_enc t b ++ rest) as [|x0 xs] eqn:Es; [congruence|]. rewrite <- Es. clear x0 xs Es Hne.
    change (skipn 16 (spec_frame_enc t b ++ rest)) with (be16 (19 + blen b) ++ [t] ++ b ++ rest).
    unfold be16. cbn [app].
    replace ((19 + blen b) / 256 * 256 + (19 + blen b) mod 256) with (19 + blen b) by lia.
    replace ((19 <=? 19 + blen b) && (19 + blen b <=? blen (spec_frame_enc t b ++ rest))) with true
      by (rewrite blen_app, blen_frame; lia).
    rewrite <- (blen_frame t b). rewrite take_app_exact, drop_app_exact.
    rewrite spec_frame_parse_enc by assumption.
    rewrite IH; [reflexivity|assumption|cbn in Hf; lia].
Qed.

(* ---- every write of the connection state machine is a well-formed message ---- *)
Definition plugin_ok (pl : cplugin) : Prop :=
  (forall n, pl_on_open pl = Some n -> notif_repr n = true)
  /\ (forall k n, pl_handler pl k = Some n -> notif_repr n = true)
  /\ Forall (fun b => blen b <= 4077) (pl_est_writes pl).

Definition input_ok (i : cinput) : Prop :=
  match i with IRd (RErrNotif n) => notif_repr n = true | _ => True end.

Lemma open_validate_repr lid las ras o n :
  ras < 4294967296 -> open_validate lid las ras o = Some n -> notif_repr n = true.
Proof.
  intros Hr. unfold open_validate.
  repeat match goal with |- context [if ?c then _ else _] => destruct c end;
    try (intros [= <-]; vm_compute; reflexivity).
  destruct (validate_caps ras (get_capabilities o) false) as [f|e| |] eqn:Ev; try discriminate.
  - repeat match goal with |- context [if ?c then _ else _] => destruct c end; try discriminate;
      intros [= <-]; try (vm_compute; reflexivity).
    unfold notif_repr, open_err. cbn [n_code n_sub n_data]. rewrite cap_encode_as4' by assumption.
    unfold be32, wf_bytes, wf_byte. cbn. lia.
  - intros [= <-]. clear -Ev. revert Ev. generalize false.
    induction (get_capabilities o) as [|c cs IH]; intros b Ev; [discriminate|].
    cbn [validate_caps] in Ev. destruct (cap_code c =? c_CAP_FOUR_OCTET_AS); [|eapply IH; exact Ev].
    destruct (cap_val c) as [|a1 [|a2 [|a3 [|a4 [|a5 r]]]]]; try (injection Ev as <-; reflexivity).
    destruct (get32 a1 a2 a3 a4 =? ras); [eapply IH; exact Ev|injection Ev as <-; reflexivity].
Qed.

Theorem writes_wellformed cf pl st i :
  plugin_ok pl -> input_ok i -> cf_ras cf < 4294967296 ->
  Forall wf_frame (writes (snd (conn_step cf pl st i))).
Proof.
  intros (Hoo & Hh & Hw) Hi Hr. destruct st as [ph h k].
  assert (Hmap : Forall wf_frame (writes (map (fun b => AWrite (update_frame b)) (pl_est_writes pl)))).
  { induction Hw; cbn; constructor; [apply update_frame_wf; assumption|assumption]. }
  destruct ph; destruct i as [[m|n|]| | | |]; try (destruct m as [o|b|n0|]);
    cbn [conn_step c_phase c_holdns c_nupd];
    try (destruct (open_validate (cf_lid cf) (cf_las cf) (cf_ras cf) o) eqn:Ev);
    try (destruct (pl_on_open pl) eqn:Eo);
    try (destruct (pl_handler pl k) eqn:Eh);
    try (destruct (h =? 0));
    try (destruct ((if cf_hold cf * second <? o_hold o * second then cf_hold cf * second else o_hold o * second) =? 0));
    unfold send_and_finish, finish, teardown; cbn [c_phase c_holdns c_nupd app fst snd writes flat_map];
    try exact Hmap;
    repeat (constructor; try apply keepalive_wf);
    try (apply notif_encode_wf; first [exact Hi | eapply open_validate_repr; eassumption | eapply Hoo; eassumption
                                       | eapply Hh; eassumption | vm_compute; reflexivity]).
  all: try (apply notif_encode_wf; unfold notif_repr, fsm_err; cbn; unfold wf_byte;
            match goal with |- context [msg_type ?m] => destruct m end; reflexivity).
  all: try (apply notif_encode_wf; first [apply Hoo; reflexivity | eapply Hh; eassumption]).
Qed.
