(* UpdateProofs.v — C16/C17: UpdateDecoder.Decode against the RFC split. *)
From Verif Require Import Base Consts Packet Errors Update PacketSpec OpenSpec UpdateSpec UpdateOracles
                          BaseLemmas PacketProofs.
From Coq Require Import ZifyN ZifyNat ZifyBool.
Ltac Zify.zify_post_hook ::= Z.div_mod_to_equations.

Definition nil_script (sc : script) : Prop := forall k, sc k = None.

Lemma flag_extlen_spec flags : flag_extlen flags = (16 <=? flags mod 32).
Proof. unfold flag_extlen. lia. Qed.

Lemma attr_header_spec flags r : attr_header flags r = spec_attr_header flags r.
Proof. unfold attr_header, spec_attr_header. rewrite flag_extlen_spec. reflexivity. Qed.

Lemma seen_cons l c x : seen (x :: l) c = (c =? x) || seen l c.
Proof. reflexivity. Qed.

(* the error decodePathAttrs returns when no callback fails, as a function of how the walk ended *)
Definition nil_final (aend : attrs_end) (hasNLRI : bool) (st : pa_state) : option err :=
  match aend with
  | EndDupMP => join2 (pa_me st) (Some (ENotif malformed_attr_list))
  | _ => missing_check st hasNLRI
  end.
Definition me_after (aend : attrs_end) (me : option err) : option err :=
  match aend with
  | EndOverrun c => join2 me (Some (total_attr_len_err c))
  | _ => me
  end.

Lemma pa_loop_nil sc : nil_script sc -> forall f a hasNLRI st,
  (length a < f)%nat ->
  exists st',
    path_attrs_loop f sc a hasNLRI st = Ok (st', nil_final (snd (spec_attrs f a (pa_seen st))) hasNLRI st')
    /\ pa_calls st' = pa_calls st ++ map item_call (fst (spec_attrs f a (pa_seen st)))
    /\ pa_me st' = me_after (snd (spec_attrs f a (pa_seen st))) (pa_me st)
    /\ (forall c, seen (pa_seen st') c = existsb (N.eqb c) (map item_code (fst (spec_attrs f a (pa_seen st)))) || seen (pa_seen st) c).
Proof.
  intros Hnil. induction f as [|f IH]; intros a hasNLRI st Hf; [lia|].
  cbn [path_attrs_loop spec_attrs].
  destruct a as [|flags [|code r]].
  - exists st. cbn. rewrite app_nil_r. repeat split; reflexivity.
  - eexists. cbn. split; [reflexivity|]. cbn. rewrite app_nil_r. repeat split; reflexivity.
  - rewrite attr_header_spec.
    assert (Hlen : forall len r', spec_attr_header flags r = Some (len, r') -> (length r' < length r)%nat).
    { unfold spec_attr_header. intros len r' H. destruct (16 <=? flags mod 32).
      - destruct r as [|l1 [|l0 r0]]; try discriminate. injection H as <- <-. cbn. lia.
      - destruct r as [|l0 r0]; try discriminate. injection H as <- <-. cbn. lia. }
    destruct (spec_attr_header flags r) as [[len r']|] eqn:Eh.
    2:{ eexists. cbn. split; [reflexivity|]. cbn. rewrite app_nil_r. repeat split; reflexivity. }
    specialize (Hlen len r' eq_refl).
    destruct (blen r' <? len) eqn:El.
    { eexists. cbn. split; [reflexivity|]. cbn. rewrite app_nil_r. repeat split; reflexivity. }
    assert (Hfd : (length (drop len r') < f)%nat).
    { unfold drop. rewrite skipn_length. cbn [length] in Hf. lia. }
    unfold seen at 1.
    destruct (existsb (N.eqb code) (pa_seen st)) eqn:Es.
    + change c_PATH_ATTR_MP_REACH_NLRI with 14. change c_PATH_ATTR_MP_UNREACH_NLRI with 15.
      destruct ((code =? 14) || (code =? 15)) eqn:Emp.
      * exists st. cbn. rewrite app_nil_r. repeat split; reflexivity.
      * rewrite slice_from_spec by lia. cbn [of_opt rbind].
        destruct (IH (drop len r') hasNLRI st Hfd) as (st' & H1 & H2 & H3 & H4).
        exists st'. repeat split; assumption.
    + rewrite slice_to_spec by lia. cbn [of_opt rbind]. rewrite Hnil.
      rewrite slice_from_spec by lia. cbn [of_opt rbind].
      set (st1 := mkPa (pa_calls st ++ [CPa code flags (take len r')]) (pa_me st) (code :: pa_seen st) (S (pa_k st))).
      destruct (IH (drop len r') hasNLRI st1 Hfd) as (st' & H1 & H2 & H3 & H4).
      cbn [pa_seen st1] in *. subst st1. cbn [pa_calls pa_me pa_seen] in *.
      destruct (spec_attrs f (drop len r') (code :: pa_seen st)) as [items aend] eqn:Esp.
      cbn [fst snd] in *.
      exists st'. repeat split.
      * exact H1.
      * rewrite H2. cbn [map]. rewrite <- app_assoc. reflexivity.
      * exact H3.
      * intros c. rewrite H4. cbn [map existsb item_code fst]. rewrite seen_cons.
        destruct (c =? code); destruct (existsb (N.eqb c) (map item_code items)); reflexivity.
Qed.

(* ---- sections ---- *)
Lemma sections_none_calls sc b :
  spec_sections b = None -> wf_bytes b = true ->
  exists n, update_decode sc b = Ok ([], Some (ENotif n)) /\ n_code n = 3
            /\ n_sub n = (if blen b <? 4 then 0 else 1) /\ n_data n = [].
Proof.
  intros Hs Hw. unfold update_decode. unfold spec_sections in Hs.
  destruct b as [|w1 [|w0 r]].
  - eexists. split; [reflexivity|]. repeat split.
  - eexists. split; [reflexivity|]. repeat split.
  - destruct (blen (w1 :: w0 :: r) <? 4) eqn:E4.
    + eexists. split; [reflexivity|]. repeat split.
    + cbn [orb] in Hs. unfold get16.
      destruct (blen r <? w1 * 256 + w0 + 2) eqn:E1.
      * eexists. split; [reflexivity|]. repeat split.
      * rewrite slice_spec by lia. cbn [of_opt rbind].
        replace (w1 * 256 + w0 + 2 - (w1 * 256 + w0)) with 2 by lia.
        rewrite slice_from_spec by lia. cbn [of_opt rbind].
        assert (Hd : drop (w1 * 256 + w0 + 2) r = drop 2 (drop (w1 * 256 + w0) r)).
        { unfold drop. rewrite skipn_skipn'. f_equal. lia. }
        destruct (drop (w1 * 256 + w0) r) as [|p1 [|p0 r2]] eqn:Ed.
        -- exfalso. assert (blen (drop (w1 * 256 + w0) r) = 0) by (rewrite Ed; reflexivity).
           rewrite blen_drop in H. lia.
        -- exfalso. assert (blen (drop (w1 * 256 + w0) r) = 1) by (rewrite Ed; reflexivity).
           rewrite blen_drop in H. lia.
        -- rewrite Hd. change (take 2 (p1 :: p0 :: r2)) with [p1; p0].
           change (drop 2 (p1 :: p0 :: r2)) with r2. cbv iota beta.
           unfold get16.
           destruct (blen r2 <? p1 * 256 + p0) eqn:E2; [|discriminate].
           eexists. split; [reflexivity|]. repeat split.
Qed.

Lemma sections_some b W A Nl :
  spec_sections b = Some (W, A, Nl) ->
  exists w1 w0 r, b = w1 :: w0 :: r /\ blen b <? 4 = false
    /\ let wrl := w1 * 256 + w0 in
       blen r <? wrl + 2 = false
       /\ exists p1 p0 r2, drop wrl r = p1 :: p0 :: r2
          /\ let pal := p1 * 256 + p0 in
             blen r2 <? pal = false /\ W = take wrl r /\ A = take pal r2 /\ Nl = drop pal r2.
Proof.
  unfold spec_sections. intros H. destruct b as [|w1 [|w0 r]]; try discriminate.
  destruct ((blen (w1 :: w0 :: r) <? 4) || (blen r <? w1 * 256 + w0 + 2)) eqn:E; [discriminate|].
  apply orb_false_iff in E as [E4 E1].
  destruct (drop (w1 * 256 + w0) r) as [|p1 [|p0 r2]] eqn:Ed; try discriminate.
  destruct (blen r2 <? p1 * 256 + p0) eqn:E2; [discriminate|].
  injection H as <- <- <-.
  exists w1, w0, r. split; [reflexivity|]. split; [assumption|]. cbv zeta. split; [assumption|].
  exists p1, p0, r2. repeat split; assumption.
Qed.


Lemma missing_check_nil_state st h items :
  (forall c, seen (pa_seen st) c = existsb (N.eqb c) (map item_code items)) ->
  missing_check st h =
  if (h || existsb (N.eqb 14) (map item_code items))
     && negb (existsb (N.eqb 1) (map item_code items) && existsb (N.eqb 2) (map item_code items))
  then join2 (pa_me st)
         (Some (ETaw (if existsb (N.eqb 1) (map item_code items) then 2 else 1)
                     (Some (mkNotif 3 3 [if existsb (N.eqb 1) (map item_code items) then 2 else 1]))))
  else pa_me st.
Proof.
  intros Hs. unfold missing_check.
  change c_PATH_ATTR_MP_REACH_NLRI with 14. change c_PATH_ATTR_AS_PATH with 2. change c_PATH_ATTR_ORIGIN with 1.
  rewrite !Hs.
  destruct (existsb (N.eqb 14) (map item_code items)), h,
           (existsb (N.eqb 1) (map item_code items)), (existsb (N.eqb 2) (map item_code items)); reflexivity.
Qed.

Theorem update_decode_nil sc b :
  nil_script sc -> wf_bytes b = true ->
  match spec_sections b with
  | None => exists n, update_decode sc b = Ok ([], Some (ENotif n)) /\ n_code n = 3
                      /\ n_sub n = (if blen b <? 4 then 0 else 1) /\ n_data n = []
  | Some (W, A, Nl) =>
      exists e,
        update_decode sc b =
          Ok (CWr W :: map item_call (fst (attr_items A))
                ++ match snd (attr_items A) with EndDupMP => [] | _ => [CNl Nl] end, e)
        /\ (e = None <-> snd (attr_items A) = EndClean /\ missing_attrs (fst (attr_items A)) Nl = false)
  end.
Proof.
  intros Hnil Hw. destruct (spec_sections b) as [[[W A] Nl]|] eqn:Es.
  2:{ apply sections_none_calls; assumption. }
  apply sections_some in Es as (w1 & w0 & r & -> & E4 & E1 & p1 & p0 & r2 & Ed & E2 & -> & -> & ->).
  cbv zeta in *. unfold update_decode. rewrite E4. unfold get16. rewrite E1.
  rewrite slice_spec by lia. cbn [of_opt rbind].
  replace (w1 * 256 + w0 + 2 - (w1 * 256 + w0)) with 2 by lia.
  rewrite slice_from_spec by lia. cbn [of_opt rbind].
  assert (Hd : drop (w1 * 256 + w0 + 2) r = r2).
  { unfold drop. replace (N.to_nat (w1 * 256 + w0 + 2)) with (N.to_nat (w1 * 256 + w0) + 2)%nat by lia.
    rewrite <- skipn_skipn'. fold (drop (w1 * 256 + w0) r). rewrite Ed. reflexivity. }
  rewrite Hd, Ed. change (take 2 (p1 :: p0 :: r2)) with [p1; p0]. cbv iota beta. unfold get16. rewrite E2.
  rewrite slice_to_spec by lia. cbn [of_opt rbind]. rewrite (Hnil O).
  rewrite slice_to_spec, slice_from_spec by lia. cbn [of_opt rbind].
  set (A := take (p1 * 256 + p0) r2). set (Nl := drop (p1 * 256 + p0) r2).
  unfold decode_path_attrs.
  destruct (pa_loop_nil sc Hnil (S (length A)) A (0 <? blen Nl) (mkPa [] None [] 1) (Nat.lt_succ_diag_r _))
    as (st' & H1 & H2 & H3 & H4).
  cbn [pa_calls pa_me pa_seen] in H1, H2, H3, H4. rewrite H1. cbn [rbind].
  unfold attr_items. destruct (spec_attrs (S (length A)) A []) as [items aend] eqn:Esp. cbn [fst snd] in *.
  assert (Hseen : forall c, seen (pa_seen st') c = existsb (N.eqb c) (map item_code items)).
  { intros c. rewrite H4. cbn. apply orb_false_r. }
  rewrite H2. cbn [app].
  destruct aend as [|c|].
  - (* clean end *)
    cbn [nil_final me_after] in *. rewrite (missing_check_nil_state st' _ items Hseen), H3.
    destruct ((0 <? blen Nl) || existsb (N.eqb 14) (map item_code items)) eqn:Ea;
    destruct (negb (existsb (N.eqb 1) (map item_code items) && existsb (N.eqb 2) (map item_code items))) eqn:Em;
    cbn [andb join2 has_notif orb]; rewrite (Hnil (pa_k st')); eexists; (split; [reflexivity|]);
    unfold missing_attrs; rewrite Ea, Em; cbn [andb]; split; try discriminate; try (intros [_ ?]; discriminate);
    try (intros _; split; reflexivity).
  - (* overrun *)
    cbn [nil_final me_after] in *. rewrite (missing_check_nil_state st' _ items Hseen), H3.
    destruct ((0 <? blen Nl) || existsb (N.eqb 14) (map item_code items));
    destruct (negb (existsb (N.eqb 1) (map item_code items) && existsb (N.eqb 2) (map item_code items)));
    cbn [andb join2 has_notif orb total_attr_len_err]; rewrite (Hnil (pa_k st')); eexists; (split; [reflexivity|]);
    split; try discriminate; intros [? _]; discriminate.
  - (* repeated MP attribute *)
    cbn [nil_final me_after] in *. rewrite H3. cbn [join2 has_notif orb]. rewrite app_nil_r.
    eexists. split; [reflexivity|]. split; [discriminate|intros [? _]; discriminate].
Qed.

(* C16: the calls an all-nil-callback Decode makes are exactly the specification's *)
Theorem decode_calls_spec sc b :
  nil_script sc -> wf_bytes b = true ->
  exists e, update_decode sc b = Ok (spec_calls b, e).
Proof.
  intros Hnil Hw. pose proof (update_decode_nil sc b Hnil Hw) as H. unfold spec_calls.
  destruct (spec_sections b) as [[[W A] Nl]|].
  - destruct H as (e & H & _). exists e. rewrite H.
    destruct (attr_items A) as [items aend]. reflexivity.
  - destruct H as (n & H & _). eexists. exact H.
Qed.

(* no callback runs when the section lengths overrun the message *)
Theorem decode_overrun_no_callback sc b :
  wf_bytes b = true -> spec_sections b = None ->
  exists n, update_decode sc b = Ok ([], Some (ENotif n)).
Proof.
  intros Hw Hs. destruct (sections_none_calls sc b Hs Hw) as (n & H & _). exists n. exact H.
Qed.

Theorem decode_total_nil sc b :
  nil_script sc -> wf_bytes b = true -> update_decode sc b <> Panic /\ update_decode sc b <> OutOfFuel.
Proof.
  intros Hnil Hw. destruct (decode_calls_spec sc b Hnil Hw) as (e & ->). split; discriminate.
Qed.

(* ---- arbitrary callbacks ---- *)
Lemma join2_some_l a b : a <> None -> join2 a b <> None.
Proof. destruct a, b; cbn; congruence. Qed.
Lemma join2_some_r a b : b <> None -> join2 a b <> None.
Proof. destruct a, b; cbn; congruence. Qed.

Lemma missing_check_none st h : missing_check st h = None -> pa_me st = None.
Proof.
  unfold missing_check. intros H.
  destruct (seen (pa_seen st) c_PATH_ATTR_MP_REACH_NLRI || h); [|exact H].
  destruct (negb (seen (pa_seen st) c_PATH_ATTR_AS_PATH) || negb (seen (pa_seen st) c_PATH_ATTR_ORIGIN)); [|exact H].
  destruct (pa_me st); cbn in H; [discriminate|reflexivity].
Qed.

(* for every callback behaviour: the attribute loop returns; the script indices it
   consumed are consecutive; if it reports no error then every callback it invoked
   returned nil and nothing was pending before *)
Lemma pa_loop_any sc : forall f a h st,
  (length a < f)%nat ->
  exists st' e,
    path_attrs_loop f sc a h st = Ok (st', e)
    /\ (pa_k st <= pa_k st')%nat
    /\ (length (pa_calls st') = length (pa_calls st) + (pa_k st' - pa_k st))%nat
    /\ (e = None -> pa_me st = None /\ forall j, (pa_k st <= j < pa_k st')%nat -> sc j = None).
Proof.
  induction f as [|f IH]; intros a h st Hf; [lia|].
  cbn [path_attrs_loop].
  destruct a as [|flags [|code r]].
  - exists st, (missing_check st h). split; [reflexivity|]. split; [lia|]. split; [lia|].
    intros H. split; [eapply missing_check_none; exact H|intros; lia].
  - eexists. eexists. split; [reflexivity|]. cbn [pa_k pa_calls]. split; [lia|]. split; [lia|].
    intros H. apply missing_check_none in H. cbn [pa_me] in H. destruct (pa_me st); cbn in H; discriminate.
  - assert (Hlen : forall len r', attr_header flags r = Some (len, r') -> (length r' < length r)%nat).
    { rewrite attr_header_spec. unfold spec_attr_header. intros len r' H. destruct (16 <=? flags mod 32).
      - destruct r as [|l1 [|l0 r0]]; try discriminate. injection H as <- <-. cbn. lia.
      - destruct r as [|l0 r0]; try discriminate. injection H as <- <-. cbn. lia. }
    assert (Hover : forall c, exists st' e,
      Ok (mkPa (pa_calls st) (join2 (pa_me st) (Some (total_attr_len_err c))) (pa_seen st) (pa_k st),
          missing_check (mkPa (pa_calls st) (join2 (pa_me st) (Some (total_attr_len_err c))) (pa_seen st) (pa_k st)) h)
        = @Ok unit _ (st', e)
      /\ (pa_k st <= pa_k st')%nat
      /\ (length (pa_calls st') = length (pa_calls st) + (pa_k st' - pa_k st))%nat
      /\ (e = None -> pa_me st = None /\ forall j, (pa_k st <= j < pa_k st')%nat -> sc j = None)).
    { intros c. eexists. eexists. split; [reflexivity|]. cbn [pa_k pa_calls]. split; [lia|]. split; [lia|].
      intros H. apply missing_check_none in H. cbn [pa_me] in H. destruct (pa_me st); cbn in H; discriminate. }
    destruct (attr_header flags r) as [[len r']|] eqn:Eh; [|apply Hover].
    specialize (Hlen len r' eq_refl).
    destruct (blen r' <? len) eqn:El; [apply Hover|].
    assert (Hfd : (length (drop len r') < f)%nat).
    { unfold drop. rewrite skipn_length. cbn [length] in Hf. lia. }
    destruct (seen (pa_seen st) code) eqn:Es.
    + destruct ((code =? c_PATH_ATTR_MP_REACH_NLRI) || (code =? c_PATH_ATTR_MP_UNREACH_NLRI)).
      * eexists. eexists. split; [reflexivity|]. split; [lia|]. split; [lia|].
        intros H. destruct (pa_me st); cbn in H; discriminate.
      * rewrite slice_from_spec by lia. cbn [of_opt rbind]. apply IH. exact Hfd.
    + rewrite slice_to_spec by lia. cbn [of_opt rbind].
      rewrite slice_from_spec by lia. cbn [of_opt rbind].
      set (st1 := mkPa (pa_calls st ++ [CPa code flags (take len r')])
                       (match sc (pa_k st) with Some _ => join2 (pa_me st) (sc (pa_k st)) | None => pa_me st end)
                       (code :: pa_seen st) (S (pa_k st))).
      destruct (IH (drop len r') h st1 Hfd) as (st' & e & H1 & H2 & H3 & H4).
      cbn [pa_k pa_calls st1] in H2, H3. rewrite app_length in H3. cbn [length] in H3.
      destruct (sc (pa_k st)) as [e0|] eqn:Esc.
      * destruct (has_notif e0).
        -- eexists. eexists. split; [reflexivity|]. subst st1. cbn [pa_k pa_calls pa_me]. rewrite app_length. cbn [length].
           split; [lia|]. split; [lia|]. intros H. destruct (pa_me st); cbn in H; discriminate.
        -- exists st', e. split; [exact H1|]. split; [lia|]. split; [lia|].
           intros H. apply H4 in H as [Hme _]. subst st1. cbn [pa_me] in Hme. destruct (pa_me st); cbn in Hme; discriminate.
      * exists st', e. split; [exact H1|]. split; [lia|]. split; [lia|].
        intros H. apply H4 in H as [Hme Hall]. split; [exact Hme|].
        intros j Hj. destruct (Nat.eq_dec j (pa_k st)) as [->|Hne]; [exact Esc|].
        apply Hall. cbn [pa_k st1]. lia.
Qed.

(* Decode returns for every byte string and every callback behaviour *)
Theorem decode_total sc b :
  wf_bytes b = true -> exists calls e, update_decode sc b = Ok (calls, e).
Proof.
  intros Hw. destruct (spec_sections b) as [[[W A] Nl]|] eqn:Es.
  2:{ destruct (sections_none_calls sc b Es Hw) as (n & H & _). eexists. eexists. exact H. }
  apply sections_some in Es as (w1 & w0 & r & -> & E4 & E1 & p1 & p0 & r2 & Ed & E2 & -> & -> & ->).
  cbv zeta in *. unfold update_decode. rewrite E4. unfold get16. rewrite E1.
  rewrite slice_spec by lia. cbn [of_opt rbind].
  replace (w1 * 256 + w0 + 2 - (w1 * 256 + w0)) with 2 by lia.
  rewrite slice_from_spec by lia. cbn [of_opt rbind].
  assert (Hd : drop (w1 * 256 + w0 + 2) r = r2).
  { unfold drop. replace (N.to_nat (w1 * 256 + w0 + 2)) with (N.to_nat (w1 * 256 + w0) + 2)%nat by lia.
    rewrite <- skipn_skipn'. fold (drop (w1 * 256 + w0) r). rewrite Ed. reflexivity. }
  rewrite Hd, Ed. change (take 2 (p1 :: p0 :: r2)) with [p1; p0]. cbv iota beta. unfold get16. rewrite E2.
  rewrite slice_to_spec by lia. cbn [of_opt rbind].
  destruct (match sc 0%nat with Some e => has_notif e | None => false end); [eexists; eexists; reflexivity|].
  rewrite slice_to_spec, slice_from_spec by lia. cbn [of_opt rbind].
  unfold decode_path_attrs.
  destruct (pa_loop_any sc (S (length (take (p1 * 256 + p0) r2))) (take (p1 * 256 + p0) r2)
                        (0 <? blen (drop (p1 * 256 + p0) r2)) (mkPa [] None [] 1) (Nat.lt_succ_diag_r _))
    as (st' & e & H1 & _). rewrite H1. cbn [rbind].
  destruct (match e with Some e0 => has_notif e0 | None => false end); eexists; eexists; reflexivity.
Qed.

(* nil is returned only if every callback that ran returned nil *)
Theorem decode_nil_callbacks_nil sc b calls :
  wf_bytes b = true -> update_decode sc b = Ok (calls, None) ->
  forall j, (j < length calls)%nat -> sc j = None.
Proof.
  intros Hw H. destruct (spec_sections b) as [[[W A] Nl]|] eqn:Es.
  2:{ destruct (sections_none_calls sc b Es Hw) as (n & H' & _). rewrite H' in H. discriminate. }
  apply sections_some in Es as (w1 & w0 & r & -> & E4 & E1 & p1 & p0 & r2 & Ed & E2 & -> & -> & ->).
  cbv zeta in *. unfold update_decode in H. rewrite E4 in H. unfold get16 in H. rewrite E1 in H.
  rewrite slice_spec in H by lia. cbn [of_opt rbind] in H.
  replace (w1 * 256 + w0 + 2 - (w1 * 256 + w0)) with 2 in H by lia.
  rewrite slice_from_spec in H by lia. cbn [of_opt rbind] in H.
  assert (Hd : drop (w1 * 256 + w0 + 2) r = r2).
  { unfold drop. replace (N.to_nat (w1 * 256 + w0 + 2)) with (N.to_nat (w1 * 256 + w0) + 2)%nat by lia.
    rewrite <- skipn_skipn'. fold (drop (w1 * 256 + w0) r). rewrite Ed. reflexivity. }
  rewrite Hd, Ed in H. change (take 2 (p1 :: p0 :: r2)) with [p1; p0] in H. cbv iota beta in H.
  unfold get16 in H. rewrite E2 in H.
  rewrite slice_to_spec in H by lia. cbn [of_opt rbind] in H.
  destruct (sc 0%nat) as [e0|] eqn:E0.
  { destruct (has_notif e0); [discriminate|].
    rewrite slice_to_spec, slice_from_spec in H by lia. cbn [of_opt rbind] in H.
    unfold decode_path_attrs in H.
    destruct (path_attrs_loop _ _ _ _ _) as [[st' e]| | |]; cbn [rbind] in H; try discriminate.
    destruct (match e with Some e1 => has_notif e1 | None => false end).
    - injection H as _ H. destruct e; cbn in H; discriminate.
    - destruct e; destruct (sc (pa_k st')); cbn in H; discriminate. }
  rewrite slice_to_spec, slice_from_spec in H by lia. cbn [of_opt rbind] in H.
  unfold decode_path_attrs in H.
  destruct (pa_loop_any sc (S (length (take (p1 * 256 + p0) r2))) (take (p1 * 256 + p0) r2)
                        (0 <? blen (drop (p1 * 256 + p0) r2)) (mkPa [] None [] 1) (Nat.lt_succ_diag_r _))
    as (st' & e & H1 & H2 & H3 & H4). rewrite H1 in H. cbn [rbind] in H.
  cbn [pa_k pa_calls length] in H2, H3, H4.
  destruct e as [e1|].
  { destruct (has_notif e1); [discriminate|]. destruct (sc (pa_k st')); cbn in H; discriminate. }
  destruct (H4 eq_refl) as [_ Hall].
  destruct (sc (pa_k st')) as [e2|] eqn:E2k; [discriminate|].
  injection H as <-. intros j Hj. cbn [length] in Hj. rewrite app_length in Hj. cbn [length] in Hj.
  destruct j as [|j]; [exact E0|].
  destruct (Nat.eq_dec (S j) (pa_k st')) as [->|Hne]; [exact E2k|].
  apply Hall. lia.
Qed.
