(* PacketProofs.v — header / NOTIFICATION / OPEN / capability codec theorems. *)
From Verif Require Import Base Consts Packet PacketSpec BaseLemmas.
From Coq Require Import ZifyN ZifyNat ZifyBool.
Ltac Zify.zify_post_hook ::= Z.div_mod_to_equations.

Lemma put16_be16 x : x < 65536 -> put16 x = be16 x.
Proof. unfold put16, be16. intros. f_equal. lia. Qed.
Lemma put32_be32 x : x < 4294967296 -> put32 x = be32 x.
Proof. unfold put32, be32. intros. f_equal. lia. Qed.

(* ---------- header ---------- *)
Lemma prepend_header_spec m t :
  blen m <= 4077 -> prepend_header m t = spec_frame_enc t m.
Proof.
  intros H. unfold prepend_header, spec_frame_enc, marker, put16, be16, c_headerLength.
  rewrite u16_small by lia.
  replace (blen m + 19) with (19 + blen m) by lia.
  replace ((19 + blen m) / 256 mod 256) with ((19 + blen m) / 256) by lia.
  reflexivity.
Qed.

Lemma spec_frame_parse_enc t body :
  blen body <= 4077 -> known_type t = true ->
  spec_frame_parse (spec_frame_enc t body) = Some (t, body).
Proof.
  intros H Ht. unfold spec_frame_parse, spec_frame_enc.
  assert (L : blen (repeat 255 16 ++ be16 (19 + blen body) ++ [t] ++ body) = 19 + blen body).
  { rewrite !blen_app, blen_repeat. unfold be16. rewrite !blen_cons, blen_nil. lia. }
  rewrite L.
  destruct (19 <=? 19 + blen body) eqn:E1; [|lia].
  destruct (19 + blen body <=? 4096) eqn:E2; [|lia].
  cbn [andb].
  change (firstn 16 (repeat 255 16 ++ ?x)) with (repeat 255 16).
  rewrite beqb_refl.
  change (skipn 16 (repeat 255 16 ++ ?x)) with x.
  unfold be16. cbn [app].
  replace ((19 + blen body) / 256 * 256 + (19 + blen body) mod 256 =? 19 + blen body) with true by lia.
  rewrite Ht. reflexivity.
Qed.

(* ---------- NOTIFICATION ---------- *)
Lemma notif_body_spec n : notif_body n = spec_notif_body n.
Proof.
  unfold notif_body, spec_notif_body. destruct n as [c s d]; cbn [n_code n_sub n_data].
  destruct d as [|x d]; reflexivity.
Qed.

Theorem notif_roundtrip n :
  notif_repr n = true ->
  spec_frame_parse (notif_encode n) = Some (3, spec_notif_body n)
  /\ notif_decode (spec_notif_body n) = Some n.
Proof.
  intros H. unfold notif_repr in H.
  apply andb_true_iff in H as [H Hl]. apply andb_true_iff in H as [H Hw].
  apply andb_true_iff in H as [Hc Hs].
  split.
  - unfold notif_encode. rewrite notif_body_spec, prepend_header_spec.
    + apply spec_frame_parse_enc; [|reflexivity].
      unfold spec_notif_body. rewrite !blen_cons. lia.
    + unfold spec_notif_body. rewrite !blen_cons. lia.
  - destruct n; reflexivity.
Qed.

Theorem notif_decode_inverse b n :
  notif_decode b = Some n -> spec_notif_body n = b /\ notif_body n = b.
Proof.
  destruct b as [|c [|s d]]; cbn [notif_decode]; try discriminate.
  intros [= <-]. rewrite notif_body_spec. split; reflexivity.
Qed.

Theorem notif_decode_none_iff b : notif_decode b = None <-> blen b < 2.
Proof.
  destruct b as [|c [|s d]]; cbn; rewrite ?blen_cons, ?blen_nil; split; intros; try discriminate; try reflexivity; lia.
Qed.

(* ---------- capabilities ---------- *)
Lemma spec_cap_enc_len c : blen (spec_cap_enc c) = 2 + blen (cap_val c).
Proof. unfold spec_cap_enc. rewrite !blen_cons. lia. Qed.

Lemma cap_encode_spec c : cap_repr c = true -> cap_encode c = spec_cap_enc c.
Proof.
  unfold cap_repr, cap_encode, spec_cap_enc. intros H.
  apply andb_true_iff in H as [H Hl]. rewrite u8_small by lia. reflexivity.
Qed.

(* one iteration of the capability / parameter loops: the TLV split *)
Lemma tlv_value code len r :
  wf_byte len = true -> len <= blen r -> blen (code :: len :: r) < 256 ->
  (if 0 <? len then @of_opt notif _ (slice (code :: len :: r) 2 (u8 (len + 2))) else Ok [])
  = Ok (take len r).
Proof.
  intros Hw Hl Hb. rewrite !blen_cons in Hb.
  destruct (0 <? len) eqn:E.
  - rewrite u8_small by lia. rewrite slice_spec; [|lia|rewrite !blen_cons; lia].
    cbn [of_opt]. replace (len + 2 - 2) with len by lia. reflexivity.
  - assert (len = 0) by lia. subst. reflexivity.
Qed.

Lemma tlv_rest code len r :
  len <= blen r ->
  @of_opt notif _ (slice_from (code :: len :: r) (2 + len)) = Ok (drop len r).
Proof.
  intros Hl. rewrite slice_from_spec by (rewrite !blen_cons; lia).
  cbn [of_opt]. rewrite drop_cons2. reflexivity.
Qed.

Lemma caps_decode_inv : forall f b cs,
  wf_bytes b = true -> blen b < 256 ->
  caps_decode f b = Ok cs ->
  cs <> [] /\ forallb cap_repr cs = true /\ spec_caps_enc cs = b.
Proof.
  induction f as [|f IH]; intros b cs Hw Hb H; [discriminate|].
  cbn [caps_decode] in H.
  destruct b as [|code [|len r]]; try discriminate.
  destruct (blen (code :: len :: r) <? len + 2) eqn:E; [discriminate|].
  assert (Hl : len <= blen r) by (rewrite !blen_cons in E; lia).
  cbn [wf_bytes forallb] in Hw.
  apply andb_true_iff in Hw as [Hc Hw]. apply andb_true_iff in Hw as [Hlen Hr].
  rewrite tlv_value in H by assumption. cbn [rbind] in H.
  rewrite tlv_rest in H by assumption. cbn [rbind] in H.
  assert (Hv : cap_repr (mkCap code (take len r)) = true).
  { unfold cap_repr; cbn [cap_code cap_val]. rewrite blen_take by assumption.
    rewrite wf_bytes_take by assumption. apply wf_byte_lt in Hc, Hlen.
    unfold wf_byte in *. lia. }
  destruct (blen (drop len r) =? 0) eqn:E0.
  - injection H as <-. split; [discriminate|]. split; [cbn; rewrite Hv; reflexivity|].
    cbn. rewrite app_nil_r. unfold spec_cap_enc; cbn [cap_code cap_val].
    rewrite blen_take by assumption.
    assert (drop len r = []) by (apply blen_0; lia).
    rewrite <- (take_drop len r) at 2. rewrite H. rewrite app_nil_r. reflexivity.
  - destruct (caps_decode f (drop len r)) as [cs'| | |] eqn:Er; try discriminate.
    cbn [rbind] in H. injection H as <-.
    apply IH in Er as (Hne & Hall & Henc).
    + split; [discriminate|]. split; [cbn; rewrite Hv; exact Hall|].
      cbn. fold (spec_caps_enc cs'). rewrite Henc.
      unfold spec_cap_enc; cbn [cap_code cap_val]. rewrite blen_take by assumption.
      cbn. rewrite take_drop. reflexivity.
    + apply wf_bytes_drop; assumption.
    + rewrite blen_drop. rewrite !blen_cons in Hb. lia.
Qed.

Lemma spec_caps_enc_cons c cs : spec_caps_enc (c :: cs) = spec_cap_enc c ++ spec_caps_enc cs.
Proof. reflexivity. Qed.

Lemma caps_decode_rt : forall cs f,
  cs <> [] -> forallb cap_repr cs = true -> blen (spec_caps_enc cs) < 256 ->
  (length (spec_caps_enc cs) < f)%nat ->
  caps_decode f (spec_caps_enc cs) = Ok cs.
Proof.
  induction cs as [|c cs IH]; intros f Hne Hall Hb Hf; [congruence|].
  destruct f as [|f]; [lia|].
  cbn [forallb] in Hall. apply andb_true_iff in Hall as [Hc Hall].
  rewrite spec_caps_enc_cons in *. unfold spec_cap_enc in *. cbn [app] in *.
  destruct c as [code v]; cbn [cap_code cap_val] in *.
  unfold cap_repr in Hc; cbn [cap_code cap_val] in Hc.
  cbn [caps_decode].
  rewrite !blen_cons, blen_app in Hb.
  assert (E : blen (code :: blen v :: v ++ spec_caps_enc cs) <? blen v + 2 = false).
  { rewrite !blen_cons, blen_app. lia. }
  rewrite E.
  rewrite tlv_value; [|unfold wf_byte; lia|rewrite blen_app; lia|rewrite !blen_cons, blen_app; lia].
  cbn [rbind]. rewrite tlv_rest by (rewrite blen_app; lia). cbn [rbind].
  rewrite take_app_exact, drop_app_exact.
  destruct cs as [|c' cs'].
  - reflexivity.
  - assert (E0 : blen (spec_caps_enc (c' :: cs')) =? 0 = false).
    { rewrite spec_caps_enc_cons, blen_app, spec_cap_enc_len. lia. }
    rewrite E0. rewrite IH; [reflexivity|discriminate|assumption|lia|].
    cbn [length] in Hf. rewrite app_length in Hf. lia.
Qed.

Lemma caps_decode_total : forall f b,
  wf_bytes b = true -> blen b < 256 -> (length b < f)%nat ->
  caps_decode f b <> Panic /\ caps_decode f b <> OutOfFuel.
Proof.
  induction f as [|f IH]; intros b Hw Hb Hf; [lia|].
  cbn [caps_decode].
  destruct b as [|code [|len r]]; try (split; discriminate).
  destruct (blen (code :: len :: r) <? len + 2) eqn:E; [split; discriminate|].
  assert (Hl : len <= blen r) by (rewrite !blen_cons in E; lia).
  cbn [wf_bytes forallb] in Hw.
  apply andb_true_iff in Hw as [Hc Hw]. apply andb_true_iff in Hw as [Hlen Hr].
  rewrite tlv_value by assumption. cbn [rbind].
  rewrite tlv_rest by assumption. cbn [rbind].
  destruct (blen (drop len r) =? 0); [split; discriminate|].
  specialize (IH (drop len r)).
  destruct IH as [I1 I2].
  - apply wf_bytes_drop; assumption.
  - rewrite blen_drop. rewrite !blen_cons in Hb. lia.
  - cbn [length] in Hf. unfold drop. rewrite skipn_length. lia.
  - destruct (caps_decode f (drop len r)); cbn [rbind]; split; congruence.
Qed.

(* ---------- optional parameters ---------- *)
Lemma spec_param_enc_len cs : blen (spec_param_enc cs) = 2 + blen (spec_caps_enc cs).
Proof. unfold spec_param_enc. rewrite !blen_cons. lia. Qed.
Lemma spec_params_enc_cons p ps : spec_params_enc (p :: ps) = spec_param_enc p ++ spec_params_enc ps.
Proof. reflexivity. Qed.

Lemma ne_length_false {A} (l : list A) : l <> [] -> (length l =? 0)%nat = false.
Proof. destruct l; [congruence|reflexivity]. Qed.

Lemma params_decode_inv : forall f b ps,
  wf_bytes b = true -> blen b < 256 ->
  params_decode f b = Ok ps ->
  ps <> [] /\ forallb param_repr ps = true /\ spec_params_enc ps = b.
Proof.
  induction f as [|f IH]; intros b ps Hw Hb H; [discriminate|].
  cbn [params_decode] in H.
  destruct b as [|code [|len r]]; try discriminate.
  destruct (blen (code :: len :: r) <? len + 2) eqn:E; [discriminate|].
  assert (Hl : len <= blen r) by (rewrite !blen_cons in E; lia).
  cbn [wf_bytes forallb] in Hw.
  apply andb_true_iff in Hw as [Hc Hw]. apply andb_true_iff in Hw as [Hlen Hr].
  rewrite tlv_value in H by assumption. cbn [rbind] in H.
  rewrite tlv_rest in H by assumption. cbn [rbind] in H.
  destruct (code =? c_capabilityOptionalParamType) eqn:Ecode; [|discriminate].
  apply N.eqb_eq in Ecode. unfold c_capabilityOptionalParamType in Ecode. subst code.
  destruct (caps_decode (S (length (take len r))) (take len r)) as [cs| | |] eqn:Ec; try discriminate.
  cbn [rbind] in H.
  apply caps_decode_inv in Ec as (Cne & Call & Cenc);
    [|apply wf_bytes_take; assumption|rewrite blen_take by assumption; apply wf_byte_lt; assumption].
  assert (Hp : param_repr cs = true).
  { unfold param_repr. rewrite ne_length_false by assumption. rewrite Call, Cenc.
    rewrite blen_take by assumption. apply wf_byte_lt in Hlen. cbn. lia. }
  assert (Henc1 : spec_param_enc cs = 2 :: len :: take len r).
  { unfold spec_param_enc. rewrite Cenc, blen_take by assumption. reflexivity. }
  destruct (blen (drop len r) =? 0) eqn:E0.
  - injection H as <-. split; [discriminate|]. split; [cbn; rewrite Hp; reflexivity|].
    unfold spec_params_enc. cbn [flat_map]. rewrite app_nil_r, Henc1.
    assert (Hd : drop len r = []) by (apply blen_0; lia).
    rewrite <- (take_drop len r) at 2. rewrite Hd, app_nil_r. reflexivity.
  - destruct (params_decode f (drop len r)) as [ps'| | |] eqn:Er; try discriminate.
    cbn [rbind] in H. injection H as <-.
    apply IH in Er as (Hne & Hall & Henc).
    + split; [discriminate|]. split; [cbn; rewrite Hp; exact Hall|].
      rewrite spec_params_enc_cons, Henc, Henc1. cbn. rewrite take_drop. reflexivity.
    + apply wf_bytes_drop; assumption.
    + rewrite blen_drop. rewrite !blen_cons in Hb. lia.
Qed.

Lemma params_decode_rt : forall ps f,
  ps <> [] -> forallb param_repr ps = true -> blen (spec_params_enc ps) < 256 ->
  (length (spec_params_enc ps) < f)%nat ->
  params_decode f (spec_params_enc ps) = Ok ps.
Proof.
  induction ps as [|p ps IH]; intros f Hne Hall Hb Hf; [congruence|].
  destruct f as [|f]; [lia|].
  cbn [forallb] in Hall. apply andb_true_iff in Hall as [Hp Hall].
  rewrite spec_params_enc_cons in *. unfold spec_param_enc in *. cbn [app] in *.
  unfold param_repr in Hp.
  apply andb_true_iff in Hp as [Hp Hplen]. apply andb_true_iff in Hp as [Hpne Hpall].
  assert (Pne : p <> []) by (destruct p; [discriminate|discriminate]).
  cbn [params_decode].
  rewrite !blen_cons, blen_app in Hb.
  assert (E : blen (2 :: blen (spec_caps_enc p) :: spec_caps_enc p ++ spec_params_enc ps)
              <? blen (spec_caps_enc p) + 2 = false).
  { rewrite !blen_cons, blen_app. lia. }
  rewrite E.
  rewrite tlv_value; [|unfold wf_byte; lia|rewrite blen_app; lia|rewrite !blen_cons, blen_app; lia].
  cbn [rbind]. rewrite tlv_rest by (rewrite blen_app; lia). cbn [rbind].
  rewrite take_app_exact, drop_app_exact.
  change (2 =? c_capabilityOptionalParamType) with true. cbn iota.
  rewrite caps_decode_rt; [|assumption|assumption|lia|lia].
  cbn [rbind].
  destruct ps as [|p' ps'].
  - reflexivity.
  - assert (E0 : blen (spec_params_enc (p' :: ps')) =? 0 = false).
    { rewrite spec_params_enc_cons, blen_app, spec_param_enc_len. lia. }
    rewrite E0. rewrite IH; [reflexivity|discriminate|assumption|lia|].
    cbn [length] in Hf. rewrite app_length in Hf. lia.
Qed.

Lemma params_decode_total : forall f b,
  wf_bytes b = true -> blen b < 256 -> (length b < f)%nat ->
  params_decode f b <> Panic /\ params_decode f b <> OutOfFuel.
Proof.
  induction f as [|f IH]; intros b Hw Hb Hf; [lia|].
  cbn [params_decode].
  destruct b as [|code [|len r]]; try (split; discriminate).
  destruct (blen (code :: len :: r) <? len + 2) eqn:E; [split; discriminate|].
  assert (Hl : len <= blen r) by (rewrite !blen_cons in E; lia).
  cbn [wf_bytes forallb] in Hw.
  apply andb_true_iff in Hw as [Hc Hw]. apply andb_true_iff in Hw as [Hlen Hr].
  rewrite tlv_value by assumption. cbn [rbind].
  rewrite tlv_rest by assumption. cbn [rbind].
  destruct (code =? c_capabilityOptionalParamType); [|split; discriminate].
  destruct (caps_decode_total (S (length (take len r))) (take len r)) as [C1 C2];
    [apply wf_bytes_take; assumption|rewrite blen_take by assumption; apply wf_byte_lt; assumption|lia|].
  destruct (caps_decode (S (length (take len r))) (take len r)); cbn [rbind]; try (split; congruence).
  destruct (blen (drop len r) =? 0); [split; discriminate|].
  specialize (IH (drop len r)).
  destruct IH as [I1 I2].
  - apply wf_bytes_drop; assumption.
  - rewrite blen_drop. rewrite !blen_cons in Hb. lia.
  - cbn [length] in Hf. unfold drop. rewrite skipn_length. lia.
  - destruct (params_decode f (drop len r)); cbn [rbind]; split; congruence.
Qed.

(* ---------- OPEN ---------- *)
Theorem open_roundtrip o :
  open_repr o = true -> open_decode (spec_open_body o) = Ok o.
Proof.
  unfold open_repr. intros H.
  apply andb_true_iff in H as [H Hplen]. apply andb_true_iff in H as [H Hpall].
  apply andb_true_iff in H as [H Hpne]. apply andb_true_iff in H as [H Hid].
  apply andb_true_iff in H as [H Hhold]. apply andb_true_iff in H as [Hver Hasn].
  destruct o as [v a h i ps]; cbn [o_ver o_asn o_hold o_id o_params] in *.
  unfold spec_open_body; cbn [o_ver o_asn o_hold o_id o_params]. unfold be16, be32. cbn [app].
  cbn [open_decode].
  assert (E : negb (blen (spec_params_enc ps) =?
     blen (v :: a / 256 :: a mod 256 :: h / 256 :: h mod 256 :: i / 16777216 :: (i / 65536) mod 256
           :: (i / 256) mod 256 :: i mod 256 :: blen (spec_params_enc ps) :: spec_params_enc ps) - 10) = false).
  { rewrite !blen_cons. lia. }
  rewrite E.
  assert (Pne : ps <> []) by (destruct ps; [discriminate|discriminate]).
  rewrite params_decode_rt; [|assumption|assumption|lia|lia].
  cbn [rbind]. rewrite !put16_get16 by lia. rewrite put32_get32_top by lia. reflexivity.
Qed.

Theorem open_decode_inverse b o :
  wf_bytes b = true -> open_decode b = Ok o ->
  open_repr o = true /\ spec_open_body o = b.
Proof.
  intros Hw H. unfold open_decode in H.
  destruct b as [|v [|a1 [|a0 [|h1 [|h0 [|i3 [|i2 [|i1 [|i0 [|ol rest]]]]]]]]]]; try discriminate.
  destruct (negb (ol =? blen (v :: a1 :: a0 :: h1 :: h0 :: i3 :: i2 :: i1 :: i0 :: ol :: rest) - 10)) eqn:E;
    [discriminate|].
  rewrite !blen_cons in E.
  assert (Hol : ol = blen rest) by lia. clear E.
  cbn [wf_bytes forallb] in Hw.
  repeat (apply andb_true_iff in Hw as [?Hb Hw]).
  repeat match goal with Hx : wf_byte _ = true |- _ => apply wf_byte_lt in Hx end.
  destruct (params_decode (S (length rest)) rest) as [ps| | |] eqn:Ep; try discriminate.
  cbn [rbind] in H. injection H as <-.
  apply params_decode_inv in Ep as (Pne & Pall & Penc); [|assumption|lia].
  split.
  - unfold open_repr; cbn [o_ver o_asn o_hold o_id o_params].
    rewrite (ne_length_false ps Pne), Pall, Penc. cbn [negb andb].
    pose proof (get16_lt a1 a0). pose proof (get16_lt h1 h0). pose proof (get32_lt i3 i2 i1 i0).
    lia.
  - unfold spec_open_body; cbn [o_ver o_asn o_hold o_id o_params]. rewrite Penc.
    unfold be16, be32, get16, get32. cbn [app]. subst ol.
    repeat f_equal; lia.
Qed.

Theorem open_decode_total b :
  wf_bytes b = true -> open_decode b <> Panic /\ open_decode b <> OutOfFuel.
Proof.
  intros Hw. unfold open_decode.
  destruct b as [|v [|a1 [|a0 [|h1 [|h0 [|i3 [|i2 [|i1 [|i0 [|ol rest]]]]]]]]]]; try (split; discriminate).
  destruct (negb (ol =? blen (v :: a1 :: a0 :: h1 :: h0 :: i3 :: i2 :: i1 :: i0 :: ol :: rest) - 10)) eqn:E;
    [split; discriminate|].
  rewrite !blen_cons in E.
  cbn [wf_bytes forallb] in Hw.
  repeat (apply andb_true_iff in Hw as [?Hb Hw]).
  repeat match goal with Hx : wf_byte _ = true |- _ => apply wf_byte_lt in Hx end.
  destruct (params_decode_total (S (length rest)) rest) as [P1 P2]; [assumption|lia|lia|].
  destruct (params_decode (S (length rest)) rest); cbn [rbind]; split; congruence.
Qed.

(* the encoder agrees with the specification encoder on representable values
   and refuses everything else *)
Lemma flat_map_cap_encode cs :
  forallb cap_repr cs = true -> flat_map cap_encode cs = spec_caps_enc cs.
Proof.
  induction cs as [|c cs IH]; intros H; [reflexivity|].
  cbn [forallb] in H. apply andb_true_iff in H as [Hc H].
  cbn [flat_map]. rewrite cap_encode_spec, IH by assumption. reflexivity.
Qed.

Lemma existsb_big_false cs :
  forallb cap_repr cs = true -> existsb (fun c => 255 <? blen (cap_val c)) cs = false.
Proof.
  induction cs as [|c cs IH]; intros H; [reflexivity|].
  cbn [forallb] in H. apply andb_true_iff in H as [Hc H].
  cbn [existsb]. rewrite IH by assumption. unfold cap_repr in Hc. lia.
Qed.

Lemma param_encode_spec cs :
  param_repr cs = true -> param_encode cs = Some (spec_param_enc cs).
Proof.
  unfold param_repr. intros H.
  apply andb_true_iff in H as [H Hl]. apply andb_true_iff in H as [Hne Hall].
  unfold param_encode. destruct cs as [|c cs]; [discriminate|].
  rewrite existsb_big_false, flat_map_cap_encode by assumption.
  destruct (255 <? blen (spec_caps_enc (c :: cs))) eqn:E; [lia|].
  unfold spec_param_enc. rewrite u8_small by lia. reflexivity.
Qed.

Lemma params_encode_spec ps :
  forallb param_repr ps = true -> params_encode ps = Some (spec_params_enc ps).
Proof.
  induction ps as [|p ps IH]; intros H; [reflexivity|].
  cbn [forallb] in H. apply andb_true_iff in H as [Hp H].
  cbn [params_encode]. rewrite param_encode_spec, IH by assumption. reflexivity.
Qed.

Theorem open_body_spec o :
  open_repr o = true -> open_body o = Some (spec_open_body o).
Proof.
  unfold open_repr. intros H.
  apply andb_true_iff in H as [H Hplen]. apply andb_true_iff in H as [H Hpall].
  apply andb_true_iff in H as [H Hpne]. apply andb_true_iff in H as [H Hid].
  apply andb_true_iff in H as [H Hhold]. apply andb_true_iff in H as [Hver Hasn].
  unfold open_body. rewrite params_encode_spec by assumption.
  destruct (255 <? blen (spec_params_enc (o_params o))) eqn:E; [lia|].
  unfold spec_open_body. rewrite u8_small by lia.
  rewrite !put16_be16, put32_be32 by lia. reflexivity.
Qed.

Theorem open_reencode b o :
  wf_bytes b = true -> open_decode b = Ok o ->
  open_encode o = Some (spec_frame_enc 1 b).
Proof.
  intros Hw H. destruct (open_decode_inverse b o Hw H) as [Hr Hb].
  unfold open_encode. rewrite open_body_spec by assumption. rewrite Hb.
  rewrite prepend_header_spec; [reflexivity|].
  (* an accepted body is at most 10 + 255 bytes *)
  unfold open_repr in Hr. rewrite <- Hb. unfold spec_open_body, be16, be32.
  rewrite !blen_app, !blen_cons, !blen_nil. lia.
Qed.

(* ---------- add-path tuples, MP capability ---------- *)
Lemma spec_aptuple_enc_len a : blen (spec_aptuple_enc a) = 4.
Proof. reflexivity. Qed.

Lemma aptuple_encode_spec a : aptuple_repr a = true -> aptuple_encode a = spec_aptuple_enc a.
Proof.
  unfold aptuple_repr, aptuple_encode, spec_aptuple_enc. intros H.
  apply andb_true_iff in H as [H Hd]. apply andb_true_iff in H as [Ha Hs].
  rewrite put16_be16 by lia. destruct (ap_tx a), (ap_rx a); try discriminate; reflexivity.
Qed.

Lemma aptuple_decode_enc a rest :
  aptuple_repr a = true -> aptuple_decode (spec_aptuple_enc a ++ rest) = Ok a.
Proof.
  unfold aptuple_repr, spec_aptuple_enc, be16. intros H.
  apply andb_true_iff in H as [H Hd]. apply andb_true_iff in H as [Ha Hs].
  destruct a as [afi safi tx rx]; cbn [ap_afi ap_safi ap_tx ap_rx] in *. cbn [app aptuple_decode].
  rewrite put16_get16 by lia.
  destruct tx, rx; try discriminate; reflexivity.
Qed.

Lemma aptuple_decode_inv b a :
  wf_bytes b = true -> aptuple_decode b = Ok a ->
  aptuple_repr a = true /\ exists rest, b = spec_aptuple_enc a ++ rest /\ rest = drop 4 b.
Proof.
  intros Hw H. destruct b as [|a1 [|a0 [|s [|d rest]]]]; try discriminate.
  cbn [wf_bytes forallb] in Hw. repeat (apply andb_true_iff in Hw as [?Hb Hw]).
  repeat match goal with Hx : wf_byte _ = true |- _ => apply wf_byte_lt in Hx end.
  cbn [aptuple_decode] in H. pose proof (get16_lt a1 a0 Hb Hb0) as Hafi.
  assert (Hbe : be16 (get16 a1 a0) = [a1; a0]) by (unfold be16, get16; f_equal; [|f_equal]; lia).
  destruct (d =? 3) eqn:E3; [|destruct (d =? 2) eqn:E2; [|destruct (d =? 1) eqn:E1; [|discriminate]]];
    injection H as <-; (split; [unfold aptuple_repr; cbn; lia|]); exists rest;
    unfold spec_aptuple_enc; cbn [ap_afi ap_safi ap_tx ap_rx]; rewrite Hbe; cbn;
    (split; [repeat f_equal; lia|reflexivity]).
Qed.

Lemma aptuples_loop_inv : forall f b l,
  wf_bytes b = true -> aptuples_loop f b = Ok l ->
  forallb aptuple_repr l = true /\ flat_map spec_aptuple_enc l = b.
Proof.
  induction f as [|f IH]; intros b l Hw H; [discriminate|].
  cbn [aptuples_loop] in H.
  destruct (0 <? blen b) eqn:E.
  - destruct (aptuple_decode b) as [a| | |] eqn:Ea; try discriminate. cbn [rbind] in H.
    apply aptuple_decode_inv in Ea as (Hr & rest & Hb & Hrest); [|assumption].
    rewrite slice_from_spec in H by (rewrite Hb, blen_app, spec_aptuple_enc_len; lia).
    cbn [of_opt rbind] in H. rewrite <- Hrest in H.
    destruct (aptuples_loop f rest) as [l'| | |] eqn:El; try discriminate.
    cbn [rbind] in H. injection H as <-.
    apply IH in El as [Hall Henc]; [|rewrite Hrest; apply wf_bytes_drop; assumption].
    split; [cbn; rewrite Hr; exact Hall|]. cbn [flat_map]. rewrite Henc. symmetry. exact Hb.
  - injection H as <-. split; [reflexivity|]. symmetry. apply blen_0. lia.
Qed.

Lemma aptuples_loop_rt : forall l f,
  forallb aptuple_repr l = true -> (length (flat_map spec_aptuple_enc l) < f)%nat ->
  aptuples_loop f (flat_map spec_aptuple_enc l) = Ok l.
Proof.
  induction l as [|a l IH]; intros f Hall Hf.
  - destruct f; [lia|]. reflexivity.
  - destruct f as [|f]; [lia|]. cbn [forallb] in Hall. apply andb_true_iff in Hall as [Ha Hall].
    cbn [flat_map aptuples_loop].
    assert (E : 0 <? blen (spec_aptuple_enc a ++ flat_map spec_aptuple_enc l) = true).
    { rewrite blen_app, spec_aptuple_enc_len. lia. }
    rewrite E, aptuple_decode_enc by assumption. cbn [rbind].
    rewrite slice_from_spec by (rewrite blen_app, spec_aptuple_enc_len; lia).
    cbn [of_opt rbind].
    change 4 with (blen (spec_aptuple_enc a)). rewrite drop_app_exact.
    rewrite IH; [reflexivity|assumption|].
    cbn [flat_map] in Hf. rewrite app_length in Hf.
    change (length (spec_aptuple_enc a)) with 4%nat in Hf. lia.
Qed.

Lemma blen_flat_map_ap l : blen (flat_map spec_aptuple_enc l) = 4 * N.of_nat (length l).
Proof.
  induction l as [|a l IH]; [reflexivity|].
  cbn [flat_map length]. rewrite blen_app, IH, spec_aptuple_enc_len. lia.
Qed.

Theorem aptuples_roundtrip l :
  l <> [] -> forallb aptuple_repr l = true ->
  aptuples_decode (flat_map spec_aptuple_enc l) = Ok l.
Proof.
  intros Hne Hall. unfold aptuples_decode.
  assert (E : (blen (flat_map spec_aptuple_enc l) =? 0)
              || negb (blen (flat_map spec_aptuple_enc l) mod 4 =? 0) = false).
  { rewrite blen_flat_map_ap. destruct l; [congruence|]. cbn [length]. lia. }
  rewrite E. apply aptuples_loop_rt; [assumption|lia].
Qed.

Theorem aptuples_decode_inverse b l :
  wf_bytes b = true -> aptuples_decode b = Ok l ->
  l <> [] /\ forallb aptuple_repr l = true /\ flat_map spec_aptuple_enc l = b.
Proof.
  intros Hw H. unfold aptuples_decode in H.
  destruct ((blen b =? 0) || negb (blen b mod 4 =? 0)) eqn:E; [discriminate|].
  apply aptuples_loop_inv in H as [Hall Henc]; [|assumption].
  split; [|split; assumption].
  intros ->. cbn in Henc. subst b. cbn in E. discriminate.
Qed.

Theorem aptuples_decode_total b :
  wf_bytes b = true -> aptuples_decode b <> Panic /\ aptuples_decode b <> OutOfFuel.
Proof.
  intros Hw. unfold aptuples_decode.
  destruct ((blen b =? 0) || negb (blen b mod 4 =? 0)); [split; discriminate|].
  assert (G : forall f b, wf_bytes b = true -> (length b < f)%nat ->
              aptuples_loop f b <> Panic /\ aptuples_loop f b <> OutOfFuel).
  { clear. induction f as [|f IH]; intros b Hw Hf; [lia|]. cbn [aptuples_loop].
    destruct (0 <? blen b) eqn:E; [|split; discriminate].
    destruct (aptuple_decode b) as [a| | |] eqn:Ea; cbn [rbind];
      try (split; discriminate);
      try (destruct b as [|? [|? [|? [|? ?]]]]; cbn in Ea;
           repeat match type of Ea with (if ?c then _ else _) = _ => destruct c end; discriminate).
    apply aptuple_decode_inv in Ea as (Hr & rest & Hb & Hrest); [|assumption].
    rewrite slice_from_spec by (rewrite Hb, blen_app, spec_aptuple_enc_len; lia).
    cbn [of_opt rbind].
    destruct (IH (drop 4 b)) as [I1 I2]; [apply wf_bytes_drop; assumption| |].
    - unfold drop. rewrite skipn_length. unfold blen in E. lia.
    - destruct (aptuples_loop f (drop 4 b)); cbn [rbind]; split; congruence. }
  apply G; [assumption|lia].
Qed.

Theorem addpath_cap_spec ts :
  forallb aptuple_repr ts = true ->
  addpath_cap ts = mkCap 69 (flat_map spec_aptuple_enc ts).
Proof.
  intros H. unfold addpath_cap, c_CAP_ADD_PATH. f_equal.
  induction ts as [|a ts IH]; [reflexivity|].
  cbn [forallb] in H. apply andb_true_iff in H as [Ha H].
  cbn [flat_map]. rewrite aptuple_encode_spec, IH by assumption. reflexivity.
Qed.

Theorem mp_cap_spec afi safi :
  afi < 65536 -> mp_cap afi safi = mkCap 1 [afi / 256; afi mod 256; 0; safi].
Proof.
  intros H. unfold mp_cap, c_CAP_MP_EXTENSIONS. rewrite put16_be16 by assumption. reflexivity.
Qed.

(* non-vacuity: a concrete representable OPEN and NOTIFICATION *)
Example open_repr_example :
  open_repr (mkOpen 4 65000 90 167772161
              [[mkCap 65 [0; 0; 253; 232]; mkCap 1 [0; 1; 0; 1]]; [mkCap 2 []]]) = true.
Proof. vm_compute. reflexivity. Qed.
Example notif_repr_example : notif_repr (mkNotif 5 1 [4]) = true.
Proof. vm_compute. reflexivity. Qed.
