(* TimedProofs.v — C06 over timed runs of any length: the hold timer's deadline is always the last
   accepted traffic + the negotiated hold time, so expiry is never early; the keep-alive timer is always
   armed no later than a third of the hold time after the last KEEPALIVE; with hold time 0 no timer is
   armed, so the session never expires for silence and no periodic KEEPALIVE is sent. *)
From Verif Require Import Base Consts Packet PacketSpec Conn Timed BaseLemmas PacketProofs ConnProofs.
From Coq Require Import ZifyN ZifyNat ZifyBool.

Definition tinv (ts : tstate) : Prop :=
  ts_last_ka ts <= ts_now ts /\
  let c := ts_conn ts in
  match c_phase c with
  | POpenSent => ts_ka ts = None
  | PDone => True
  | _ =>
      if c_holdns c =? 0 then ts_hold ts = None /\ ts_ka ts = None
      else ts_hold ts = Some (ts_last_rx ts + c_holdns c)
           /\ exists dl, ts_ka ts = Some dl /\ dl <= ts_last_ka ts + c_holdns c / 3
  end.

Lemma tinv_init t0 : tinv (tinit t0).
Proof. split; [cbn; lia|reflexivity]. Qed.

Lemma keepalive_is_ka : is_ka_write (AWrite keepalive_encode) = true.
Proof. vm_compute. reflexivity. Qed.

(* the ghost "last KEEPALIVE written" only moves forward, up to the current time *)
Lemma apply_actions_lk now : forall acts h k lk,
  lk <= now -> lk <= snd (apply_actions now h k lk acts) <= now.
Proof.
  induction acts as [|a r IH]; intros h k lk Hl; cbn [apply_actions snd]; [lia|].
  destruct a; try (apply IH; exact Hl);
    try (destruct (is_ka_write _); [specialize (IH h k now (N.le_refl _)); lia|apply IH; exact Hl]).
Qed.

(* actions that do not touch timers leave the deadlines alone *)
Definition timer_free (a : caction) : bool :=
  match a with AArmHold _ | AArmKA _ | AStopHold | AStopKA => false | _ => true end.
Lemma apply_actions_free now : forall acts h k lk,
  forallb timer_free acts = true ->
  fst (apply_actions now h k lk acts) = (h, k).
Proof.
  induction acts as [|a r IH]; intros h k lk Hf; cbn [apply_actions fst]; [reflexivity|].
  cbn [forallb] in Hf. apply andb_true_iff in Hf as [Ha Hr].
  destruct a; try discriminate; apply IH; exact Hr.
Qed.

Lemma map_write_free (l : list bytes) : forallb timer_free (map (fun b => AWrite (update_frame b)) l) = true.
Proof. induction l; cbn; [reflexivity|assumption]. Qed.

Local Arguments N.mul : simpl never.
Local Arguments N.add : simpl never.
Local Arguments N.div : simpl never.
Local Arguments N.leb : simpl never.
Local Arguments N.ltb : simpl never.
Local Arguments N.eqb : simpl never.
Local Arguments is_ka_write : simpl never.
Local Arguments notif_encode : simpl never.
Local Arguments keepalive_encode : simpl never.
Local Arguments update_frame : simpl never.
Local Arguments open_validate : simpl never.

Lemma apply_actions_app now a b h k lk :
  apply_actions now h k lk (a ++ b) =
  let '(h1, k1, lk1) := apply_actions now h k lk a in apply_actions now h1 k1 lk1 b.
Proof.
  revert h k lk. induction a as [|x a IH]; intros h k lk; cbn [app apply_actions]; [reflexivity|].
  destruct x; apply IH.
Qed.

Theorem tstep_inv cf pl ts d i ts' acts :
  tinv ts -> tstep cf pl ts d i = Some (ts', acts) -> tinv ts'.
Proof.
  intros [Hlk Hi] Hs. destruct ts as [[ph H n] now h k lrx lka].
  unfold tstep in Hs. cbn [ts_now ts_hold ts_ka ts_conn ts_last_rx ts_last_ka c_phase c_holdns] in *.
  destruct (negb _) eqn:En; [discriminate|]. apply negb_false_iff in En.
  destruct (conn_step cf pl (mkC ph H n) i) as [c' acts'] eqn:Ec.
  pose proof (apply_actions_lk (now + d) acts'
               (match i with IHold => None | _ => h end) (match i with IKA => None | _ => k end) lka ltac:(lia)) as Hlk'.
  destruct (apply_actions (now + d) _ _ lka acts') as [[h' k'] lk'] eqn:Ea. cbn [snd] in Hlk'.
  injection Hs as <- <-. unfold tinv. cbn [ts_now ts_hold ts_ka ts_conn ts_last_rx ts_last_ka].
  split; [lia|].
  assert (Hka : forall hh kk ll r, apply_actions (now + d) hh kk ll (AWrite keepalive_encode :: r)
                                   = apply_actions (now + d) hh kk (now + d) r).
  { intros. cbn [apply_actions]. rewrite keepalive_is_ka. reflexivity. }
  Ltac easy_case Ec Ea :=
    cbn in Ec; injection Ec as <- <-; cbn in Ea; try (injection Ea as <- <- <-); cbn; auto.
  destruct ph.
  - (* OpenSent *)
    destruct i as [[[o|b|nn|]|nn|]| | | |]; try (easy_case Ec Ea; fail).
    cbn in Ec.
    destruct (open_validate (cf_lid cf) (cf_las cf) (cf_ras cf) o) as [n0|]; [easy_case Ec Ea|].
    destruct (pl_on_open pl) as [n0|]; [easy_case Ec Ea|].
    set (hh := if cf_hold cf * second <? o_hold o * second then cf_hold cf * second else o_hold o * second) in *.
    injection Ec as <- <-. cbn [c_phase c_holdns rx_kind andb].
    destruct (hh =? 0) eqn:E0.
    + cbn [app apply_actions] in Ea. rewrite keepalive_is_ka in Ea. unfold is_ka_write in Ea. cbn in Ea.
      injection Ea as <- <- <-. split; [reflexivity|exact Hi].
    + cbn [app apply_actions] in Ea. rewrite keepalive_is_ka in Ea. unfold is_ka_write in Ea. cbn in Ea.
      injection Ea as <- <- <-. split; [reflexivity|]. eexists. split; [reflexivity|]. lia.
  - (* waiting for the manager's answer to OpenConfirm *)
    destruct i as [[[o|b|nn|]|nn|]| | | |]; try discriminate; easy_case Ec Ea.
  - (* OpenConfirm *)
    destruct (H =? 0) eqn:E0.
    + destruct Hi as [-> ->].
      destruct i as [[[o|b|nn|]|nn|]| | | |]; try discriminate; cbn in Ec; rewrite ?E0 in Ec;
        injection Ec as <- <-; cbn in Ea; try (injection Ea as <- <- <-); cbn; rewrite ?E0; auto.
    + destruct Hi as [-> (dl & -> & Hdl)].
      destruct i as [[[o|b|nn|]|nn|]| | | |]; cbn in Ec; rewrite ?E0 in Ec; injection Ec as <- <-.
      all: cbn [app apply_actions teardown] in Ea; rewrite ?keepalive_is_ka in Ea; unfold is_ka_write in Ea; cbn in Ea;
        injection Ea as <- <- <-; cbn; rewrite ?E0; auto.
      all: try (split; [reflexivity|eexists; split; [reflexivity|lia]]).
  - (* waiting for the manager's answer to Established *)
    destruct i as [[[o|b|nn|]|nn|]| | | |]; try discriminate; try (easy_case Ec Ea; fail).
    cbn in Ec. injection Ec as <- <-.
    pose proof (apply_actions_free (now + d) (AOnEstablished :: map (fun b => AWrite (update_frame b)) (pl_est_writes pl))
                  h k lka ltac:(cbn [forallb timer_free andb]; apply map_write_free)) as Hf.
    rewrite Ea in Hf. cbn [fst] in Hf. injection Hf as -> ->. cbn [c_phase c_holdns rx_kind andb].
    destruct (H =? 0); [exact Hi|].
    destruct Hi as [-> (dl & -> & Hdl)]. split; [reflexivity|]. exists dl. split; [reflexivity|lia].
  - (* Established *)
    destruct (H =? 0) eqn:E0.
    + destruct Hi as [-> ->].
      destruct i as [[[o|b|nn|]|nn|]| | | |]; try discriminate; cbn in Ec; rewrite ?E0 in Ec;
        try destruct (pl_handler pl n);
        injection Ec as <- <-; cbn in Ea; try (injection Ea as <- <- <-); cbn; rewrite ?E0; auto.
    + destruct Hi as [-> (dl & -> & Hdl)].
      destruct i as [[[o|b|nn|]|nn|]| | | |]; cbn in Ec; rewrite ?E0 in Ec; try destruct (pl_handler pl n);
        injection Ec as <- <-.
      all: cbn [app apply_actions teardown] in Ea; rewrite ?keepalive_is_ka in Ea; unfold is_ka_write in Ea; cbn in Ea;
        injection Ea as <- <- <-; cbn; rewrite ?E0; auto.
      all: try (split; [reflexivity|eexists; split; [reflexivity|lia]]).
  - (* finished *)
    destruct i as [[[o|b|nn|]|nn|]| | | |]; try discriminate; easy_case Ec Ea.
Qed.

Theorem trun_inv cf pl : forall ins ts ts', tinv ts -> trun cf pl ts ins = Some ts' -> tinv ts'.
Proof.
  induction ins as [|[d i] r IH]; intros ts ts' Hi Hr; cbn [trun] in Hr.
  - injection Hr as <-. exact Hi.
  - destruct (tstep cf pl ts d i) as [[ts1 a]|] eqn:Es; [|discriminate].
    eapply IH; [eapply tstep_inv; eassumption|exact Hr].
Qed.

Definition reachable_t cf pl (ts : tstate) : Prop := exists t0 ins, trun cf pl (tinit t0) ins = Some ts.

Lemma reachable_tinv cf pl ts : reachable_t cf pl ts -> tinv ts.
Proof. intros (t0 & ins & H). eapply trun_inv; [apply tinv_init|exact H]. Qed.

(* C06: hold-timer expiry is never early.  In any state reachable by any timed run, if the session is
   up with a non-zero hold time H, the hold timer can fire only H or more after the last accepted
   OPEN / KEEPALIVE / UPDATE. *)
Theorem no_early_expiry cf pl ts d r :
  reachable_t cf pl ts -> up (c_phase (ts_conn ts)) = true -> c_holdns (ts_conn ts) <> 0 ->
  tstep cf pl ts d IHold = Some r ->
  ts_last_rx ts + c_holdns (ts_conn ts) <= ts_now ts + d.
Proof.
  intros Hr Hup Hh Hs. apply reachable_tinv in Hr as [_ Hi].
  unfold tstep in Hs. destruct (negb _) eqn:En; [discriminate|]. apply negb_false_iff in En.
  apply andb_true_iff in En as [_ En]. cbv zeta in Hi. revert Hi.
  destruct (c_phase (ts_conn ts)); try discriminate;
    (destruct (c_holdns (ts_conn ts) =? 0) eqn:E0; [apply N.eqb_eq in E0; contradiction|]);
    intros [Hh' _]; rewrite Hh' in En; cbn [due] in En; lia.
Qed.

(* ... and when it does fire in OpenConfirm / Established the session is torn down with Hold Timer Expired *)
Theorem expiry_action cf pl ts d ts' acts :
  (c_phase (ts_conn ts) = POpenConfirm \/ c_phase (ts_conn ts) = PEstablished) -> c_holdns (ts_conn ts) <> 0 ->
  tstep cf pl ts d IHold = Some (ts', acts) ->
  acts = [AWrite (notif_encode (mkNotif 4 0 []))] ++ teardown (c_phase (ts_conn ts))
         ++ [AReturn 1 (ENotifOut (mkNotif 4 0 []))]
  /\ c_phase (ts_conn ts') = PDone.
Proof.
  intros Hp Hh Hs. unfold tstep in Hs. destruct (negb _); [discriminate|].
  rewrite (hold_expiry cf pl (ts_conn ts) Hp Hh) in Hs.
  destruct (apply_actions _ _ _ _ _) as [[h k] lk]. injection Hs as <- <-. split; reflexivity.
Qed.

(* C06: the keep-alive timer is always armed while the session is up, with a deadline no later than a
   third of the hold time after the last KEEPALIVE was written; so if an expired timer is served within
   L, never more than H/3 + L passes without a KEEPALIVE *)
Theorem keepalive_armed cf pl ts :
  reachable_t cf pl ts -> up (c_phase (ts_conn ts)) = true -> c_holdns (ts_conn ts) <> 0 ->
  exists dl, ts_ka ts = Some dl /\ dl <= ts_last_ka ts + c_holdns (ts_conn ts) / 3.
Proof.
  intros Hr Hup Hh. apply reachable_tinv in Hr as [_ Hi]. cbv zeta in Hi. revert Hi.
  destruct (c_phase (ts_conn ts)); try discriminate;
    (destruct (c_holdns (ts_conn ts) =? 0) eqn:E0; [apply N.eqb_eq in E0; contradiction|]);
    intros [_ Hk]; exact Hk.
Qed.

Definition served_within (L : N) (ts : tstate) (d : N) : Prop :=
  match ts_ka ts with Some dl => ts_now ts + d <= dl + L | None => True end.

Theorem keepalive_cadence cf pl ts d L :
  reachable_t cf pl ts -> up (c_phase (ts_conn ts)) = true -> c_holdns (ts_conn ts) <> 0 ->
  served_within L ts d ->
  ts_now ts + d <= ts_last_ka ts + c_holdns (ts_conn ts) / 3 + L.
Proof.
  intros Hr Hup Hh Hs. destruct (keepalive_armed cf pl ts Hr Hup Hh) as (dl & Hk & Hdl).
  unfold served_within in Hs. rewrite Hk in Hs. lia.
Qed.

(* when the keep-alive timer fires a KEEPALIVE is written and the timer re-armed a third of the hold time ahead *)
Theorem keepalive_fire cf pl ts d ts' acts :
  (c_phase (ts_conn ts) = POpenConfirm \/ c_phase (ts_conn ts) = PEstablished) -> c_holdns (ts_conn ts) <> 0 ->
  tstep cf pl ts d IKA = Some (ts', acts) ->
  acts = [AWrite keepalive_encode; AArmKA (c_holdns (ts_conn ts) / 3)]
  /\ ts_ka ts' = Some (ts_now ts + d + c_holdns (ts_conn ts) / 3) /\ ts_last_ka ts' = ts_now ts + d.
Proof.
  intros Hp Hh Hs. unfold tstep in Hs. destruct (negb _); [discriminate|].
  rewrite (keepalive_timer cf pl (ts_conn ts) Hp Hh) in Hs.
  cbn [apply_actions] in Hs. rewrite keepalive_is_ka in Hs.
  injection Hs as <- <-. repeat split.
Qed.

(* C06, hold time 0: no timer is armed while the session is up, so neither timer can ever fire: the session
   never expires for silence and no periodic KEEPALIVE is sent *)
Theorem zero_hold_never_fires cf pl ts d i :
  reachable_t cf pl ts -> up (c_phase (ts_conn ts)) = true -> c_holdns (ts_conn ts) = 0 ->
  (i = IHold \/ i = IKA) -> tstep cf pl ts d i = None.
Proof.
  intros Hr Hup Hh Hi. apply reachable_tinv in Hr as [_ Hv].
  assert (Ht : ts_hold ts = None /\ ts_ka ts = None).
  { cbv zeta in Hv. revert Hv. destruct (c_phase (ts_conn ts)); try discriminate; rewrite Hh; intros Hv; exact Hv. }
  destruct Ht as [Hth Htk]. unfold tstep. destruct Hi as [-> | ->]; rewrite ?Hth, ?Htk; cbn [due];
    rewrite andb_false_r; reflexivity.
Qed.
