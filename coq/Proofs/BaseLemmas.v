(* BaseLemmas.v — arithmetic and list facts used by the codec proofs. *)
From Verif Require Import Base.
From Coq Require Import ZifyN ZifyNat ZifyBool.
Ltac Zify.zify_post_hook ::= Z.div_mod_to_equations.

Lemma blen_nil : blen [] = 0. Proof. reflexivity. Qed.
Lemma blen_cons x b : blen (x :: b) = 1 + blen b.
Proof. unfold blen. cbn [length]. lia. Qed.
Lemma blen_app a b : blen (a ++ b) = blen a + blen b.
Proof. unfold blen. rewrite app_length. lia. Qed.
Lemma blen_0 b : blen b = 0 -> b = [].
Proof. destruct b; [reflexivity|]. rewrite blen_cons. lia. Qed.
Lemma blen_firstn n b : blen (firstn n b) = N.min (N.of_nat n) (blen b).
Proof. unfold blen. rewrite firstn_length. lia. Qed.
Lemma blen_skipn n b : blen (skipn n b) = blen b - N.of_nat n.
Proof. unfold blen. rewrite skipn_length. lia. Qed.
Lemma blen_take n b : n <= blen b -> blen (take n b) = n.
Proof. unfold take. intros. rewrite blen_firstn. lia. Qed.
Lemma blen_drop n b : blen (drop n b) = blen b - n.
Proof. unfold drop. rewrite blen_skipn. lia. Qed.
Lemma take_drop n b : take n b ++ drop n b = b.
Proof. apply firstn_skipn. Qed.
Lemma blen_repeat x n : blen (repeat x n) = N.of_nat n.
Proof. unfold blen. rewrite repeat_length. reflexivity. Qed.

Lemma take_app_exact a b : take (blen a) (a ++ b) = a.
Proof. unfold take, blen. rewrite Nat2N.id. rewrite firstn_app, Nat.sub_diag, firstn_all. cbn. apply app_nil_r. Qed.
Lemma drop_app_exact a b : drop (blen a) (a ++ b) = b.
Proof. unfold drop, blen. rewrite Nat2N.id. rewrite skipn_app, Nat.sub_diag, skipn_all. reflexivity. Qed.
Lemma take_all b : take (blen b) b = b.
Proof. unfold take, blen. rewrite Nat2N.id. apply firstn_all. Qed.
Lemma drop_all b : drop (blen b) b = [].
Proof. unfold drop, blen. rewrite Nat2N.id. apply skipn_all. Qed.
Lemma take_0 b : take 0 b = []. Proof. reflexivity. Qed.
Lemma drop_0 b : drop 0 b = b. Proof. reflexivity. Qed.

Lemma wf_bytes_app a b : wf_bytes (a ++ b) = wf_bytes a && wf_bytes b.
Proof. apply forallb_app. Qed.
Lemma wf_bytes_cons x b : wf_bytes (x :: b) = wf_byte x && wf_bytes b.
Proof. reflexivity. Qed.
Lemma wf_bytes_firstn n b : wf_bytes b = true -> wf_bytes (firstn n b) = true.
Proof.
  revert b; induction n as [|n IH]; intros [|x b]; cbn; auto.
  intros H. apply andb_true_iff in H as [Hx Hb]. rewrite Hx. cbn. apply IH, Hb.
Qed.
Lemma wf_bytes_skipn n b : wf_bytes b = true -> wf_bytes (skipn n b) = true.
Proof.
  revert b; induction n as [|n IH]; intros [|x b]; cbn; auto.
  intros H. apply andb_true_iff in H as [Hx Hb]. apply IH, Hb.
Qed.
Lemma wf_bytes_take n b : wf_bytes b = true -> wf_bytes (take n b) = true.
Proof. apply wf_bytes_firstn. Qed.
Lemma wf_bytes_drop n b : wf_bytes b = true -> wf_bytes (drop n b) = true.
Proof. apply wf_bytes_skipn. Qed.

Lemma beqb_refl b : beqb b b = true.
Proof. induction b as [|x b IH]; cbn; [reflexivity|]. rewrite N.eqb_refl. exact IH. Qed.
Lemma beqb_eq a b : beqb a b = true <-> a = b.
Proof.
  split; [|intros ->; apply beqb_refl].
  revert b; induction a as [|x a IH]; intros [|y b]; cbn; try discriminate; auto.
  intros H. apply andb_true_iff in H as [Hx Hb]. apply N.eqb_eq in Hx. subst. f_equal. auto.
Qed.

(* slices *)
Lemma slice_spec b lo hi :
  lo <= hi -> hi <= blen b -> slice b lo hi = Some (take (hi - lo) (drop lo b)).
Proof.
  intros H1 H2. unfold slice.
  destruct (lo <=? hi) eqn:E1; [|lia]. destruct (hi <=? blen b) eqn:E2; [|lia]. reflexivity.
Qed.
Lemma slice_from_spec b lo : lo <= blen b -> slice_from b lo = Some (drop lo b).
Proof. intros H. unfold slice_from. destruct (lo <=? blen b) eqn:E; [reflexivity|lia]. Qed.
Lemma slice_to_spec b hi : hi <= blen b -> slice_to b hi = Some (take hi b).
Proof. intros H. unfold slice_to. destruct (hi <=? blen b) eqn:E; [reflexivity|lia]. Qed.

Lemma drop_cons2 x y r n : drop (2 + n) (x :: y :: r) = drop n r.
Proof. unfold drop. replace (N.to_nat (2 + n)) with (S (S (N.to_nat n))) by lia. reflexivity. Qed.
Lemma drop_2 x y r : drop 2 (x :: y :: r) = r.
Proof. reflexivity. Qed.

(* big-endian *)
Lemma put16_get16 x : x < 65536 -> get16 (x / 256) (x mod 256) = x.
Proof. unfold get16. intros. lia. Qed.
Lemma get16_put16 a b : a < 256 -> b < 256 -> put16 (get16 a b) = [a; b].
Proof. unfold put16, get16. intros. f_equal; [|f_equal]; lia. Qed.
Lemma get16_lt a b : a < 256 -> b < 256 -> get16 a b < 65536.
Proof. unfold get16. lia. Qed.
Lemma get32_put32 a b c d : a < 256 -> b < 256 -> c < 256 -> d < 256 ->
  put32 (get32 a b c d) = [a; b; c; d].
Proof. unfold put32, get32. intros. repeat f_equal; lia. Qed.
Lemma get32_lt a b c d : a < 256 -> b < 256 -> c < 256 -> d < 256 -> get32 a b c d < 4294967296.
Proof. unfold get32. lia. Qed.
Lemma put32_get32 x : x < 4294967296 ->
  get32 (x / 16777216) ((x / 65536) mod 256) ((x / 256) mod 256) (x mod 256) = x.
Proof. unfold get32. intros. lia. Qed.

Lemma wf_byte_lt x : wf_byte x = true <-> x < 256.
Proof. unfold wf_byte. lia. Qed.

Lemma u8_small x : x < 256 -> u8 x = x.
Proof. unfold u8. intros. apply N.mod_small. assumption. Qed.
Lemma u16_small x : x < 65536 -> u16 x = x.
Proof. unfold u16. intros. apply N.mod_small. assumption. Qed.
Lemma u32_small x : x < 4294967296 -> u32 x = x.
Proof. unfold u32. intros. apply N.mod_small. assumption. Qed.

Lemma length_blen_lt (a b : bytes) : blen a < blen b -> (length a < length b)%nat.
Proof. unfold blen. lia. Qed.
Lemma length_blen_le (a b : bytes) : blen a <= blen b -> (length a <= length b)%nat.
Proof. unfold blen. lia. Qed.
Lemma put32_get32_top x : x < 4294967296 ->
  get32 (x / 16777216) ((x / 65536) mod 256) ((x / 256) mod 256) (x mod 256) = x.
Proof. unfold get32. intros. lia. Qed.
Lemma be32_get32' a b c d : a < 256 -> b < 256 -> c < 256 -> d < 256 ->
  [get32 a b c d / 16777216; (get32 a b c d / 65536) mod 256; (get32 a b c d / 256) mod 256; get32 a b c d mod 256]
  = [a; b; c; d].
Proof. unfold get32. intros. repeat f_equal; lia. Qed.
Lemma skipn_skipn' {A} (n m : nat) (l : list A) : skipn n (skipn m l) = skipn (m + n) l.
Proof.
  revert l; induction m as [|m IH]; intros l; [reflexivity|].
  destruct l; [rewrite !skipn_nil; reflexivity|]. cbn [skipn Nat.add]. apply IH.
Qed.
