(* ConnProofs.v — Layer B theorems: state x message table (C09), OPEN handling in
   OpenSent (C02), notification delivery to the wire (C08), timers (C06), callback
   discipline along any input sequence (C01/C09). *)
From Verif Require Import Base Consts Packet PacketSpec Conn BaseLemmas PacketProofs.
From Coq Require Import ZifyN ZifyNat ZifyBool.

Definition live (ph : cphase) : bool :=
  match ph with POpenSent | POpenConfirm | PEstablished => true | _ => false end.
Definition state_sub (ph : cphase) : N :=
  match ph with POpenSent => 1 | POpenConfirm => 2 | _ => 3 end.

(* which (state, message) pairs are legal progress *)
Definition legal (ph : cphase) (m : msg) : bool :=
  match ph, m with
  | POpenSent, MOpen _ => true
  | POpenConfirm, MKeepalive => true
  | PEstablished, MKeepalive => true
  | PEstablished, MUpdate _ => true
  | _, _ => false
  end.

Definition is_write (a : caction) : bool := match a with AWrite _ => true | _ => false end.
Definition writes (l : list caction) : list bytes :=
  flat_map (fun a => match a with AWrite b => [b] | _ => [] end) l.

(* C09: an unexpected message (not a NOTIFICATION) in a live state: exactly one NOTIFICATION
   (FSM Error, subcode of the state, data = the message's type octet), then close, Idle *)
Theorem unexpected_message cf pl st m :
  live (c_phase st) = true -> legal (c_phase st) m = false ->
  (forall n, m <> MNotif n) ->
  let n := mkNotif 5 (state_sub (c_phase st)) [msg_type m] in
  conn_step cf pl st (IRd (RMsg m)) =
  (mkC PDone (c_holdns st) (c_nupd st),
   [AWrite (notif_encode n)] ++ teardown (c_phase st) ++ [AReturn 1 (ENotifOut n)]).
Proof.
  intros Hl Hleg Hn. destruct st as [ph h k]. cbn [c_phase] in *.
  destruct ph; try discriminate; destruct m as [o|b|n0|]; try discriminate;
    try (exfalso; eapply Hn; reflexivity); reflexivity.
Qed.

(* C09: a received NOTIFICATION ends the connection without any reply *)
Theorem notification_received cf pl st n :
  live (c_phase st) = true ->
  conn_step cf pl st (IRd (RMsg (MNotif n))) =
  (mkC PDone (c_holdns st) (c_nupd st), teardown (c_phase st) ++ [AReturn 1 (ENotifIn n)]).
Proof. intros Hl. destruct st as [ph h k]. destruct ph; try discriminate; reflexivity. Qed.

Theorem notification_received_silent cf pl st n :
  live (c_phase st) = true ->
  writes (snd (conn_step cf pl st (IRd (RMsg (MNotif n))))) = [].
Proof.
  intros Hl. rewrite notification_received by assumption. cbn [snd].
  destruct (c_phase st); try discriminate; reflexivity.
Qed.

(* C09: TCP close/reset ends it silently *)
Theorem tcp_failure_silent cf pl st :
  live (c_phase st) = true ->
  writes (snd (conn_step cf pl st (IRd RErrIO))) = []
  /\ c_phase (fst (conn_step cf pl st (IRd RErrIO))) = PDone.
Proof. intros Hl. destruct st as [ph h k]. destruct ph; try discriminate; split; reflexivity. Qed.

(* C08: a framing/decoding error found by the reader is answered with exactly that
   NOTIFICATION on the wire, then close, in every live state *)
Theorem reader_notification_sent cf pl st n :
  live (c_phase st) = true ->
  conn_step cf pl st (IRd (RErrNotif n)) =
  (mkC PDone (c_holdns st) (c_nupd st),
   [AWrite (notif_encode n)] ++ teardown (c_phase st) ++ [AReturn 1 (ENotifOut n)]).
Proof. intros Hl. destruct st as [ph h k]. destruct ph; try discriminate; reflexivity. Qed.

(* C02 (FSM half): an OPEN in OpenSent *)
Definition negotiated (cf : cconf) (o : openmsg) : N :=
  N.min (cf_hold cf * second) (o_hold o * second).

Theorem open_in_opensent cf pl h k o :
  conn_step cf pl (mkC POpenSent h k) (IRd (RMsg (MOpen o))) =
  match open_validate (cf_lid cf) (cf_las cf) (cf_ras cf) o with
  | Some n =>   (* refused: one NOTIFICATION, close, no OnOpenMessage, never Established *)
      (mkC PDone h k, [AWrite (notif_encode n); ACloseConn; AStopHold; AReturn 1 (ENotifOut n)])
  | None =>
      match pl_on_open pl with
      | Some n =>   (* the plugin's notification is sent verbatim *)
          (mkC PDone h k, [AOnOpen (o_id o) (get_capabilities o); AWrite (notif_encode n);
                           ACloseConn; AStopHold; AReturn 1 (ENotifOut n)])
      | None =>
          (mkC PWaitOC (negotiated cf o) k,
           [AOnOpen (o_id o) (get_capabilities o); AWrite keepalive_encode]
           ++ (if negotiated cf o =? 0 then [AStopHold]
               else [AArmKA (negotiated cf o / 3); AArmHold (negotiated cf o)])
           ++ [AReturn 5 ENone])
      end
  end.
Proof.
  cbn [conn_step c_phase].
  destruct (open_validate (cf_lid cf) (cf_las cf) (cf_ras cf) o); [reflexivity|].
  destruct (pl_on_open pl); [reflexivity|].
  unfold negotiated.
  assert (E : (if cf_hold cf * second <? o_hold o * second then cf_hold cf * second else o_hold o * second)
              = N.min (cf_hold cf * second) (o_hold o * second)).
  { destruct (cf_hold cf * second <? o_hold o * second) eqn:E; lia. }
  rewrite E. reflexivity.
Qed.

(* C06: hold time in force = min(local, received); zero disables both timers *)
Theorem negotiated_min cf o :
  negotiated cf o = N.min (cf_hold cf) (o_hold o) * second.
Proof. unfold negotiated, second. lia. Qed.

Theorem hold_expiry cf pl st :
  (c_phase st = POpenConfirm \/ c_phase st = PEstablished) -> c_holdns st <> 0 ->
  conn_step cf pl st IHold =
  (mkC PDone (c_holdns st) (c_nupd st),
   [AWrite (notif_encode (mkNotif 4 0 []))] ++ teardown (c_phase st) ++ [AReturn 1 (ENotifOut (mkNotif 4 0 []))]).
Proof.
  intros Hp Hh. destruct st as [ph h k]. cbn [c_phase c_holdns c_nupd] in *.
  assert (E : (h =? 0) = false) by lia.
  destruct Hp as [-> | ->]; cbn [conn_step c_phase c_holdns]; rewrite E; reflexivity.
Qed.

Theorem keepalive_timer cf pl st :
  (c_phase st = POpenConfirm \/ c_phase st = PEstablished) -> c_holdns st <> 0 ->
  conn_step cf pl st IKA = (st, [AWrite keepalive_encode; AArmKA (c_holdns st / 3)]).
Proof.
  intros Hp Hh. destruct st as [ph h k]. cbn [c_phase c_holdns c_nupd] in *.
  assert (E : (h =? 0) = false) by lia.
  destruct Hp as [-> | ->]; cbn [conn_step c_phase c_holdns]; rewrite E; reflexivity.
Qed.

(* with a zero hold time no timer is ever armed again and timer events do nothing *)
Definition arms (a : caction) : bool := match a with AArmHold _ | AArmKA _ => true | _ => false end.
Theorem zero_hold_no_timers cf pl st i :
  c_holdns st = 0 -> c_phase st <> POpenSent ->
  existsb arms (snd (conn_step cf pl st i)) = false
  /\ c_holdns (fst (conn_step cf pl st i)) = 0
  /\ ((i = IHold \/ i = IKA) -> conn_step cf pl st i = (st, [])).
Proof.
  intros Hh Hp. destruct st as [ph h k]. cbn [c_holdns c_phase] in *. subst h.
  destruct ph; try congruence;
  destruct i as [[m|n|]| | | |]; try (destruct m as [o|b|n0|]);
  cbn [conn_step c_phase c_holdns c_nupd]; try change (0 =? 0) with true; cbn iota;
  try (repeat split; try reflexivity; intros [H|H]; (discriminate || reflexivity)).
  all: try (destruct (pl_handler pl k); cbn; repeat split; try reflexivity; intros [H|H]; discriminate).
  all: unfold send_and_finish, finish; cbn; rewrite ?map_map;
       repeat split; try reflexivity; try (intros [H|H]; discriminate).
  all: try (induction (pl_est_writes pl); cbn; auto).
Qed.

(* ---- callback discipline over any input sequence ---- *)
Definition count {A} (p : A -> bool) (l : list A) : nat := length (filter p l).
Definition is_est a := match a with AOnEstablished => true | _ => false end.
Definition is_onclose a := match a with AOnClose => true | _ => false end.
Definition is_handler a := match a with AHandler _ => true | _ => false end.

Lemma count_app {A} p (l1 l2 : list A) : count p (l1 ++ l2) = (count p l1 + count p l2)%nat.
Proof. unfold count. rewrite filter_app, app_length. reflexivity. Qed.

Lemma count_map_write p (l : list bytes) :
  (forall b, p (AWrite (update_frame b)) = false) ->
  count p (map (fun b => AWrite (update_frame b)) l) = 0%nat.
Proof. intros H. unfold count. induction l; cbn [map filter]; [reflexivity|]. rewrite H. exact IHl. Qed.

Lemma count_cons {A} p (x : A) l : count p (x :: l) = ((if p x then 1 else 0) + count p l)%nat.
Proof. unfold count. cbn [filter]. destruct (p x); reflexivity. Qed.
Lemma count_nil {A} (p : A -> bool) : count p [] = 0%nat.
Proof. reflexivity. Qed.

Arguments update_frame : simpl never.
Arguments count : simpl never.
Arguments notif_encode : simpl never.

(* one step: OnEstablished only on entering Established; OnClose only on leaving it;
   handler calls only while in Established *)
Lemma step_callbacks cf pl st i :
  let (st', acts) := conn_step cf pl st i in
  count is_est acts = (if match c_phase st, c_phase st' with PWaitEst, PEstablished => true | _, _ => false end then 1 else 0)%nat
  /\ count is_onclose acts = (if match c_phase st, c_phase st' with PEstablished, PDone => true | _, _ => false end then 1 else 0)%nat
  /\ (count is_handler acts <= 1)%nat
  /\ (count is_handler acts = 1%nat -> c_phase st = PEstablished).
Proof.
  destruct st as [ph h k].
  destruct ph; destruct i as [[m|n|]| | | |]; try (destruct m as [o|b|n0|]);
    cbn [conn_step c_phase c_holdns c_nupd];
    try (destruct (open_validate (cf_lid cf) (cf_las cf) (cf_ras cf) o));
    try (destruct (pl_on_open pl));
    try (destruct (pl_handler pl k));
    try (destruct (h =? 0));
    try (destruct ((if cf_hold cf * second <? o_hold o * second then cf_hold cf * second else o_hold o * second) =? 0));
    unfold send_and_finish, finish, teardown; cbn [c_phase c_holdns c_nupd app fst snd];
    rewrite ?count_app, ?count_cons, ?count_map_write, ?count_nil by reflexivity;
    cbn [is_est is_onclose is_handler Nat.add];
    repeat split; try lia; try discriminate; auto.
Qed.

(* ---- the callback monitor: a trace of actions is well-formed ---- *)
(* state: OnOpenMessage seen; 0 = not yet established, 1 = between OnEstablished and OnClose, 2 = closed *)
Definition mstate := (bool * N)%type.
Definition mon_step (m : mstate) (a : caction) : option mstate :=
  let (o, p) := m in
  match a with
  | AOnOpen _ _ => if o || negb (p =? 0) then None else Some (true, p)
  | AOnEstablished => if p =? 0 then Some (o, 1) else None
  | AHandler _ => if p =? 1 then Some (o, p) else None
  | AOnClose => if p =? 1 then Some (o, 2) else None
  | _ => Some (o, p)
  end.
Fixpoint mon_run (m : mstate) (l : list caction) : option mstate :=
  match l with
  | [] => Some m
  | a :: r => match mon_step m a with Some m' => mon_run m' r | None => None end
  end.

Lemma mon_run_app m l1 l2 :
  mon_run m (l1 ++ l2) = match mon_run m l1 with Some m' => mon_run m' l2 | None => None end.
Proof. revert m. induction l1 as [|a l1 IH]; intros m; [reflexivity|]. cbn. destruct (mon_step m a); auto. Qed.

Lemma mon_run_writes m (l : list bytes) : mon_run m (map (fun b => AWrite (update_frame b)) l) = Some m.
Proof. induction l; cbn; [reflexivity|]. destruct m. exact IHl. Qed.

Definition mon_rel (ph : cphase) (m : mstate) : Prop :=
  match ph with
  | POpenSent => m = (false, 0)
  | PWaitOC | POpenConfirm | PWaitEst => m = (true, 0)
  | PEstablished => m = (true, 1)
  | PDone => snd m <> 1
  end.

Lemma step_monitor cf pl st i m :
  mon_rel (c_phase st) m ->
  exists m', mon_run m (snd (conn_step cf pl st i)) = Some m'
             /\ mon_rel (c_phase (fst (conn_step cf pl st i))) m'.
Proof.
  destruct st as [ph h k]. cbn [c_phase]. intros Hr.
  destruct ph; cbn [mon_rel] in Hr; try subst m;
  destruct i as [[mm|n|]| | | |]; try (destruct mm as [o|b|n0|]);
    cbn [conn_step c_phase c_holdns c_nupd];
    try (destruct (open_validate (cf_lid cf) (cf_las cf) (cf_ras cf) o));
    try (destruct (pl_on_open pl));
    try (destruct (pl_handler pl k));
    try (destruct (h =? 0));
    try (destruct ((if cf_hold cf * second <? o_hold o * second then cf_hold cf * second else o_hold o * second) =? 0));
    unfold send_and_finish, finish, teardown; cbn [c_phase c_holdns c_nupd app fst snd];
    rewrite ?mon_run_app; cbn [mon_run mon_step orb negb N.eqb Pos.eqb]; rewrite ?mon_run_writes;
    try (eexists; split; [reflexivity|]; cbn [mon_rel snd]; try reflexivity; try discriminate; try assumption).
  all: try (destruct m as [o0 p0]; eexists; split; [reflexivity|exact Hr]).
Qed.

Theorem run_monitor cf pl : forall ins st m,
  mon_rel (c_phase st) m ->
  exists m', mon_run m (snd (conn_run cf pl st ins)) = Some m'
             /\ mon_rel (c_phase (fst (conn_run cf pl st ins))) m'.
Proof.
  induction ins as [|i r IH]; intros st m Hr.
  - exists m. split; [reflexivity|exact Hr].
  - cbn [conn_run]. destruct (step_monitor cf pl st i m Hr) as (m1 & H1 & R1).
    destruct (conn_step cf pl st i) as [st1 a1]. cbn [fst snd] in *.
    destruct (IH st1 m1 R1) as (m2 & H2 & R2).
    destruct (conn_run cf pl st1 r) as [st2 a2]. cbn [fst snd] in *.
    exists m2. split; [|exact R2]. rewrite mon_run_app, H1. exact H2.
Qed.

(* C01/C03/C09 on one connection, for every input sequence (messages, errors, timer
   expiries, stop requests, approvals in any order): OnOpenMessage at most once and only
   before OnEstablished; handler calls only between OnEstablished and OnClose; OnClose at most
   once and only after OnEstablished; and when the connection is finished, an OnEstablished
   has its OnClose *)
Theorem callbacks_wellformed cf pl ins :
  exists m', mon_run (false, 0) (snd (conn_run cf pl cinit ins)) = Some m'
             /\ (c_phase (fst (conn_run cf pl cinit ins)) = PDone -> snd m' <> 1).
Proof.
  destruct (run_monitor cf pl ins cinit (false, 0) eq_refl) as (m' & H & R).
  exists m'. split; [exact H|]. intros Hd. rewrite Hd in R. exact R.
Qed.

(* PDone is absorbing: nothing is written, called or interpreted after the connection ended *)
Theorem done_absorbing cf pl ins st :
  c_phase st = PDone -> conn_run cf pl st ins = (st, []).
Proof.
  intros Hd. induction ins as [|i r IH]; [reflexivity|].
  cbn [conn_run]. destruct st as [ph h k]. cbn [c_phase] in Hd. subst ph.
  cbn [conn_step c_phase]. cbn [conn_step c_phase] in IH. rewrite IH. reflexivity.
Qed.
