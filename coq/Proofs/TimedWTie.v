(* TimedWTie.v — the runner behind op 62 (Dispatch.xrun_auto: the connection with its keep-alive manager, every reset token
   served at once) is a conservative extension of the runner behind op 60 (Conn.conn_run_auto): on every input sequence
   without timer expiries the two perform the same actions in the same order, except that op 62 has additional keep-alive
   arm operations; and when the plugin writes nothing inside OnEstablished the action lists are equal. *)
From Verif Require Import Base Consts Packet Conn Timed TimedW Dispatch.

Definition is_armka (a : caction) : bool := match a with AArmKA _ => true | _ => false end.
Definition not_armka (a : caction) : bool := negb (is_armka a).
Definition no_timer (i : cinput) : bool := match i with IHold | IKA => false | _ => true end.

Lemma tstep_no_timer cf pl ts i :
  no_timer i = true ->
  exists ts', tstep cf pl ts 0 i = Some (ts', snd (conn_step cf pl (ts_conn ts) i))
              /\ ts_conn ts' = fst (conn_step cf pl (ts_conn ts) i).
Proof.
  intros Hn. unfold tstep.
  assert (He : (match i with
                | IHold => selecting (c_phase (ts_conn ts)) && due (ts_hold ts) (ts_now ts + 0)
                | IKA => selecting (c_phase (ts_conn ts)) && due (ts_ka ts) (ts_now ts + 0)
                | _ => true end) = true) by (destruct i; try reflexivity; discriminate).
  rewrite He. cbn [negb].
  destruct (conn_step cf pl (ts_conn ts) i) as [c' acts].
  destruct (apply_actions _ _ _ _ acts) as [[h k] lk].
  eexists. split; reflexivity.
Qed.

Lemma serve_all_spec cf pl : forall fuel xs xs' a,
  serve_all fuel cf pl xs = (xs', a) ->
  ts_conn (xs_t xs') = ts_conn (xs_t xs) /\ filter not_armka a = [] /\ (xs_pending xs = [] -> a = []).
Proof.
  induction fuel as [|f IH]; intros xs xs' a H; cbn [serve_all] in H.
  - injection H as <- <-. repeat split.
  - destruct (xstep cf pl xs 0 (XReset 0)) as [[xs1 a1]|] eqn:Es.
    + destruct (serve_all f cf pl xs1) as [xs2 a2] eqn:E2. injection H as <- <-.
      destruct (IH _ _ _ E2) as (Hc & Hf & _).
      unfold xstep in Es. destruct (est (xs_t xs)); [|discriminate].
      destruct (nth_error (xs_pending xs) 0) as [w|] eqn:En; [|discriminate].
      destruct (c_holdns (ts_conn (xs_t xs)) =? 0); injection Es as <- <-;
        cbn [xs_t advance rearm ts_conn] in Hc; (split; [exact Hc|]); rewrite filter_app, Hf;
        (split; [reflexivity|]); intros Hp; rewrite Hp in En; discriminate.
    + injection H as <- <-. repeat split.
Qed.

Lemma xstep_served_spec cf pl xs i xs' a :
  no_timer i = true -> xstep_served cf pl xs i = (xs', a) ->
  ts_conn (xs_t xs') = fst (conn_step cf pl (ts_conn (xs_t xs)) i)
  /\ filter not_armka a = filter not_armka (snd (conn_step cf pl (ts_conn (xs_t xs)) i)).
Proof.
  intros Hn H. unfold xstep_served, xstep in H.
  destruct (tstep_no_timer cf pl (xs_t xs) i Hn) as (ts' & Et & Hc). rewrite Et in H.
  destruct (est ts');
    match type of H with (let (_, _) := serve_all ?f cf pl ?x in _) = _ =>
      destruct (serve_all f cf pl x) as [xs2 a2] eqn:E2 end;
    injection H as <- <-; destruct (serve_all_spec _ _ _ _ _ _ E2) as (Hc2 & Hf & _);
    cbn [xs_t] in Hc2; (split; [congruence|]); rewrite filter_app, Hf, app_nil_r; reflexivity.
Qed.

(* everything but keep-alive arm operations is the same, in the same order *)
Theorem xrun_auto_conservative cf pl : forall ins xs,
  forallb no_timer ins = true ->
  ts_conn (xs_t (fst (xrun_auto cf pl xs ins))) = fst (conn_run_auto cf pl (ts_conn (xs_t xs)) ins)
  /\ filter not_armka (snd (xrun_auto cf pl xs ins)) = filter not_armka (snd (conn_run_auto cf pl (ts_conn (xs_t xs)) ins)).
Proof.
  induction ins as [|i r IH]; intros xs Hn; cbn [xrun_auto conn_run_auto fst snd]; [split; reflexivity|].
  cbn [forallb] in Hn. apply andb_true_iff in Hn as [Hi Hr].
  destruct (xstep_served cf pl xs i) as [xs1 a1] eqn:E1.
  destruct (xstep_served_spec _ _ _ _ _ _ Hi E1) as (Hc1 & Hf1).
  destruct (conn_step cf pl (ts_conn (xs_t xs)) i) as [st1 b1] eqn:Ec1. cbn [fst snd] in Hc1, Hf1.
  rewrite Hc1.
  assert (Happ : forall xsA aA, xstep_served cf pl xs1 IApprove = (xsA, aA) ->
            ts_conn (xs_t xsA) = fst (conn_step cf pl st1 IApprove)
            /\ filter not_armka aA = filter not_armka (snd (conn_step cf pl st1 IApprove))).
  { intros xsA aA HA. rewrite <- Hc1. eapply xstep_served_spec; [reflexivity|exact HA]. }
  destruct (c_phase st1);
    try (destruct (xstep_served cf pl xs1 IApprove) as [xsA aA] eqn:EA; destruct (Happ _ _ eq_refl) as (HcA & HfA);
         destruct (conn_step cf pl st1 IApprove) as [stA bA]; cbn [fst snd] in HcA, HfA;
         specialize (IH xsA Hr); rewrite HcA in IH;
         destruct (xrun_auto cf pl xsA r) as [xs2 a2]; destruct (conn_run_auto cf pl stA r) as [st2 b2];
         cbn [fst snd] in *; destruct IH as [IH1 IH2]; split; [exact IH1|];
         rewrite !filter_app, Hf1, HfA, IH2; reflexivity);
    (specialize (IH xs1 Hr); rewrite Hc1 in IH;
     destruct (xrun_auto cf pl xs1 r) as [xs2 a2]; destruct (conn_run_auto cf pl st1 r) as [st2 b2];
     cbn [fst snd] in *; destruct IH as [IH1 IH2]; split; [exact IH1|];
     rewrite !filter_app, Hf1, IH2; reflexivity).
Qed.

(* ---- when the plugin writes nothing inside OnEstablished the two runners perform exactly the same actions ---- *)
Lemma nth18_header m t : nth 18 (prepend_header m t) 0 = t.
Proof. unfold prepend_header, marker, put16. cbn. reflexivity. Qed.

Lemma not_upd_notif n : (nth 18 (notif_encode n) 0 =? c_updateMessageType) = false.
Proof. unfold notif_encode. rewrite nth18_header. vm_compute. reflexivity. Qed.
Lemma not_upd_ka : (nth 18 keepalive_encode 0 =? c_updateMessageType) = false.
Proof. unfold keepalive_encode. rewrite nth18_header. vm_compute. reflexivity. Qed.

Local Arguments notif_encode : simpl never.
Local Arguments keepalive_encode : simpl never.
Local Arguments open_validate : simpl never.
Local Arguments nth : simpl never.
Local Arguments N.eqb : simpl never.
Local Arguments N.ltb : simpl never.
Local Arguments N.mul : simpl never.
Local Arguments N.div : simpl never.

Ltac no_upd :=
  repeat (cbn [filter app teardown fst snd is_upd_write];
          rewrite ?filter_app, ?not_upd_notif, ?not_upd_ka);
  try reflexivity.

Lemma conn_step_no_upd cf pl st i :
  pl_est_writes pl = [] -> filter is_upd_write (snd (conn_step cf pl st i)) = [].
Proof.
  intros He. destruct st as [ph H n]. unfold conn_step. cbn [c_phase c_holdns c_nupd].
  destruct ph; destruct i as [[[o|b|nn|]|nn|]| | | |]; unfold send_and_finish, finish; cbn [c_phase c_holdns c_nupd snd map];
    rewrite ?He; cbn [map]; no_upd.
  all: try (destruct (open_validate _ _ _ _); [no_upd|destruct (pl_on_open pl); no_upd;
            match goal with |- context [if ?c =? 0 then _ else _] => destruct (c =? 0) end; no_upd]).
  all: try (match goal with |- context [if ?c =? 0 then _ else _] => destruct (c =? 0) end; no_upd).
  all: try (destruct (pl_handler pl n); no_upd; match goal with |- context [if ?c =? 0 then _ else _] => destruct (c =? 0) end; no_upd).
Qed.

Lemma count_upd_zero cf pl st i : pl_est_writes pl = [] -> count_upd (snd (conn_step cf pl st i)) = O.
Proof. intros He. unfold count_upd. rewrite conn_step_no_upd by exact He. reflexivity. Qed.

Lemma xstep_served_exact cf pl xs i xs' a :
  pl_est_writes pl = [] -> xs_pending xs = [] -> no_timer i = true -> xstep_served cf pl xs i = (xs', a) ->
  xs_pending xs' = [] /\ ts_conn (xs_t xs') = fst (conn_step cf pl (ts_conn (xs_t xs)) i)
  /\ a = snd (conn_step cf pl (ts_conn (xs_t xs)) i).
Proof.
  intros He Hp Hn H. unfold xstep_served, xstep in H.
  destruct (tstep_no_timer cf pl (xs_t xs) i Hn) as (ts' & Et & Hc). rewrite Et in H.
  rewrite (count_upd_zero cf pl _ i He), Hp in H. cbn [repeat app length] in H.
  destruct (est ts'); cbn [xs_pending length] in H;
    match type of H with (let (_, _) := serve_all ?f cf pl ?x in _) = _ =>
      destruct (serve_all f cf pl x) as [xs2 a2] eqn:E2 end;
    injection H as <- <-; cbn [serve_all xstep est] in E2.
  all: unfold xstep in E2; cbn [xs_t xs_pending nth_error] in E2; destruct (est ts'); injection E2 as <- <-;
       cbn [xs_pending xs_t]; rewrite app_nil_r; repeat split; assumption.
Qed.

Theorem xrun_auto_exact cf pl : forall ins xs,
  pl_est_writes pl = [] -> xs_pending xs = [] -> forallb no_timer ins = true ->
  snd (xrun_auto cf pl xs ins) = snd (conn_run_auto cf pl (ts_conn (xs_t xs)) ins).
Proof.
  induction ins as [|i r IH]; intros xs He Hp Hn; cbn [xrun_auto conn_run_auto fst snd]; [reflexivity|].
  cbn [forallb] in Hn. apply andb_true_iff in Hn as [Hi Hr].
  destruct (xstep_served cf pl xs i) as [xs1 a1] eqn:E1.
  destruct (xstep_served_exact _ _ _ _ _ _ He Hp Hi E1) as (Hp1 & Hc1 & Ha1).
  destruct (conn_step cf pl (ts_conn (xs_t xs)) i) as [st1 b1] eqn:Ec1. cbn [fst snd] in Hc1, Ha1. subst a1.
  rewrite Hc1.
  assert (HA : forall xsA aA, xstep_served cf pl xs1 IApprove = (xsA, aA) ->
            xs_pending xsA = [] /\ ts_conn (xs_t xsA) = fst (conn_step cf pl st1 IApprove)
            /\ aA = snd (conn_step cf pl st1 IApprove)).
  { intros xsA aA EA. rewrite <- Hc1. eapply xstep_served_exact; try eassumption. reflexivity. }
  destruct (c_phase st1).
  2,4: destruct (xstep_served cf pl xs1 IApprove) as [xsA aA] eqn:EA;
       destruct (HA _ _ eq_refl) as (HpA & HcA & HaA);
       destruct (conn_step cf pl st1 IApprove) as [stA bA]; cbn [fst snd] in HcA, HaA; subst aA;
       specialize (IH xsA He HpA Hr); rewrite HcA in IH;
       destruct (xrun_auto cf pl xsA r) as [xs2 a2]; destruct (conn_run_auto cf pl stA r) as [st2 b2];
       cbn [fst snd] in *; rewrite IH; reflexivity.
  all: specialize (IH xs1 He Hp1 Hr); rewrite Hc1 in IH;
       destruct (xrun_auto cf pl xs1 r) as [xs2 a2]; destruct (conn_run_auto cf pl st1 r) as [st2 b2];
       cbn [fst snd] in *; rewrite IH; reflexivity.
Qed.
