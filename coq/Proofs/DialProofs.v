(* DialProofs.v — C11 pacing over timed runs of any length. *)
From Verif Require Import Base Dial BaseLemmas.
From Coq Require Import ZifyN ZifyNat ZifyBool.

(* spacing of the recorded dial attempts: each attempt made from Idle comes at least the idle-hold time
   after the previous attempt made from Idle; each attempt made on connect-retry expiry comes at least
   the connect-retry time after the previous attempt of any kind *)
Fixpoint last_idle (l : list (N * bool)) : option N :=
  match l with [] => None | (t, true) :: _ => Some t | (_, false) :: r => last_idle r end.
Definition last_any (l : list (N * bool)) : option N := match l with [] => None | (t, _) :: _ => Some t end.
Definition after (o : option N) (gap t : N) : Prop := match o with Some t0 => t0 + gap <= t | None => True end.

Fixpoint spaced (cf : dconf) (l : list (N * bool)) : Prop :=
  match l with
  | [] => True
  | (t, true) :: r => after (last_idle r) (dc_idle_hold cf) t /\ spaced cf r
  | (t, false) :: r => after (last_any r) (dc_connect_retry cf) t /\ spaced cf r
  end.

Definition dinv (cf : dconf) (s : dstate) : Prop :=
  spaced cf (ds_dials s)
  /\ (* the idle-hold timer was last armed at the last attempt made from Idle *)
     (match last_idle (ds_dials s) with
      | Some t => ds_idle s = Some (t + dc_idle_hold cf)
      | None => True
      end)
  /\ (* while a connect-retry timer is armed its deadline is at least the connect-retry time after the last attempt *)
     (match ds_retry s with
      | Some dl => after (last_any (ds_dials s)) (dc_connect_retry cf) dl
      | None => True
      end)
  /\ (* attempts lie in the past *)
     after (last_any (ds_dials s)) 0 (ds_now s).

Lemma dinv_init cf t0 : dinv cf (dinit t0).
Proof. repeat split. Qed.

Theorem dstep_inv cf s d i s' : dinv cf s -> dstep cf s d i = Some s' -> dinv cf s'.
Proof.
  intros (Hsp & Hid & Hre & Hpast) Hs. destruct s as [ph now idl rt dials].
  cbn [ds_phase ds_now ds_idle ds_retry ds_dials] in *.
  unfold dstep in Hs. cbn [ds_phase ds_now ds_idle ds_retry ds_dials] in Hs.
  destruct ph; destruct i; try discriminate;
    try (destruct (ddue _ _) eqn:Ed; [|discriminate]);
    injection Hs as <-; unfold dinv; cbn [ds_phase ds_now ds_idle ds_retry ds_dials spaced last_idle last_any];
    repeat split; auto;
    try (destruct (last_idle dials) as [t|]; [rewrite Hid in Ed; cbn [ddue] in Ed; cbn [after]; lia|exact I]);
    try (destruct dials as [|[t b] r]; cbn [last_any after] in *; lia);
    try (destruct rt as [dl|]; [|discriminate]; cbn [ddue] in Ed;
         destruct dials as [|[t b] r]; cbn [last_any after] in *; lia).
Qed.

Theorem drun_inv cf : forall ins s s', dinv cf s -> drun cf s ins = Some s' -> dinv cf s'.
Proof.
  induction ins as [|[d i] r IH]; intros s s' Hi Hr; cbn [drun] in Hr.
  - injection Hr as <-. exact Hi.
  - destruct (dstep cf s d i) as [s1|] eqn:Es; [|discriminate].
    eapply IH; [eapply dstep_inv; eassumption|exact Hr].
Qed.

(* C11: every timed run from a fresh outbound FSM paces its attempts *)
Theorem dial_pacing cf t0 ins s :
  drun cf (dinit t0) ins = Some s -> spaced cf (ds_dials s).
Proof. intros H. exact (proj1 (drun_inv cf ins _ _ (dinv_init cf t0) H)). Qed.

(* in particular, when no attempt is made on connect-retry expiry (every attempt is refused before the
   connect-retry time), successive attempts are at least the idle-hold time apart *)
Fixpoint consecutive_gap (gap : N) (l : list (N * bool)) : Prop :=
  match l with
  | (t1, _) :: (((t2, _) :: _) as r) => t2 + gap <= t1 /\ consecutive_gap gap r
  | _ => True
  end.

Theorem refused_attempts_spaced cf l :
  spaced cf l -> forallb (fun x => snd x) l = true -> consecutive_gap (dc_idle_hold cf) l.
Proof.
  induction l as [|[t1 b1] r IH]; intros Hs Hall; [exact I|].
  cbn [forallb snd] in Hall. apply andb_true_iff in Hall as [-> Hr].
  cbn [spaced] in Hs. destruct Hs as [Ha Hs].
  destruct r as [|[t2 b2] r']; [exact I|].
  cbn [forallb snd] in Hr. apply andb_true_iff in Hr as [-> Hr'].
  cbn [consecutive_gap]. split; [cbn [last_idle after] in Ha; exact Ha|].
  apply IH; [exact Hs|cbn [forallb snd]; rewrite Hr'; reflexivity].
Qed.

(* a passive peer's manager never creates the outbound FSM: Peer.passive_never_dials *)
