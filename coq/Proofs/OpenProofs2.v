(* OpenProofs2.v — C02: received OPEN against the acceptability specification. *)
From Verif Require Import Base Consts Packet PacketSpec OpenSpec BaseLemmas PacketProofs OpenProofs.
From Coq Require Import ZifyN ZifyNat ZifyBool.
Ltac Zify.zify_post_hook ::= Z.div_mod_to_equations.

Lemma caps_decode_err : forall f b n, caps_decode f b = Err n -> n = open_err 0 [].
Proof.
  induction f as [|f IH]; intros b n H; [discriminate|]. cbn [caps_decode] in H.
  destruct b as [|code [|len r]]; try (injection H as <-; reflexivity).
  destruct (blen (code :: len :: r) <? len + 2); [injection H as <-; reflexivity|].
  assert (Hv : exists v, (if 0 <? len then @of_opt notif _ (slice (code :: len :: r) 2 (u8 (len + 2))) else Ok []) = Ok v
                    \/ (if 0 <? len then @of_opt notif _ (slice (code :: len :: r) 2 (u8 (len + 2))) else Ok []) = Panic).
  { destruct (0 <? len); [|exists []; left; reflexivity].
    destruct (slice (code :: len :: r) 2 (u8 (len + 2))) as [v|]; [exists v; left|exists []; right]; reflexivity. }
  destruct Hv as [v [Hv|Hv]]; rewrite Hv in H; cbn [rbind] in H; [|discriminate].
  destruct (slice_from (code :: len :: r) (2 + len)) as [rest|]; cbn [of_opt rbind] in H; [|discriminate].
  destruct (blen rest =? 0); [discriminate|].
  destruct (caps_decode f rest) as [cs|e| |] eqn:E; cbn [rbind] in H; try discriminate.
  injection H as <-. eapply IH; eassumption.
Qed.

Lemma params_decode_err : forall f b n,
  params_decode f b = Err n -> n = open_err 0 [] \/ n = open_err 4 [].
Proof.
  induction f as [|f IH]; intros b n H; [discriminate|]. cbn [params_decode] in H.
  destruct b as [|code [|len r]]; try (injection H as <-; left; reflexivity).
  destruct (blen (code :: len :: r) <? len + 2); [injection H as <-; left; reflexivity|].
  assert (Hv : exists v, (if 0 <? len then @of_opt notif _ (slice (code :: len :: r) 2 (u8 (len + 2))) else Ok []) = Ok v
                    \/ (if 0 <? len then @of_opt notif _ (slice (code :: len :: r) 2 (u8 (len + 2))) else Ok []) = Panic).
  { destruct (0 <? len); [|exists []; left; reflexivity].
    destruct (slice (code :: len :: r) 2 (u8 (len + 2))) as [v|]; [exists v; left|exists []; right]; reflexivity. }
  destruct Hv as [v [Hv|Hv]]; rewrite Hv in H; cbn [rbind] in H; [|discriminate].
  destruct (slice_from (code :: len :: r) (2 + len)) as [rest|]; cbn [of_opt rbind] in H; [|discriminate].
  destruct (code =? c_capabilityOptionalParamType); [|injection H as <-; right; reflexivity].
  destruct (caps_decode (S (length v)) v) as [cs|e| |] eqn:Ec; cbn [rbind] in H; try discriminate.
  - destruct (blen rest =? 0); [discriminate|].
    destruct (params_decode f rest) as [ps|e| |] eqn:E; cbn [rbind] in H; try discriminate.
    injection H as <-. eapply IH; eassumption.
  - injection H as <-. left. eapply caps_decode_err; eassumption.
Qed.

Lemma forallb_concat {A} (p : A -> bool) (ls : list (list A)) :
  forallb (forallb p) ls = true -> forallb p (concat ls) = true.
Proof.
  induction ls as [|l ls IH]; intros H; [reflexivity|].
  cbn [forallb] in H. apply andb_true_iff in H as [Hl H].
  cbn [concat]. rewrite forallb_app, Hl, IH by assumption. reflexivity.
Qed.

Lemma param_repr_caps ps :
  forallb param_repr ps = true -> forallb cap_repr (concat ps) = true.
Proof.
  intros H. apply forallb_concat. apply forallb_forall. intros l Hl.
  rewrite forallb_forall in H. specialize (H l Hl). unfold param_repr in H.
  apply andb_true_iff in H as [H _]. apply andb_true_iff in H as [_ H]. exact H.
Qed.

Lemma cap_encode_as4 r : r < 4294967296 -> cap_encode (four_octet_cap r) = 65 :: 4 :: be32 r.
Proof.
  intros H. unfold cap_encode, four_octet_cap, c_CAP_FOUR_OCTET_AS; cbn [cap_code cap_val].
  rewrite put32_be32 by assumption. reflexivity.
Qed.

Lemma bad_len_not_ok ras cs :
  existsb (fun c => is_as4 c && negb (blen (cap_val c) =? 4)) cs = true ->
  forallb (as4_ok ras) cs = false.
Proof.
  induction cs as [|c cs IH]; [discriminate|]. cbn [existsb forallb]. intros H.
  apply orb_true_iff in H as [H|H]; [|rewrite IH by assumption; apply andb_false_r].
  apply andb_true_iff in H as [Ha Hl]. unfold as4_ok. rewrite Ha. cbn [negb orb].
  rewrite beqb_len_ne; [reflexivity|]. change (blen (be32 ras)) with 4. lia.
Qed.

(* validate against the specification *)
Lemma open_validate_spec lid las ras o :
  ras < 4294967296 -> open_repr o = true ->
  match open_validate lid las ras o with
  | None => open_acceptable lid las ras o = true
  | Some n => open_acceptable lid las ras o = false /\ semantic_fault lid las ras o n = true
  end.
Proof.
  intros Hr Ho. pose proof Ho as Ho'. unfold open_repr in Ho'.
  apply andb_true_iff in Ho' as [Ho' Hplen]. apply andb_true_iff in Ho' as [Ho' Hpall].
  apply andb_true_iff in Ho' as [Ho' Hpne]. apply andb_true_iff in Ho' as [Ho' Hid].
  apply andb_true_iff in Ho' as [Ho' Hhold]. apply andb_true_iff in Ho' as [Hver Hasn].
  pose proof (validate_caps_spec ras (get_capabilities o) false Hr (param_repr_caps _ Hpall)) as Hv.
  unfold get_capabilities in *.
  unfold open_validate, open_acceptable, semantic_fault, c_asTrans, get_capabilities.
  rewrite is_multicast4_spec by lia.
  set (caps := concat (o_params o)) in *.
  assert (Hh : o_hold o = 0 \/ o_hold o = 1 \/ o_hold o = 2 \/ 3 <= o_hold o) by lia.
  Local Ltac fin := cbn -[N.eqb N.ltb N.leb beqb existsb forallb multicast_id];
                    repeat match goal with E : _ = _ |- _ => rewrite E end; reflexivity.
  destruct (o_ver o =? 4) eqn:E1; cbn [negb andb]; [|split; fin].
  destruct (o_asn o =? 23456) eqn:E2; destruct (o_asn o =? ras) eqn:E3; cbn [negb andb orb];
    try (split; fin).
  all: destruct Hh as [Hh|[Hh|[Hh|Hh]]].
  all: try (rewrite Hh; cbn [N.ltb N.eqb N.leb N.compare Pos.compare Pos.compare_cont Pos.eqb negb andb orb]).
  all: try (split; [reflexivity|]; cbn -[N.eqb N.ltb N.leb beqb existsb forallb multicast_id]; rewrite Hh; reflexivity).
  all: try (replace ((o_hold o <? 3) && negb (o_hold o =? 0)) with false by (clear - Hh; lia);
            replace ((o_hold o =? 0) || (3 <=? o_hold o)) with true by (clear - Hh; lia); cbn [andb]).
  all: destruct (multicast_id (o_id o)) eqn:E5; cbn [negb andb]; try (split; fin).
  all: destruct ((las =? ras) && (lid =? o_id o)) eqn:E6; cbn [negb andb]; try (split; fin).
  all: destruct (validate_caps ras caps false) as [f|n| |]; try contradiction.
  all: match goal with
       | Hv : _ /\ _ |- _ =>
           destruct Hv as [-> Hv]; cbn [orb]; rewrite Hv;
           destruct (existsb is_as4 caps) eqn:E7; cbn [negb andb orb];
           [reflexivity|split; [reflexivity|]];
           rewrite ?cap_encode_as4 by assumption;
           cbn -[N.eqb N.ltb N.leb beqb existsb forallb multicast_id be32];
           rewrite ?E2, ?E3, ?E7, ?beqb_refl; reflexivity
       | Hv : _ \/ _ |- _ =>
           destruct Hv as [[-> Hv]|[-> Hv]];
           [split; [rewrite Hv; apply andb_false_r|];
            cbn -[N.eqb N.ltb N.leb beqb existsb forallb multicast_id]; rewrite Hv;
            cbn [negb orb andb]; rewrite ?orb_true_r; reflexivity
           |split; [rewrite (bad_len_not_ok ras caps Hv); apply andb_false_r|];
            cbn -[N.eqb N.ltb N.leb beqb existsb forallb multicast_id]; rewrite Hv; reflexivity]
       end.
Qed.

(* ---------- C02 main theorems ---------- *)
Theorem handle_open_accept_iff lid las ras b id caps hold :
  wf_bytes b = true -> ras < 4294967296 ->
  (handle_open lid las ras b = OAccept id caps hold <->
   exists o, open_repr o = true /\ spec_open_body o = b
             /\ open_acceptable lid las ras o = true
             /\ id = o_id o /\ caps = concat (o_params o) /\ hold = o_hold o).
Proof.
  intros Hw Hr. unfold handle_open. split.
  - destruct (open_decode b) as [o|n| |] eqn:Ed; try discriminate.
    destruct (open_decode_inverse b o Hw Ed) as [Ho Hb].
    pose proof (open_validate_spec lid las ras o Hr Ho) as Hv.
    destruct (open_validate lid las ras o) as [n|]; [discriminate|].
    intros [= <- <- <-]. exists o. repeat split; assumption.
  - intros (o & Ho & Hb & Ha & -> & -> & ->). subst b.
    rewrite open_roundtrip by assumption.
    pose proof (open_validate_spec lid las ras o Hr Ho) as Hv.
    destruct (open_validate lid las ras o) as [n|]; [|reflexivity].
    destruct Hv as [Hv _]. congruence.
Qed.

Theorem handle_open_reject_sound lid las ras b n :
  wf_bytes b = true -> ras < 4294967296 ->
  handle_open lid las ras b = OReject n ->
  (blen b < 10 /\ n = mkNotif 1 2 b)
  \/ (10 <= blen b /\ (n = mkNotif 2 0 [] \/ n = mkNotif 2 4 [])
      /\ forall o, open_repr o = true -> spec_open_body o <> b)
  \/ (exists o, open_repr o = true /\ spec_open_body o = b
                /\ open_acceptable lid las ras o = false
                /\ semantic_fault lid las ras o n = true).
Proof.
  intros Hw Hr. unfold handle_open.
  destruct (open_decode b) as [o|e| |] eqn:Ed; try discriminate.
  - destruct (open_decode_inverse b o Hw Ed) as [Ho Hb].
    pose proof (open_validate_spec lid las ras o Hr Ho) as Hv.
    destruct (open_validate lid las ras o) as [n'|]; [|discriminate].
    intros [= <-]. right. right. exists o. destruct Hv. repeat split; assumption.
  - intros [= <-]. unfold open_decode in Ed.
    destruct b as [|v [|a1 [|a0 [|h1 [|h0 [|i3 [|i2 [|i1 [|i0 [|ol rest]]]]]]]]]];
      try (left; split; [rewrite ?blen_cons, ?blen_nil; lia|injection Ed as <-; reflexivity]).
    right. left. split; [rewrite !blen_cons; lia|].
    assert (Hno : forall o, open_repr o = true ->
                  spec_open_body o <> v :: a1 :: a0 :: h1 :: h0 :: i3 :: i2 :: i1 :: i0 :: ol :: rest).
    { intros o Ho Hb. pose proof (open_roundtrip o Ho) as Hrt. rewrite Hb in Hrt.
      unfold open_decode in Hrt. rewrite Hrt in Ed. discriminate. }
    split; [|exact Hno].
    destruct (negb _); [injection Ed as <-; left; reflexivity|].
    destruct (params_decode (S (length rest)) rest) as [ps|e'| |] eqn:Ep; cbn [rbind] in Ed; try discriminate.
    injection Ed as <-. apply params_decode_err in Ep. exact Ep.
Qed.

Theorem handle_open_total lid las ras b :
  wf_bytes b = true -> handle_open lid las ras b <> OPanic.
Proof.
  intros Hw. unfold handle_open. destruct (open_decode_total b Hw) as [H1 H2].
  destruct (open_decode b) as [o|e| |]; try congruence.
  destruct (open_validate lid las ras o); discriminate.
Qed.

(* the grammar rejects the empty parameter list and an empty capabilities parameter with (2,0) *)
Example empty_param_list_rejected :
  handle_open 167772161 65001 65000 [4; 253; 232; 0; 90; 10; 0; 0; 2; 0] = OReject (mkNotif 2 0 []).
Proof. vm_compute. reflexivity. Qed.
Example empty_caps_param_rejected :
  handle_open 167772161 65001 65000 [4; 253; 232; 0; 90; 10; 0; 0; 2; 2; 2; 0] = OReject (mkNotif 2 0 []).
Proof. vm_compute. reflexivity. Qed.
Example acceptable_example :
  handle_open 167772161 65001 65000 [4; 253; 232; 0; 90; 10; 0; 0; 2; 8; 2; 6; 65; 4; 0; 0; 253; 232]
  = OAccept 167772162 [mkCap 65 [0; 0; 253; 232]] 90.
Proof. vm_compute. reflexivity. Qed.
