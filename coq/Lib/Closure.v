(* Closure.v — a kernel-checked inductive-invariant argument for finite-control
   transition systems.  R is an explicit finite set of states (computed by a search, but
   the search is not trusted): if the initial state is in R, every state of R is Good,
   and R is closed under every label, then every state reachable by any trace of any
   length is Good.  Membership uses a positive-keyed map with a decidable-equality
   confirmation at the leaf, so no injectivity of the key function is needed. *)
From Coq Require Import List Bool PArith FMapPositive.
Import ListNotations.

Section Closure.
  Variables (S L : Type).
  Variable step : S -> L -> option S.
  Variable labels : list L.
  Hypothesis labels_complete : forall l, In l labels.
  Variable key : S -> positive.
  Variable eqb : S -> S -> bool.
  Hypothesis eqb_eq : forall a b, eqb a b = true -> a = b.

  Definition rset := PositiveMap.t (list S).

  Definition mem (s : S) (R : rset) : bool :=
    match PositiveMap.find (key s) R with
    | Some l => existsb (eqb s) l
    | None => false
    end.

  Definition add (s : S) (R : rset) : rset :=
    match PositiveMap.find (key s) R with
    | Some l => PositiveMap.add (key s) (s :: l) R
    | None => PositiveMap.add (key s) [s] R
    end.

  Definition elems (R : rset) : list S := flat_map snd (PositiveMap.elements R).

  (* breadth-first search; untrusted *)
  Fixpoint expand (frontier : list S) (R : rset) (next : list S) : rset * list S :=
    match frontier with
    | [] => (R, next)
    | s :: fr =>
        let '(R', next') :=
          fold_left (fun (acc : rset * list S) l =>
                       match step s l with
                       | Some s' => if mem s' (fst acc) then acc else (add s' (fst acc), s' :: snd acc)
                       | None => acc
                       end) labels (R, next) in
        expand fr R' next'
    end.

  Fixpoint bfs (fuel : nat) (frontier : list S) (R : rset) : rset :=
    match fuel with
    | O => R
    | Datatypes.S f =>
        match frontier with
        | [] => R
        | _ => let (R', next) := expand frontier R [] in bfs f next R'
        end
    end.

  Definition reach (fuel : nat) (init : S) : rset := bfs fuel [init] (add init (PositiveMap.empty _)).

  (* the three checks, as booleans to be discharged by vm_compute *)
  Definition closed_under (R : rset) : bool :=
    forallb (fun s => forallb (fun l => match step s l with Some s' => mem s' R | None => true end) labels)
            (elems R).
  Definition all_good (Good : S -> bool) (R : rset) : bool := forallb Good (elems R).

  Lemma mem_in_elems s R : mem s R = true -> In s (elems R).
  Proof.
    unfold mem, elems. destruct (PositiveMap.find (key s) R) as [l|] eqn:E; [|discriminate].
    intros H. apply existsb_exists in H as (x & Hx & Heq). apply eqb_eq in Heq. subst x.
    apply in_flat_map. exists (key s, l). split; [|exact Hx].
    apply PositiveMap.elements_correct. exact E.
  Qed.

  Fixpoint run (s : S) (tr : list L) : option S :=
    match tr with
    | [] => Some s
    | l :: r => match step s l with Some s' => run s' r | None => None end
    end.

  Lemma closed_mem (R : rset) :
    closed_under R = true ->
    forall tr s0 s, mem s0 R = true -> run s0 tr = Some s -> mem s R = true.
  Proof.
    intros Hc. induction tr as [|l r IH]; intros s0 s Hm Hr.
    - cbn in Hr. injection Hr as <-. exact Hm.
    - cbn in Hr. destruct (step s0 l) as [s1|] eqn:Es; [|discriminate].
      apply (IH s1 s); [|exact Hr].
      unfold closed_under in Hc. rewrite forallb_forall in Hc.
      specialize (Hc s0 (mem_in_elems _ _ Hm)). rewrite forallb_forall in Hc.
      specialize (Hc l (labels_complete l)). rewrite Es in Hc. exact Hc.
  Qed.

  Theorem closure_sound (Good : S -> bool) (R : rset) (init : S) :
    mem init R = true -> all_good Good R = true -> closed_under R = true ->
    forall tr s, run init tr = Some s -> Good s = true.
  Proof.
    intros Hi Hg Hc tr s Hr. pose proof (closed_mem R Hc tr init s Hi Hr) as Hm.
    unfold all_good in Hg. rewrite forallb_forall in Hg. apply Hg. apply mem_in_elems. exact Hm.
  Qed.

  (* properties of every transition out of a reachable state *)
  Definition all_good_steps (GoodT : S -> L -> S -> bool) (R : rset) : bool :=
    forallb (fun s => forallb (fun l => match step s l with Some s' => GoodT s l s' | None => true end) labels)
            (elems R).

  Theorem closure_sound_step (GoodT : S -> L -> S -> bool) (R : rset) (init : S) :
    mem init R = true -> closed_under R = true -> all_good_steps GoodT R = true ->
    forall tr s l s', run init tr = Some s -> step s l = Some s' -> GoodT s l s' = true.
  Proof.
    intros Hi Hc Hg tr s l s' Hr Hs. pose proof (closed_mem R Hc tr init s Hi Hr) as Hm.
    unfold all_good_steps in Hg. rewrite forallb_forall in Hg.
    specialize (Hg s (mem_in_elems _ _ Hm)). rewrite forallb_forall in Hg.
    specialize (Hg l (labels_complete l)). rewrite Hs in Hg. exact Hg.
  Qed.
End Closure.
