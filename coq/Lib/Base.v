(* Base.v — bytes, Go fixed-width integer semantics, slice expressions with
   Go's bounds-panic semantics, result type.  Definitions only (no proofs), so
   that the model keeps running when a proof elsewhere breaks. *)
From Coq Require Export List NArith ZArith Lia Bool.
Export ListNotations.
Open Scope bool_scope.
Open Scope N_scope.

Definition byte := N.
Definition bytes := list N.

Definition blen (b : bytes) : N := N.of_nat (length b).

Definition wf_byte (x : N) : bool := x <? 256.
Definition wf_bytes (b : bytes) : bool := forallb wf_byte b.

(* Go fixed-width unsigned conversions *)
Definition u8 (x : N) : N := x mod 256.
Definition u16 (x : N) : N := x mod 65536.
Definition u32 (x : N) : N := x mod 4294967296.

(* big-endian put/get, arithmetic form *)
Definition put16 (x : N) : bytes := [ (x / 256) mod 256 ; x mod 256 ].
Definition put32 (x : N) : bytes :=
  [ (x / 16777216) mod 256 ; (x / 65536) mod 256 ; (x / 256) mod 256 ; x mod 256 ].
Definition get16 (a b : N) : N := a * 256 + b.
Definition get32 (a b c d : N) : N := a * 16777216 + b * 65536 + c * 256 + d.

(* Result of running a piece of Go code: a value, an error value, or a run-time
   panic (slice bounds, nil dereference).  OutOfFuel is the distinguished
   result of fuelled loops; lemmas show it unreachable. *)
Inductive res (E A : Type) : Type :=
| Ok (a : A)
| Err (e : E)
| Panic
| OutOfFuel.
Arguments Ok {E A} a.
Arguments Err {E A} e.
Arguments Panic {E A}.
Arguments OutOfFuel {E A}.

Definition rbind {E A B} (r : res E A) (f : A -> res E B) : res E B :=
  match r with
  | Ok a => f a
  | Err e => Err e
  | Panic => Panic
  | OutOfFuel => OutOfFuel
  end.
Notation "'do' x <- r ; k" := (rbind r (fun x => k))
  (at level 200, x pattern, r at level 100, k at level 200, right associativity).

(* b[lo:hi] — Go panics iff lo > hi or hi > len b *)
Definition slice (b : bytes) (lo hi : N) : option bytes :=
  if (lo <=? hi) && (hi <=? blen b)
  then Some (firstn (N.to_nat (hi - lo)) (skipn (N.to_nat lo) b))
  else None.
(* b[lo:] *)
Definition slice_from (b : bytes) (lo : N) : option bytes :=
  if lo <=? blen b then Some (skipn (N.to_nat lo) b) else None.
(* b[:hi] *)
Definition slice_to (b : bytes) (hi : N) : option bytes :=
  if hi <=? blen b then Some (firstn (N.to_nat hi) b) else None.

Definition of_opt {E A} (o : option A) : res E A :=
  match o with Some a => Ok a | None => Panic end.

(* b[i] *)
Definition idx (b : bytes) (i : N) : option N := nth_error b (N.to_nat i).

Definition take (n : N) (b : bytes) : bytes := firstn (N.to_nat n) b.
Definition drop (n : N) (b : bytes) : bytes := skipn (N.to_nat n) b.

Fixpoint beqb (a b : bytes) : bool :=
  match a, b with
  | [], [] => true
  | x :: a', y :: b' => (x =? y) && beqb a' b'
  | _, _ => false
  end.

(* Tokens: the canonical observable projection shared with the Go harness.
   A byte string is emitted as its length followed by its bytes. *)
Definition tok_bytes (b : bytes) : list N := blen b :: b.
Definition tok_bool (b : bool) : N := if b then 1 else 0.
