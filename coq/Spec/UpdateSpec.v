(* UpdateSpec.v — RFC-level specifications for update.go, independent of the
   model: prefix encodings (RFC 4271 4.3, RFC 7911), the attribute table
   (RFC 4271 5, RFC 7606 7, RFC 1997, 4456, 8092, 6793), the UPDATE section and
   attribute split (RFC 4271 4.3, RFC 7606 3-5), error classes. *)
From Verif Require Import Base Packet Errors Update PacketSpec.

(* ---------- prefixes ---------- *)
Definition octets_of (bits : N) : N := (bits + 7) / 8.
Definition spec_prefix_enc (p : prefix) : bytes := p_bits p :: take (octets_of (p_bits p)) (p_addr p).
Definition all_zero (b : bytes) : bool := forallb (N.eqb 0) b.
(* what a decoder may return: bit length in range, a full-size address whose
   octets beyond the encoded ones are zero *)
Definition prefix_wf (ipv6 : bool) (p : prefix) : bool :=
  (p_bits p <=? (if ipv6 then 128 else 32))
  && (blen (p_addr p) =? (if ipv6 then 16 else 4))
  && wf_bytes (p_addr p)
  && all_zero (drop (octets_of (p_bits p)) (p_addr p)).
Definition spec_prefixes_enc (ps : list prefix) : bytes := flat_map spec_prefix_enc ps.

Definition spec_apprefix_enc (a : apprefix) : bytes := be32 (app_id a) ++ spec_prefix_enc (app_prefix a).
Definition apprefix_wf (ipv6 : bool) (a : apprefix) : bool :=
  (app_id a <? 4294967296) && prefix_wf ipv6 (app_prefix a).

(* ---------- attribute table ---------- *)
Inductive approach := AppTaw | AppDiscard.

(* Optional / Transitive bits each attribute's RFC assigns *)
Definition rfc_flags (code : N) : option (bool * bool) :=
  match code with
  | 1 | 2 | 3 | 5 | 6 => Some (false, true)      (* well-known: ORIGIN AS_PATH NEXT_HOP LOCAL_PREF ATOMIC_AGGREGATE *)
  | 4 | 9 | 10 => Some (true, false)             (* optional non-transitive: MED ORIGINATOR_ID CLUSTER_LIST *)
  | 7 | 8 | 32 => Some (true, true)              (* optional transitive: AGGREGATOR COMMUNITIES LARGE_COMMUNITIES *)
  | _ => None
  end.

(* AS_PATH value grammar with 4-octet AS numbers: segments (type 1|2, count >= 1, count*4 octets) *)
Fixpoint spec_segments (fuel : nat) (b : bytes) : option (list (N * list N)) :=
  match fuel with
  | O => None
  | S f =>
      match b with
      | [] => Some []
      | t :: c :: r =>
          if ((t =? 1) || (t =? 2)) && (1 <=? c) && (c * 4 <=? blen r) then
            match spec_segments f (drop (c * 4) r) with
            | Some l => Some ((t, u32s (take (c * 4) r)) :: l)
            | None => None
            end
          else None
      | _ => None
      end
  end.
Definition aspath_segments (b : bytes) := spec_segments (S (length b)) b.

Definition rfc_value_ok (code : N) (b : bytes) : bool :=
  match code with
  | 1 => match b with [o] => o <=? 2 | _ => false end
  | 2 => match aspath_segments b with Some _ => true | None => false end
  | 3 | 4 | 5 | 9 => blen b =? 4
  | 6 => blen b =? 0
  | 7 => blen b =? 8
  | 8 | 10 => (4 <=? blen b) && (blen b mod 4 =? 0)
  | 32 => (12 <=? blen b) && (blen b mod 12 =? 0)
  | _ => false
  end.

Definition rfc_approach (code : N) : approach :=
  match code with 6 | 7 => AppDiscard | _ => AppTaw end.

Definition flags_match (flags : N) (want : bool * bool) : bool :=
  Bool.eqb (128 <=? flags mod 256) (fst want) && Bool.eqb (64 <=? flags mod 128) (snd want).

(* "on success yields exactly the encoded value": re-encoding of a decoded value *)
Definition spec_attrval_enc (v : attrval) : bytes :=
  match v with
  | VOrigin o => [o]
  | VASPath s q => []   (* not used: AS_PATH exactness is stated over segments *)
  | VAddr a => a
  | VU32 x => be32 x
  | VAtomic => []
  | VAggregator a ip => be32 a ++ ip
  | VU32s l => flat_map be32 l
  | VAddrs l => concat l
  | VLarge l => flat_map (fun t => be32 (fst (fst t)) ++ be32 (snd (fst t)) ++ be32 (snd t)) l
  end.

(* attribute (type, length, value) as it appears in error data *)
Definition spec_attr_tlv (code : N) (d : bytes) : bytes :=
  code :: (if blen d <=? 255 then [blen d] else be16 (blen d)) ++ d.

(* the error an attribute decoder must return when it refuses (flags, value) *)
Definition spec_attr_failure (code flags : N) (b : bytes) (e : err) : bool :=
  match rfc_flags code with
  | None => false
  | Some want =>
      if negb (flags_match flags want) then
        match e with
        | ETaw c (Some n) => (c =? code) && (n_code n =? 3) && (n_sub n =? 4) && beqb (n_data n) (spec_attr_tlv code b)
        | _ => false
        end
      else
        let cls_ok := match e, rfc_approach code with
                      | ETaw c _, AppTaw => c =? code
                      | EDiscard c _, AppDiscard => c =? code
                      | _, _ => false
                      end in
        let n := match e with ETaw _ n | EDiscard _ n => n | _ => None end in
        cls_ok &&
        match n with
        | Some n =>
            (n_code n =? 3) &&
            match code with
            | 1 => if blen b =? 1 then (n_sub n =? 6) && beqb (n_data n) (spec_attr_tlv code b)
                   else (n_sub n =? 5) && beqb (n_data n) (spec_attr_tlv code b)
            | 2 => (n_sub n =? 11) || (n_sub n =? 5)
            | _ => (n_sub n =? 5) && beqb (n_data n) (spec_attr_tlv code b)
            end
        | None => false
        end
  end.

(* the error a flag conflict must produce: treat-as-withdraw, fallback (3,4, attribute) *)
Definition spec_flag_err (code flags : N) (b : bytes) (want : bool * bool) : option err :=
  if flags_match flags want then None
  else Some (ETaw code (Some (mkNotif 3 4 (spec_attr_tlv code b)))).
Definition has_notif_o (e : option err) : bool := match e with Some e => has_notif e | None => false end.

(* ---------- UPDATE split ---------- *)
Definition spec_sections (b : bytes) : option (bytes * bytes * bytes) :=
  match b with
  | w1 :: w0 :: r =>
      let wrl := w1 * 256 + w0 in
      if (blen b <? 4) || (blen r <? wrl + 2) then None else
      match drop wrl r with
      | p1 :: p0 :: r2 =>
          let pal := p1 * 256 + p0 in
          if blen r2 <? pal then None else Some (take wrl r, take pal r2, drop pal r2)
      | _ => None
      end
  | _ => None
  end.

Inductive attrs_end := EndClean | EndOverrun (code : N) | EndDupMP.

(* Extended Length bit (0x10): two-octet length, else one octet *)
Definition spec_attr_header (flags : N) (r : bytes) : option (N * bytes) :=
  if 16 <=? flags mod 32
  then match r with l1 :: l0 :: r' => Some (l1 * 256 + l0, r') | _ => None end
  else match r with l0 :: r' => Some (l0, r') | _ => None end.

(* walk the attribute block: first occurrences in wire order, later duplicates
   skipped, repeated MP attribute aborts, overrun ends the walk *)
Fixpoint spec_attrs (fuel : nat) (a : bytes) (seen_codes : list N) : list (N * N * bytes) * attrs_end :=
  match fuel with
  | O => ([], EndClean)
  | S f =>
      match a with
      | [] => ([], EndClean)
      | [_] => ([], EndOverrun 0)
      | flags :: code :: r =>
          match spec_attr_header flags r with
          | None => ([], EndOverrun code)
          | Some (len, r') =>
              if blen r' <? len then ([], EndOverrun code) else
              if existsb (N.eqb code) seen_codes then
                if (code =? 14) || (code =? 15) then ([], EndDupMP)
                else spec_attrs f (drop len r') seen_codes
              else
                let (items, e) := spec_attrs f (drop len r') (code :: seen_codes) in
                ((code, flags, take len r') :: items, e)
          end
      end
  end.
Definition attr_items (a : bytes) := spec_attrs (S (length a)) a [].

(* the calls an all-nil-callback Decode must make *)
Definition spec_calls (b : bytes) : list call :=
  match spec_sections b with
  | None => []
  | Some (W, A, Nl) =>
      let (items, e) := attr_items A in
      CWr W :: map (fun t => CPa (fst (fst t)) (snd (fst t)) (snd t)) items
      ++ match e with EndDupMP => [] | _ => [CNl Nl] end
  end.

(* ---------- error classes (C17) ---------- *)
Inductive eclass := ClsNone | ClsNotif | ClsTaw | ClsDiscard | ClsUpd | ClsOther.

(* strongest class in a tree, as errors.As-style unwrapping sees it *)
Definition cls_rank (c : eclass) : N :=
  match c with ClsNotif => 5 | ClsTaw => 4 | ClsDiscard => 3 | ClsUpd => 2 | ClsOther => 1 | ClsNone => 0 end.
Definition cls_max (a b : eclass) : eclass := if cls_rank a <? cls_rank b then b else a.
Fixpoint strongest (e : err) : eclass :=
  match e with
  | ENotif _ => ClsNotif
  | ETaw _ _ => ClsTaw
  | EDiscard _ _ => ClsDiscard
  | EUpd _ => ClsUpd
  | EOther => ClsOther
  | EWrap e' => cls_max ClsOther (strongest e')
  | EJoin l => (fix go (l : list err) : eclass :=
                  match l with [] => ClsOther | x :: r => cls_max (strongest x) (go r) end) l
  end.

(* leaves of a tree in pre-order *)
Fixpoint leaves (e : err) : list err :=
  match e with
  | EWrap e' => leaves e'
  | EJoin l => (fix go (l : list err) : list err := match l with [] => [] | x :: r => leaves x ++ go r end) l
  | _ => [e]
  end.

(* first leaf of each class in pre-order, Notification search stops the walk: the
   specification of UpdateNotificationFromErr *)
Definition first_of (p : err -> bool) (l : list err) : option err := find p l.
Definition is_notif e := match e with ENotif _ => true | _ => false end.
Definition is_taw e := match e with ETaw _ _ => true | _ => false end.
Definition is_discard e := match e with EDiscard _ _ => true | _ => false end.
Definition is_upd e := match e with EUpd _ => true | _ => false end.

Definition spec_unfe (e : option err) : option notif :=
  match e with
  | None => None
  | Some e =>
      let l := leaves e in
      match first_of is_notif l with
      | Some (ENotif n) => Some n
      | _ =>
        match first_of is_taw l with
        | Some (ETaw _ n) => Some (match n with Some n => n | None => mkNotif 3 0 [] end)
        | _ =>
          match first_of is_discard l with
          | Some (EDiscard _ n) => Some (match n with Some n => n | None => mkNotif 3 0 [] end)
          | _ =>
            match first_of is_upd l with
            | Some (EUpd n) => Some n
            | _ => Some (mkNotif 3 0 [])
            end
          end
        end
      end
  end.

(* ---------- C16/C17 with arbitrary callbacks ---------- *)
Definition item_call (t : N * N * bytes) : call := CPa (fst (fst t)) (snd (fst t)) (snd t).
Definition item_code (t : N * N * bytes) : N := fst (fst t).
Definition missing_attrs (items : list (N * N * bytes)) (Nl : bytes) : bool :=
  let has c := existsb (N.eqb c) (map item_code items) in
  ((0 <? blen Nl) || has 14) && negb (has 1 && has 2).

(* ---- specification: the error events of a Decode, from the RFC split and the script alone ---- *)
Definition olist (e : option err) : list err := match e with Some x => [x] | None => [] end.
Definition oleaves (e : option err) : list err := match e with Some x => leaves x | None => [] end.

(* callbacks on n consecutive attribute items starting at script index k: the errors returned, whether
   one of them contained a Notification (decoding stops there), and how many callbacks ran *)
Fixpoint attr_cb_events (sc : script) (k n : nat) : list err * bool * nat :=
  match n with
  | O => ([], false, O)
  | S n' =>
      match sc k with
      | Some e => if has_notif e then ([e], true, 1%nat)
                  else let '(l, s, c) := attr_cb_events sc (S k) n' in (e :: l, s, S c)
      | None => let '(l, s, c) := attr_cb_events sc (S k) n' in (l, s, S c)
      end
  end.

Definition missing_event (items : list (N * N * bytes)) (Nl : bytes) : list err :=
  if missing_attrs items Nl then
    let m := if existsb (N.eqb 1) (map item_code items) then 2 else 1 in
    [ETaw m (Some (mkNotif 3 3 [m]))]
  else [].

Definition spec_err_events (sc : script) (b : bytes) : list err :=
  match spec_sections b with
  | None => [ENotif (mkNotif 3 (if blen b <? 4 then 0 else 1) [])]
  | Some (W, A, Nl) =>
      let (items, aend) := attr_items A in
      if has_notif_o (sc O) then olist (sc O) else
      let '(cbs, stopped, _) := attr_cb_events sc 1 (length items) in
      olist (sc O) ++ cbs ++
      if stopped then [] else
      match aend with
      | EndDupMP => [ENotif (mkNotif 3 1 [])]
      | EndOverrun c => ETaw c (Some (mkNotif 3 0 [])) :: missing_event items Nl ++ olist (sc (S (length items)))
      | EndClean => missing_event items Nl ++ olist (sc (S (length items)))
      end
  end.

(* and the calls, for any callback behaviour: the specification's calls cut at the stop *)
Definition spec_calls_script (sc : script) (b : bytes) : list call :=
  match spec_sections b with
  | None => []
  | Some (W, A, Nl) =>
      let (items, aend) := attr_items A in
      if has_notif_o (sc O) then [CWr W] else
      let '(_, stopped, ncalled) := attr_cb_events sc 1 (length items) in
      CWr W :: map item_call (firstn ncalled items)
      ++ if stopped then [] else match aend with EndDupMP => [] | _ => [CNl Nl] end
  end.

