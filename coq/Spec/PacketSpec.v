(* PacketSpec.v — RFC-level specification of the message header, NOTIFICATION
   and OPEN wire formats, written independently of the model: encoders over
   structured values with literal RFC numbers, a strict frame parser, and
   representability predicates.  No Go integer wrap-around, no slices. *)
From Verif Require Import Base Packet.

Definition be16 (x : N) : bytes := [x / 256; x mod 256].
Definition be32 (x : N) : bytes :=
  [x / 16777216; (x / 65536) mod 256; (x / 256) mod 256; x mod 256].

(* RFC 4271 4.1: 16 octets of ones, 2-octet length (19..4096, the whole message), type *)
Definition spec_frame_enc (t : N) (body : bytes) : bytes :=
  repeat 255 16 ++ be16 (19 + blen body) ++ [t] ++ body.

Definition known_type (t : N) : bool := (1 <=? t) && (t <=? 4).

(* strict parse of exactly one message: Some (type, body) *)
Definition spec_frame_parse (m : bytes) : option (N * bytes) :=
  if (19 <=? blen m) && (blen m <=? 4096) && beqb (firstn 16 m) (repeat 255 16) then
    match skipn 16 m with
    | l1 :: l0 :: t :: body =>
        if (l1 * 256 + l0 =? blen m) && known_type t then Some (t, body) else None
    | _ => None
    end
  else None.

(* strict parse of a whole stream into messages; None if it is not a
   concatenation of complete well-formed messages *)
Fixpoint spec_stream_parse (fuel : nat) (s : bytes) : option (list (N * bytes)) :=
  match fuel with
  | O => None
  | S f =>
      match s with
      | [] => Some []
      | _ =>
          match skipn 16 s with
          | l1 :: l0 :: _ =>
              let l := l1 * 256 + l0 in
              if (19 <=? l) && (l <=? blen s) then
                match spec_frame_parse (take l s), spec_stream_parse f (drop l s) with
                | Some m, Some ms => Some (m :: ms)
                | _, _ => None
                end
              else None
          | _ => None
          end
      end
  end.

(* RFC 4271 4.5 *)
Definition spec_notif_body (n : notif) : bytes := n_code n :: n_sub n :: n_data n.
Definition notif_repr (n : notif) : bool :=
  (n_code n <? 256) && (n_sub n <? 256) && wf_bytes (n_data n) && (blen (n_data n) <=? 4075).

(* RFC 5492 4 / RFC 4271 4.2 *)
Definition spec_cap_enc (c : cap) : bytes := cap_code c :: blen (cap_val c) :: cap_val c.
Definition spec_caps_enc (cs : list cap) : bytes := flat_map spec_cap_enc cs.
Definition spec_param_enc (cs : list cap) : bytes :=
  2 :: blen (spec_caps_enc cs) :: spec_caps_enc cs.
Definition spec_params_enc (ps : list (list cap)) : bytes := flat_map spec_param_enc ps.
Definition spec_open_body (o : openmsg) : bytes :=
  [o_ver o] ++ be16 (o_asn o) ++ be16 (o_hold o) ++ be32 (o_id o)
  ++ [blen (spec_params_enc (o_params o))] ++ spec_params_enc (o_params o).

Definition cap_repr (c : cap) : bool :=
  (cap_code c <? 256) && wf_bytes (cap_val c) && (blen (cap_val c) <=? 255).
Definition param_repr (cs : list cap) : bool :=
  negb (length cs =? 0)%nat && forallb cap_repr cs && (blen (spec_caps_enc cs) <=? 255).
(* what the decoder can return: at least one capabilities parameter, each with
   at least one capability, every length fitting its octet *)
Definition open_repr (o : openmsg) : bool :=
  (o_ver o <? 256) && (o_asn o <? 65536) && (o_hold o <? 65536) && (o_id o <? 4294967296)
  && negb (length (o_params o) =? 0)%nat && forallb param_repr (o_params o)
  && (blen (spec_params_enc (o_params o)) <=? 255).

(* RFC 7911 4: AFI(2) SAFI(1) Send/Receive(1) in 1..3 *)
Definition spec_aptuple_enc (a : aptuple) : bytes :=
  be16 (ap_afi a) ++ [ap_safi a; (if ap_rx a then 1 else 0) + (if ap_tx a then 2 else 0)].
Definition aptuple_repr (a : aptuple) : bool :=
  (ap_afi a <? 65536) && (ap_safi a <? 256) && (ap_tx a || ap_rx a).

(* ---- oracles applied to what the implementation returned (token lists) ---- *)
Definition untok_bytes (l : list N) : option (bytes * list N) :=
  match l with
  | n :: r => if n <=? blen r then Some (take n r, drop n r) else None
  | [] => None
  end.

Fixpoint untok_caps_n (k : nat) (l : list N) : option (list cap * list N) :=
  match k with
  | O => Some ([], l)
  | S k' =>
      match l with
      | code :: r =>
          match untok_bytes r with
          | Some (v, r') =>
              match untok_caps_n k' r' with
              | Some (cs, r'') => Some (mkCap code v :: cs, r'')
              | None => None
              end
          | None => None
          end
      | [] => None
      end
  end.
Definition untok_caps (l : list N) : option (list cap * list N) :=
  match l with n :: r => untok_caps_n (N.to_nat n) r | [] => None end.

Fixpoint untok_params_n (k : nat) (l : list N) : option (list (list cap) * list N) :=
  match k with
  | O => Some ([], l)
  | S k' =>
      match untok_caps l with
      | Some (cs, r) =>
          match untok_params_n k' r with
          | Some (ps, r') => Some (cs :: ps, r')
          | None => None
          end
      | None => None
      end
  end.

Definition untok_open (l : list N) : option openmsg :=
  match l with
  | v :: a :: h :: i :: np :: r =>
      match untok_params_n (N.to_nat np) r with
      | Some (ps, []) => Some (mkOpen v a h i ps)
      | _ => None
      end
  | _ => None
  end.
