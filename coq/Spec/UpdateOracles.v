(* UpdateOracles.v — the C16–C19 properties as executable predicates over what
   an implementation returned (token lists).  Verified model functions are used
   only as decision procedures for "no well-formed value encodes to this byte
   string" (their equivalence with the specification encoders is a theorem). *)
From Verif Require Import Base Packet Errors Update PacketSpec OpenSpec UpdateSpec.

Definition ook := [1].
Definition obad (clause : N) := [0; clause].
Definition ona := [2].

(* ---- token readers ---- *)
Definition rd_bytes (l : list N) : option (bytes * list N) :=
  match l with
  | n :: r => if n <=? blen r then Some (take n r, drop n r) else None
  | [] => None
  end.

Definition rd_prefix (l : list N) : option (prefix * list N) :=
  match l with
  | bits :: r => match rd_bytes r with Some (a, r') => Some (mkPrefix bits a, r') | None => None end
  | [] => None
  end.
Definition rd_apprefix (l : list N) : option (apprefix * list N) :=
  match l with
  | id :: r => match rd_prefix r with Some (p, r') => Some (mkAPP id p, r') | None => None end
  | [] => None
  end.

Fixpoint rd_many {A} (rd : list N -> option (A * list N)) (k : nat) (l : list N) : option (list A * list N) :=
  match k with
  | O => Some ([], l)
  | S k' => match rd l with
            | Some (a, r) => match rd_many rd k' r with
                             | Some (as_, r') => Some (a :: as_, r')
                             | None => None
                             end
            | None => None
            end
  end.
Definition rd_list {A} (rd : list N -> option (A * list N)) (l : list N) : option (list A * list N) :=
  match l with n :: r => rd_many rd (N.to_nat n) r | [] => None end.
Definition rd_n (l : list N) : option (N * list N) := match l with x :: r => Some (x, r) | [] => None end.

Definition rd_notif (l : list N) : option (notif * list N) :=
  match l with
  | c :: s :: r => match rd_bytes r with Some (d, r') => Some (mkNotif c s d, r') | None => None end
  | _ => None
  end.

Definition rd_oerr (l : list N) : option (option err * list N) :=
  match l with
  | 0 :: r => Some (None, r)
  | 1 :: r => match untok_err (S (length r)) r with Some (e, r') => Some (Some e, r') | None => None end
  | _ => None
  end.

Definition notif_eqb (a b : notif) : bool :=
  (n_code a =? n_code b) && (n_sub a =? n_sub b) && beqb (n_data a) (n_data b).

(* ---- C19: prefix lists ---- *)
Definition oracle_prefixes (ipv6 addpath : bool) (b : bytes) (out : list N)
           (expect_notif : option notif) : list N :=
  match out with
  | 0 :: r =>
      if addpath then
        match rd_list rd_apprefix r with
        | Some (l, []) =>
            if forallb (apprefix_wf ipv6) l && beqb (flat_map spec_apprefix_enc l) b then ook else obad 1
        | _ => obad 3
        end
      else
        match rd_list rd_prefix r with
        | Some (l, []) =>
            if forallb (prefix_wf ipv6) l && beqb (spec_prefixes_enc l) b then ook else obad 1
        | _ => obad 3
        end
  | 1 :: r =>
      (* refused: then no well-formed list encodes to b, and the notification is the assigned one *)
      let undecodable :=
        if addpath then match decode_ap_prefixes b ipv6 with Ok _ => false | _ => true end
        else match decode_prefixes b ipv6 with Ok _ => false | _ => true end in
      if negb undecodable then obad 2 else
      match expect_notif, r with
      | None, [] => ook
      | Some n, _ => match rd_notif r with
                     | Some (n', []) => if notif_eqb n n' then ook else obad 4
                     | _ => obad 3
                     end
      | _, _ => obad 3
      end
  | _ => obad 5
  end.

Definition oracle_v6nh (b : bytes) (out : list N) : list N :=
  let good := (blen b =? 16) || (blen b =? 32) in
  match out with
  | 0 :: r =>
      match rd_list rd_bytes r with
      | Some (l, []) =>
          if good && forallb (fun a => blen a =? 16) l && beqb (concat l) b then ook else obad 1
      | _ => obad 3
      end
  | 1 :: r =>
      match rd_notif r with
      | Some (n, []) => if negb good && notif_eqb n (mkNotif 3 0 []) then ook else obad 2
      | _ => obad 3
      end
  | _ => obad 5
  end.

(* ---- C19: MP splitters ---- *)
Definition err_eqb (a b : option err) : bool := beqb (tok_oerr a) (tok_oerr b).

Definition oracle_mp_reach (flags : N) (b : bytes) (cb : option err) (out : list N) : list N :=
  let fe := spec_flag_err 14 flags b (true, false) in
  match out with
  | 0 :: r =>
      match b with
      | a1 :: a0 :: safi :: nh :: rest =>
          if nh + 1 <=? blen rest then
            (* callback gets AFI, SAFI, next hop, and the bytes after the reserved octet *)
            match r with
            | 1 :: afi :: safi' :: r1 =>
                match rd_bytes r1 with
                | Some (nhb, r2) =>
                    match rd_bytes r2 with
                    | Some (nlri, r3) =>
                        match rd_oerr r3 with
                        | Some (e, []) =>
                            if (afi =? a1 * 256 + a0) && (safi' =? safi) && beqb nhb (take nh rest)
                               && beqb nlri (drop (nh + 1) rest) && err_eqb e (join2 fe cb)
                            then ook else obad 1
                        | _ => obad 3
                        end
                    | None => obad 3
                    end
                | None => obad 3
                end
            | _ => obad 2   (* callback not invoked although the attribute is long enough *)
            end
          else
            match r with
            | 0 :: r1 => match rd_oerr r1 with
                         | Some (e, []) => if err_eqb e (join2 fe (Some (ENotif (mkNotif 3 5 [])))) then ook else obad 4
                         | _ => obad 3
                         end
            | _ => obad 6   (* callback invoked on a too-short attribute *)
            end
      | _ =>
          match r with
          | 0 :: r1 => match rd_oerr r1 with
                       | Some (e, []) => if err_eqb e (join2 fe (Some (ENotif (mkNotif 3 5 [])))) then ook else obad 4
                       | _ => obad 3
                       end
          | _ => obad 6
          end
      end
  | _ => obad 5
  end.

Definition oracle_mp_unreach (flags : N) (b : bytes) (cb : option err) (out : list N) : list N :=
  let fe := spec_flag_err 15 flags b (true, false) in
  match out with
  | 0 :: r =>
      match b with
      | a1 :: a0 :: safi :: wd =>
          match r with
          | 2 :: afi :: safi' :: r1 =>
              match rd_bytes r1 with
              | Some (w, r2) =>
                  match rd_oerr r2 with
                  | Some (e, []) =>
                      if (afi =? a1 * 256 + a0) && (safi' =? safi) && beqb w wd && err_eqb e (join2 fe cb)
                      then ook else obad 1
                  | _ => obad 3
                  end
              | None => obad 3
              end
          | _ => obad 2
          end
      | _ =>
          match r with
          | 0 :: r1 => match rd_oerr r1 with
                       | Some (e, []) => if err_eqb e (join2 fe (Some (ENotif (mkNotif 3 5 [])))) then ook else obad 4
                       | _ => obad 3
                       end
          | _ => obad 6
          end
      end
  | _ => obad 5
  end.

(* ---- C18: typed attribute decoders ---- *)
Definition rd_attrval (l : list N) : option attrval :=
  match l with
  | [1; o] => Some (VOrigin o)
  | 2 :: r => match rd_list rd_n r with
              | Some (s, r') => match rd_list rd_n r' with
                                | Some (q, []) => Some (VASPath s q)
                                | _ => None
                                end
              | None => None
              end
  | 3 :: r => match rd_bytes r with Some (a, []) => Some (VAddr a) | _ => None end
  | [4; x] => Some (VU32 x)
  | [5] => Some VAtomic
  | 6 :: a :: r => match rd_bytes r with Some (ip, []) => Some (VAggregator a ip) | _ => None end
  | 7 :: r => match rd_list rd_n r with Some (l, []) => Some (VU32s l) | _ => None end
  | 8 :: r => match rd_list rd_bytes r with Some (l, []) => Some (VAddrs l) | _ => None end
  | 9 :: r => match rd_list (fun l => match l with a :: b :: c :: r => Some ((a, b, c), r) | _ => None end) r with
              | Some (l, []) => Some (VLarge l)
              | _ => None
              end
  | _ => None
  end.

Definition value_shape_ok (code : N) (v : attrval) : bool :=
  match code, v with
  | 1, VOrigin _ | 2, VASPath _ _ | 3, VAddr _ | 9, VAddr _ | 4, VU32 _ | 5, VU32 _
  | 6, VAtomic | 7, VAggregator _ _ | 8, VU32s _ | 10, VAddrs _ | 32, VLarge _ => true
  | _, _ => false
  end.

Definition u32_ok (x : N) : bool := x <? 4294967296.

(* exactness of the decoded value *)
Definition value_exact (code : N) (b : bytes) (v : attrval) : bool :=
  value_shape_ok code v &&
  match v with
  | VASPath s q =>
      match aspath_segments b with
      | Some segs =>
          (* no AS number lost: all AS_SET members and all AS_SEQUENCE members, in order *)
          beqb s (flat_map snd (filter (fun t => fst t =? 1) segs))
          && beqb q (flat_map snd (filter (fun t => fst t =? 2) segs))
      | None => false
      end
  | VU32 x => u32_ok x && beqb (spec_attrval_enc v) b
  | VAggregator a ip => u32_ok a && (blen ip =? 4) && beqb (spec_attrval_enc v) b
  | VU32s l => forallb u32_ok l && beqb (spec_attrval_enc v) b
  | VAddrs l => forallb (fun a => blen a =? 4) l && beqb (spec_attrval_enc v) b
  | VLarge l => forallb (fun t => u32_ok (fst (fst t)) && u32_ok (snd (fst t)) && u32_ok (snd t)) l
                && beqb (spec_attrval_enc v) b
  | _ => beqb (spec_attrval_enc v) b
  end.

Definition oracle_attr (code flags : N) (b : bytes) (out : list N) : list N :=
  match rfc_flags code with
  | None => ona
  | Some want =>
      let should_accept := flags_match flags want && rfc_value_ok code b in
      match out with
      | 0 :: r =>
          match rd_attrval r with
          | Some v => if negb should_accept then obad 1
                      else if value_exact code b v then ook else obad 7
          | None => obad 3
          end
      | 1 :: r =>
          match untok_err (S (length r)) r with
          | Some (e, []) => if should_accept then obad 2
                            else if spec_attr_failure code flags b e then ook else obad 4
          | _ => obad 3
          end
      | _ => obad 5
      end
  end.

Definition oracle_flags (p : N) (out : list N) : list N :=
  match out with
  | [o; t; pa; e] =>
      if (o =? (p / 128) mod 2) && (t =? (p / 64) mod 2) && (pa =? (p / 32) mod 2) && (e =? (p / 16) mod 2)
      then ook else obad 1
  | _ => obad 3
  end.

(* ---- C16: the calls of an all-nil-callback Decode ---- *)
Definition rd_call (l : list N) : option (call * list N) :=
  match l with
  | 1 :: r => match rd_bytes r with Some (b, r') => Some (CWr b, r') | None => None end
  | 2 :: c :: f :: r => match rd_bytes r with Some (b, r') => Some (CPa c f b, r') | None => None end
  | 3 :: r => match rd_bytes r with Some (b, r') => Some (CNl b, r') | None => None end
  | _ => None
  end.
Definition call_tok (c : call) : list N :=
  match c with
  | CWr b => 1 :: blen b :: b
  | CPa code flags b => 2 :: code :: flags :: blen b :: b
  | CNl b => 3 :: blen b :: b
  end.
Definition calls_eqb (a b : list call) : bool :=
  (N.of_nat (length a) =? N.of_nat (length b)) && beqb (flat_map call_tok a) (flat_map call_tok b).

Definition rd_decode_out (out : list N) : option (list call * option err) :=
  match out with
  | 0 :: r => match rd_list rd_call r with
              | Some (cs, r') => match rd_oerr r' with
                                 | Some (e, []) => Some (cs, e)
                                 | _ => None
                                 end
              | None => None
              end
  | _ => None
  end.

Definition oracle_calls (b : bytes) (script_nil : bool) (out : list N) : list N :=
  if negb script_nil then ona else
  match rd_decode_out out with
  | Some (cs, _) => if calls_eqb cs (spec_calls b) then ook else obad 1
  | None => obad 5   (* panic or garbage *)
  end.

(* ---- C17: error reporting ---- *)
Fixpoint subseq (a b : list (list N)) : bool :=   (* a is a subsequence of b *)
  match a, b with
  | [], _ => true
  | _, [] => false
  | x :: a', y :: b' => if beqb x y then subseq a' b' else subseq a b'
  end.

Definition cls_eqb (a b : eclass) : bool := cls_rank a =? cls_rank b.

(* the errors the callbacks returned for the calls that were made: entries 0..n-1 of the script *)
Fixpoint script_prefix (sc : nat -> option err) (n : nat) : list (option err) :=
  match n with O => [] | S k => script_prefix sc k ++ [sc k] end.

Definition oracle_errors (b : bytes) (sc : nat -> option err) (out : list N) : list N :=
  match rd_decode_out out with
  | None => obad 5
  | Some (cs, e) =>
      let returned := script_prefix sc (length cs) in
      let cb_errs := flat_map (fun o => match o with Some x => [x] | None => [] end) returned in
      let cb_notif := existsb has_notif cb_errs in
      match spec_sections b with
      | None =>
          (* inconsistent lengths / short body: a Notification, no callback *)
          match e with
          | Some (ENotif n) =>
              if is_nil cs && (n_code n =? 3)
                 && (if blen b <? 4 then n_sub n =? 0 else n_sub n =? 1) && is_nil (n_data n)
              then ook else obad 1
          | _ => obad 1
          end
      | Some (W, A, Nl) =>
          let (items, aend) := attr_items A in
          let codes := map (fun t => fst (fst t)) items in
          let announces := (0 <? blen Nl) || existsb (N.eqb 14) codes in
          let has c := existsb (N.eqb c) codes in
          let missing := announces && negb (has 1 && has 2) in
          (* which structural findings apply depends on where decoding stopped; decoding
             stops at the first callback error that contains a Notification *)
          let stopped_early := cb_notif in
          let clean := match aend with EndClean => true | _ => false end in
          let expect_nil := clean && negb missing && is_nil cb_errs in
          match e with
          | None => if expect_nil then ook else obad 2
          | Some e' =>
              if expect_nil then obad 3 else
              (* contains every callback error, in order *)
              let want := map tok_err (flat_map leaves cb_errs) in
              let got := map tok_err (leaves e') in
              if negb (subseq want got) then obad 4 else
              (* strongest class *)
              let struct_cls :=
                if stopped_early then ClsNone else
                match aend with
                | EndDupMP => ClsNotif
                | EndOverrun _ => ClsTaw
                | EndClean => if missing then ClsTaw else ClsNone
                end in
              let struct_cls := if stopped_early then ClsNone else
                                match aend with EndDupMP => ClsNotif | _ => if missing then ClsTaw else struct_cls end in
              let cb_cls := fold_left cls_max (map strongest cb_errs) ClsNone in
              let want_cls := cls_max struct_cls cb_cls in
              if negb (cls_eqb (strongest e') want_cls) then obad 6 else
              (* a missing mandatory attribute carries (3,3,[code]) as fallback *)
              if negb stopped_early && missing && match aend with EndDupMP => false | _ => true end then
                let mcode := if has 1 then 2 else 1 in
                if existsb (fun l => beqb (tok_err l) (tok_err (ETaw mcode (Some (mkNotif 3 3 [mcode]))))) (leaves e')
                then ook else obad 7
              else ook
          end
      end
  end.

(* C16/C17, any callback behaviour: the calls are the specification's calls cut at the stop, and the
   returned tree has exactly the specification's leaves (UpdateErrProofs.decode_errors_exact) *)
Fixpoint all2 {A} (f : A -> A -> bool) (a b : list A) : bool :=
  match a, b with
  | [], [] => true
  | x :: a', y :: b' => f x y && all2 f a' b'
  | _, _ => false
  end.
Definition oracle_events (b : bytes) (sc : nat -> option err) (out : list N) : list N :=
  match rd_decode_out out with
  | None => obad 5
  | Some (cs, e) =>
      if negb (calls_eqb cs (spec_calls_script sc b)) then obad 1 else
      if all2 (fun x y => beqb (tok_err x) (tok_err y)) (oleaves e) (flat_map leaves (spec_err_events sc b))
      then ook else obad 2
  end.

Definition oracle_unfe (e : option err) (out : list N) : list N :=
  if beqb out (tok_onotif (spec_unfe e)) then ook else obad 1.
