(* OpenSpec.v — what RFC 4271 4.2/6.2, RFC 6286, RFC 6793, RFC 5492 ask of an
   OPEN: which OPEN a configuration sends (C14) and which received OPENs are
   acceptable (C02), over structured values and literal numbers. *)
From Verif Require Import Base Packet PacketSpec.

(* ---- C14: the OPEN a speaker must send ---- *)
Definition intended_open (asn hold id : N) (caps : list cap) : openmsg :=
  mkOpen 4 (if asn <=? 65535 then asn else 23456) hold id
         [ mkCap 65 (be32 asn) :: filter (fun c => negb (cap_code c =? 65)) caps ].

Definition cap_wf (c : cap) : bool := (cap_code c <? 256) && wf_bytes (cap_val c).
Definition cfg_wf (asn hold id : N) (caps : list cap) : bool :=
  (asn <? 4294967296) && (hold <? 65536) && (id <? 4294967296) && forallb cap_wf caps.

(* ---- C02: acceptability of a received OPEN for a peer configuration ---- *)
Definition is_as4 (c : cap) : bool := cap_code c =? 65.
Definition as4_ok (remoteAS : N) (c : cap) : bool :=
  negb (is_as4 c) || beqb (cap_val c) (be32 remoteAS).
Definition multicast_id (id : N) : bool := (3758096384 <=? id) && (id <? 4026531840). (* 224.0.0.0/4 *)

Definition open_acceptable (localID localAS remoteAS : N) (o : openmsg) : bool :=
  (o_ver o =? 4)
  && ((o_asn o =? remoteAS) || (o_asn o =? 23456))
  && ((o_hold o =? 0) || (3 <=? o_hold o))
  && negb (multicast_id (o_id o))
  && negb ((localAS =? remoteAS) && (localID =? o_id o))
  && existsb is_as4 (concat (o_params o))
  && forallb (as4_ok remoteAS) (concat (o_params o)).

(* the notification a refusal may carry, with the fault it names *)
Definition semantic_fault (localID localAS remoteAS : N) (o : openmsg) (n : notif) : bool :=
  let caps := concat (o_params o) in
  match n_code n, n_sub n with
  | 2, 1 => negb (o_ver o =? 4) && beqb (n_data n) [0; 4]
  | 2, 2 => (negb (o_asn o =? remoteAS) && negb (o_asn o =? 23456)
             || negb (forallb (as4_ok remoteAS) caps)
             || ((o_asn o =? 23456) && negb (existsb is_as4 caps)))
            && beqb (n_data n) []
  | 2, 3 => (multicast_id (o_id o) || ((localAS =? remoteAS) && (localID =? o_id o)))
            && beqb (n_data n) []
  | 2, 6 => ((o_hold o =? 1) || (o_hold o =? 2)) && beqb (n_data n) []
  | 2, 7 => negb (existsb is_as4 caps) && beqb (n_data n) (65 :: 4 :: be32 remoteAS)
  | 2, 0 => existsb (fun c => is_as4 c && negb (blen (cap_val c) =? 4)) caps && beqb (n_data n) []
  | _, _ => false
  end.

(* structural faults of the optional-parameters field, for the "fault actually
   present" clause: walk the TLVs by their declared lengths *)
Fixpoint tlv_walk (fuel : nat) (b : bytes) : list (N * bytes) * bool :=
  match fuel with
  | O => ([], false)
  | S f =>
      match b with
      | [] => ([], true)
      | t :: l :: r =>
          if l <=? blen r then
            let (ts, ok) := tlv_walk f (drop l r) in ((t, take l r) :: ts, ok)
          else ([], false)
      | _ => ([], false)
      end
  end.
Definition tlvs (b : bytes) := tlv_walk (S (length b)) b.
Definition is_nil {A} (l : list A) : bool := match l with [] => true | _ => false end.

(* empty or inconsistent parameter list / capabilities parameter: subcode 0 *)
Definition fault_inconsistent (b : bytes) : bool :=
  match b with
  | _ :: _ :: _ :: _ :: _ :: _ :: _ :: _ :: _ :: ol :: pb =>
      let (ts, ok) := tlvs pb in
      negb (ol =? blen pb) || negb ok || is_nil ts
      || existsb (fun tv => (fst tv =? 2) && (let (cs, ok2) := tlvs (snd tv) in negb ok2 || is_nil cs)) ts
  | _ => false
  end.
(* an optional parameter of unknown type: subcode 4 *)
Definition fault_unknown_param (b : bytes) : bool :=
  match b with
  | _ :: _ :: _ :: _ :: _ :: _ :: _ :: _ :: _ :: ol :: pb =>
      existsb (fun tv => negb (fst tv =? 2)) (fst (tlvs pb))
  | _ => false
  end.
