(* ServerSpec.v — the registry as an abstract map, usable configurations, admission,
   and the hold-down schedule, stated independently of the model. *)
From Verif Require Import Base Server.
From Coq Require Import ZArith.

(* a configuration that can yield a valid session *)
Definition usable (c : pcfg) (o : popts) : bool :=
  is_valid (c_remote c)
  && (negb (is_valid (o_local o)) || akind_eqb (a_kind (o_local o)) (a_kind (c_remote c)))
  && negb (c_las c =? 0) && negb (c_ras c =? 0)
  && ((o_holdsec o =? 0) || (3 <=? o_holdsec o))
  && ((1 <=? o_port o)%Z && (o_port o <=? 65535)%Z).

(* abstract registry: a partial function from remote address to configuration *)
Definition amap := addr -> option pcfg.
Definition abs (s : server) : amap :=
  fun a => match lookup a (s_peers s) with Some (c, _) => Some c | None => None end.
Definition aupd (m : amap) (a : addr) (v : option pcfg) : amap :=
  fun x => if addr_eqb x a then v else m x.

(* what one operation must return and do, in terms of the abstract map and the lifecycle *)
Definition spec_step (m : amap) (serving closed : bool) (op : sop) (out : sout)
                     (m' : amap) (serving' closed' : bool) : Prop :=
  match op, out with
  | OAdd c o, SRes r =>
      serving' = serving /\ closed' = closed /\
      if negb (usable c o) then r = RInvalid /\ (forall a, m' a = m a)
      else match m (c_remote c) with
           | Some _ => r = RExists /\ (forall a, m' a = m a)
           | None => r = RNil /\ (forall a, m' a = aupd m (c_remote c) (Some c) a)
           end
  | ODel a, SRes r =>
      serving' = serving /\ closed' = closed /\
      match m a with
      | None => r = RNotExist /\ (forall x, m' x = m x)
      | Some _ => r = RNil /\ (forall x, m' x = aupd m a None x)
      end
  | OGet a, SGet c => c = m a /\ (forall x, m' x = m x) /\ serving' = serving /\ closed' = closed
  | OList, SList l =>
      (forall c, In c l <-> exists a, m a = Some c) /\ (forall x, m' x = m x)
      /\ serving' = serving /\ closed' = closed
  | OServe, SServe started =>
      (serving = false \/ closed = true) /\
      (forall x, m' x = m x) /\ started = negb closed /\ serving' = (serving || negb closed)
      /\ closed' = closed
  | OServe, SServeBusy =>
      (* a server that is serving refuses a second Serve and is not disturbed by it *)
      serving = true /\ closed = false /\ (forall x, m' x = m x) /\ serving' = serving /\ closed' = closed
  | OClose, SClose ret =>
      (forall x, m' x = m x) /\ ret = serving /\ serving' = false /\ closed' = true
  | OBreak, SBreak ret =>
      (* a failed listener ends a running Serve for good; it is not a way to restart the server *)
      (forall x, m' x = m x) /\ ret = serving /\ serving' = false /\ closed' = (closed || serving)
  | _, _ => False
  end.

(* lifecycle: while serving every registered peer runs, otherwise none does *)
Definition same_set (l1 l2 : list addr) : Prop := forall a, In a l1 <-> In a l2.
Definition lifecycle_ok (s : server) : Prop :=
  if s_serving s then same_set (s_running s) (map fst (s_peers s)) else s_running s = [].

(* admission: source is a configured peer and, when that peer has a local address, the
   destination equals it *)
Definition spec_accepts (m : amap) (local_of : addr -> option addr) (src dst : addr) (dst_ok : bool) : bool :=
  match m src with
  | None => false
  | Some _ => match local_of src with
              | None => true
              | Some l => dst_ok && addr_eqb l dst
              end
  end.

(* hold-down schedule: k-th error of a streak (gaps below the amnesia time) *)
Definition sec (n : N) : N := n * 1000000000.
Definition spec_streak_delay (k : nat) : N := N.min (sec 60 * 2 ^ N.of_nat k) (sec 300).
