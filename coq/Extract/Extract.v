(* Extraction of the executable model and the oracles.  ExtrOcamlBasic only:
   bool, option, unit, list, prod, sumbool, sumor map to OCaml's; N, Z,
   positive and nat stay Coq datatypes. *)
From Coq Require Extraction ExtrOcamlBasic.
From Verif Require Import Base Dispatch.
Extraction Language OCaml.
Extraction "model.ml" dispatch.
