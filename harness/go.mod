module verif/harness

go 1.21

require github.com/jwhited/corebgp v0.0.0

require golang.org/x/sys v0.15.0 // indirect

replace github.com/jwhited/corebgp => /repo
