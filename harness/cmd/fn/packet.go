package main

import (
	"time"

	bgp "github.com/jwhited/corebgp"
)

func (t *tokens) notif(n *bgp.Notification) {
	t.add(uint64(n.Code), uint64(n.Subcode))
	t.bytes(n.Data)
}
func (t *tokens) cap(c bgp.Capability) {
	t.add(uint64(c.Code))
	t.bytes(c.Value)
}
func (t *tokens) caps(cs []bgp.Capability) {
	t.add(uint64(len(cs)))
	for _, c := range cs {
		t.cap(c)
	}
}
func (t *tokens) open(o *bgp.VerifOpen) {
	t.add(uint64(o.Version), uint64(o.ASN), uint64(o.HoldTime), uint64(o.BGPID), uint64(len(o.Params)))
	for _, p := range o.Params {
		t.caps(p)
	}
}

// errTokens: 1 + notification for a notificationError; [3] for any other error
func errTokens(err error) tokens {
	var t tokens
	if n, _, ok := bgp.VerifNotifOfErr(err); ok {
		t.add(1)
		t.notif(n)
		return t
	}
	return tokens{3}
}

func init() {
	handlers[1] = func(k *kase) tokens {
		var t tokens
		b, err := bgp.VerifNotifEncode(&bgp.Notification{Code: uint8(k.i(0)), Subcode: uint8(k.i(1)), Data: k.b(0)})
		if err != nil {
			return tokens{3}
		}
		t.bytes(b)
		return t
	}
	handlers[2] = func(k *kase) tokens {
		n, err := bgp.VerifNotifDecode(k.b(0))
		if err != nil {
			return tokens{1}
		}
		t := tokens{0}
		t.notif(n)
		return t
	}
	handlers[3] = func(k *kase) tokens {
		o, err := bgp.VerifOpenDecode(k.b(0))
		if err != nil {
			return errTokens(err)
		}
		t := tokens{0}
		t.open(o)
		return t
	}
	handlers[4] = func(k *kase) tokens {
		id, hold, caps, err := bgp.VerifOpenHandle(uint32(k.i(0)), uint32(k.i(1)), uint32(k.i(2)), k.b(0))
		if err != nil {
			return errTokens(err)
		}
		t := tokens{0, uint64(id), uint64(hold)}
		t.caps(caps)
		return t
	}
	handlers[5] = func(k *kase) tokens {
		var caps []bgp.Capability
		for i := 3; i < len(k.ints) && i-3 < len(k.bs); i++ {
			caps = append(caps, bgp.Capability{Code: uint8(k.ints[i]), Value: k.bs[i-3]})
		}
		b, err := bgp.VerifNewOpenEncode(uint32(k.i(0)), time.Duration(k.i(1))*time.Second, uint32(k.i(2)), caps)
		if err != nil {
			return tokens{1}
		}
		t := tokens{0}
		t.bytes(b)
		return t
	}
	handlers[12] = func(k *kase) tokens {
		v := &bgp.VerifOpen{Version: uint8(k.i(0)), ASN: uint16(k.i(1)), HoldTime: uint16(k.i(2)), BGPID: uint32(k.i(3))}
		l := k.ints[4:]
		vi := 0
		for len(l) > 0 {
			n := int(l[0])
			l = l[1:]
			caps := []bgp.Capability{}
			for j := 0; j < n && j < len(l); j++ {
				caps = append(caps, bgp.Capability{Code: uint8(l[j]), Value: k.b(vi)})
				vi++
			}
			if n > len(l) {
				n = len(l)
			}
			l = l[n:]
			v.Params = append(v.Params, caps)
		}
		b, err := bgp.VerifOpenEncode(v)
		if err != nil {
			return tokens{1}
		}
		t := tokens{0}
		t.bytes(b)
		return t
	}
	handlers[6] = func(k *kase) tokens {
		o, err := bgp.VerifOpenDecode(k.b(0))
		if err != nil {
			return tokens{3}
		}
		b, err := bgp.VerifOpenEncode(o)
		if err != nil {
			return tokens{1}
		}
		t := tokens{0}
		t.bytes(b)
		return t
	}
	handlers[7] = func(k *kase) tokens {
		m, err := bgp.VerifMessageFromBytes(k.b(0), uint8(k.i(0)))
		if err != nil {
			return errTokens(err)
		}
		t := tokens{0, uint64(m.Type)}
		switch m.Type {
		case 1:
			t.open(m.Open)
		case 2:
			t.bytes(m.Update)
		case 3:
			t.notif(m.Notif)
		}
		return t
	}
	handlers[8] = func(k *kase) tokens {
		l, err := bgp.DecodeAddPathTuples(k.b(0))
		if err != nil {
			if n, ok := err.(*bgp.Notification); ok {
				t := tokens{1}
				t.notif(n)
				return t
			}
			return tokens{3}
		}
		t := tokens{0, uint64(len(l))}
		for _, a := range l {
			t.add(uint64(a.AFI), uint64(a.SAFI))
			t.bool(a.Tx)
			t.bool(a.Rx)
		}
		return t
	}
	handlers[9] = func(k *kase) tokens {
		var l []bgp.AddPathTuple
		for i := 0; i+3 < len(k.ints); i += 4 {
			l = append(l, bgp.AddPathTuple{AFI: uint16(k.ints[i]), SAFI: uint8(k.ints[i+1]), Tx: k.ints[i+2] != 0, Rx: k.ints[i+3] != 0})
		}
		var t tokens
		t.cap(bgp.NewAddPathCapability(l))
		return t
	}
	handlers[10] = func(k *kase) tokens {
		var t tokens
		t.cap(bgp.NewMPExtensionsCapability(uint16(k.i(0)), uint8(k.i(1))))
		return t
	}
	handlers[11] = func(k *kase) tokens {
		var t tokens
		// the frame is handed to conn.Write while other goroutines encode their own messages and the caller reuses its
		// body buffer: it must not share storage with a later encoding or with the body it was built from
		in := append([]byte(nil), k.b(0)...)
		first := bgp.VerifPrependHeader(in, uint8(k.i(0)))
		_ = bgp.VerifPrependHeader(nil, uint8(k.i(0))^7)
		_ = bgp.VerifPrependHeader([]byte{0xEE}, 4)
		_ = bgp.VerifPrependHeader(in, 1)
		for i := range in {
			in[i] ^= 0xFF
		}
		t.bytes(first)
		return t
	}
}
