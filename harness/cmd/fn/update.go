package main

import (
	"errors"
	"fmt"
	"net/netip"

	bgp "github.com/jwhited/corebgp"
)

// foreignUpdErr is an UpdateError that is none of corebgp's concrete types.
type foreignUpdErr struct{ n *bgp.Notification }

func (f *foreignUpdErr) Error() string                     { return "foreign update error" }
func (f *foreignUpdErr) AsSessionReset() *bgp.Notification { return f.n }

func (t *tokens) onotif(n *bgp.Notification) {
	if n == nil {
		t.add(0)
		return
	}
	t.add(1)
	t.notif(n)
}

// err: canonical tokens of an error tree (types and notification fields only)
func (t *tokens) err(e error) {
	switch x := e.(type) {
	case *bgp.Notification:
		t.add(1)
		t.notif(x)
		return
	case *bgp.TreatAsWithdrawUpdateErr:
		t.add(2, uint64(x.Code))
		t.onotif(x.Notification)
		return
	case *bgp.AttrDiscardUpdateErr:
		t.add(3, uint64(x.Code))
		t.onotif(x.Notification)
		return
	case *foreignUpdErr:
		t.add(4)
		t.notif(x.n)
		return
	}
	switch x := e.(type) {
	case interface{ Unwrap() []error }:
		es := x.Unwrap()
		t.add(6, uint64(len(es)))
		for _, c := range es {
			t.err(c)
		}
	case interface{ Unwrap() error }:
		t.add(7)
		t.err(x.Unwrap())
	default:
		t.add(5)
	}
}
func (t *tokens) oerr(e error) {
	if e == nil {
		t.add(0)
		return
	}
	t.add(1)
	t.err(e)
}

// parseErr builds an error value from tokens; returns the rest.
func parseNotif(l []uint64) (*bgp.Notification, []uint64) {
	n := &bgp.Notification{Code: uint8(l[0]), Subcode: uint8(l[1])}
	k := int(l[2])
	if k > 0 {
		n.Data = make([]byte, k)
		for i := 0; i < k; i++ {
			n.Data[i] = byte(l[3+i])
		}
	}
	return n, l[3+k:]
}
func parseONotif(l []uint64) (*bgp.Notification, []uint64) {
	if l[0] == 0 {
		return nil, l[1:]
	}
	return parseNotif(l[1:])
}
func parseErr(l []uint64) (error, []uint64) {
	switch l[0] {
	case 1:
		n, r := parseNotif(l[1:])
		return n, r
	case 2:
		n, r := parseONotif(l[2:])
		return &bgp.TreatAsWithdrawUpdateErr{Code: uint8(l[1]), Notification: n}, r
	case 3:
		n, r := parseONotif(l[2:])
		return &bgp.AttrDiscardUpdateErr{Code: uint8(l[1]), Notification: n}, r
	case 4:
		n, r := parseNotif(l[1:])
		return &foreignUpdErr{n}, r
	case 5:
		return errors.New("other"), l[1:]
	case 6:
		k := int(l[1])
		r := l[2:]
		es := make([]error, 0, k)
		for i := 0; i < k; i++ {
			var e error
			e, r = parseErr(r)
			es = append(es, e)
		}
		return errors.Join(es...), r
	case 7:
		e, r := parseErr(l[1:])
		return fmt.Errorf("wrapped: %w", e), r
	}
	panic("bad error token")
}
func oerrOf(l []uint64) error {
	if len(l) == 0 {
		return nil
	}
	e, _ := parseErr(l)
	return e
}

func scriptOf(l []uint64) []error {
	var s []error
	for len(l) > 0 {
		k := int(l[0])
		s = append(s, oerrOf(l[1:1+k]))
		l = l[1+k:]
	}
	return s
}

func (t *tokens) prefix(p netip.Prefix) {
	t.add(uint64(p.Bits()))
	t.bytes(p.Addr().AsSlice())
}

type rec struct {
	script []error
	k      int
	calls  tokens
	n      int
}

func (r *rec) next() error {
	var e error
	if r.k < len(r.script) {
		e = r.script[r.k]
	}
	r.k++
	r.n++
	return e
}

func init() {
	handlers[20] = func(k *kase) tokens {
		ipv6 := k.i(0) != 0
		if k.i(1) == 0 {
			l, err := bgp.VerifDecodePrefixes(k.b(0), ipv6)
			if err != nil {
				return tokens{1}
			}
			t := tokens{0, uint64(len(l))}
			for _, p := range l {
				t.prefix(p)
			}
			return t
		}
		l, err := bgp.VerifDecodeAddPathPrefixes(k.b(0), ipv6)
		if err != nil {
			return tokens{1}
		}
		t := tokens{0, uint64(len(l))}
		for _, p := range l {
			t.add(uint64(p.ID))
			t.prefix(p.Prefix)
		}
		return t
	}
	handlers[21] = func(k *kase) tokens {
		var got tokens
		plain := func(_ int, l []netip.Prefix) error {
			got = tokens{0, uint64(len(l))}
			for _, p := range l {
				got.prefix(p)
			}
			return nil
		}
		ap := func(_ int, l []bgp.AddPathPrefix) error {
			got = tokens{0, uint64(len(l))}
			for _, p := range l {
				got.add(uint64(p.ID))
				got.prefix(p.Prefix)
			}
			return nil
		}
		var err error
		switch k.i(0) {
		case 0:
			err = bgp.NewNLRIDecodeFn(plain)(0, k.b(0))
		case 1:
			err = bgp.NewNLRIAddPathDecodeFn(ap)(0, k.b(0))
		case 2:
			err = bgp.NewWithdrawnRoutesDecodeFn(plain)(0, k.b(0))
		case 3:
			err = bgp.NewWithdrawnAddPathRoutesDecodeFn(ap)(0, k.b(0))
		case 4:
			var l []netip.Prefix
			l, err = bgp.DecodeMPIPv6Prefixes(k.b(0))
			if err == nil {
				plain(0, l)
			}
		case 5:
			var l []bgp.AddPathPrefix
			l, err = bgp.DecodeMPIPv6AddPathPrefixes(k.b(0))
			if err == nil {
				ap(0, l)
			}
		}
		if err != nil {
			if n, ok := err.(*bgp.Notification); ok {
				t := tokens{1}
				t.notif(n)
				return t
			}
			return tokens{3}
		}
		return got
	}
	handlers[22] = func(k *kase) tokens {
		l, err := bgp.DecodeMPReachIPv6NextHops(k.b(0))
		if err != nil {
			if n, ok := err.(*bgp.Notification); ok {
				t := tokens{1}
				t.notif(n)
				return t
			}
			return tokens{3}
		}
		t := tokens{0, uint64(len(l))}
		for _, a := range l {
			t.bytes(a.AsSlice())
		}
		return t
	}
	handlers[23] = func(k *kase) tokens {
		flags := bgp.PathAttrFlags(k.i(1))
		b := k.b(0)
		var err error
		t := tokens{0}
		u32s := func(l []uint32) {
			t.add(uint64(len(l)))
			for _, x := range l {
				t.add(uint64(x))
			}
		}
		switch uint8(k.i(0)) {
		case bgp.PATH_ATTR_ORIGIN:
			var v bgp.OriginPathAttr
			if err = v.Decode(flags, b); err == nil {
				t.add(1, uint64(v))
			}
		case bgp.PATH_ATTR_AS_PATH:
			var v bgp.ASPathAttr
			if err = v.Decode(flags, b); err == nil {
				t.add(2)
				u32s(v.ASSet)
				u32s(v.ASSequence)
			}
		case bgp.PATH_ATTR_NEXT_HOP:
			var v bgp.NextHopPathAttr
			if err = v.Decode(flags, b); err == nil {
				t.add(3)
				t.bytes(netip.Addr(v).AsSlice())
			}
		case bgp.PATH_ATTR_MED:
			var v bgp.MEDPathAttr
			if err = v.Decode(flags, b); err == nil {
				t.add(4, uint64(v))
			}
		case bgp.PATH_ATTR_LOCAL_PREF:
			var v bgp.LocalPrefPathAttr
			if err = v.Decode(flags, b); err == nil {
				t.add(4, uint64(v))
			}
		case bgp.PATH_ATTR_ATOMIC_AGGREGATE:
			var v bgp.AtomicAggregatePathAttr
			if err = v.Decode(flags, b); err == nil {
				if !bool(v) {
					t.add(50)
				} else {
					t.add(5)
				}
			}
		case bgp.PATH_ATTR_AGGREGATOR:
			var v bgp.AggregatorPathAttr
			if err = v.Decode(flags, b); err == nil {
				t.add(6, uint64(v.AS))
				t.bytes(v.IP.AsSlice())
			}
		case bgp.PATH_ATTR_COMMUNITY:
			var v bgp.CommunitiesPathAttr
			if err = v.Decode(flags, b); err == nil {
				t.add(7)
				u32s([]uint32(v))
			}
		case bgp.PATH_ATTR_ORIGINATOR_ID:
			var v bgp.OriginatorIDPathAttr
			if err = v.Decode(flags, b); err == nil {
				t.add(3)
				t.bytes(netip.Addr(v).AsSlice())
			}
		case bgp.PATH_ATTR_CLUSTER_LIST:
			var v bgp.ClusterListPathAttr
			if err = v.Decode(flags, b); err == nil {
				t.add(8, uint64(len(v)))
				for _, a := range v {
					t.bytes(a.AsSlice())
				}
			}
		case bgp.PATH_ATTR_LARGE_COMMUNITY:
			var v bgp.LargeCommunitiesPathAttr
			if err = v.Decode(flags, b); err == nil {
				t.add(9, uint64(len(v)))
				for _, c := range v {
					t.add(uint64(c.GlobalAdmin), uint64(c.LocalData1), uint64(c.LocalData2))
				}
			}
		default:
			return tokens{1, 5}
		}
		if err != nil {
			t = tokens{1}
			t.err(err)
		}
		return t
	}
	handlers[24] = func(k *kase) tokens {
		p := bgp.PathAttrFlags(k.i(0))
		var t tokens
		t.bool(p.Optional())
		t.bool(p.Transitive())
		t.bool(p.Partial())
		t.bool(p.ExtendedLen())
		return t
	}
	handlers[25] = func(k *kase) tokens {
		cb := oerrOf(k.ints[1:])
		call := tokens{0}
		fn := bgp.NewMPReachNLRIDecodeFn(func(_ int, afi uint16, safi uint8, nh, nlri []byte) error {
			call = tokens{1, uint64(afi), uint64(safi)}
			call.bytes(nh)
			call.bytes(nlri)
			return cb
		})
		err := fn(0, bgp.PathAttrFlags(k.i(0)), k.b(0))
		t := tokens{0}
		t.add(call...)
		t.oerr(err)
		return t
	}
	handlers[26] = func(k *kase) tokens {
		cb := oerrOf(k.ints[1:])
		call := tokens{0}
		fn := bgp.NewMPUnreachNLRIDecodeFn(func(_ int, afi uint16, safi uint8, wd []byte) error {
			call = tokens{2, uint64(afi), uint64(safi)}
			call.bytes(wd)
			return cb
		})
		err := fn(0, bgp.PathAttrFlags(k.i(0)), k.b(0))
		t := tokens{0}
		t.add(call...)
		t.oerr(err)
		return t
	}
	handlers[27] = func(k *kase) tokens {
		r := &rec{script: scriptOf(k.ints)}
		d := bgp.NewUpdateDecoder[*rec](
			func(r *rec, b []byte) error {
				r.calls.add(1)
				r.calls.bytes(b)
				return r.next()
			},
			func(r *rec, code uint8, flags bgp.PathAttrFlags, b []byte) error {
				r.calls.add(2, uint64(code), uint64(flags))
				r.calls.bytes(b)
				return r.next()
			},
			func(r *rec, b []byte) error {
				r.calls.add(3)
				r.calls.bytes(b)
				return r.next()
			},
		)
		for _, prime := range k.bs[1:] {
			// earlier UPDATEs decoded with the same decoder (callbacks returning nil): Decode is a function of the body alone
			d.Decode(&rec{}, prime) // nolint: errcheck
		}
		err := d.Decode(r, k.b(0))
		t := tokens{0, uint64(r.n)}
		t.add(r.calls...)
		t.oerr(err)
		return t
	}
	handlers[28] = func(k *kase) tokens {
		var t tokens
		t.onotif(bgp.UpdateNotificationFromErr(oerrOf(k.ints)))
		return t
	}
}
