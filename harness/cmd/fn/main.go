// fn is the function-level driver: it reads case lines (see ocaml/driver.ml for
// the format), runs the corresponding corebgp entry point and prints the
// canonical token list. A Go panic is caught and printed as "2".
package main

import (
	"bufio"
	"encoding/hex"
	"fmt"
	"os"
	"strconv"
	"strings"
)

type tokens []uint64

func (t *tokens) add(v ...uint64) { *t = append(*t, v...) }
func (t *tokens) bytes(b []byte) {
	t.add(uint64(len(b)))
	for _, x := range b {
		t.add(uint64(x))
	}
}
func (t *tokens) bool(b bool) {
	if b {
		t.add(1)
	} else {
		t.add(0)
	}
}

type kase struct {
	op   int
	ints []uint64
	bs   [][]byte
}

func (k *kase) i(n int) uint64 {
	if n < len(k.ints) {
		return k.ints[n]
	}
	return 0
}
func (k *kase) b(n int) []byte {
	if n < len(k.bs) {
		return k.bs[n]
	}
	return nil
}

var handlers = map[int]func(k *kase) tokens{}

func run(k *kase) (out tokens) {
	defer func() {
		if r := recover(); r != nil {
			if os.Getenv("VERIF_SHOW_PANIC") != "" {
				fmt.Fprintln(os.Stderr, "panic:", r)
			}
			out = tokens{2}
		}
	}()
	h, ok := handlers[k.op]
	if !ok {
		return tokens{999}
	}
	return h(k)
}

func main() {
	in := bufio.NewReaderSize(os.Stdin, 1<<20)
	w := bufio.NewWriterSize(os.Stdout, 1<<20)
	defer w.Flush()
	for {
		line, err := in.ReadString('\n')
		line = strings.TrimRight(line, "\n")
		if line != "" || err == nil {
			fields := strings.Fields(line)
			if len(fields) == 0 {
				fmt.Fprintln(w)
			} else {
				k := &kase{}
				k.op, _ = strconv.Atoi(fields[0])
				for _, f := range fields[1:] {
					if f == "|" {
						break
					}
					if f[0] == 'x' {
						b, herr := hex.DecodeString(f[1:])
						if herr != nil {
							fmt.Fprintln(os.Stderr, "bad hex:", f)
							os.Exit(2)
						}
						k.bs = append(k.bs, b)
					} else {
						v, _ := strconv.ParseUint(f, 10, 64)
						k.ints = append(k.ints, v)
					}
				}
				out := run(k)
				for i, v := range out {
					if i > 0 {
						w.WriteByte(' ')
					}
					w.WriteString(strconv.FormatUint(v, 10))
				}
				w.WriteByte('\n')
			}
		}
		if err != nil {
			return
		}
	}
}
