package main

import (
	bgp "github.com/jwhited/corebgp"
)

func init() {
	// op 61: ints [eof, chunk sizes...] bs [stream]
	handlers[61] = func(k *kase) tokens {
		s := k.b(0)
		var chunks [][]byte
		for _, n := range k.ints[1:] {
			if int(n) > len(s) {
				n = uint64(len(s))
			}
			chunks = append(chunks, append([]byte(nil), s[:n]...))
			s = s[n:]
		}
		if len(s) > 0 {
			chunks = append(chunks, append([]byte(nil), s...))
		}
		var t tokens
		for _, e := range bgp.VerifRunReader(chunks, k.i(0) != 0) {
			if e.Err != nil {
				if n, _, ok := bgp.VerifNotifOfErr(e.Err); ok {
					t.add(2)
					t.notif(n)
				} else {
					t.add(3)
				}
				continue
			}
			m := e.Msg
			t.add(1, uint64(m.Type))
			switch m.Type {
			case 1:
				t.open(m.Open)
			case 2:
				t.bytes(m.Update)
			case 3:
				t.notif(m.Notif)
			}
		}
		return t
	}
}
