package main

import (
	"encoding/binary"
	"errors"
	"net"
	"net/netip"
	"sort"
	"sync/atomic"
	"time"

	bgp "github.com/jwhited/corebgp"
)

func addrOf(kind, id uint64) netip.Addr {
	switch kind {
	case 1:
		var b [4]byte
		binary.BigEndian.PutUint32(b[:], uint32(id))
		b[0] = 127 // keep every dial on loopback
		return netip.AddrFrom4(b)
	case 2:
		var b [16]byte
		if id >= 1<<32 { // ids from 2^32 up stand for IPv4-mapped IPv6 addresses ::ffff:127.x.y.z (distinct registry keys)
			b[10], b[11] = 0xff, 0xff
			binary.BigEndian.PutUint32(b[12:], uint32(id))
			b[12] = 127
			return netip.AddrFrom16(b)
		}
		b[0] = 0xfd
		binary.BigEndian.PutUint64(b[8:], id)
		return netip.AddrFrom16(b)
	case 3: // IPv4-mapped IPv6
		var b [16]byte
		b[10], b[11] = 0xff, 0xff
		binary.BigEndian.PutUint32(b[12:], uint32(id))
		b[12] = 127
		return netip.AddrFrom16(b)
	}
	return netip.Addr{}
}

func kindOf(a netip.Addr) (uint64, uint64) {
	switch {
	case a.Is4():
		b := a.As4()
		b[0] = 0
		return 1, uint64(binary.BigEndian.Uint32(b[:]))
	case a.Is4In6():
		b := a.As16()
		return 2, 1<<32 + uint64(b[13])<<16 + uint64(b[14])<<8 + uint64(b[15])
	case a.Is6():
		b := a.As16()
		return 2, binary.BigEndian.Uint64(b[8:])
	}
	return 0, 0
}

type nopPlugin struct{}

func (nopPlugin) GetCapabilities(bgp.PeerConfig) []bgp.Capability { return nil }
func (nopPlugin) OnOpenMessage(bgp.PeerConfig, netip.Addr, []bgp.Capability) *bgp.Notification {
	return nil
}
func (nopPlugin) OnEstablished(bgp.PeerConfig, bgp.UpdateMessageWriter) bgp.UpdateMessageHandler {
	return nil
}
func (nopPlugin) OnClose(bgp.PeerConfig) {}

func errCode(err error) uint64 {
	switch {
	case err == nil:
		return 0
	case errors.Is(err, bgp.ErrPeerAlreadyExists):
		return 1
	case errors.Is(err, bgp.ErrPeerNotExist):
		return 2
	case errors.Is(err, bgp.ErrServerClosed):
		return 3
	}
	return 4
}

func (t *tokens) cfg(c bgp.PeerConfig) {
	k, id := kindOf(c.RemoteAddress)
	t.add(k, id, uint64(c.LocalAS), uint64(c.RemoteAS))
}

func addOpts(l []uint64) (bgp.PeerConfig, []bgp.PeerOption) {
	// kr ir las ras kl il hold port passive
	cfg := bgp.PeerConfig{RemoteAddress: addrOf(l[0], l[1]), LocalAS: uint32(l[2]), RemoteAS: uint32(l[3])}
	opts := []bgp.PeerOption{bgp.WithHoldTime(uint16(l[6])), bgp.WithPort(int(int64(l[7]) - 100000)),
		bgp.WithIdleHoldTime(50 * time.Millisecond), bgp.WithConnectRetryTime(200 * time.Millisecond)}
	if l[4] != 0 {
		opts = append(opts, bgp.WithLocalAddress(addrOf(l[4], l[5])))
	}
	if l[8] != 0 {
		opts = append(opts, bgp.WithPassive())
	}
	return cfg, opts
}

type fakeAddr string

func (f fakeAddr) Network() string { return "tcp" }
func (f fakeAddr) String() string  { return string(f) }

type fakeConn struct {
	net.Conn
	remote, local fakeAddr
	closed        atomic.Int32
	written       atomic.Int32
}

func (f *fakeConn) RemoteAddr() net.Addr { return f.remote }
func (f *fakeConn) LocalAddr() net.Addr  { return f.local }
func (f *fakeConn) Close() error         { f.closed.Add(1); return nil }
func (f *fakeConn) Write(b []byte) (int, error) {
	f.written.Add(int32(len(b)))
	return len(b), nil
}

func init() {
	handlers[40] = func(k *kase) tokens {
		s, err := bgp.NewServer(netip.MustParseAddr("127.0.0.1"))
		if err != nil {
			return tokens{998}
		}
		var t tokens
		var serveRes chan error
		var extra []chan error // Serve calls made while the server was already serving and that did not return at once
		var lis, lis2 net.Listener
		l := k.ints
		for len(l) > 0 {
			switch l[0] {
			case 1:
				cfg, opts := addOpts(l[1:10])
				t.add(errCode(s.AddPeer(cfg, nopPlugin{}, opts...)))
				l = l[10:]
			case 2:
				t.add(errCode(s.DeletePeer(addrOf(l[1], l[2]))))
				l = l[3:]
			case 3:
				c, err := s.GetPeer(addrOf(l[1], l[2]))
				if err != nil {
					t.add(errCode(err))
				} else {
					t.add(0)
					t.cfg(c)
				}
				l = l[3:]
			case 4:
				cs := s.ListPeers()
				sort.Slice(cs, func(i, j int) bool {
					ki, ii := kindOf(cs[i].RemoteAddress)
					kj, ij := kindOf(cs[j].RemoteAddress)
					return ki < kj || ki == kj && ii < ij
				})
				t.add(uint64(len(cs)))
				for _, c := range cs {
					t.cfg(c)
				}
				l = l[1:]
			case 5:
				ch := make(chan error, 1)
				nl, lerr := net.Listen("tcp", "127.0.0.1:0")
				if lerr != nil {
					return append(t, 996)
				}
				nl2, lerr2 := net.Listen("tcp", "127.0.0.1:0")
				if lerr2 != nil {
					return append(t, 996)
				}
				go func() { ch <- s.Serve([]net.Listener{nl, nl2}) }()
				if serveRes != nil {
					// Serve while already serving: it must come back with an error; if it stays (serving a second
					// time) keep it so that the Close below waits for it too
					select {
					case err := <-ch:
						nl.Close()
						nl2.Close()
						if err != nil && !errors.Is(err, bgp.ErrServerClosed) {
							t.add(5, 3)
						} else {
							t.add(5, 4)
						}
					case <-time.After(150 * time.Millisecond):
						extra = append(extra, ch)
						t.add(5, 2)
					}
					l = l[1:]
					continue
				}
				started := false
				deadline := time.Now().Add(2 * time.Second)
				var early error
			wait:
				for time.Now().Before(deadline) {
					select {
					case early = <-ch:
						break wait
					default:
					}
					if bgp.VerifServing(s) {
						started = true
						break
					}
					time.Sleep(200 * time.Microsecond)
				}
				if started {
					serveRes = ch
					lis, lis2 = nl, nl2
					t.add(5, 1)
				} else if errors.Is(early, bgp.ErrServerClosed) {
					t.add(5, 0)
				} else {
					t.add(5, 99)
				}
				l = l[1:]
			case 6:
				s.Close()
				for _, ch := range extra {
					select {
					case <-ch:
					case <-time.After(5 * time.Second):
					}
				}
				extra = nil
				if serveRes != nil {
					select {
					case err := <-serveRes:
						if errors.Is(err, bgp.ErrServerClosed) {
							t.add(6, 1)
						} else {
							t.add(6, 98)
						}
					case <-time.After(5 * time.Second):
						t.add(6, 97)
					}
					serveRes = nil
				} else {
					t.add(6, 0)
				}
				l = l[1:]
			case 7: // the listener fails under a running Serve
				if serveRes != nil && lis != nil {
					lis.Close()
					select {
					case err := <-serveRes:
						// Serve has returned: every listener it was given must be closed (nothing accepts any more)
						still := false
						if c, derr := net.DialTimeout("tcp", lis2.Addr().String(), 300*time.Millisecond); derr == nil {
							still = true
							c.Close()
						}
						switch {
						case still:
							t.add(7, 96)
						case err != nil && !errors.Is(err, bgp.ErrServerClosed):
							t.add(7, 1)
						default:
							t.add(7, 98)
						}
						lis2.Close()
					case <-time.After(5 * time.Second):
						t.add(7, 97)
					}
					serveRes = nil
					lis, lis2 = nil, nil
				} else {
					t.add(7, 0)
				}
				l = l[1:]
			default:
				return append(t, 998)
			}
		}
		for _, ch := range extra {
			s.Close()
			select {
			case <-ch:
			case <-time.After(5 * time.Second):
			}
		}
		if serveRes != nil { // never leave a server running
			s.Close()
			<-serveRes
		}
		return t
	}
	handlers[41] = func(k *kase) tokens {
		s, _ := bgp.NewServer(netip.MustParseAddr("127.0.0.1"))
		l := k.ints
		n := int(l[0])
		l = l[1:]
		for i := 0; i < n; i++ {
			cfg := bgp.PeerConfig{RemoteAddress: addrOf(l[0], l[1]), LocalAS: 65001, RemoteAS: 65000}
			opts := []bgp.PeerOption{bgp.WithPassive()}
			if l[2] != 0 {
				opts = append(opts, bgp.WithLocalAddress(addrOf(l[2], l[3])))
			}
			s.AddPeer(cfg, nopPlugin{}, opts...) // nolint: errcheck
			l = l[4:]
		}
		src := addrOf(l[0], l[1])
		dst := addrOf(l[2], l[3])
		c := &fakeConn{remote: fakeAddr(net.JoinHostPort(src.String(), "40000"))}
		if l[4] != 0 {
			c.local = fakeAddr(net.JoinHostPort(dst.String(), "179"))
		} else {
			c.local = "not-an-address"
		}
		a, ok := bgp.VerifAdmit(s, c)
		if ok {
			kd, id := kindOf(a)
			if c.closed.Load() != 0 || c.written.Load() != 0 {
				return tokens{1, kd, id, 77}
			}
			return tokens{1, kd, id}
		}
		if c.closed.Load() != 1 || c.written.Load() != 0 {
			return tokens{0, 77, uint64(c.closed.Load()), uint64(c.written.Load())}
		}
		return tokens{0}
	}
	handlers[42] = func(k *kase) tokens {
		s, _ := bgp.NewServer(netip.MustParseAddr("127.0.0.1"))
		cfg, opts := addOpts(k.ints)
		err := s.AddPeer(cfg, nopPlugin{}, opts...)
		if err == nil {
			if len(s.ListPeers()) != 1 {
				return tokens{77}
			}
			return tokens{1}
		}
		if len(s.ListPeers()) != 0 { // rejection must have no side effect
			return tokens{78}
		}
		return tokens{0}
	}
	handlers[43] = func(k *kase) tokens {
		gaps := make([]time.Duration, len(k.ints))
		for i, g := range k.ints {
			gaps[i] = time.Duration(g)
		}
		var t tokens
		for _, d := range bgp.VerifDelayRun(gaps) {
			t.add(uint64(d))
		}
		return t
	}
	handlers[44] = func(k *kase) tokens {
		_, err := bgp.NewServer(addrOf(k.i(0), k.i(1)))
		var t tokens
		t.bool(err == nil)
		return t
	}
}
