// sys is the system-level driver: each scenario (one JSON object per input line) runs a
// real corebgp Server with one configured peer against a scripted remote speaker over
// loopback TCP and prints the observable history as one JSON line: per-connection wire
// messages as seen by the remote, plugin callback log, hook events of the peer manager and
// FSMs, API call timings, goroutine leaks.
package main

import (
	"bufio"
	"context"
	"encoding/binary"
	"encoding/hex"
	"encoding/json"
	"errors"
	"fmt"
	"io"
	"net"
	"net/netip"
	"os"
	"runtime"
	"sort"
	"strings"
	"sync"
	"sync/atomic"
	"syscall"
	"time"

	bgp "github.com/jwhited/corebgp"
)

type Scenario struct {
	ID             int               `json:"id"`
	LocalAS        uint32            `json:"local_as"`
	RemoteAS       uint32            `json:"remote_as"`
	LocalID        uint32            `json:"local_id"`
	Hold           uint16            `json:"hold"`
	Passive        bool              `json:"passive"`
	IdleHoldMs     int               `json:"idle_hold_ms"`
	ConnectRetryMs int               `json:"connect_retry_ms"`
	LocalAddr      bool              `json:"local_addr"` // configure WithLocalAddress(127.0.0.1)
	Caps           [][2]any          `json:"caps"`
	OnOpen         []any             `json:"on_open"`
	Handler        [][]any           `json:"handler"`
	EstWrites      []string          `json:"est_writes"`
	HandlerWrites  map[string]string `json:"handler_writes"` // update index -> body to write from inside the handler
	Steps          [][]any           `json:"steps"`
	NoServe        bool              `json:"no_serve"`
	OnOpenDelayMs  int               `json:"on_open_delay_ms"`
	EstDelayMs     int               `json:"est_delay_ms"`
	HandlerDelayMs int               `json:"handler_delay_ms"`
	CapsDelayMs    int               `json:"caps_delay_ms"`
	Wildcard       bool              `json:"wildcard"`   // corebgp listens on 0.0.0.0 instead of 127.0.0.1
	StartStalled   bool              `json:"start_stalled"` // the remote's accept queue is full before the peer starts
	StartRefused   bool              `json:"start_refused"` // nothing listens on the remote's port before the peer starts
	FinalCloseMs   int               `json:"final_close_ms"` // how long the teardown waits for Close (default 8000)
	ProbeOnClose   string            `json:"probe_on_close"` // when corebgp closes an inbound connection: WriteUpdate(this body) on the session's writer first
	TwoListeners   bool              `json:"two_listeners"` // corebgp serves on two listeners; "dial" with a third argument 1 uses the first, else the last
	HoldDownMs     int               `json:"holddown_ms"`   // shorten the 60..300 s hold-down timer to this (process-wide while the scenario runs)
	CapsSeq        [][][2]any        `json:"caps_seq"`       // GetCapabilities returns the k-th list on its k-th call (then the last one)
	HandlerWriteN  int               `json:"handler_write_n"` // number of WriteUpdate calls made for a handler_writes entry (default 1)
	OnCloseDelayMs int               `json:"onclose_delay_ms"`
	NilHandler     bool              `json:"nil_handler"`   // OnEstablished returns a nil UpdateMessageHandler
	OnCloseWrite   string            `json:"onclose_write"` // body to WriteUpdate from inside OnClose (recorded as write "onclose")
	FirstOnly      bool              `json:"first_only"` // plugin script (on_open, handler, delays) applies to the first session only
}

type Msg struct {
	T    int    `json:"t"`
	Body string `json:"b"`
	At   int64  `json:"at"` // ms since scenario start
}

type ConnRec struct {
	Name     string `json:"name"`
	Dir      string `json:"dir"` // "in" (remote dialled corebgp) or "out" (corebgp dialled remote)
	Msgs     []Msg  `json:"msgs"`
	Sent     []Msg  `json:"sent"`    // what the scripted remote wrote: type octet (0 if shorter than a header), time just before the write
	Garbage  string `json:"garbage"` // bytes that did not parse as a message
	EOF      bool   `json:"eof"`
	EOFAt    int64  `json:"eof_at"`
	ReadErr  string `json:"read_err"`
	Refused  bool   `json:"refused"`
	OpenedAt int64  `json:"opened_at"`
	NBytes   int    `json:"nbytes"`
	mu       sync.Mutex
	c        net.Conn
	done     chan struct{}
}

type CB struct {
	Seq  int64  `json:"seq"`
	Name string `json:"name"`
	Ph   string `json:"ph"` // enter / exit
	Arg  string `json:"arg"`
	At   int64  `json:"at"`
}

type APICall struct {
	Name string `json:"name"`
	Err  string `json:"err"`
	Ms   int64  `json:"ms"`
	At   int64  `json:"at"`
}

type Event struct {
	Seq  uint64   `json:"seq"`
	Kind string   `json:"kind"`
	Args []string `json:"args"`
	At   int64    `json:"at"`
}

type Result struct {
	ID       int        `json:"id"`
	Conns    []*ConnRec `json:"conns"`
	CBs      []CB       `json:"cbs"`
	API      []APICall  `json:"api"`
	Events   []Event    `json:"events"`
	Writes   []APICall  `json:"writes"`
	Dials    []int64    `json:"dials"` // times (ms) corebgp's dialer reached the remote side or DialerControl
	ServeErr string     `json:"serve_err"`
	WaitsExpired int    `json:"waits_expired"` // recv / wait_event steps that ran into their time limit (the script lost its footing)
	Inbound  []*Inbound `json:"inbound"` // every connection corebgp's listener accepted: when, and when corebgp closed it
	Leaked   int        `json:"leaked"`
	Error    string     `json:"error"`
	StepLog  []string   `json:"steplog"`
}

// Inbound is one connection accepted by corebgp's listener; ClosedAt is set by an explicit Close() from corebgp
// (a finalizer closing the descriptor of a dropped connection does not count)
type Inbound struct {
	Remote     string `json:"remote"`
	AcceptedAt int64  `json:"accepted_at"`
	ClosedAt   int64  `json:"closed_at"` // -1: corebgp never closed it
}

type trackedListener struct {
	net.Listener
	r *runner
}

type trackedConn struct {
	net.Conn
	r   *runner
	rec *Inbound
}

func (l *trackedListener) Accept() (net.Conn, error) {
	c, err := l.Listener.Accept()
	if err != nil {
		return nil, err
	}
	rec := &Inbound{Remote: c.RemoteAddr().String(), AcceptedAt: l.r.ms(), ClosedAt: -1}
	l.r.mu.Lock()
	l.r.res.Inbound = append(l.r.res.Inbound, rec)
	l.r.mu.Unlock()
	return &trackedConn{Conn: c, r: l.r, rec: rec}, nil
}

func (c *trackedConn) Close() error {
	c.r.mu.Lock()
	first := c.rec.ClosedAt < 0
	if first {
		c.rec.ClosedAt = c.r.ms()
	}
	w := c.r.writer
	c.r.mu.Unlock()
	if first && c.r.sc.ProbeOnClose != "" && w != nil {
		// corebgp is closing the connection: the session has ended, so the writer it handed out must already refuse
		b, _ := hex.DecodeString(c.r.sc.ProbeOnClose)
		done := make(chan error, 1)
		go func() { done <- w.WriteUpdate(b) }()
		select {
		case err := <-done:
			c.r.recordWrite("onconnclose", err, 0)
		case <-time.After(time.Second):
			c.r.recordWrite("onconnclose-stuck", errors.New("did not return"), 0)
		}
	}
	return c.Conn.Close()
}

var cbSeq atomic.Int64

type plugin struct {
	sc      *Scenario
	run     *runner
	nUpdate atomic.Int32
	nOpen   atomic.Int32
	nEst    atomic.Int32
	nCaps   atomic.Int32
	keptMu  sync.Mutex
	kept    []keptCap // capability values handed to OnOpenMessage, kept by reference and as a copy
}

type keptCap struct {
	ref, cp []byte
}

func (p *plugin) scripted(n int32) bool { return !p.sc.FirstOnly || n <= 1 }

func (p *plugin) log(name, ph, arg string) {
	p.run.mu.Lock()
	p.run.res.CBs = append(p.run.res.CBs, CB{Seq: cbSeq.Add(1), Name: name, Ph: ph, Arg: arg, At: p.run.ms()})
	p.run.mu.Unlock()
}

func capsOf(sc *Scenario) []bgp.Capability {
	var out []bgp.Capability
	for _, c := range sc.Caps {
		code := uint8(c[0].(float64))
		v, _ := hex.DecodeString(c[1].(string))
		out = append(out, bgp.Capability{Code: code, Value: v})
	}
	return out
}

func notifOf(a []any) *bgp.Notification {
	if a == nil {
		return nil
	}
	d, _ := hex.DecodeString(a[2].(string))
	return &bgp.Notification{Code: uint8(a[0].(float64)), Subcode: uint8(a[1].(float64)), Data: d}
}

func (p *plugin) GetCapabilities(bgp.PeerConfig) []bgp.Capability {
	p.log("GetCapabilities", "enter", "")
	defer p.log("GetCapabilities", "exit", "")
	if p.sc.CapsDelayMs > 0 {
		time.Sleep(time.Duration(p.sc.CapsDelayMs) * time.Millisecond)
	}
	if n := len(p.sc.CapsSeq); n > 0 {
		k := int(p.nCaps.Add(1)) - 1
		if k >= n {
			k = n - 1
		}
		var out []bgp.Capability
		for _, c := range p.sc.CapsSeq[k] {
			v, _ := hex.DecodeString(c[1].(string))
			out = append(out, bgp.Capability{Code: uint8(c[0].(float64)), Value: v})
		}
		return out
	}
	return capsOf(p.sc)
}

func (p *plugin) OnOpenMessage(_ bgp.PeerConfig, id netip.Addr, caps []bgp.Capability) *bgp.Notification {
	var sb strings.Builder
	sb.WriteString(id.String())
	p.keptMu.Lock()
	for _, c := range caps {
		fmt.Fprintf(&sb, " %d:%s", c.Code, hex.EncodeToString(c.Value))
		p.kept = append(p.kept, keptCap{ref: c.Value, cp: append([]byte(nil), c.Value...)})
	}
	p.keptMu.Unlock()
	p.log("OnOpenMessage", "enter", sb.String())
	defer p.log("OnOpenMessage", "exit", "")
	if !p.scripted(p.nOpen.Add(1)) {
		return nil
	}
	if p.sc.OnOpenDelayMs > 0 {
		time.Sleep(time.Duration(p.sc.OnOpenDelayMs) * time.Millisecond)
	}
	return notifOf(p.sc.OnOpen)
}

func (p *plugin) OnEstablished(_ bgp.PeerConfig, w bgp.UpdateMessageWriter) bgp.UpdateMessageHandler {
	p.log("OnEstablished", "enter", "")
	p.nUpdate.Store(0)
	scripted := p.scripted(p.nEst.Add(1))
	if scripted && p.sc.EstDelayMs > 0 {
		time.Sleep(time.Duration(p.sc.EstDelayMs) * time.Millisecond)
	}
	p.run.mu.Lock()
	p.run.writer = w
	p.run.writers = append(p.run.writers, w)
	p.run.mu.Unlock()
	for _, h := range p.sc.EstWrites {
		b, _ := hex.DecodeString(h)
		err := w.WriteUpdate(b)
		p.run.recordWrite("est", err, 0)
	}
	p.log("OnEstablished", "exit", "")
	if p.sc.NilHandler {
		return nil
	}
	return func(_ bgp.PeerConfig, u []byte) *bgp.Notification {
		i := int(p.nUpdate.Add(1)) - 1
		cp := make([]byte, len(u))
		copy(cp, u)
		p.run.mu.Lock()
		p.run.delivered = append(p.run.delivered, delivered{orig: u, copy: cp})
		p.run.mu.Unlock()
		p.log("Handler", "enter", hex.EncodeToString(u))
		defer p.log("Handler", "exit", "")
		if !scripted {
			return nil
		}
		if p.sc.HandlerDelayMs > 0 {
			time.Sleep(time.Duration(p.sc.HandlerDelayMs) * time.Millisecond)
		}
		if body, ok := p.sc.HandlerWrites[fmt.Sprint(i)]; ok {
			b, _ := hex.DecodeString(body)
			n := p.sc.HandlerWriteN
			if n < 1 {
				n = 1
			}
			for j := 0; j < n; j++ {
				p.run.recordWrite("handler", w.WriteUpdate(b), 0)
			}
		}
		if i < len(p.sc.Handler) {
			return notifOf(p.sc.Handler[i])
		}
		return nil
	}
}

func (p *plugin) OnClose(bgp.PeerConfig) {
	p.log("OnClose", "enter", "")
	if p.sc.OnCloseDelayMs > 0 {
		time.Sleep(time.Duration(p.sc.OnCloseDelayMs) * time.Millisecond)
	}
	if p.sc.OnCloseWrite != "" {
		p.run.mu.Lock()
		w := p.run.writer
		p.run.mu.Unlock()
		if w != nil {
			b, _ := hex.DecodeString(p.sc.OnCloseWrite)
			p.run.recordWrite("onclose", w.WriteUpdate(b), 0)
		}
	}
	p.log("OnClose", "exit", "")
}

type delivered struct{ orig, copy []byte }

type runner struct {
	sc        *Scenario
	res       *Result
	mu        sync.Mutex
	start     time.Time
	srv       *bgp.Server
	plug      *plugin
	remote    netip.Addr
	lis       net.Listener // corebgp's listener
	lis2      net.Listener // a second listener given to Serve (two_listeners)
	rlis      net.Listener // remote speaker's listener (for corebgp's outbound connections)
	rport     int
	accepted  chan net.Conn
	refuse    atomic.Bool
	conns     map[string]*ConnRec
	writer    bgp.UpdateMessageWriter
	writers   []bgp.UpdateMessageWriter
	delivered []delivered
	serveCh   chan error
	wg        sync.WaitGroup
	stallFd   int
	dummies   []net.Conn
}

func (r *runner) acceptLoop(l net.Listener) {
	for {
		c, err := l.Accept()
		if err != nil {
			return
		}
		if r.refuse.Load() {
			if tc, ok := c.(*net.TCPConn); ok {
				tc.SetLinger(0) // nolint: errcheck
			}
			c.Close()
			continue
		}
		r.accepted <- c
	}
}

func (r *runner) ms() int64 { return time.Since(r.start).Milliseconds() }

func (r *runner) recordWrite(name string, err error, d time.Duration) {
	e := ""
	if err != nil {
		e = "err"
	}
	r.mu.Lock()
	r.res.Writes = append(r.res.Writes, APICall{Name: name, Err: e, Ms: d.Milliseconds(), At: r.ms()})
	r.mu.Unlock()
}

// readLoop parses the byte stream corebgp sends strictly into messages.
func (r *runner) readLoop(cr *ConnRec) {
	defer close(cr.done)
	br := bufio.NewReader(cr.c)
	for {
		hdr := make([]byte, 19)
		n, err := io.ReadFull(br, hdr)
		cr.mu.Lock()
		cr.NBytes += n
		cr.mu.Unlock()
		if err != nil {
			cr.mu.Lock()
			if n > 0 {
				cr.Garbage += hex.EncodeToString(hdr[:n])
			}
			cr.EOF = true
			cr.EOFAt = r.ms()
			if !errors.Is(err, io.EOF) && !errors.Is(err, io.ErrUnexpectedEOF) {
				cr.ReadErr = classifyNetErr(err)
			}
			cr.mu.Unlock()
			return
		}
		bad := false
		for i := 0; i < 16; i++ {
			if hdr[i] != 0xff {
				bad = true
			}
		}
		l := int(binary.BigEndian.Uint16(hdr[16:18]))
		if bad || l < 19 || l > 4096 || hdr[18] < 1 || hdr[18] > 4 {
			rest, _ := io.ReadAll(br)
			cr.mu.Lock()
			cr.Garbage += hex.EncodeToString(hdr) + hex.EncodeToString(rest)
			cr.NBytes += len(rest)
			cr.EOF = true
			cr.EOFAt = r.ms()
			cr.mu.Unlock()
			return
		}
		body := make([]byte, l-19)
		n, err = io.ReadFull(br, body)
		cr.mu.Lock()
		cr.NBytes += n
		if err != nil {
			cr.Garbage += hex.EncodeToString(hdr) + hex.EncodeToString(body[:n])
			cr.EOF = true
			cr.EOFAt = r.ms()
			cr.mu.Unlock()
			return
		}
		cr.Msgs = append(cr.Msgs, Msg{T: int(hdr[18]), Body: hex.EncodeToString(body), At: r.ms()})
		cr.mu.Unlock()
	}
}

func classifyNetErr(err error) string {
	if errors.Is(err, syscall.ECONNRESET) {
		return "reset"
	}
	if errors.Is(err, net.ErrClosed) {
		return "closed-locally"
	}
	return "other"
}

func (r *runner) addConn(name, dir string, c net.Conn) *ConnRec {
	cr := &ConnRec{Name: name, Dir: dir, c: c, done: make(chan struct{}), OpenedAt: r.ms()}
	r.mu.Lock()
	r.conns[name] = cr
	r.res.Conns = append(r.res.Conns, cr)
	r.mu.Unlock()
	go r.readLoop(cr)
	return cr
}

func num(a any) int {
	f, _ := a.(float64)
	return int(f)
}

func (r *runner) step(st []any) error {
	op := st[0].(string)
	switch op {
	case "dial":
		name := st[1].(string)
		d := net.Dialer{LocalAddr: &net.TCPAddr{IP: r.remote.AsSlice()}, Timeout: 2 * time.Second}
		target := r.lis.Addr().String()
		if len(st) > 2 && num(st[2]) == 2 && r.lis2 != nil {
			target = r.lis2.Addr().String()
		}
		c, err := d.Dial("tcp", target)
		if err != nil {
			cr := &ConnRec{Name: name, Dir: "in", Refused: true, done: make(chan struct{})}
			close(cr.done)
			r.mu.Lock()
			r.conns[name] = cr
			r.res.Conns = append(r.res.Conns, cr)
			r.mu.Unlock()
			return nil
		}
		r.addConn(name, "in", c)
	case "dial_to": // name, destination ip, source ip ("" = the configured remote address)
		name := st[1].(string)
		src := r.remote.AsSlice()
		if sip, _ := st[3].(string); sip != "" {
			src = netip.MustParseAddr(sip).AsSlice()
		}
		port := r.lis.Addr().(*net.TCPAddr).Port
		if len(st) > 4 && num(st[4]) == 2 && r.lis2 != nil {
			port = r.lis2.Addr().(*net.TCPAddr).Port
		}
		d := net.Dialer{LocalAddr: &net.TCPAddr{IP: src}, Timeout: 2 * time.Second}
		c, err := d.Dial("tcp", net.JoinHostPort(st[2].(string), fmt.Sprint(port)))
		if err != nil {
			cr := &ConnRec{Name: name, Dir: "in", Refused: true, done: make(chan struct{})}
			close(cr.done)
			r.mu.Lock()
			r.conns[name] = cr
			r.res.Conns = append(r.res.Conns, cr)
			r.mu.Unlock()
			return nil
		}
		r.addConn(name, "in", c)
	case "stall": // replace the remote's listener by one whose accept queue is full: connects hang
		if st[1].(bool) {
			r.rlis.Close()
			fd, err := syscall.Socket(syscall.AF_INET, syscall.SOCK_STREAM, 0)
			if err != nil {
				return err
			}
			syscall.SetsockoptInt(fd, syscall.SOL_SOCKET, syscall.SO_REUSEADDR, 1) // nolint: errcheck
			sa := &syscall.SockaddrInet4{Port: r.rport}
			copy(sa.Addr[:], r.remote.AsSlice())
			if err := syscall.Bind(fd, sa); err != nil {
				return err
			}
			if err := syscall.Listen(fd, 0); err != nil {
				return err
			}
			r.stallFd = fd
			for i := 0; i < 3; i++ { // fill the queue
				d := net.Dialer{Timeout: 150 * time.Millisecond}
				if c, err := d.Dial("tcp", net.JoinHostPort(r.remote.String(), fmt.Sprint(r.rport))); err == nil {
					r.dummies = append(r.dummies, c)
				}
			}
		} else {
			for _, c := range r.dummies {
				c.Close()
			}
			r.dummies = nil
			syscall.Close(r.stallFd)
			var err error
			lc := net.ListenConfig{Control: func(network, address string, c syscall.RawConn) error {
				return c.Control(func(fd uintptr) { syscall.SetsockoptInt(int(fd), syscall.SOL_SOCKET, syscall.SO_REUSEADDR, 1) }) // nolint: errcheck
			}}
			r.rlis, err = lc.Listen(context.Background(), "tcp", net.JoinHostPort(r.remote.String(), fmt.Sprint(r.rport)))
			if err != nil {
				return err
			}
			go r.acceptLoop(r.rlis)
		}
	case "accept":
		name := st[1].(string)
		select {
		case c := <-r.accepted:
			r.addConn(name, "out", c)
		case <-time.After(time.Duration(num(st[2])) * time.Millisecond):
			cr := &ConnRec{Name: name, Dir: "out", Refused: true, done: make(chan struct{})}
			close(cr.done)
			r.mu.Lock()
			r.conns[name] = cr
			r.res.Conns = append(r.res.Conns, cr)
			r.mu.Unlock()
		}
	case "send":
		cr := r.conns[st[1].(string)]
		if cr == nil || cr.c == nil {
			return nil
		}
		b, _ := hex.DecodeString(st[2].(string))
		var chunks []int
		if len(st) > 3 {
			if l, ok := st[3].([]any); ok {
				for _, x := range l {
					chunks = append(chunks, num(x))
				}
			}
		}
		if tc, ok := cr.c.(*net.TCPConn); ok && len(chunks) > 0 {
			tc.SetNoDelay(true) // nolint: errcheck
		}
		{
			ty := 0
			if len(b) >= 19 {
				ty = int(b[18])
			}
			cr.mu.Lock()
			cr.Sent = append(cr.Sent, Msg{T: ty, At: r.ms()})
			cr.mu.Unlock()
		}
		if len(chunks) == 0 {
			cr.c.Write(b) // nolint: errcheck
		} else {
			for _, n := range chunks {
				if n > len(b) {
					n = len(b)
				}
				if n == 0 {
					continue
				}
				cr.c.Write(b[:n]) // nolint: errcheck
				b = b[n:]
				time.Sleep(300 * time.Microsecond)
			}
			if len(b) > 0 {
				cr.c.Write(b) // nolint: errcheck
			}
		}
	case "recv":
		cr := r.conns[st[1].(string)]
		if cr == nil {
			return nil
		}
		want := num(st[2])
		deadline := time.Now().Add(time.Duration(num(st[3])) * time.Millisecond)
		for time.Now().Before(deadline) {
			cr.mu.Lock()
			n := len(cr.Msgs)
			eof := cr.EOF
			cr.mu.Unlock()
			if n >= want || eof {
				break
			}
			time.Sleep(200 * time.Microsecond)
		}
		if !time.Now().Before(deadline) {
			r.mu.Lock()
			r.res.WaitsExpired++
			r.mu.Unlock()
		}
	case "recv_eof":
		cr := r.conns[st[1].(string)]
		if cr == nil {
			return nil
		}
		select {
		case <-cr.done:
		case <-time.After(time.Duration(num(st[2])) * time.Millisecond):
		}
	case "close":
		if cr := r.conns[st[1].(string)]; cr != nil && cr.c != nil {
			if tc, ok := cr.c.(*net.TCPConn); ok {
				tc.CloseWrite() // nolint: errcheck
			}
		}
	case "fullclose":
		if cr := r.conns[st[1].(string)]; cr != nil && cr.c != nil {
			cr.c.Close()
		}
	case "reset":
		if cr := r.conns[st[1].(string)]; cr != nil && cr.c != nil {
			if tc, ok := cr.c.(*net.TCPConn); ok {
				tc.SetLinger(0) // nolint: errcheck
			}
			cr.c.Close()
		}
	case "sleep":
		time.Sleep(time.Duration(num(st[1])) * time.Millisecond)
	case "api":
		name := st[1].(string)
		t0 := time.Now()
		at := r.ms()
		var err error
		done := make(chan struct{})
		go func() {
			defer close(done)
			switch name {
			case "close":
				r.srv.Close()
			case "delete":
				err = r.srv.DeletePeer(r.remote)
			case "add":
				err = r.addPeer()
			}
		}()
		to := 5000
		if len(st) > 2 {
			to = num(st[2])
		}
		e := ""
		select {
		case <-done:
			if err != nil {
				e = err.Error()
			}
			if name != "add" {
				r.plug.log("API-RETURN", name, "")
			}
		case <-time.After(time.Duration(to) * time.Millisecond):
			e = "TIMEOUT"
		}
		r.mu.Lock()
		r.res.API = append(r.res.API, APICall{Name: name, Err: e, Ms: time.Since(t0).Milliseconds(), At: at})
		r.mu.Unlock()
	case "delete2": // two DeletePeer calls for the same peer at once: exactly one finds it
		var wg sync.WaitGroup
		errs := make([]error, 2)
		t0 := time.Now()
		at := r.ms()
		for j := 0; j < 2; j++ {
			wg.Add(1)
			go func(j int) { defer wg.Done(); errs[j] = r.srv.DeletePeer(r.remote) }(j)
			time.Sleep(time.Duration(num(st[1])) * time.Millisecond)
		}
		dd := make(chan struct{})
		go func() { wg.Wait(); close(dd) }()
		select {
		case <-dd:
			for j := 0; j < 2; j++ {
				e := ""
				if errs[j] != nil {
					e = errs[j].Error()
				}
				r.mu.Lock()
				r.res.API = append(r.res.API, APICall{Name: "delete2", Err: e, Ms: time.Since(t0).Milliseconds(), At: at})
				r.mu.Unlock()
			}
			r.plug.log("API-RETURN", "delete", "")
		case <-time.After(6 * time.Second):
			r.mu.Lock()
			r.res.API = append(r.res.API, APICall{Name: "delete2", Err: "TIMEOUT", Ms: time.Since(t0).Milliseconds(), At: at})
			r.mu.Unlock()
		}
	case "api_async":
		name := st[1].(string)
		at := r.ms()
		t0 := time.Now()
		r.wg.Add(1)
		go func() {
			defer r.wg.Done()
			var err error
			switch name {
			case "close":
				r.srv.Close()
			case "delete":
				err = r.srv.DeletePeer(r.remote)
			case "add":
				err = r.addPeer()
			}
			e := ""
			if err != nil {
				e = err.Error()
			}
			if name != "add" {
				r.plug.log("API-RETURN", name, "")
			}
			r.mu.Lock()
			r.res.API = append(r.res.API, APICall{Name: name, Err: e, Ms: time.Since(t0).Milliseconds(), At: at})
			r.mu.Unlock()
		}()
	case "write":
		r.mu.Lock()
		w := r.writer
		if len(st) > 2 {
			i := num(st[2])
			if i < len(r.writers) {
				w = r.writers[i]
			} else {
				w = nil
			}
		}
		r.mu.Unlock()
		if w == nil {
			r.recordWrite("nowriter", errors.New("no writer"), 0)
			return nil
		}
		b, _ := hex.DecodeString(st[1].(string))
		t0 := time.Now()
		wdone := make(chan error, 1)
		go func() { wdone <- w.WriteUpdate(b) }()
		select {
		case err := <-wdone:
			r.recordWrite("write", err, time.Since(t0))
		case <-time.After(5 * time.Second):
			r.recordWrite("write-stuck", errors.New("did not return"), time.Since(t0))
			return fmt.Errorf("WriteUpdate did not return within 5 s (deadlock)")
		}
	case "writers": // n goroutines x m writes each, bodies tagged goroutine/sequence
		n, m, sz := num(st[1]), num(st[2]), num(st[3])
		r.mu.Lock()
		w := r.writer
		r.mu.Unlock()
		if w == nil {
			return nil
		}
		var wg sync.WaitGroup
		for g := 0; g < n; g++ {
			wg.Add(1)
			go func(g int) {
				defer wg.Done()
				for i := 0; i < m; i++ {
					b := make([]byte, 4+sz)
					binary.BigEndian.PutUint16(b[0:], uint16(g))
					binary.BigEndian.PutUint16(b[2:], uint16(i))
					for j := 4; j < len(b); j++ {
						b[j] = byte(g*31 + i*7 + j)
					}
					err := w.WriteUpdate(b)
					r.recordWrite(fmt.Sprintf("w%d.%d", g, i), err, 0)
				}
			}(g)
		}
		if len(st) > 4 && st[4].(string) == "async" {
			r.wg.Add(1)
			go func() { defer r.wg.Done(); wg.Wait() }()
		} else {
			done := make(chan struct{})
			go func() { wg.Wait(); close(done) }()
			select {
			case <-done:
			case <-time.After(10 * time.Second):
				return fmt.Errorf("WriteUpdate calls did not return within 10 s (deadlock)")
			}
		}
	case "stop_reading": // the remote stops reading this connection (its receive window fills up)
		if cr := r.conns[st[1].(string)]; cr != nil && cr.c != nil {
			cr.c.SetReadDeadline(time.Now()) // nolint: errcheck
			if tc, ok := cr.c.(*net.TCPConn); ok {
				tc.SetReadBuffer(2048) // nolint: errcheck
			}
		}
	case "drain": // forget outbound connections the remote has not looked at yet
		for {
			select {
			case c := <-r.accepted:
				c.Close()
				continue
			default:
			}
			break
		}
	case "refuse": // true: nothing listens on the remote's port (connection refused); false: listen again
		if st[1].(bool) {
			r.rlis.Close()
		} else {
			var err error
			lc := net.ListenConfig{Control: func(network, address string, c syscall.RawConn) error {
				return c.Control(func(fd uintptr) { syscall.SetsockoptInt(int(fd), syscall.SOL_SOCKET, syscall.SO_REUSEADDR, 1) }) // nolint: errcheck
			}}
			for i := 0; i < 50; i++ {
				r.rlis, err = lc.Listen(context.Background(), "tcp", net.JoinHostPort(r.remote.String(), fmt.Sprint(r.rport)))
				if err == nil {
					break
				}
				time.Sleep(2 * time.Millisecond)
			}
			if err != nil {
				return err
			}
			go r.acceptLoop(r.rlis)
		}
	case "reset_accepted": // accept-then-reset behaviour for the following outbound connections
		r.refuse.Store(st[1].(bool))
	case "arm":
		name := st[1].(string)
		rel := bgp.VerifArmPoint(name)
		r.mu.Lock()
		releases[fmt.Sprintf("%d.%s", r.sc.ID, name)] = rel
		r.mu.Unlock()
	case "release":
		name := st[1].(string)
		r.mu.Lock()
		rel := releases[fmt.Sprintf("%d.%s", r.sc.ID, name)]
		r.mu.Unlock()
		if rel != nil {
			rel()
		}
	case "wait_event": // wait until a hook event of this kind (and optional arg substring) is recorded for this peer
		kind := st[1].(string)
		sub := ""
		if len(st) > 3 {
			sub = st[3].(string)
		}
		deadline := time.Now().Add(time.Duration(num(st[2])) * time.Millisecond)
		for time.Now().Before(deadline) {
			if eventSeen(r.remote.String(), kind, sub) {
				break
			}
			time.Sleep(200 * time.Microsecond)
		}
		if !time.Now().Before(deadline) {
			r.mu.Lock()
			r.res.WaitsExpired++
			r.mu.Unlock()
		}
	default:
		return fmt.Errorf("unknown step %q", op)
	}
	return nil
}

var releases = map[string]func(){}

// process-wide event store, drained continuously from the library's recorder
var evStore struct {
	mu sync.Mutex
	ev []bgp.VerifEvent
}

func drainOnce() {
	evStore.mu.Lock()
	ev := bgp.VerifDrainEvents()
	if len(ev) > 0 {
		evStore.ev = append(evStore.ev, ev...)
	}
	evStore.mu.Unlock()
}

func pump() {
	for {
		drainOnce()
		time.Sleep(200 * time.Microsecond)
	}
}

func eventSeen(peer, kind, sub string) bool {
	evStore.mu.Lock()
	defer evStore.mu.Unlock()
	for _, e := range evStore.ev {
		if strings.HasPrefix(kind, "point.") {
			if e.Kind == kind && len(e.Args) > 0 && e.Args[0] == sub {
				return true
			}
			continue
		}
		if e.Kind == kind && len(e.Args) > 0 && e.Args[0] == peer {
			if sub == "" || strings.Contains(strings.Join(e.Args, " "), sub) {
				return true
			}
		}
	}
	return false
}

func (r *runner) addPeer() error {
	sc := r.sc
	opts := []bgp.PeerOption{bgp.WithHoldTime(sc.Hold), bgp.WithPort(r.rport),
		bgp.WithIdleHoldTime(time.Duration(sc.IdleHoldMs) * time.Millisecond),
		bgp.WithConnectRetryTime(time.Duration(sc.ConnectRetryMs) * time.Millisecond),
		bgp.WithDialerControl(func(network, address string, c syscall.RawConn) error {
			r.mu.Lock()
			r.res.Dials = append(r.res.Dials, r.ms())
			r.mu.Unlock()
			return nil
		})}
	if sc.Passive {
		opts = append(opts, bgp.WithPassive())
	}
	if sc.LocalAddr {
		opts = append(opts, bgp.WithLocalAddress(netip.MustParseAddr("127.0.0.1")))
	}
	return r.srv.AddPeer(bgp.PeerConfig{RemoteAddress: r.remote, LocalAS: sc.LocalAS, RemoteAS: sc.RemoteAS}, r.plug, opts...)
}

func runScenario(sc *Scenario) *Result {
	res := &Result{ID: sc.ID}
	r := &runner{sc: sc, res: res, start: time.Now(), conns: map[string]*ConnRec{}, accepted: make(chan net.Conn, 16)}
	r.plug = &plugin{sc: sc, run: r}
	// unique loopback address per scenario: 127.(1+id/65536).(id/256).(id%256), never 127.0.0.1
	id := sc.ID + 2
	r.remote = netip.AddrFrom4([4]byte{127, byte(1 + (id>>16)&0x7f), byte(id >> 8), byte(id)})
	var rid [4]byte
	binary.BigEndian.PutUint32(rid[:], sc.LocalID)
	srv, err := bgp.NewServer(netip.AddrFrom4(rid))
	if err != nil {
		res.Error = "NewServer: " + err.Error()
		return res
	}
	r.srv = srv
	lhost := "127.0.0.1:0"
	if sc.Wildcard {
		lhost = "0.0.0.0:0"
	}
	r.lis, err = net.Listen("tcp", lhost)
	if err != nil {
		res.Error = err.Error()
		return res
	}
	if sc.TwoListeners {
		r.lis2, err = net.Listen("tcp", lhost)
		if err != nil {
			res.Error = err.Error()
			return res
		}
	}
	r.rlis, err = net.Listen("tcp", net.JoinHostPort(r.remote.String(), "0"))
	if err != nil {
		res.Error = err.Error()
		return res
	}
	r.rport = r.rlis.Addr().(*net.TCPAddr).Port
	go r.acceptLoop(r.rlis)
	if sc.StartStalled {
		if err := r.step([]any{"stall", true}); err != nil {
			res.Error = "stall: " + err.Error()
			return res
		}
	}
	if sc.StartRefused {
		r.rlis.Close()
	}
	if err := r.addPeer(); err != nil {
		res.Error = "AddPeer: " + err.Error()
		return res
	}
	if sc.HoldDownMs > 0 {
		bgp.VerifSetTimerOverride("holddown", time.Duration(sc.HoldDownMs)*time.Millisecond)
		defer bgp.VerifSetTimerOverride("holddown", 0)
	}
	r.serveCh = make(chan error, 1)
	if !sc.NoServe {
		ls := []net.Listener{&trackedListener{Listener: r.lis, r: r}}
		if r.lis2 != nil {
			// the first listener is the one the scenarios use by default: the extra one goes last
			ls = append(ls, &trackedListener{Listener: r.lis2, r: r})
		}
		go func() { r.serveCh <- srv.Serve(ls) }()
		for i := 0; i < 20000 && !bgp.VerifServing(srv); i++ {
			time.Sleep(100 * time.Microsecond)
		}
	}
	for _, st := range sc.Steps {
		// every step is bounded; a step that does not come back within 40 s means something is wedged
		sdone := make(chan error, 1)
		go func(st []any) { sdone <- r.step(st) }(st)
		var err error
		select {
		case err = <-sdone:
		case <-time.After(40 * time.Second):
			err = fmt.Errorf("step %v did not return within 40 s (wedged)", st[0])
		}
		if err != nil {
			res.Error = err.Error()
			break
		}
	}
	// teardown: Close must return; Serve must return
	fcms := sc.FinalCloseMs
	if fcms == 0 {
		fcms = 8000
	}
	t0 := time.Now()
	closed := make(chan struct{})
	go func() { srv.Close(); close(closed) }()
	select {
	case <-closed:
		r.plug.log("API-RETURN", "final-close", "")
		res.API = append(res.API, APICall{Name: "final-close", Ms: time.Since(t0).Milliseconds(), At: r.ms()})
	case <-time.After(time.Duration(fcms) * time.Millisecond):
		res.API = append(res.API, APICall{Name: "final-close", Err: "TIMEOUT", Ms: time.Since(t0).Milliseconds(), At: r.ms()})
	}
	if !sc.NoServe {
		select {
		case err := <-r.serveCh:
			if errors.Is(err, bgp.ErrServerClosed) {
				res.ServeErr = "ErrServerClosed"
			} else if err != nil {
				res.ServeErr = "other:" + err.Error()
			}
		case <-time.After(time.Duration(min(fcms, 3000)) * time.Millisecond):
			res.ServeErr = "TIMEOUT"
		}
	}
	r.rlis.Close()
	// give readers a moment to see EOFs, then close remote ends
	deadline := time.Now().Add(300 * time.Millisecond)
	for _, cr := range r.conns {
		select {
		case <-cr.done:
		case <-time.After(time.Until(deadline)):
		}
	}
	for _, cr := range r.conns {
		if cr.c != nil {
			cr.c.Close()
		}
	}
	for _, cr := range r.conns {
		<-cr.done
	}
	wgDone := make(chan struct{})
	go func() { r.wg.Wait(); close(wgDone) }()
	select {
	case <-wgDone:
	case <-time.After(3 * time.Second):
		res.Error += " async-calls-stuck"
	}
	time.Sleep(2 * time.Millisecond)
	// delivered slices must not have been modified afterwards
	r.mu.Lock()
	for i, d := range r.delivered {
		if string(d.orig) != string(d.copy) {
			res.Error += fmt.Sprintf(" delivered-slice-%d-modified", i)
		}
	}
	r.plug.keptMu.Lock()
	for i, kc := range r.plug.kept {
		if string(kc.ref) != string(kc.cp) {
			res.Error += fmt.Sprintf(" capability-value-%d-modified-after-OnOpenMessage", i)
			break
		}
	}
	r.plug.keptMu.Unlock()
	// freeze the inbound-connection records (corebgp may still close one later: that is then too late)
	snap := make([]*Inbound, 0, len(res.Inbound))
	for _, in := range res.Inbound {
		cp := *in
		snap = append(snap, &cp)
	}
	res.Inbound = snap
	r.mu.Unlock()
	// hook events of this peer
	peer := r.remote.String()
	drainOnce()
	evStore.mu.Lock()
	for _, e := range evStore.ev {
		if len(e.Args) > 0 && e.Args[0] == peer {
			res.Events = append(res.Events, Event{Seq: e.Seq, Kind: e.Kind, Args: e.Args[1:], At: e.At.Sub(r.start).Milliseconds()})
		}
	}
	evStore.mu.Unlock()
	sort.Slice(res.Events, func(i, j int) bool { return res.Events[i].Seq < res.Events[j].Seq })
	return res
}

// leakedGoroutines counts goroutines with a corebgp frame on their stack.
func leakedGoroutines() (int, string) {
	buf := make([]byte, 1<<22)
	n := runtime.Stack(buf, true)
	cnt := 0
	var sample string
	for _, g := range strings.Split(string(buf[:n]), "\n\n") {
		if strings.Contains(g, "github.com/jwhited/corebgp.") && !strings.Contains(g, "corebgp.Verif") {
			cnt++
			if sample == "" {
				sample = g
			}
		}
	}
	return cnt, sample
}

func main() {
	go pump()
	par := 24
	if v := os.Getenv("SYS_PAR"); v != "" {
		fmt.Sscan(v, &par)
	}
	in := bufio.NewReaderSize(os.Stdin, 1<<22)
	var scs []*Scenario
	for {
		line, err := in.ReadBytes('\n')
		if len(strings.TrimSpace(string(line))) > 0 {
			sc := &Scenario{}
			if jerr := json.Unmarshal(line, sc); jerr != nil {
				fmt.Fprintln(os.Stderr, "bad scenario:", jerr)
				os.Exit(2)
			}
			scs = append(scs, sc)
		}
		if err != nil {
			break
		}
	}
	bgp.SetLogger(func(a ...interface{}) {})
	results := make([]*Result, len(scs))
	sem := make(chan struct{}, par)
	var wg sync.WaitGroup
	for i, sc := range scs {
		wg.Add(1)
		sem <- struct{}{}
		go func(i int, sc *Scenario) {
			defer wg.Done()
			defer func() { <-sem }()
			results[i] = runScenario(sc)
		}(i, sc)
	}
	wg.Wait()
	time.Sleep(20 * time.Millisecond)
	leaked, sample := leakedGoroutines()
	w := bufio.NewWriterSize(os.Stdout, 1<<20)
	defer w.Flush()
	enc := json.NewEncoder(w)
	for _, r := range results {
		enc.Encode(r) // nolint: errcheck
	}
	enc.Encode(map[string]any{"leaked_goroutines": leaked, "sample": sample}) // nolint: errcheck
}
