#!/bin/sh
# Builds the framework from files on disk only (offline): translators, the Coq
# development (full .vo build), the extracted OCaml model driver, the Go harness.
set -e
cd "$(dirname "$0")"
export GOFLAGS=-mod=mod GOPROXY=off GOSUMDB=off GOTOOLCHAIN=local
python3 - <<'PY'
import sys, os
sys.path.insert(0, os.path.join(os.getcwd(), "lib"))
import common
try:
    rc, log = common.build_all(("fn",))
except common.BuildError as e:
    print("setup failed at", e.stage); print(e.log[-3000:]); sys.exit(1)
if rc != 0:
    print(log[-3000:]); sys.exit(1)
print("setup ok")
PY
