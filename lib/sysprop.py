"""System-level machinery: scenarios for harness/cmd/sys (a real corebgp Server against a
scripted remote over loopback TCP), crash isolation, expected histories from the extracted
connection model (op 60), observation projections and trace monitors."""
import json
import os
import struct
import subprocess

from common import BIN, BuildError, Case, run_parallel

MARKER = b"\xff" * 16
OPEN, UPDATE, NOTIF, KEEPALIVE = 1, 2, 3, 4
STATE_NUM = {"disabled": 0, "idle": 1, "connect": 2, "active": 3, "openSent": 4, "openConfirm": 5, "established": 6}


def frame(t, body=b"", length=None, marker=MARKER):
    ln = 19 + len(body) if length is None else length
    return marker + struct.pack(">HB", ln & 0xFFFF, t) + body


def open_body(asn=65000, hold=90, bid=0x0A000002, caps=None, ver=4, as4=None):
    if caps is None:
        caps = bytes([65, 4]) + struct.pack(">I", asn if as4 is None else as4)
    params = bytes([2, len(caps)]) + caps if caps else b""
    return struct.pack(">BHHIB", ver, asn if asn < 65536 else 23456, hold, bid, len(params)) + params


def notif_body(code, sub, data=b""):
    return bytes([code, sub]) + data


class Conv:
    """One conversation on one connection with a (by default passive) peer."""

    def __init__(self, sid, direction="in", local_as=65001, remote_as=65000, local_id=0x0A000001, hold=90,
                 caps=(), on_open=None, handler=(), est_writes=(), tag=""):
        self.sid = sid
        self.direction = direction
        self.local_as, self.remote_as, self.local_id, self.hold = local_as, remote_as, local_id, hold
        self.caps = list(caps)
        self.on_open = on_open          # None or (code, sub, data)
        self.handler = list(handler)    # per UPDATE: None or (code, sub, data)
        self.est_writes = list(est_writes)
        self.msgs = []                  # list of (bytes, chunking or None)
        self.eof = 0                    # 0 keep open, 1 FIN, 2 RST after the stream
        self.stop_after = None          # API stop after this many *messages* have been sent
        self.stop_api = "close"
        self.tag = tag
        self.extra_steps_before_end = []
        self.settle_ms = 40

    def send(self, b, chunks=None):
        self.msgs.append((bytes(b), chunks))
        return self

    # ---- scenario for the Go driver
    def scenario(self):
        c = "c1"
        steps = []
        if self.direction == "in":
            steps.append(["dial", c])
        else:
            steps.append(["accept", c, 3000])
        steps.append(["recv", c, 1, 2000])          # corebgp's OPEN
        for i, (b, chunks) in enumerate(self.msgs):
            if self.stop_after is not None and i == self.stop_after:
                steps.append(["sleep", self.settle_ms])
                steps.append(["api", self.stop_api])
            steps.append(["send", c, b.hex(), chunks or 0])
        if self.stop_after is not None and self.stop_after >= len(self.msgs):
            steps.append(["sleep", self.settle_ms])
            steps.append(["api", self.stop_api])
        steps += self.extra_steps_before_end
        if self.eof == 1:
            steps.append(["sleep", 5])
            steps.append(["close", c])
        elif self.eof == 2:
            steps.append(["sleep", self.settle_ms])
            steps.append(["reset", c])
            steps.append(["sleep", self.settle_ms])
        steps.append(["recv_eof", c, 400 if self.will_stay_open() else 1500])
        return dict({
            "id": self.sid, "local_as": self.local_as, "remote_as": self.remote_as, "local_id": self.local_id,
            "hold": self.hold, "passive": self.direction == "in", "idle_hold_ms": 3000, "connect_retry_ms": 3000,
            "caps": [[c, v.hex()] for c, v in self.caps],
            "on_open": None if self.on_open is None else [self.on_open[0], self.on_open[1], bytes(self.on_open[2]).hex()],
            "handler": [None if h is None else [h[0], h[1], bytes(h[2]).hex()] for h in self.handler],
            "est_writes": [bytes(w).hex() for w in self.est_writes],
            "steps": steps,
        }, **getattr(self, "scenario_extra", {}))

    def segment_steps(self, c, last=True):
        """steps for this conversation on connection name c (used by Multi)"""
        steps = []
        if self.direction == "in":
            steps.append(["dial", c])
        else:
            steps.append(["accept", c, 4000])
        steps.append(["recv", c, 1, 2000])
        for i, (b, chunks) in enumerate(self.msgs):
            steps.append(["send", c, b.hex(), chunks or 0])
        steps += self.extra_steps_before_end
        if self.eof == 1:
            steps.append(["sleep", 5])
            steps.append(["close", c])
        elif self.eof == 2:
            steps.append(["sleep", self.settle_ms])
            steps.append(["reset", c])
            steps.append(["sleep", self.settle_ms])
        if not last or self.eof or not self.will_stay_open():
            steps.append(["recv_eof", c, 1500])
        if self.eof == 1:
            steps.append(["fullclose", c])
        if not last:
            steps.append(["sleep", 40])     # let the peer manager retire the finished FSM
        return steps

    def will_stay_open(self):
        return getattr(self, "_stay_open", False)

    # ---- case for the extracted model (op 60)
    def model_case(self):
        stream = b"".join(b for b, _ in self.msgs)
        # the model's stop index counts reader events; messages are built so that each complete
        # well-formed message yields one event and a stop is only placed before any faulty message
        stop = 9999 if self.stop_after is None else self.stop_after
        stop = getattr(self, "model_stop", stop)
        ints = [self.local_id, self.local_as, self.remote_as, self.hold, 1 if self.eof else 0, stop]
        bs = [stream]
        if self.on_open is None:
            ints += [0, 0, 0]
            bs.append(b"")
        else:
            ints += [1, self.on_open[0], self.on_open[1]]
            bs.append(bytes(self.on_open[2]))
        ints.append(len(self.handler))
        for h in self.handler:
            if h is None:
                ints += [0, 0, 0]
                bs.append(b"")
            else:
                ints += [1, h[0], h[1]]
                bs.append(bytes(h[2]))
        ints.append(len(self.est_writes))
        bs += [bytes(w) for w in self.est_writes]
        ints.append(len(self.caps))
        ints += [c for c, _ in self.caps]
        bs += [bytes(v) for _, v in self.caps]
        return Case(getattr(self, "model_op", 60), ints, bs, self.tag)


class Multi:
    """Several conversations on successive connections of one peer."""

    def __init__(self, sid, segs, idle_hold_ms=120, connect_retry_ms=1000, tag=""):
        self.sid = sid
        self.segs = segs
        self.tag = tag
        self.idle_hold_ms = idle_hold_ms
        self.connect_retry_ms = connect_retry_ms
        self.passive = all(s.direction == "in" for s in segs)
        self.extra_tail = []

    def scenario(self):
        s0 = self.segs[0]
        steps = []
        for k, seg in enumerate(self.segs):
            steps += seg.segment_steps("c%d" % (k + 1), last=(k == len(self.segs) - 1))
        steps += self.extra_tail
        sc = s0.scenario()
        sc.update({"id": self.sid, "passive": self.passive, "idle_hold_ms": self.idle_hold_ms,
                   "connect_retry_ms": self.connect_retry_ms, "steps": steps})
        return sc

    def model_cases(self):
        out = []
        for k, seg in enumerate(self.segs):
            c = seg.model_case()
            if k < len(self.segs) - 1:
                c.ints[5] = 9998
            out.append(c)
        return out


def expected_multi(multis):
    lines, idx = [], []
    for m in multis:
        cs = m.model_cases()
        idx.append(len(cs))
        lines += [c.line() for c in cs]
    outs = run_parallel(os.path.join(BIN, "model_driver"), lines)
    res, pos = [], 0
    for n in idx:
        per = [parse_model_tokens(o) for o in outs[pos:pos + n]]
        pos += n
        res.append({"wire": [p["wire"] for p in per], "cbs": [x for p in per for x in p["cbs"]],
                    "closed": [p["closed"] for p in per], "rets": [x for p in per for x in p["rets"]]})
    return res


def observe_multi(res, n):
    per = [observe(res, "c%d" % (k + 1)) for k in range(n)]
    o = {"wire": [p["wire"] for p in per], "cbs": per[0]["cbs"], "closed": [p["closed"] for p in per],
         "rets": [(d, ("nil",) if ec == ("<nil>",) else ec) for d, ec in per[0]["rets"]],
         "garbage": "".join(p["garbage"] for p in per)}
    return o


def parse_model_tokens(line):
    """Model output (op 60) -> projections."""
    t = [int(x) for x in line.split()] if line else []
    wire, cbs, closed, rets = [], [], False, []
    timers = []          # ("hold"|"ka", ns) arms and ("hold"|"ka", -1) stops, in order
    est_at = None        # index into timers at the moment OnEstablished is called
    i = 0
    while i < len(t):
        k = t[i]
        if k == 5:
            sub = t[i + 1]
            if sub in (1, 2):
                timers.append(("hold" if sub == 1 else "ka", t[i + 2]))
                i += 3
            else:
                timers.append(("hold" if sub == 3 else "ka", -1))
                i += 2
        elif k == 1:
            ty, ln = t[i + 1], t[i + 2]
            wire.append((ty, bytes(t[i + 3:i + 3 + ln])))
            i += 3 + ln
        elif k == 2:
            sub = t[i + 1]
            if sub == 1:
                rid, ncaps = t[i + 2], t[i + 3]
                j = i + 4
                caps = []
                for _ in range(ncaps):
                    code, ln = t[j], t[j + 1]
                    caps.append((code, bytes(t[j + 2:j + 2 + ln])))
                    j += 2 + ln
                cbs.append(("OnOpenMessage", rid, tuple(caps)))
                i = j
            elif sub == 2:
                cbs.append(("OnEstablished",))
                if est_at is None:
                    est_at = len(timers)
                i += 2
            elif sub == 3:
                ln = t[i + 2]
                cbs.append(("Handler", bytes(t[i + 3:i + 3 + ln])))
                i += 3 + ln
            elif sub == 4:
                cbs.append(("OnClose",))
                i += 2
            else:
                raise ValueError("bad cb token")
        elif k == 3:
            closed = True
            i += 1
        elif k == 4:
            d, ec = t[i + 1], t[i + 2]
            if ec in (1, 2):
                rets.append((d, ("out" if ec == 1 else "in", t[i + 3], t[i + 4])))
                i += 5
            else:
                rets.append((d, ("nil",) if ec == 0 else ("other",)))
                i += 3
        else:
            raise ValueError("bad token %r at %d in %s" % (k, i, line[:200]))
    pre = timers if est_at is None else timers[:est_at]
    return {"wire": wire, "cbs": cbs, "closed": closed, "rets": rets,
            "hold_arms": [ns for k, ns in timers if k == "hold" and ns >= 0],
            "ka_arms_pre": [ns for k, ns in pre if k == "ka" and ns >= 0],
            "ka_arms": [ns for k, ns in timers if k == "ka" and ns >= 0]}


def ip_to_int(s):
    a = [int(x) for x in s.split(".")]
    return (a[0] << 24) | (a[1] << 16) | (a[2] << 8) | a[3]


def observe(res, conn="c1"):
    """Implementation observation -> the same projections."""
    cr = next((c for c in res["conns"] if c["name"] == conn), None)
    wire = [(m["t"], bytes.fromhex(m["b"])) for m in (cr["msgs"] or [])] if cr else []
    cbs = []
    for cb in res["cbs"] or []:
        if cb["ph"] != "enter":
            continue
        n = cb["name"]
        if n == "OnOpenMessage":
            parts = cb["arg"].split()
            caps = tuple((int(p.split(":")[0]), bytes.fromhex(p.split(":")[1])) for p in parts[1:])
            cbs.append((n, ip_to_int(parts[0]), caps))
        elif n == "Handler":
            cbs.append((n, bytes.fromhex(cb["arg"])))
        elif n in ("OnEstablished", "OnClose"):
            cbs.append((n,))
    rets = []
    for e in res["events"] or []:
        if e["kind"] == "f.return":
            # args: fsm ptr, state, desired, errclass
            st, desired, ec = e["args"][1], e["args"][2], e["args"][3]
            if STATE_NUM[st] < 4:
                continue
            if ec.startswith("notif."):
                p = ec.split(".")
                rets.append((STATE_NUM[desired], (p[1], int(p[2]), int(p[3]))))
            else:
                rets.append((STATE_NUM[desired], (ec,)))
    closed = bool(cr and cr["eof"])
    # timer operations (hook events t.hold / t.ka: duration in ns, -1 = stop), keep-alive arms up to Established
    hold_arms, ka_pre, ka_all, seen_est = [], [], [], False
    for e in res["events"] or []:
        if e["kind"] == "f.enter" and len(e["args"]) >= 4 and e["args"][3] == "established":
            seen_est = True
        elif e["kind"] == "t.hold" and int(e["args"][1]) >= 0:
            hold_arms.append(int(e["args"][1]))
        elif e["kind"] == "t.ka" and int(e["args"][1]) >= 0:
            ka_all.append(int(e["args"][1]))
            if not seen_est:
                ka_pre.append(int(e["args"][1]))
    return {"wire": wire, "cbs": cbs, "closed": closed, "rets": rets,
            "garbage": cr["garbage"] if cr else "", "read_err": cr["read_err"] if cr else "",
            "hold_arms": hold_arms, "ka_arms_pre": ka_pre, "ka_arms": ka_all}


def dominant_of(local_id, remote_id, local_as, remote_as):
    return local_id > remote_id or (local_id == remote_id and local_as > remote_as)


def mgr_ints(res, passive, dominant):
    """hook events of the peer manager -> the event encodings of op 70, one per peer object (a
    DeletePeer/AddPeer pair creates a new manager)"""
    segs = []
    out = [1 if passive else 0, 1 if dominant else 0]
    d = {"0": 0, "1": 1}
    for e in res.get("events") or []:
        if e["kind"] == "m.done":
            out += [14]
            segs.append(out)
            out = [1 if passive else 0, 1 if dominant else 0]
            continue
        k, a = e["kind"], e["args"]
        if k == "m.enable":
            out += [12, d[a[0]]]
        elif k == "m.trans":
            out += [1, d[a[0]], STATE_NUM[a[1]], STATE_NUM[a[2]]]
        elif k == "m.reply":
            out += [11, d[a[0]], STATE_NUM[a[1]], STATE_NUM[a[2]]]
        elif k == "m.disable":
            out += [10, d[a[0]]]
        elif k == "m.err":
            ec = a[2]
            damp = ec.startswith("notif.") and ec.split(".")[2] != "6"
            out += [2, d[a[0]], 1 if damp else 0]
        elif k == "m.damp":
            out += [13]
        elif k == "m.timer":
            out += [4]
        elif k == "m.conn":
            out += [3, 1 if a[0] == "true" else 0, 1 if a[1] == "true" else 0, STATE_NUM[a[2]]]
        elif k == "m.close":
            out += [5]
        elif k == "m.collide.stopped":
            out += [6]
        elif k == "m.collide.other":
            out += [7, STATE_NUM[a[1]], STATE_NUM[a[2]]]
    if len(out) > 2:
        segs.append(out)
    return segs


def mgr_replay(results, scenarios, remote_ids):
    """replay every recorded peer-manager history through the extracted model; returns a list of
    (index, verdict tokens) for histories on which peer.go and the model diverge"""
    lines, owner = [], []
    for i, (r, sc, rid) in enumerate(zip(results, scenarios, remote_ids)):
        dom = dominant_of(sc["local_id"], rid, sc["local_as"], sc["remote_as"])
        for seg in mgr_ints(r, sc["passive"], dom):
            # an event storm (a state machine spinning) is judged by the scenario's monitors; the replay takes a prefix
            lines.append("70 " + " ".join(str(x) for x in seg[:6000]))
            owner.append(i)
    outs = run_parallel(os.path.join(BIN, "model_driver"), lines) if lines else []
    bad = []
    for k, o in enumerate(outs):
        if not o.startswith("1 "):
            bad.append((owner[k], o, lines[k]))
    return bad, len(lines)


def _norm(r):
    """Go encodes empty slices as null: make every list a list"""
    for k in ("conns", "cbs", "events", "api", "writes", "dials", "steplog", "inbound"):
        if k in r and r[k] is None:
            r[k] = []
    for c in r.get("conns") or []:
        for k in ("msgs", "sent"):
            if c.get(k) is None:
                c[k] = []
    return r


def run_sys(scenarios, par=24, timeout=600):
    """Run scenarios in one driver process; on a crash or a hang, isolate the scenario(s) responsible."""
    binary = os.path.join(BIN, "sys")
    state = {"timeout": timeout}

    def batch(scs):
        inp = "\n".join(json.dumps(s) for s in scs) + "\n"
        env = dict(os.environ, SYS_PAR=str(par))
        try:
            p = subprocess.run([binary], input=inp, stdout=subprocess.PIPE, stderr=subprocess.PIPE, text=True,
                               timeout=state["timeout"], env=env)
        except subprocess.TimeoutExpired as ex:
            state["timeout"] = 120       # isolate with a shorter limit
            return None, "HANG: the driver process did not finish within %d s (a goroutine of corebgp or a callback is wedged)\n%s" % (
                ex.timeout, (ex.stderr or "")[-1500:] if isinstance(ex.stderr, str) else "")
        if p.returncode != 0:
            return None, p.stderr
        out = [_norm(json.loads(l)) for l in p.stdout.splitlines() if l.strip()]
        return out, p.stderr

    out, err = batch(scenarios)
    if out is not None:
        return out[:-1], out[-1], []
    # crash: bisect (scenarios are independent)
    crashes = []
    results = {}

    def rec(scs):
        if not scs:
            return
        o, e = batch(scs)
        if o is not None:
            for r in o[:-1]:
                results[r["id"]] = r
            return
        if len(scs) == 1:
            crashes.append((scs[0], e[-3000:]))
            results[scs[0]["id"]] = {"id": scs[0]["id"], "crash": e[-3000:], "conns": [], "cbs": [], "events": [],
                                     "api": [], "writes": [], "dials": [], "serve_err": "", "error": "CRASH"}
            return
        mid = len(scs) // 2
        rec(scs[:mid])
        rec(scs[mid:])
    rec(scenarios)
    return [results[s["id"]] for s in scenarios], {"leaked_goroutines": -1, "sample": ""}, crashes


def expected_for(convs):
    lines = [c.model_case().line() for c in convs]
    outs = run_parallel(os.path.join(BIN, "model_driver"), lines)
    return [parse_model_tokens(o) for o in outs]


# ---------------------------------------------------------------- monitors (applied to the implementation's history)

def cb_wf(res):
    """C01/C03/C09: OnEstablished/OnClose strictly alternate starting with OnEstablished and never
    overlap; Handler calls only between an OnEstablished exit and the matching OnClose enter, never two
    at once; GetCapabilities before every OPEN, OnOpenMessage at most once per connection. Returns a
    list of violation strings."""
    bad = []
    est_open = False      # between OnEstablished enter and OnClose exit
    est_ready = False     # OnEstablished has returned and OnClose has not begun
    in_handler = False
    in_cb = None
    for cb in sorted(res["cbs"] or [], key=lambda c: c["seq"]):
        n, ph = cb["name"], cb["ph"]
        if n in ("OnEstablished", "OnClose", "Handler"):
            if ph == "enter":
                if in_cb is not None and not (in_cb == "OnEstablished" and n == "Handler"):
                    bad.append("callback %s entered while %s is running" % (n, in_cb))
                in_cb = n
            else:
                in_cb = None
        if n == "OnEstablished" and ph == "enter":
            if est_open:
                bad.append("OnEstablished while a session is already established (no OnClose in between)")
            est_open = True
        elif n == "OnEstablished" and ph == "exit":
            est_ready = True
        elif n == "OnClose" and ph == "enter":
            if not est_open:
                bad.append("OnClose without a preceding OnEstablished")
            if in_handler:
                bad.append("OnClose began while the handler is running")
            est_ready = False
        elif n == "OnClose" and ph == "exit":
            est_open = False
        elif n == "Handler" and ph == "enter":
            if not est_ready:
                bad.append("UPDATE handler called outside [OnEstablished exit, OnClose enter]")
            if in_handler:
                bad.append("two handler calls at once")
            in_handler = True
        elif n == "Handler" and ph == "exit":
            in_handler = False
    if est_open:
        bad.append("OnEstablished without a matching OnClose by the time Close returned")
    nev = len(res.get("events") or [])
    dur = max([e["at"] for e in res.get("events") or []] + [1])
    if nev > 4000 and nev / dur > 2.0:
        bad.append("state machine spinning: %d manager/FSM events in %d ms" % (nev, dur))
    # GetCapabilities once per connection on which an OPEN is sent: never more calls than connections the
    # peer obtained (successful dials + inbound connections handed to an FSM)
    evs = res.get("events") or []
    if any(e["kind"] == "d.result" for e in evs) or any(e["kind"] == "m.enable" for e in evs):
        got = sum(1 for e in evs if e["kind"] == "d.result" and e["args"][-1] == "true") \
            + sum(1 for e in evs if e["kind"] == "m.enable" and e["args"][0] == "1" and e["args"][-1] == "true")
        ncaps = sum(1 for cb in res["cbs"] or [] if cb["name"] == "GetCapabilities" and cb["ph"] == "enter")
        if ncaps > got:
            bad.append("GetCapabilities called %d times for %d connections (an OPEN is sent once per connection)" % (ncaps, got))
    return bad


def wire_wf(res):
    """C04: everything corebgp wrote parses as whole well-formed messages.  C10/C13: every connection corebgp's
    listener accepted has been closed by corebgp (an explicit Close, not a finalizer) by the time the server was closed."""
    bad = []
    fin = [a for a in res.get("api") or [] if a["name"] == "final-close" and a["err"] == ""]
    if fin and not res.get("error"):
        never = [i for i in res.get("inbound") or [] if i["closed_at"] < 0]
        if never:
            bad.append("inbound connection accepted at %d ms from %s was never closed by corebgp (dropped without Close)"
                       % (never[0]["accepted_at"], never[0]["remote"]))
    for c in res["conns"] or []:
        if c.get("garbage"):
            bad.append("conn %s: bytes that are not whole well-formed messages: %s" % (c["name"], c["garbage"][:80]))
    return bad


def expected_open_body(sc, k=0):
    """C14: the OPEN the configuration and the plugin's capabilities dictate (RFC 4271 4.2 / RFC 5492 / RFC 6793);
    k = index of the GetCapabilities call (the plugin may answer differently each time)"""
    import struct
    las = sc["local_as"]
    caps = bytes([65, 4]) + struct.pack(">I", las)
    seq = sc.get("caps_seq") or []
    plugin_caps = seq[min(k, len(seq) - 1)] if seq else (sc.get("caps") or [])
    for code, hexv in plugin_caps:
        if int(code) == 65:
            continue
        v = bytes.fromhex(hexv)
        caps += bytes([int(code), len(v)]) + v
    params = bytes([2, len(caps)]) + caps
    return bytes([4]) + struct.pack(">HHI", las if las < 65536 else 23456, sc["hold"], sc["local_id"]) + bytes([len(params)]) + params


def open_wf(res, sc):
    """every connection on which corebgp speaks starts with exactly that OPEN, on every session of every FSM"""
    bad = []
    spoke = sorted([c for c in res.get("conns") or [] if c.get("msgs")], key=lambda c: c["msgs"][0]["at"])
    for k, c in enumerate(spoke):
        msgs = c["msgs"]
        try:
            want = expected_open_body(sc, k)
        except (ValueError, KeyError, OverflowError):
            return bad          # capabilities that do not fit: the dedicated C14 cases decide those
        if msgs[0]["t"] != 1:
            bad.append("conn %s: the first message corebgp sent is of type %d, not OPEN" % (c["name"], msgs[0]["t"]))
        elif bytes.fromhex(msgs[0]["b"]) != want:
            bad.append("conn %s: OPEN sent %s differs from the configured one %s" % (c["name"], msgs[0]["b"], want.hex()))
        if any(m["t"] == 1 for m in msgs[1:]):
            bad.append("conn %s: a second OPEN was sent on the same connection" % c["name"])
    return bad


def _strip_ka(wire):
    """periodic KEEPALIVEs are timing, not content: keep the handshake one only"""
    if wire and isinstance(wire[0], list):
        return [_strip_ka(w) for w in wire]
    out, seen = [], False
    for m in wire:
        if m[0] == 4:
            if seen:
                continue
            seen = True
        out.append(m)
    return out


def diff_proj(exp, obs, keys=("wire", "cbs", "closed", "rets")):
    d = []
    for k in keys:
        a, b = exp[k], obs[k]
        if k == "wire":
            a, b = _strip_ka(a), _strip_ka(b)
        if a != b:
            d.append(k)
    return d
