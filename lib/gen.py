"""Structured generators shared by the function-level properties. Every random
choice comes from the rng passed in (seeded from VERIF_SEED)."""
import struct

BOUNDARY_LENS = [0, 1, 2, 3, 4, 5, 9, 10, 11, 18, 19, 20, 253, 254, 255, 256, 257, 4075, 4076, 4077]


def rbytes(rng, n):
    return bytes(rng.getrandbits(8) for _ in range(n))


def rlen(rng, maxlen=4077):
    r = rng.random()
    if r < 0.35:
        return rng.randint(0, 8)
    if r < 0.7:
        return rng.randint(0, 64)
    if r < 0.9:
        return rng.randint(0, 300)
    if r < 0.95:
        return min(maxlen, rng.choice(BOUNDARY_LENS))
    return rng.randint(0, maxlen)


def r_u8(rng):
    return rng.choice([0, 1, 2, 3, 4, 5, 6, 7, 64, 65, 69, 127, 128, 254, 255, rng.randint(0, 255)])


def r_u16(rng):
    return rng.choice([0, 1, 2, 3, 4, 90, 180, 255, 256, 23456, 65534, 65535, rng.randint(0, 65535)])


def r_u32(rng):
    return rng.choice([0, 1, 65535, 65536, 23456, 0xE0000001, 0xEFFFFFFF, 0xDFFFFFFF, 0xF0000000, 0x0A000001,
                       4200000001, 0xFFFFFFFF, rng.randint(0, 0xFFFFFFFF)])


def r_cap(rng, asn=None):
    code = rng.choice([1, 2, 64, 65, 65, 69, 70, 73, rng.randint(0, 255)])
    if code == 65 and rng.random() < 0.8:
        val = struct.pack(">I", asn if asn is not None and rng.random() < 0.8 else r_u32(rng))
    elif code == 1:
        val = struct.pack(">HBB", rng.choice([1, 2]), 0, rng.choice([1, 2, 128]))
    else:
        val = rbytes(rng, rng.choice([0, 0, 1, 2, 4, 8, rng.randint(0, 40)]))
    return code, val


def enc_cap(code, val, lie=None):
    return bytes([code, (len(val) if lie is None else lie) & 0xFF]) + val


def r_open_body(rng, remote_as=None, valid_bias=0.7):
    """Grammar-based OPEN body: mostly well-formed, with targeted faults."""
    if remote_as is None:
        remote_as = r_u32(rng)
    good = rng.random() < valid_bias
    ver = 4 if good or rng.random() < 0.7 else r_u8(rng)
    if remote_as > 65535:
        asn = 23456 if good or rng.random() < 0.6 else r_u16(rng)
    else:
        asn = remote_as if good or rng.random() < 0.6 else rng.choice([23456, r_u16(rng)])
    hold = rng.choice([0, 3, 90, 180, 65535]) if good or rng.random() < 0.6 else rng.choice([1, 2, r_u16(rng)])
    bid = rng.choice([0x0A000002, 0x01010101, r_u32(rng)]) if good else r_u32(rng)
    nparams = rng.choice([1, 1, 1, 2, 3]) if good else rng.choice([0, 1, 1, 2, 4, 6])
    params = b""
    have4 = False
    for pi in range(nparams):
        ncaps = rng.choice([1, 1, 2, 3, 5]) if good else rng.choice([0, 1, 2, 3])
        caps = b""
        for ci in range(ncaps):
            code, val = r_cap(rng, remote_as)
            if code == 65:
                have4 = True
            lie = None
            if not good and rng.random() < 0.15:
                lie = rng.choice([0, len(val) + 1, 255, 254, max(0, len(val) - 1)])
            caps += enc_cap(code, val, lie)
        if good and not have4 and pi == nparams - 1:
            caps += enc_cap(65, struct.pack(">I", remote_as))
        ptype = 2 if good or rng.random() < 0.85 else rng.choice([0, 1, 3, 255])
        plen = len(caps)
        if not good and rng.random() < 0.15:
            plen = rng.choice([0, plen + 1, 255, 254, max(0, plen - 1)])
        if len(caps) > 255:
            caps = caps[:255]
            plen = min(plen, 255)
        params += bytes([ptype, plen & 0xFF]) + caps
    params = params[:255]
    olen = len(params)
    if not good and rng.random() < 0.2:
        olen = rng.choice([0, olen + 1, 255, max(0, olen - 1)])
    body = struct.pack(">BHHIB", ver, asn, hold, bid, olen & 0xFF) + params
    if not good and rng.random() < 0.15:
        body = body[:rng.randint(0, len(body))]
    if not good and rng.random() < 0.05:
        body += rbytes(rng, rng.randint(1, 4))
    return body


def r_open_single_fault(rng, remote_as, local_id=None):
    """A well-formed, acceptable OPEN with exactly one semantic fault injected."""
    ver, hold, bid = 4, rng.choice([0, 3, 90, 65535]), rng.choice([0x0A000002, 0x01010101, 0xDFFFFFFF, 0xF0000001])
    asn = remote_as if remote_as <= 65535 else 23456
    as4val = struct.pack(">I", remote_as)
    fault = rng.choice(["none", "ver", "asn", "asn.low16", "asn.trans", "hold", "id.mcast", "id.local", "as4.missing",
                        "as4.wrong", "as4.len", "as4.second.wrong", "param.unknown", "param.empty", "caps.empty"])
    extra = []
    if fault == "ver":
        ver = rng.choice([0, 1, 3, 5, 255])
    elif fault == "asn":
        asn = (asn + rng.choice([1, 0xFFFF, 7])) & 0xFFFF
    elif fault == "asn.low16":
        asn = remote_as & 0xFFFF          # low 16 bits of a 4-octet AS instead of AS_TRANS
    elif fault == "asn.trans":
        asn = 23456                        # AS_TRANS although the AS fits (allowed when the capability matches)
    elif fault == "hold":
        hold = rng.choice([1, 2])
    elif fault == "id.mcast":
        bid = rng.choice([0xE0000000, 0xE0000001, 0xEFFFFFFF, 0xE8010203])
    elif fault == "id.local" and local_id is not None:
        bid = local_id
    caps = []
    if fault != "as4.missing":
        if fault == "as4.wrong":
            as4val = struct.pack(">I", (remote_as + 1) & 0xFFFFFFFF)
        if fault == "as4.len":
            as4val = as4val[:rng.choice([0, 3])] if rng.random() < 0.5 else as4val + b"\x00"
        caps.append(enc_cap(65, as4val))
    if fault == "as4.second.wrong":
        caps.append(enc_cap(65, struct.pack(">I", (remote_as ^ 0x10000) & 0xFFFFFFFF)))
    for _ in range(rng.choice([0, 1, 2])):
        code, val = r_cap(rng, remote_as)
        if code != 65:
            caps.insert(rng.randint(0, len(caps)), enc_cap(code, val))
    if rng.random() < 0.3 and len(caps) > 1:      # spread over two parameters
        k = rng.randint(1, len(caps) - 1)
        groups = [caps[:k], caps[k:]]
    else:
        groups = [caps] if caps else [[enc_cap(1, b"\x00\x01\x00\x01")]]
    params = b"".join(bytes([2, len(b"".join(g))]) + b"".join(g) for g in groups)
    if fault == "param.unknown":
        params = bytes([rng.choice([0, 1, 3, 255]), 0]) + params if rng.random() < 0.5 else params + bytes([3, 1, 0])
    elif fault == "param.empty":
        params = b""
    elif fault == "caps.empty":
        params = bytes([2, 0]) + (params if rng.random() < 0.5 else b"")
    return struct.pack(">BHHIB", ver, asn, hold, bid, len(params) & 0xFF) + params, fault


def mutate(rng, b, n=None):
    b = bytearray(b)
    if not b:
        return bytes(b)
    for _ in range(n or rng.choice([1, 1, 2, 3])):
        r = rng.random()
        i = rng.randrange(len(b)) if b else 0
        if r < 0.4 and b:
            b[i] = rng.choice([0, 1, 2, 4, 0xFF, 0xFE, b[i] ^ (1 << rng.randrange(8)), rng.randint(0, 255)])
        elif r < 0.6 and b:
            del b[i]
        elif r < 0.8:
            b.insert(i, rng.randint(0, 255))
        else:
            b = b[:i]
        if not b:
            break
    return bytes(b)


# ------------------------------------------------------------------ UPDATE

def enc_prefix(bits, addr):
    n = (bits + 7) // 8
    return bytes([bits]) + bytes(addr[:n])


def r_prefix(rng, ipv6=False, valid=True):
    mx = 128 if ipv6 else 32
    if valid:
        bits = rng.choice([0, 1, 7, 8, 9, 16, 24, mx - 1, mx, rng.randint(0, mx)])
    else:
        bits = rng.choice([mx + 1, mx + 7, mx + 8, 129, 200, 248, 249, 255, rng.randint(mx + 1, 255)])
    return enc_prefix(bits, rbytes(rng, 16))


def r_prefixes(rng, ipv6=False, addpath=False, valid=True, maxn=6):
    out = b""
    n = rng.choice([0, 1, 1, 2, 3, rng.randint(0, maxn)])
    bad_at = rng.randrange(n) if (not valid and n) else -1
    for i in range(n):
        if addpath:
            out += struct.pack(">I", r_u32(rng))
        out += r_prefix(rng, ipv6, valid=(i != bad_at))
    if not valid and rng.random() < 0.5 and out:
        out = out[:rng.randint(1, len(out))] if rng.random() < 0.7 else out + rbytes(rng, rng.randint(1, 3))
    return out


ATTR_FLAGS = {1: 0x40, 2: 0x40, 3: 0x40, 4: 0x80, 5: 0x40, 6: 0x40, 7: 0xC0, 8: 0xC0, 9: 0x80, 10: 0x80, 14: 0x80, 15: 0x80,
              16: 0xC0, 32: 0xC0}


def r_attr_value(rng, code, valid=True):
    u32 = lambda: struct.pack(">I", r_u32(rng))
    if code == 1:
        return bytes([rng.choice([0, 1, 2])]) if valid else rng.choice([b"", bytes([3]), bytes([255]), bytes([0, 0])])
    if code == 2:
        if valid:
            segs = b""
            for _ in range(rng.choice([0, 1, 1, 2, 3])):
                k = rng.choice([1, 1, 2, 5, 63, 64, 65, 255]) if rng.random() < 0.2 else rng.randint(1, 6)
                segs += bytes([rng.choice([1, 2]), k]) + b"".join(u32() for _ in range(k))
            return segs
        return rng.choice([bytes([2, 0]), bytes([3, 1]) + u32(), bytes([2, 2]) + u32(), bytes([2, 1]) + u32()[:3],
                           bytes([2, 1]) + u32() + b"\x02", bytes([2]), bytes([2, 1]) + u32() + bytes([2, 0, 0, 0, 0, 0])])
    if code in (3, 9):
        return rbytes(rng, 4) if valid else rbytes(rng, rng.choice([0, 3, 5, 16]))
    if code in (4, 5):
        return u32() if valid else rbytes(rng, rng.choice([0, 3, 5, 8]))
    if code == 6:
        return b"" if valid else rbytes(rng, rng.choice([1, 4]))
    if code == 7:
        return u32() + rbytes(rng, 4) if valid else rbytes(rng, rng.choice([0, 6, 7, 9]))
    if code in (8, 10):
        return b"".join(u32() for _ in range(rng.randint(1, 5))) if valid else rbytes(rng, rng.choice([0, 1, 3, 5, 6, 7]))
    if code == 32:
        return b"".join(u32() + u32() + u32() for _ in range(rng.randint(1, 3))) if valid else rbytes(rng, rng.choice([0, 4, 11, 13, 20]))
    if code == 14:
        nh = rbytes(rng, rng.choice([16, 32, 4, 0]))
        return struct.pack(">HBB", rng.choice([1, 2]), rng.choice([1, 2, 128]), len(nh)) + nh + b"\x00" + r_prefixes(rng, True)
    if code == 15:
        return struct.pack(">HB", rng.choice([1, 2]), rng.choice([1, 2, 128])) + r_prefixes(rng, True)
    return rbytes(rng, rng.choice([0, 1, 4, 8, rng.randint(0, 40)]))


def enc_attr(flags, code, val, ext=None, lie=None):
    if ext is None:
        ext = len(val) > 255
    ln = len(val) if lie is None else lie
    if ext:
        return bytes([flags | 0x10, code]) + struct.pack(">H", ln & 0xFFFF) + val
    return bytes([flags & ~0x10 & 0xFF, code, ln & 0xFF]) + val


def r_update_body(rng, valid_bias=0.6):
    """Grammar-based UPDATE body; returns (body, tag)."""
    good = rng.random() < valid_bias
    wr = r_prefixes(rng) if rng.random() < 0.4 else b""
    nlri = r_prefixes(rng) if rng.random() < 0.6 else b""
    attrs = b""
    tag = "upd.good" if good else "upd.fault"
    codes = []
    if nlri or rng.random() < 0.3:
        codes = [1, 2, 3]
    codes += rng.sample([4, 5, 6, 7, 8, 9, 10, 14, 15, 16, 32, 33, 46, 97, 128, 200, 255], rng.randint(0, 4))
    rng.shuffle(codes)
    if not good:
        f = rng.choice(["dup", "dup.mp", "missing", "overrun", "trunc.hdr", "wrl", "pal", "short", "flags", "badval", "extlen", "empty.attrs"])
        tag = "upd.fault." + f
    else:
        f = None
    if f == "dup" and codes:
        codes.insert(rng.randint(0, len(codes)), rng.choice(codes))
    if f == "dup.mp":
        c = rng.choice([14, 15])
        codes += [c, c]
        rng.shuffle(codes)
    if f == "missing":
        codes = [c for c in codes if c != rng.choice([1, 2])]
        if not nlri:
            nlri = r_prefixes(rng) or enc_prefix(24, b"\x0a\x00\x00")
    if f == "empty.attrs":
        codes = []
        nlri = nlri or enc_prefix(8, b"\x0a")
    for c in codes:
        fl = ATTR_FLAGS.get(c, rng.choice([0x40, 0x80, 0xC0]))
        if f == "flags" and rng.random() < 0.5:
            fl = rng.choice([0x00, 0x40, 0x80, 0xC0, 0xE0, 0x20])
        val = r_attr_value(rng, c, valid=not (f == "badval" and rng.random() < 0.5))
        ext = None
        if f == "extlen" or rng.random() < 0.1:
            ext = True
        attrs += enc_attr(fl | (rng.choice([0, 0x20]) if fl & 0x80 and fl & 0x40 else 0), c, val, ext)
    if f == "overrun" and codes:
        c = rng.choice([1, 2, 4, 8, 33])
        val = r_attr_value(rng, c)
        attrs += enc_attr(ATTR_FLAGS.get(c, 0xC0), c, val, lie=len(val) + rng.choice([1, 2, 50]))
    if f == "trunc.hdr":
        attrs += rng.choice([bytes([0x40]), bytes([0x40, 1]), bytes([0x50, 2, 0]), bytes([0x50, 1])])
    wrl = len(wr)
    pal = len(attrs)
    if f == "wrl":
        wrl = rng.choice([wrl + 1, wrl + len(attrs) + len(nlri) + 1, 65535, 65534, max(0, wrl - 1)])
    if f == "pal":
        pal = rng.choice([pal + 1, pal + len(nlri) + 1, 65535, max(0, pal - 1)])
    body = struct.pack(">H", wrl & 0xFFFF) + wr + struct.pack(">H", pal & 0xFFFF) + attrs + nlri
    if f == "short":
        body = body[:rng.randint(0, 3)]
    return body, tag


ERR_NOTIF = lambda c, s, d=b"": [1, c, s, len(d)] + list(d)


def r_err_tree(rng, depth=0):
    """Token list of a random error tree."""
    r = rng.random()
    n = lambda: [rng.choice([3, 3, 2, 6]), rng.randint(0, 11), 0] if rng.random() < 0.6 else [3, rng.randint(0, 11), 2, 1, 2]
    on = lambda: [0] if rng.random() < 0.3 else [1] + n()
    if depth >= 3 or r < 0.55:
        k = rng.choice([1, 2, 2, 3, 3, 4, 5])
        if k == 1:
            return [1] + n()
        if k == 2:
            return [2, rng.randint(0, 40)] + on()
        if k == 3:
            return [3, rng.randint(0, 40)] + on()
        if k == 4:
            return [4] + n()
        return [5]
    if r < 0.85:
        k = rng.randint(1, 4)
        out = [6, k]
        for _ in range(k):
            out += r_err_tree(rng, depth + 1)
        return out
    return [7] + r_err_tree(rng, depth + 1)


def r_script(rng, ncalls=8, p_err=0.25):
    out = []
    for _ in range(ncalls):
        if rng.random() < p_err:
            t = r_err_tree(rng, 1)
            out += [len(t)] + t
        else:
            out += [0]
    return out
