"""Structured generators shared by the function-level properties. Every random
choice comes from the rng passed in (seeded from VERIF_SEED)."""
import struct

BOUNDARY_LENS = [0, 1, 2, 3, 4, 5, 9, 10, 11, 18, 19, 20, 253, 254, 255, 256, 257, 4075, 4076, 4077]


def rbytes(rng, n):
    return bytes(rng.getrandbits(8) for _ in range(n))


def rlen(rng, maxlen=4077):
    r = rng.random()
    if r < 0.35:
        return rng.randint(0, 8)
    if r < 0.7:
        return rng.randint(0, 64)
    if r < 0.9:
        return rng.randint(0, 300)
    if r < 0.95:
        return min(maxlen, rng.choice(BOUNDARY_LENS))
    return rng.randint(0, maxlen)


def r_u8(rng):
    return rng.choice([0, 1, 2, 3, 4, 5, 6, 7, 64, 65, 69, 127, 128, 254, 255, rng.randint(0, 255)])


def r_u16(rng):
    return rng.choice([0, 1, 2, 3, 4, 90, 180, 255, 256, 23456, 65534, 65535, rng.randint(0, 65535)])


def r_u32(rng):
    return rng.choice([0, 1, 65535, 65536, 23456, 0xE0000001, 0xEFFFFFFF, 0xDFFFFFFF, 0xF0000000, 0x0A000001,
                       4200000001, 0xFFFFFFFF, rng.randint(0, 0xFFFFFFFF)])


def r_cap(rng, asn=None):
    code = rng.choice([1, 2, 64, 65, 65, 69, 70, 73, rng.randint(0, 255)])
    if code == 65 and rng.random() < 0.8:
        val = struct.pack(">I", asn if asn is not None and rng.random() < 0.8 else r_u32(rng))
    elif code == 1:
        val = struct.pack(">HBB", rng.choice([1, 2]), 0, rng.choice([1, 2, 128]))
    else:
        val = rbytes(rng, rng.choice([0, 0, 1, 2, 4, 8, rng.randint(0, 40)]))
    return code, val


def enc_cap(code, val, lie=None):
    return bytes([code, (len(val) if lie is None else lie) & 0xFF]) + val


def r_open_body(rng, remote_as=None, valid_bias=0.7):
    """Grammar-based OPEN body: mostly well-formed, with targeted faults."""
    if remote_as is None:
        remote_as = r_u32(rng)
    good = rng.random() < valid_bias
    ver = 4 if good or rng.random() < 0.7 else r_u8(rng)
    if remote_as > 65535:
        asn = 23456 if good or rng.random() < 0.6 else r_u16(rng)
    else:
        asn = remote_as if good or rng.random() < 0.6 else rng.choice([23456, r_u16(rng)])
    hold = rng.choice([0, 3, 90, 180, 65535]) if good or rng.random() < 0.6 else rng.choice([1, 2, r_u16(rng)])
    bid = rng.choice([0x0A000002, 0x01010101, r_u32(rng)]) if good else r_u32(rng)
    nparams = rng.choice([1, 1, 1, 2, 3]) if good else rng.choice([0, 1, 1, 2, 4, 6])
    params = b""
    have4 = False
    for pi in range(nparams):
        ncaps = rng.choice([1, 1, 2, 3, 5]) if good else rng.choice([0, 1, 2, 3])
        caps = b""
        for ci in range(ncaps):
            code, val = r_cap(rng, remote_as)
            if code == 65:
                have4 = True
            lie = None
            if not good and rng.random() < 0.15:
                lie = rng.choice([0, len(val) + 1, 255, 254, max(0, len(val) - 1)])
            caps += enc_cap(code, val, lie)
        if good and not have4 and pi == nparams - 1:
            caps += enc_cap(65, struct.pack(">I", remote_as))
        ptype = 2 if good or rng.random() < 0.85 else rng.choice([0, 1, 3, 255])
        plen = len(caps)
        if not good and rng.random() < 0.15:
            plen = rng.choice([0, plen + 1, 255, 254, max(0, plen - 1)])
        if len(caps) > 255:
            caps = caps[:255]
            plen = min(plen, 255)
        params += bytes([ptype, plen & 0xFF]) + caps
    params = params[:255]
    olen = len(params)
    if not good and rng.random() < 0.2:
        olen = rng.choice([0, olen + 1, 255, max(0, olen - 1)])
    body = struct.pack(">BHHIB", ver, asn, hold, bid, olen & 0xFF) + params
    if not good and rng.random() < 0.15:
        body = body[:rng.randint(0, len(body))]
    if not good and rng.random() < 0.05:
        body += rbytes(rng, rng.randint(1, 4))
    return body


def mutate(rng, b, n=None):
    b = bytearray(b)
    if not b:
        return bytes(b)
    for _ in range(n or rng.choice([1, 1, 2, 3])):
        r = rng.random()
        i = rng.randrange(len(b)) if b else 0
        if r < 0.4 and b:
            b[i] = rng.choice([0, 1, 2, 4, 0xFF, 0xFE, b[i] ^ (1 << rng.randrange(8)), rng.randint(0, 255)])
        elif r < 0.6 and b:
            del b[i]
        elif r < 0.8:
            b.insert(i, rng.randint(0, 255))
        else:
            b = b[:i]
        if not b:
            break
    return bytes(b)
