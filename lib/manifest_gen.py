#!/usr/bin/env python3
"""Regenerates MANIFEST.json from the table below (kept in one place so that the
manifest is always valid and in step with the checks that exist)."""
import json
import os

VERIF = os.path.dirname(os.path.dirname(os.path.abspath(__file__)))
ALL = ["C%02d" % i for i in range(1, 21)]

CHECKS = {
    "C15": dict(
        technique="Coq theorems (round trip, inverse, strictness, totality) over a Gallina model of packet.go + differential correspondence model vs Go + extracted oracles",
        text="Machine-checked theorems over the executable model of Notification/OPEN/capability codecs: decode(encode x)=x for every representable value, every accepted byte string is the canonical encoding of a representable value (so re-encoding reproduces it and nested lengths agree), decoders total (no panic). The model is tied to the Go code on every run by running both on generated and boundary inputs and by applying the extracted specification oracles to the Go outputs.",
        note="Trusted: Coq kernel; hand-written model tied to code by differential testing (generator-bounded); ExtrOcamlBasic extraction; genconsts translator. Error strings and nil-vs-empty slices are not compared.",
        design="8/C15"),
}

NOT_YET = "check not built yet in this session (planned; see DESIGN.md section 11)"


def main():
    checks = []
    for pid in ALL:
        if pid not in CHECKS:
            continue
        c = CHECKS[pid]
        checks.append({
            "property_id": pid,
            "quick_cmd": "./check %s --tier quick" % pid,
            "thorough_cmd": "./check %s --tier thorough" % pid,
            "evidence_file": "/verif/evidence/%s.json" % pid,
            "replay_cmd_template": "./check %s --replay {path}" % pid,
            "engine": "coq-model+correspondence",
            "level_claimed": {"category": "proof", "text": c["text"], "design_ref": "DESIGN.md " + c["design"]},
            "level_note": c["note"],
            "technique": c["technique"],
        })
    m = {
        "version": 1,
        "setup_cmd": "./setup.sh",
        "hooks": {
            "guard": "verif",
            "enable": "go build -tags verif (harness module with replace github.com/jwhited/corebgp => /repo)",
            "baseline_off_cmd": "cd /repo && GOFLAGS=-mod=mod GOPROXY=off GOSUMDB=off GOTOOLCHAIN=local go test -vet=off -count=1 -timeout 25m ./...",
            "source_commits": json.load(open(os.path.join(VERIF, "hook_commits.json"))),
            "add_only": True,
        },
        "engines": [{
            "name": "coq-model+correspondence", "path": "/verif/check",
            "serves_properties": sorted(CHECKS),
            "kind_free_text": "Coq 8.16.1 theorems over a hand-written executable Gallina model; extracted OCaml model and oracles compared with a Go harness built from /repo on every run; constants regenerated from source",
        }],
        "checks": checks,
        "not_applicable": [{"property_id": p, "reason": NOT_YET} for p in ALL if p not in CHECKS],
        "notes": "See DESIGN.md. known_findings.json lists fixed and known findings.",
    }
    with open(os.path.join(VERIF, "MANIFEST.json"), "w") as f:
        json.dump(m, f, indent=1)


main()
