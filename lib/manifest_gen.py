#!/usr/bin/env python3
"""Regenerates MANIFEST.json from the table below (kept in one place so that the
manifest is always valid and in step with the checks that exist)."""
import json
import os

VERIF = os.path.dirname(os.path.dirname(os.path.abspath(__file__)))
ALL = ["C%02d" % i for i in range(1, 21)]

CHECKS = {
    "C15": dict(
        technique="Coq theorems (round trip, inverse, strictness, totality) over a Gallina model of packet.go + differential correspondence model vs Go + extracted oracles",
        text="Machine-checked theorems over the executable model of Notification/OPEN/capability codecs: decode(encode x)=x for every representable value, every accepted byte string is the canonical encoding of a representable value (so re-encoding reproduces it and nested lengths agree), decoders total (no panic). The model is tied to the Go code on every run by running both on generated and boundary inputs and by applying the extracted specification oracles to the Go outputs.",
        note="Trusted: Coq kernel; hand-written model tied to code by differential testing (generator-bounded); ExtrOcamlBasic extraction; genconsts translator. Error strings and nil-vs-empty slices are not compared.",
        design="8/C15"),
    "C14": dict(
        technique="Coq theorem: encoder output = canonical encoding of the intended OPEN iff representable, else nothing; differential correspondence + extracted oracle",
        text="Theorem c14_open_sent characterises newOpenMessage+encode for every (AS, hold, id, capability list): exactly the RFC encoding of version 4 / AS or AS_TRANS / hold / id / [4-octet-AS cap ++ plugin caps minus code 65] when representable, and no bytes otherwise; c14_no_malformed: whatever is emitted strict-parses and decodes to the intended OPEN. Tied to the Go code by differential runs over boundary-heavy capability lists and by the extracted oracle applied to the Go output.",
        note="Trusted: Coq kernel; model-code tie is differential (generator-bounded); hold time given in whole seconds; the FSM's use of the encoder (send or close) is covered by the connection-level checks.",
        design="8/C14"),
    "C02": dict(
        technique="Coq theorems: accept iff acceptable (RFC-level predicate over the strict grammar), reject names a present fault, no panic; differential correspondence + extracted oracle",
        text="c02_accept_iff: decode+validate accepts a body iff it is the canonical encoding of a representable OPEN that satisfies the independent acceptability predicate (version 4, AS via 2-octet field/AS_TRANS + 4-octet-AS capability, hold 0 or >=3, non-multicast id not colliding inside the AS), returning exactly the sender's id, hold time and capabilities in order; c02_reject_sound: every refusal carries a notification whose fault is present; c02_no_panic. Function-level half; the FSM half (KEEPALIVE reply, OnOpenMessage once, NOTIFICATION then close) is checked at connection level.",
        note="Trusted: Coq kernel; model-code tie is differential (generator-bounded). c02_structural_fault covers the structural refusals (subcode 4 only with an unknown parameter type present, subcode 0 only for an empty/overrunning field or capabilities parameter); c02_fsm_open covers the FSM half.",
        design="8/C02"),
    "C16": dict(
        technique="Coq theorem: callback trace of Decode = RFC split relation (induction over the attribute loop) + differential correspondence + extracted oracle",
        text="c16_calls: for every byte string and nil-returning callbacks the sequence of callback invocations of the modelled UpdateDecoder.Decode equals spec_calls, an independent walk of the sections and attribute TLVs (first occurrences in wire order with exact type/flags/value, Extended Length honoured, later duplicates skipped, repeated MP attribute aborts, overrun ends the walk but NLRI still delivered); c16_overrun_first: inconsistent section lengths abort before any callback for every callback behaviour; c16_calls_any_callbacks: for every callback behaviour the calls are the specification's, cut at the first callback error that contains a Notification. Model tied to the Go code by recording callbacks on exhaustive short strings over a protocol alphabet, grammar/mutation bodies, and bodies above 65535 bytes.",
        note="Trusted: Coq kernel; model-code tie differential; callbacks modelled as a script indexed by call number (covers stateful callbacks).",
        design="8/C16"),
    "C17": dict(
        technique="Coq theorems: nil iff clean (nil callbacks), totality and 'callback error never lost' for all callbacks, UpdateNotificationFromErr = first-leaf-by-severity spec (nested induction on error trees) + correspondence + extracted oracle",
        text="c17_nil_iff_clean characterises the returned error for nil callbacks (nil iff consistent, clean attribute walk and mandatory attributes present when routes are announced; bare Notification for inconsistent lengths); c17_total and c17_callback_error_reported hold for every callback behaviour; c17_from_err proves UpdateNotificationFromErr equal to the specification on every finite error tree built from Join/wrap. c17_errors_exact: for every callback behaviour (any error class at any position, stateful) the calls are the specification's calls cut at the first callback error containing a Notification and the returned tree has exactly the specification's leaves (every callback error in order, interleaved with the structural findings incl. the Missing Well-known Attribute fallback); c17_contains_callback_errors, c17_notification_of_result (UpdateNotificationFromErr of the result = first-by-severity over that list), c17_structural_classes. The same specification is applied as an extracted oracle to the Go decoder's output on scripted callbacks of every class at every position.",
        note="Trusted: Coq kernel; model-code tie differential. Foreign UpdateErrors are assumed to return a non-nil Notification; typed-nil errors inside trees are outside the model.",
        design="8/C17"),
    "C18": dict(
        technique="Coq theorems per attribute: accept iff RFC flags and value rule, value exact, failure approach/subcode; finite sweep for flag accessors; _partial/_refuted pairs for the two known findings; correspondence + extracted oracle",
        text="attr_sound proved for ORIGIN, NEXT_HOP, MED, LOCAL_PREF, AGGREGATOR, COMMUNITIES, ORIGINATOR_ID, CLUSTER_LIST, LARGE_COMMUNITIES for all 256 flag octets and all values; AS_PATH accept-iff against an independent segment grammar with failure class; flag accessors by a kernel-checked sweep of 256 octets. Two clauses are false of the code and carried as theorems with witnesses: c18_atomic_aggregate_refuted (D9) and c18_as_path_value_refuted (D10), each with a _partial theorem stating what does hold; both are listed in known_findings.json and reported as KNOWN-FINDING.",
        note="Trusted: Coq kernel; model-code tie differential (all 256 flag octets x valid/invalid values per attribute, short-exhaustive values, long values).",
        design="8/C18"),
    "C19": dict(
        technique="Coq theorems: decode(enc ps)=ps, accepted => enc(result)=input, fail iff no well-formed list encodes to the field, totality; exact characterisation of the MP splitters; correspondence + extracted oracle",
        text="Round-trip/inverse/fail-iff/total theorems for plain and add-path prefix lists (IPv4 and IPv6) against specification encoders; c19_mp_reach / c19_mp_unreach give the splitters' result for every flags octet, body and callback result; IPv6 next hops 16 or 32 only; wrappers carry the assigned notification. Tied to the Go code by a length sweep over every length octet, generated lists with faults, and the full next-hop-length grid 0..255.",
        note="Trusted: Coq kernel; model-code tie differential; netip.Prefix observed through Bits() and Addr().AsSlice().",
        design="8/C19"),
    "C05": dict(
        technique="Coq totality theorems (no Panic/OutOfFuel result for any byte string, any callback behaviour) over models with explicit Go panic semantics + recover-mapped differential on hostile inputs incl. >65535 bytes",
        text="Decoder half: c05_update_decode, c05_attr_decoders, c05_prefixes, c05_addpath_prefixes, c05_mp_splitters, c05_addpath_tuples, c05_message_from_bytes prove that every exported decoding entry point (and the reader's per-message decoder) returns a value or an error for every byte string; slice-bounds panics and uint8/uint16 wrap-around are part of the model, so a panic would be a distinct result. The Go code is run on the same hostile inputs with recover; a PANIC outcome is a violation with the crashing bytes as replay. API-order half: c05_second_serve_refused, c05_finished_server_never_serves over the registry/lifecycle model; generated sequences of AddPeer/DeletePeer/GetPeer/ListPeers/Serve/Close and a failing listener are run on real Server objects (a panic in a corebgp goroutine kills the driver process: the case is isolated and reported; found D16).",
        note="The wedge half is decided on live servers: hostile streams at every FSM state on both directions, then a probe session must establish and Close must return. Blocked TCP writes are runtime behaviour outside the model (known finding D13, reported by C10).",
        design="8/C05"),
    "C12": dict(
        technique="Coq theorem: closed-form hold-down schedule for every error history (induction over the streak) + back-dated differential of updateStartupDelay + extracted closed-form oracle",
        text="c12_delay_schedule: for every history, the i-th protocol error of a streak (first error ever or after >= 300 s of quiet, then gaps < 300 s) sets the hold-down to min(60 s * 2^i, 300 s). The real updateStartupDelay is driven over generated histories by back-dating lastProtoError and compared with the model and the closed form.",
        note="Manager half: c12_hold_down_no_fsm, c12_hold_down_timer, c12_only_protocol_errors (closure proof over every interleaving); live Damp scenarios (each code, each state, both directions, Cease/FIN/RST controls) judge hold-down, refusal and absence of dials. c12_every_protocol_error_reported_refuted carries known finding D14. Partial: the 60..300 s waits are not sat through; the schedule is checked by back-dating.",
        design="8/C12"),
    "C13": dict(
        technique="Coq theorem: admission decision = specification predicate; differential of the real handleInboundConn on fake connections + extracted oracle",
        text="c13_accepted_iff: a connection is handed to a peer iff its source is a configured remote address and, when that peer has a local address, the destination equals it; otherwise refused. The real handleInboundConn runs on fake net.Conns recording Close/Write: refused connections see exactly one Close and no Write.",
        note="Peer side: c13_busy (closure proof: a refused connection changes nothing in the manager); live Admit scenarios (unknown source, wrong local address, second inbound, while Established, while held down) judge silent close and the untouched existing session. Address string forms are a trusted abstraction.",
        design="8/C13"),
    "C20": dict(
        technique="Coq refinement to an abstract map (step_refines), inductive lifecycle invariant over all operation sequences, validate = usable; differential on real Server op sequences incl. Serve/Close + dict reference oracle",
        text="c20_refines: every registry operation on a state satisfying the invariant returns what the abstract map keyed by remote address dictates and transforms it accordingly (exists/not-exist errors, List = exactly the present configs, rejection has no side effect, Serve after Close refused); c20_run_inv: distinct valid keys and 'serving => every registered peer runs, otherwise none' hold after every operation sequence; c20_validate_iff: AddPeer accepts exactly usable configurations; c20_router_id. c20_serve_while_serving, c20_listener_failure_is_final, c20_finished_server_never_serves cover Serve-while-serving and a failing listener. Real Server objects run generated op sequences (Serve on a real listener, Serve again, listener failure, Close) and the full validation grid incl. IPv4-mapped IPv6 addresses.",
        note="Trusted: atomicity of operations under Server.mu (sync.Mutex), so concurrent histories are lock-serialised sequential ones; that a started peer dials/accepts is decided by the system-level checks (C10/C11).",
        design="8/C20"),
}

SYS = ("Tied to the code on every run: the scenario driver (built -tags verif from /repo) plays TCP scripts against a real Server; "
       "wire bytes, plugin callbacks, closes and API returns are compared with the extracted connection model, the hook event log is "
       "replayed through the extracted manager model, and the property's clauses are judged directly on the observed history. ")

CHECKS.update({
    "C01": dict(
        technique="Coq closure proof (kernel-checked inductive invariant over every interleaving of manager + 2 FSM goroutines) + callback-monitor theorem over all input sequences; model tied by event-log replay and chaos scenarios",
        text="c01_one_established: in every state reachable by any trace of any length of the peer-manager transition system (both passive settings, both collision outcomes) at most one FSM is in Established; c01_established_stops_other: Established is approved only after the other FSM's goroutine ended; c01_stopped_means_gone; c01_callbacks: per connection, for every input sequence, the callback history matches OnOpenMessage? (OnEstablished (OnUpdate)* OnClose)? with no callback after OnClose. " + SYS + "Chaos scenarios (overlapping in/out sessions, faults at each state, API calls interleaved) are judged for two simultaneous Established sessions and for callback well-formedness.",
        note="Trusted: Coq kernel (vm_compute of the closure checks), the abstraction of state functions to their possible returns, hand-written model tied by event replay (generator- and schedule-bounded). Goroutine scheduling on the real code is sampled, forced only at the hook points.",
        design="8/C01"),
    "C03": dict(
        technique="Coq theorems: reader delivery invariant under every segmentation (induction over chunks), handler-call sequence = UPDATE sequence, handler Notification sent verbatim; correspondence on the real reader and on live sessions",
        text="c03_reader_delivery: for every stream of UPDATE/KEEPALIVE frames and every way of cutting it into TCP segments the reader yields exactly the messages in order with byte-exact bodies; c03_handler_calls: in Established with a nil-returning handler, one call per UPDATE, in order; c03_handler_notification: a non-nil Notification is written verbatim, OnClose follows, later UPDATEs are not delivered; c03_window: no UPDATE before OnEstablished returned or after OnClose began. The real reader (VerifRunReader) is run on the same chunked streams; live sessions with scripted handlers are compared with the model.",
        note="Trusted: Coq kernel; model-code tie differential (chunkings and streams generated); TCP delivers bytes in order (kernel).",
        design="8/C03"),
    "C04": dict(
        technique="Coq theorems: every write of the connection machine is one whole well-formed message; whole messages are self-delimiting under any serialisation; concurrent-writer stress on live sessions parsed by a strict framing monitor",
        text="c04_every_write_wellformed: each write performed in any state on any input is a single frame with marker, length = 19+body <= 4096 and a valid type; c04_update_frame; c04_frames_self_delimiting: any concatenation of atomic well-formed writes parses back to exactly those frames. Writers model (every interleaving of WriteUpdate calls, FSM writes and session ends): c04_exactly_once_in_order (each nil-returning WriteUpdate(b) appears exactly once as an UPDATE with body b, per-writer call order, on its own connection), c04_stream_is_whole_messages (the remote's strict parser recovers exactly the appended frames), c04_after_end_fails and c04_nothing_after_end (a writer of an ended session fails and never adds a frame to any connection). Live part: N plugin goroutines call WriteUpdate with distinct bodies concurrently with keep-alives, handler replies and teardown; the remote side strict-parses the stream and matches every UPDATE body to a WriteUpdate call that returned nil.",
        note="Partial for atomicity: that one conn.Write call is not interleaved with another is a property of net.Conn (Go runtime), exercised by the stress run but not modelled. Trusted: Coq kernel; differential tie.",
        design="8/C04"),
    "C06": dict(
        technique="Coq theorems on the timer logic (negotiated value, arming on OPEN acceptance, expiry actions, keep-alive re-arm, zero disables) and invariants over all timed runs incl. every interleaving of local WriteUpdate calls with the keep-alive manager; tie by timer-operation events against the extracted model + real-time scenarios judged with tolerances",
        text="c06_negotiated: hold = min(local, received) for every pair; c06_open_accept_timers: on acceptance hold timer armed with the negotiated value and keep-alive timer with a third (none when zero); c06_hold_expiry: NOTIFICATION (4,0), close, Idle in OpenConfirm and Established; c06_keepalive_timer; c06_zero_hold: with hold 0 no timer is ever armed and timer events are no-ops. Timed model (deadlines, timers never fire early), every timed run of any length: c06_no_early_expiry (hold expiry never earlier than the hold time after the last accepted OPEN/KEEPALIVE/UPDATE), c06_expiry_action, c06_keepalive_cadence (keep-alive timer always armed at most H/3 after the last KEEPALIVE; served within L, never more than H/3+L without one), c06_zero_never_fires. With local writes (TimedW.v: plugin WriteUpdate calls and the keep-alive manager goroutine serving their reset tokens are asynchronous inputs; every interleaving, any run length): c06_cadence_with_writes / c06_armed_with_writes (keep-alive deadline <= last KEEPALIVE-or-UPDATE written + H/3 + largest write-to-reset latency), c06_no_early_expiry_with_writes, c06_reset_action (a served reset arms exactly H/3 from the serving instant and touches nothing else), c06_zero_with_writes (hold 0: writes and resets arm nothing, nothing fires), c06_resets_le_writes, c06_latency_term_is_needed (a reachable state shows the latency term cannot be dropped). The extracted runner used for this tie (op 62) is proved a conservative extension of the one used by every other connection-level comparison (c06_op62_conservative, c06_op62_exact). Tie: the timer operations themselves (hook events t.hold/t.ka with durations) of 170+ short sessions over hold pairs incl. 0 and 65535, with 0/1/2/5 UPDATEs written inside OnEstablished, are compared with the model's arm actions, including every re-arm caused by a write (extracted op 62). Live part: sessions with hold times 3..9 s and 0 on both directions: a plugin writing UPDATEs more often than the keep-alive interval (no gap above about H/3, one re-arm per write), silent remote (expiry time within tolerance), late keep-alives just inside/outside the window, keep-alive cadence measured at the remote.",
        note="Partial: wall-clock clauses are measured on a sample of hold values with scheduling tolerance; Go timers are trusted. The clocked model assumes Go timers never fire early and bounds lateness by an explicit L; the latency between an UPDATE write and the keep-alive manager serving its reset token is an explicit term (xs_maxlat) of the cadence theorem, not proved small.",
        design="8/C06"),
    "C07": dict(
        technique="Coq closure proof over every interleaving incl. both collision branches + decision-rule theorems; forced schedules at hook points and all arrival orders on live sessions",
        text="c07_decision: when both connections reached OpenConfirm the survivor is the one initiated by the speaker with the higher BGP Identifier (ties: higher AS), for either asking FSM; c07_established_first; c07_resolved: in every reachable state never two connections past the collision point, exactly one survives; c07_loser_ceased: the losing connection gets Cease before close. Live part: both orders of OPEN arrival x both id orderings x in/out, plus forced interleavings at collide.select; judged on which connection survives, Cease on the loser, one OnEstablished.",
        note="Trusted: Coq kernel (vm_compute closure), abstraction of ids to the dominant bit (dominant_of is tied by the op-60 differential), schedule points only where hooks exist.",
        design="8/C07"),
    "C08": dict(
        technique="Coq theorems: segmentation independence, well-formed prefix processed, first fault decides (induction over frames/chunks), per-fault notification codes, notification-then-close; correspondence on the real reader and live connections",
        text="c08_segmentation_independent; c08_wellformed_prefix; c08_first_fault: exactly the messages before the first header fault are processed, then its notification, nothing after; c08_bad_marker/(1,1), c08_bad_length/(1,2) with the offending length, c08_bad_type/(1,3) with the type; c08_notification_then_close in OpenSent/OpenConfirm/Established; c08_notification_on_wire byte-exact. The real reader and live sessions are driven with every header fault at every position and random chunking.",
        note="Trusted: Coq kernel; differential tie (generator-bounded).",
        design="8/C08"),
    "C09": dict(
        technique="Coq theorems over the connection state machine: full (state x message) table, notification handling, TCP failure silent, OnClose exactly once; exhaustive state x message live scenarios",
        text="c09_unexpected_message: every pair that is not legal progress gets NOTIFICATION (5, state subcode), close, no callback other than OnClose; c09_legal_table: the legal pairs are exactly OPEN/OpenSent, KEEPALIVE/OpenConfirm, KEEPALIVE+UPDATE/Established; c09_notification_received / _no_reply; c09_tcp_failure_silent; c09_eof_mid_message (a connection ending inside a message yields the complete messages before it and a plain I/O error: no phantom message); c09_onclose_once for every input sequence. Live: every state x message type x direction, plus multi-session sequences, compared with the model and judged.",
        note="Trusted: Coq kernel; differential tie.",
        design="8/C09"),
    "C10": dict(
        technique="Coq closure proof: shutdown progress, strictly decreasing rank (bounded), nothing left, Cease-before-close, over every interleaving; live stop-at-every-point scenarios, forced schedules, goroutine-leak census, Go race detector build",
        text="c10_progress: after closeCh is closed every reachable non-final state has an enabled step; c10_bounded: every shutdown step decreases a rank, so no shutdown run is longer than rk s; c10_all_gone: when the manager is done no FSM goroutine, pending op or timer remains; c10_cease_first. Live: Close/DeletePeer at message k of each script on both directions, during collision, damping, dial hand-off (forced) and with active writers; judged on return latency, EOF after Cease, OnClose, no callbacks after return, goroutine census; the same families run under -race.",
        note="Partial: the data-race clause is decided by the Go race detector on the executed schedules (not a proof); blocked TCP writes are outside the model (known finding D13). Trusted: Coq kernel, hooks.",
        design="8/C10"),
    "C11": dict(
        technique="Coq theorems on the retry logic (passive never dials — closure proof; inbound end resumes outbound; non-damping errors never hold down) + real-time retry scenarios",
        text="c11_passive_never_dials in every reachable state; c11_resume: when the inbound FSM goes down the outbound FSM is enabled at once; c11_enable_outbound: a fresh outbound FSM starts with an expired idle-hold; c11_no_damping: transport faults and Cease never start a hold-down. Timed model of Idle/Connect/Active with the idle-hold and connect-retry timers, every timed run: c11_dial_pacing (an attempt from Idle is at least idle-hold after the previous one from Idle; an attempt on connect-retry expiry at least connect-retry after the previous attempt), c11_refused_attempts_spaced (while every attempt is refused, never closer than idle-hold). Live: refused / stalled / reset / FIN / Cease endings at each state, then the time and count of following dials against ConnectRetry / IdleHold settings; passive peers observed not to dial.",
        note="Partial: pacing clauses are wall-clock measurements with tolerance on a sample of timer settings.",
        design="8/C11"),
})

NOT_YET = "check not built"


def main():
    checks = []
    for pid in ALL:
        if pid not in CHECKS:
            continue
        c = CHECKS[pid]
        checks.append({
            "property_id": pid,
            "quick_cmd": "./check %s --tier quick" % pid,
            "thorough_cmd": "./check %s --tier thorough" % pid,
            "evidence_file": "/verif/evidence/%s.json" % pid,
            "replay_cmd_template": "./check %s --replay {path}" % pid,
            "engine": "coq-model+correspondence",
            "level_claimed": {"category": "proof", "text": c["text"], "design_ref": "DESIGN.md " + c["design"]},
            "level_note": c["note"],
            "technique": c["technique"],
        })
    m = {
        "version": 1,
        "setup_cmd": "./setup.sh",
        "hooks": {
            "guard": "verif",
            "enable": "go build -tags verif (harness module with replace github.com/jwhited/corebgp => /repo)",
            "baseline_off_cmd": "cd /repo && GOFLAGS=-mod=mod GOPROXY=off GOSUMDB=off GOTOOLCHAIN=local go test -vet=off -count=1 -timeout 25m ./...",
            "source_commits": json.load(open(os.path.join(VERIF, "hook_commits.json"))),
            "add_only": True,
        },
        "engines": [{
            "name": "coq-model+correspondence", "path": "/verif/check",
            "serves_properties": sorted(CHECKS),
            "kind_free_text": "Coq 8.16.1 theorems over a hand-written executable Gallina model; extracted OCaml model and oracles compared with a Go harness built from /repo on every run; constants regenerated from source",
        }],
        "checks": checks,
        "not_applicable": [{"property_id": p, "reason": NOT_YET} for p in ALL if p not in CHECKS],
        "notes": "See DESIGN.md. known_findings.json lists fixed (D1-D8, D11, D12, D15, D16) and known (D9, D10, D13, D14) findings; seeded/ holds the 138 mutation-validation patches of four rounds.",
    }
    with open(os.path.join(VERIF, "MANIFEST.json"), "w") as f:
        json.dump(m, f, indent=1)


main()
