"""Orchestrates one property check: build, theorem re-check, function-level part,
system-level part, evidence."""
import random

import fnprop
from common import BuildError, Report, TRUSTED_BASE, build_all, check_theorems, coqchk


def run_property(mod, tier, seed, replay=None):
    pid = mod.PID
    rep = Report(pid, tier, seed)
    rep.assumptions = list(getattr(mod, "ASSUMPTIONS", []))
    rng = random.Random(seed)
    has_fn = hasattr(mod, "cases")
    has_sys = hasattr(mod, "sys_part")
    harness = tuple(["fn"] if has_fn else []) + tuple(["sys"] if has_sys else [])
    try:
        rc, build_log = build_all(harness or ("fn",))
    except BuildError as e:
        rep.coverage = {"obligations": 1, "discharged": 0, "checker_cmd": "make (coq/)", "trusted_base": TRUSTED_BASE,
                        "explanation": "build failed at stage %s" % e.stage}
        rep.violation({"kind": "build", "stage": e.stage}, {"stage": e.stage, "log": e.log[-4000:],
                      "broken": "build stage '%s' no longer succeeds against the current source" % e.stage}, found_input=False)
        return rep.finish()
    thms, tlog, failing = check_theorems(pid)
    n_ok = sum(1 for t in thms if t["ok"])
    cov = {
        "obligations": len(thms), "discharged": n_ok, "theorems": thms,
        "checker_cmd": "cd /verif/coq && make -j16 && coqc -Q ... Props/%s.v  (full .vo build; Print Assumptions under every theorem)" % pid,
        "trusted_base": TRUSTED_BASE + list(getattr(mod, "EXTRA_TRUSTED", [])),
    }
    if tier == "thorough" and not replay and failing is None:
        clean, axioms, clog = coqchk(pid)
        cov["coqchk"] = {"cmd": "coqchk -silent -o Verif.%s" % pid, "clean": clean, "axioms": axioms}
        if not clean:
            failing = failing or "coqchk"
            tlog += "\n[coqchk] " + clog
    rep.fn_found = False
    rep.sys_found = False
    if has_fn:
        cov.update(fnprop.fn_part(mod, tier, rng, rep, replay, thms, tlog, failing, rc, build_log))
    if has_sys:
        scov = mod.sys_part(tier, rng, rep, replay)
        if has_fn:
            cov["system_level"] = scov
            cov["evaluations"] = cov.get("evaluations", 0) + scov.get("evaluations", 0)
            cov["distinct_nontrivial"] = cov.get("distinct_nontrivial", 0) + scov.get("distinct_nontrivial", 0)
            cov["traces_validated_against_impl"] = scov.get("traces_validated_against_impl", 0)
            cov["samples"] = cov.get("samples", []) + scov.get("samples", [])[:4]
            cov["rule"] = cov.get("rule", "") + " || system level: " + scov.get("rule", "")
        else:
            cov.update(scov)
    # a theorem of this property no longer checks
    if failing is not None or n_ok < len(thms):
        if not (rep.fn_found or rep.sys_found):
            rep.violation({"kind": "theorem", "name": failing},
                          {"broken": "theorem %s in coq/Props/%s.v no longer checks" % (failing, pid), "log": tlog[-3000:]},
                          found_input=False)
    if rc != 0 and failing is None:
        rel = [f for f in getattr(mod, "COQ_FILES", []) if ('File "./%s"' % f) in build_log]
        if rel:
            rep.violation({"kind": "proof-build", "files": rel},
                          {"broken": "coq files %s no longer compile" % rel, "log": build_log[-3000:]}, found_input=False)
    rep.coverage = cov
    return rep.finish()
