"""Shared machinery for the per-property checks: builds, drivers, comparison,
oracles, known findings, replays and evidence."""
import fcntl
import hashlib
import json
import os
import random
import re
import subprocess
import sys
import time

VERIF = os.path.dirname(os.path.dirname(os.path.abspath(__file__)))
REPO = os.environ.get("VERIF_REPO", "/repo")
COQ = os.path.join(VERIF, "coq")
BIN = os.path.join(VERIF, "bin")
GOENV = dict(os.environ, GOFLAGS="-mod=mod", GOPROXY="off", GOSUMDB="off", GOTOOLCHAIN="local",
             CGO_ENABLED=os.environ.get("CGO_ENABLED", "0"))
COQ_Q = ["-Q", "Lib", "Verif", "-Q", "Gen", "Verif", "-Q", "Model", "Verif", "-Q", "Spec", "Verif",
         "-Q", "Proofs", "Verif", "-Q", "Props", "Verif"]

TRUSTED_BASE = [
    "Coq 8.16.1 kernel incl. vm_compute (no native_compute); coqchk re-check in the thorough tier",
    "hand-written Gallina model coq/Model/*.v, tied to /repo only by the correspondence check of this run",
    "translator tools/genconsts (go/types constant evaluation) regenerating coq/Gen/Consts.v from /repo on every run",
    "extraction: ExtrOcamlBasic only (bool, option, unit, list, prod, sumbool, sumor); N/Z/positive/nat kept as Coq datatypes; OCaml 4.13.1; ocaml/driver.ml",
    "Go harness harness/cmd/* built -tags verif against /repo's working tree; /repo/verif_export.go shim",
    "case generators and comparator in lib/*.py (differential testing; strength bounded by the generators, distributions recorded in the evidence)",
]


class BuildError(Exception):
    def __init__(self, stage, log):
        super().__init__(stage)
        self.stage = stage
        self.log = log


def sh(cmd, cwd=None, env=None, timeout=1800, input=None):
    p = subprocess.run(cmd, cwd=cwd, env=env, timeout=timeout, input=input,
                       stdout=subprocess.PIPE, stderr=subprocess.STDOUT, text=True)
    return p.returncode, p.stdout


class Lock:
    def __init__(self, name):
        self.path = os.path.join(VERIF, ".lock_" + name)

    def __enter__(self):
        self.f = open(self.path, "w")
        fcntl.flock(self.f, fcntl.LOCK_EX)

    def __exit__(self, *a):
        fcntl.flock(self.f, fcntl.LOCK_UN)
        self.f.close()


def newer(src_paths, target):
    if not os.path.exists(target):
        return True
    t = os.path.getmtime(target)
    return any(os.path.getmtime(s) > t for s in src_paths if os.path.exists(s))


def glob_v(sub):
    d = os.path.join(COQ, sub)
    return [os.path.join(d, f) for f in sorted(os.listdir(d)) if f.endswith(".v")] if os.path.isdir(d) else []


def build_tools():
    """Translators (Go, stdlib only)."""
    os.makedirs(BIN, exist_ok=True)
    for tool in ("genconsts",):
        src = os.path.join(VERIF, "tools", tool, "main.go")
        out = os.path.join(BIN, tool)
        if newer([src], out):
            rc, log = sh(["go", "build", "-o", out, "./" + tool], cwd=os.path.join(VERIF, "tools"), env=GOENV)
            if rc != 0:
                raise BuildError("build " + tool, log)


def regen():
    """Regenerate coq/Gen/*.v from /repo's current source."""
    rc, log = sh([os.path.join(BIN, "genconsts"), REPO, os.path.join(COQ, "Gen", "Consts.v")], env=GOENV)
    if rc != 0:
        raise BuildError("genconsts", log)


def coq_make(targets=None, jobs=16):
    """Full .vo build (never -vos). Returns the log; raises BuildError naming the failing file."""
    if newer([os.path.join(COQ, "_CoqProject")], os.path.join(COQ, "Makefile")):
        rc, log = sh(["coq_makefile", "-f", "_CoqProject", "-o", "Makefile"], cwd=COQ)
        if rc != 0:
            raise BuildError("coq_makefile", log)
    cmd = ["make", "-j%d" % jobs, "-k"] + (targets or [])
    rc, log = sh(["timeout", "3000"] + cmd, cwd=COQ, timeout=3100)
    return rc, log


def build_model_driver():
    """Extract the model (coqc in ocaml/) and build the OCaml driver when stale."""
    ml = os.path.join(VERIF, "ocaml", "model.ml")
    drv = os.path.join(BIN, "model_driver")
    deps = glob_v("Model") + glob_v("Spec") + glob_v("Lib") + glob_v("Gen") + [os.path.join(COQ, "Extract", "Extract.v")]
    if newer(deps, ml):
        qs = []
        for d in ("Lib", "Gen", "Model", "Spec"):
            qs += ["-Q", os.path.join(COQ, d), "Verif"]
        rc, log = sh(["coqc"] + qs + [os.path.join(COQ, "Extract", "Extract.v")], cwd=os.path.join(VERIF, "ocaml"))
        if rc != 0:
            raise BuildError("extraction", log)
    if newer([ml, os.path.join(VERIF, "ocaml", "driver.ml")], drv):
        rc, log = sh(["ocamlfind", "ocamlopt", "-w", "-a", "model.mli", "model.ml", "driver.ml", "-o", drv],
                     cwd=os.path.join(VERIF, "ocaml"))
        if rc != 0:
            raise BuildError("ocaml build", log)


def build_harness(names=("fn",), race=False):
    """Always rebuilt from /repo's working tree with the verif tag."""
    h = os.path.join(VERIF, "harness")
    rc, log = sh(["cp", os.path.join(REPO, "go.sum"), os.path.join(h, "go.sum")])
    for n in names:
        out = os.path.join(BIN, n + ("_race" if race else ""))
        env = dict(GOENV)
        cmd = ["go", "build", "-tags", "verif"]
        if race:
            cmd.append("-race")
            env["CGO_ENABLED"] = "1"
        cmd += ["-o", out, "./cmd/" + n]
        rc, log = sh(cmd, cwd=h, env=env)
        if rc != 0:
            raise BuildError("go build " + n, log)


def build_all(harness=("fn",)):
    with Lock("build"):
        build_tools()
        regen()
        rc, log = coq_make()
        build_model_driver()
        build_harness(harness)
    return rc, log


def run_lines(binary, lines, timeout=1800, env=None):
    inp = "\n".join(lines) + "\n"
    is_fn = os.path.basename(binary) == "fn"
    try:
        p = subprocess.run([binary], input=inp, stdout=subprocess.PIPE, stderr=subprocess.PIPE, text=True,
                           timeout=(min(timeout, 120 + len(lines) // 4) if is_fn else timeout), env=env)
    except subprocess.TimeoutExpired:
        if not is_fn:
            raise
        # the implementation wedged the driver (a call that never returns): isolate the case(s)
        if len(lines) == 1:
            CRASH_LOG[lines[0]] = "HANG: the call sequence did not return"
            return ["2"]
        return isolate_crashes(binary, lines, "HANG", env)
    out = p.stdout.split("\n")
    if out and out[-1] == "":
        out.pop()
    if p.returncode != 0 or len(out) != len(lines):
        if os.path.basename(binary) == "fn" and len(lines) == 1:
            CRASH_LOG[lines[0]] = p.stderr[-1500:]
            return ["2"]
        if os.path.basename(binary) == "fn" and len(lines) > 1:
            # the implementation crashed the driver process (a panic outside the calling goroutine cannot be
            # recovered): isolate the case(s) by running every line in a process of its own
            return isolate_crashes(binary, lines, p.stderr, env)
        raise BuildError("driver " + os.path.basename(binary),
                         "rc=%d lines in=%d out=%d\n%s" % (p.returncode, len(lines), len(out), p.stderr[-2000:]))
    return out


CRASH_LOG = {}


def isolate_crashes(binary, lines, batch_stderr, env=None):
    import concurrent.futures as cf

    def one(line):
        try:
            q = subprocess.run([binary], input=line + "\n", stdout=subprocess.PIPE, stderr=subprocess.PIPE, text=True,
                               timeout=30, env=env)
        except subprocess.TimeoutExpired:
            CRASH_LOG[line] = "HANG: the call sequence did not return within 30 s"
            return "2"
        o = q.stdout.split("\n")
        if q.returncode != 0 or not o or o[0] == "":
            CRASH_LOG[line] = q.stderr[-1500:]
            return "2"
        return o[0]
    with cf.ThreadPoolExecutor(16) as ex:
        outs = list(ex.map(one, lines))
    if not any(l in CRASH_LOG for l in lines):
        raise BuildError("driver fn", "the batch crashed but no single case does:\n" + batch_stderr[-2000:])
    return outs


def run_parallel(binary, lines, shards=8, timeout=1800):
    """Shard a big case list over several driver processes, keeping order."""
    if len(lines) < 2000:
        return run_lines(binary, lines, timeout)
    import concurrent.futures as cf
    n = len(lines)
    step = (n + shards - 1) // shards
    parts = [lines[i:i + step] for i in range(0, n, step)]
    with cf.ThreadPoolExecutor(len(parts)) as ex:
        res = list(ex.map(lambda p: run_lines(binary, p, timeout), parts))
    return [x for r in res for x in r]


# ---------------------------------------------------------------- cases

def hx(b):
    return "x" + bytes(b).hex()


class Case:
    __slots__ = ("op", "ints", "bs", "tag")

    def __init__(self, op, ints=(), bs=(), tag=""):
        self.op = op
        self.ints = list(ints)
        self.bs = [bytes(b) for b in bs]
        self.tag = tag

    def line(self, op=None):
        parts = [str(self.op if op is None else op)] + [str(i) for i in self.ints] + [hx(b) for b in self.bs]
        return " ".join(parts)

    def to_json(self):
        return {"op": self.op, "ints": self.ints, "bs": [b.hex() for b in self.bs], "tag": self.tag}

    @staticmethod
    def from_json(j):
        return Case(j["op"], j["ints"], [bytes.fromhex(h) for h in j["bs"]], j.get("tag", ""))

    def key(self):
        return (self.op, tuple(self.ints), tuple(self.bs))


# ---------------------------------------------------------------- theorems

def check_theorems(pid):
    """Re-check Props/<pid>.v against the .vo files just built. Returns
    (theorems: list of dict(name, ok, assumptions), log)."""
    src = os.path.join(COQ, "Props", pid + ".v")
    text = open(src).read()
    names = re.findall(r"^\s*(?:Theorem|Lemma|Corollary)\s+([A-Za-z0-9_']+)", text, re.M)
    rc, log = sh(["timeout", "1200", "coqc"] + COQ_Q + [os.path.join("Props", pid + ".v")], cwd=COQ, timeout=1300)
    res = []
    # Print Assumptions output, in order of appearance
    blocks = re.split(r"(?=^Closed under the global context|^Axioms:)", log, flags=re.M)
    assum = [b.strip() for b in blocks if b.startswith("Closed under") or b.startswith("Axioms:")]
    for i, n in enumerate(names):
        a = assum[i] if i < len(assum) else ("(not reached)" if rc != 0 else "(no Print Assumptions)")
        res.append({"name": n, "ok": rc == 0, "assumptions": a.split("\n")[0] if a.startswith("Closed") else a})
    failing = None
    if rc == 0:
        # every property theorem must be closed (no axiom, not even a standard-library one, is relied on)
        for r in res:
            if not r["assumptions"].startswith("Closed under the global context"):
                r["ok"] = False
                failing = failing or r["name"]
                log += "\n[audit] %s depends on: %s" % (r["name"], r["assumptions"][:400])
        bad = audit_sources()
        if bad:
            for r in res:
                r["ok"] = False
            failing = failing or names[0]
            log += "\n[audit] forbidden constructs in the development: " + "; ".join(bad[:10])
    if rc != 0:
        m = re.search(r'File "([^"]+)", line (\d+)', log)
        if m:
            line = int(m.group(2))
            # attribute to the theorem whose statement precedes the error line
            upto = "\n".join(text.split("\n")[:line])
            prev = re.findall(r"^\s*(?:Theorem|Lemma|Corollary)\s+([A-Za-z0-9_']+)", upto, re.M)
            failing = prev[-1] if prev else None
        for r in res:
            r["ok"] = failing is not None and names.index(r["name"]) < names.index(failing) if failing in names else False
    return res, log, failing


FORBIDDEN = re.compile(r"\b(Admitted|admit|Axiom|Axioms|Parameter|Parameters|Conjecture|Conjectures|Abort All|native_compute|"
                       r"bypass_check|Admit Obligations)\b|Unset Guard Checking|Unset Positivity Checking|Unset Universe Checking|"
                       r"-type-in-type|-impredicative-set")


def audit_sources():
    """grep of the whole development (comments stripped): no axiom-declaring command, no switched-off kernel check,
    and Variable/Hypothesis/Context only inside a Section."""
    bad = []
    for root, _, files in os.walk(COQ):
        for f in sorted(files):
            if not f.endswith(".v"):
                continue
            path = os.path.join(root, f)
            text = open(path).read()
            # strip (nested) comments
            out, depth, i = [], 0, 0
            while i < len(text):
                if text.startswith("(*", i):
                    depth += 1; i += 2
                elif text.startswith("*)", i) and depth:
                    depth -= 1; i += 2
                else:
                    if not depth:
                        out.append(text[i])
                    elif text[i] == "\n":
                        out.append("\n")
                    i += 1
            code = "".join(out)
            nest = 0
            for ln, line in enumerate(code.split("\n"), 1):
                st = line.strip()
                if re.match(r"(Section|Module)\b", st) and not re.match(r"Module\s+\w+\s*:=", st):
                    nest += 1
                elif re.match(r"End\b", st):
                    nest = max(0, nest - 1)
                m = FORBIDDEN.search(line)
                if m:
                    bad.append("%s:%d %s" % (os.path.relpath(path, COQ), ln, m.group(0)))
                if nest == 0 and re.match(r"(Variable|Variables|Hypothesis|Hypotheses|Context)\b", st):
                    bad.append("%s:%d %s outside a Section" % (os.path.relpath(path, COQ), ln, st.split()[0]))
    for f in ("_CoqProject",):
        t = open(os.path.join(COQ, f)).read()
        if "-type-in-type" in t or "impredicative-set" in t or "-vos" in t:
            bad.append("_CoqProject: forbidden flag")
    return bad


def coqchk(pid):
    """thorough tier: independent re-check of the property's compiled theorems and everything they depend on"""
    rc, log = sh(["timeout", "3000", "coqchk", "-silent", "-o"] + COQ_Q + ["Verif." + pid], cwd=COQ, timeout=3100)
    m = re.search(r"\* Axioms:\s*(.*?)\n\s*\n", log, re.S)
    axioms = m.group(1).strip() if m else "(no summary)"
    clean = rc == 0 and axioms == "<none>" and all(("%s: <none>" % k) in log for k in
                                                    ("relying on type-in-type", "unsafe (co)fixpoints", "positivity is assumed"))
    return clean, axioms, log[-1500:]


# ---------------------------------------------------------------- known findings

def load_known():
    p = os.path.join(VERIF, "known_findings.json")
    if not os.path.exists(p):
        return []
    return json.load(open(p))


def match_known(known, pid, sig):
    """sig: dict describing a violation (kind, op, clause, case fields...). A known
    entry matches when property equals and its 'where' expression holds."""
    for k in known:
        if k.get("status") != "known" or k["property"] != pid:
            continue
        try:
            if eval(k["where"], {"__builtins__": {}}, dict(sig, len=len, any=any, all=all)):
                return k
        except Exception:
            continue
    return None


# ---------------------------------------------------------------- reporting

class Report:
    def __init__(self, pid, tier, seed):
        self.pid, self.tier, self.seed = pid, tier, seed
        self.t0 = time.time()
        self.violations = []      # (sig, replay_path, found_input)
        self.known_hits = {}
        self.coverage = {}
        self.assumptions = []
        self.known = load_known()
        d = os.path.join(VERIF, "replays", pid)
        if os.path.isdir(d):
            for f in os.listdir(d):
                if f.endswith(".json"):
                    os.remove(os.path.join(d, f))

    def violation(self, sig, replay, found_input=True):
        """Register a violation unless it matches a known finding."""
        k = match_known(self.known, self.pid, sig)
        if k is not None:
            self.known_hits.setdefault(k["id"], [k, 0])[1] += 1
            return False
        d = os.path.join(VERIF, "replays", self.pid)
        os.makedirs(d, exist_ok=True)
        h = hashlib.sha1(json.dumps(sig, sort_keys=True, default=str).encode()).hexdigest()[:12]
        path = os.path.join(d, h + ".json")
        replay = dict(replay, property=self.pid, signature=sig, seed=self.seed, tier=self.tier,
                      rerun="cd /verif && ./check %s --replay %s" % (self.pid, path))
        with open(path, "w") as f:
            json.dump(replay, f, indent=1, default=str)
        self.violations.append((sig, path, found_input))
        return True

    def finish(self, level="proof"):
        for kid, (k, n) in sorted(self.known_hits.items()):
            print("KNOWN-FINDING: property=%s %s (%s; %d occurrence(s) this run)" % (self.pid, k["id"], k["what"], n))
        seen = set()
        for sig, path, found in self.violations:
            if path in seen:
                continue
            seen.add(path)
            print("VIOLATION property=%s replay=%s%s" % (self.pid, path, "" if found else " no-failing-input-found"))
        ev = {
            "property_id": self.pid, "tier": self.tier, "seed": self.seed, "level": level,
            "coverage": self.coverage, "assumptions": self.assumptions,
            "wall_s": round(time.time() - self.t0, 2), "violations": len(seen),
        }
        os.makedirs(os.path.join(VERIF, "evidence"), exist_ok=True)
        with open(os.path.join(VERIF, "evidence", self.pid + ".json"), "w") as f:
            json.dump(ev, f, indent=1, default=str)
        sys.stdout.flush()
        return 1 if seen else 0


def shrink_bytes(case, idx, still_fails, max_steps=200):
    """Greedy byte-string shrink of case.bs[idx] preserving failure (ddmin-lite)."""
    b = case.bs[idx]
    steps = 0
    chunk = max(1, len(b) // 2)
    while chunk >= 1 and steps < max_steps:
        i = 0
        progressed = False
        while i < len(b) and steps < max_steps:
            cand = b[:i] + b[i + chunk:]
            c2 = Case(case.op, case.ints, case.bs[:idx] + [cand] + case.bs[idx + 1:], case.tag)
            steps += 1
            if still_fails(c2):
                b = cand
                case = c2
                progressed = True
            else:
                i += chunk
        if not progressed:
            chunk //= 2
    return case
