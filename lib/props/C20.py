"""C20 — peer registry behaves as a consistent map and rejects unusable configs (function-level half:
API results of operation sequences incl. Serve/Close, and the validation grid)."""
import fnprop
import gen
from common import Case

PID = "C20"
OPNAMES = {40: "registry_script", 42: "add_validate", 44: "new_server"}
ORACLES = {42: 142, 44: 144}
RULE = ("operation sequences (AddPeer/DeletePeer/GetPeer/ListPeers/Serve/Close, 4..30 ops over 5 addresses so that "
        "duplicates and misses are frequent; Serve started in a goroutine, Close observed to make Serve return "
        "ErrServerClosed) run on a real Server and compared with the model and with a dict-based reference; the full "
        "validation grid (remote kind invalid/v4/v6 x local kind x AS 0/1/2^32-1 x hold 0..4,65535 x port "
        "-1,0,1,179,65535,65536 x passive); NewServer with v4/v6/invalid ids. distinct = distinct op lists.")
ASSUMPTIONS = ["registry operations are atomic under Server.mu (trusted), so sequential histories cover the lock-serialised concurrent ones",
               "peers in registry scripts dial only loopback addresses with short timers"]
COQ_FILES = ["Model/Server.v", "Spec/ServerSpec.v", "Proofs/ServerProofs.v", "Props/C20.v"]


FAM = {0: 0, 1: 4, 2: 6, 3: 6}      # 3 = IPv4-mapped IPv6: an IPv6 address to netip


def usable(kr, las, ras, kl, hold, port):
    return kr != 0 and (kl == 0 or FAM[kl] == FAM[kr]) and las != 0 and ras != 0 and (hold == 0 or hold >= 3) and 1 <= port <= 65535


def py_registry(case, out):
    """Reference: a dict keyed by remote address; checks the implementation's output tokens."""
    l = list(case.ints)
    toks = [int(x) for x in out.split()] if out else []
    m = {}
    serving = False
    closed = False
    pos = 0

    def take(n):
        nonlocal pos
        r = toks[pos:pos + n]
        pos += n
        return r
    while l:
        op = l[0]
        if op == 1:
            kr, ir, las, ras, kl, il, hold, port, pas = l[1:10]
            l = l[10:]
            port -= 100000
            key = (kr, ir)
            if not usable(kr, las, ras, kl, hold, port):
                want = 4
            elif key in m:
                want = 1
            else:
                want = 0
                m[key] = (kr, ir, las, ras)
            if take(1) != [want]:
                return "0 140 1"
        elif op == 2:
            key = (l[1], l[2]) if l[1] else (0, 0)
            l = l[3:]
            if l is not None and key in m and key[0] != 0:
                del m[key]
                want = 0
            else:
                want = 2
            if take(1) != [want]:
                return "0 140 2"
        elif op == 3:
            key = (l[1], l[2])
            l = l[3:]
            if key in m and key[0] != 0:
                if take(5) != [0] + list(m[key]):
                    return "0 140 3"
            elif take(1) != [2]:
                return "0 140 3"
        elif op == 4:
            l = l[1:]
            want = [len(m)]
            for k in sorted(m):
                want += list(m[k])
            if take(len(want)) != want:
                return "0 140 4"
        elif op == 5:
            l = l[1:]
            if closed:
                want = [5, 0]
            elif serving:
                want = [5, 3]      # Serve while serving: refused with an error, nothing changes
            else:
                want = [5, 1]
                serving = True
            if take(2) != want:
                return "0 140 5"
        elif op == 6:
            l = l[1:]
            want = [6, 1 if serving else 0]
            serving = False
            closed = True
            if take(2) != want:
                return "0 140 6"
        elif op == 7:
            l = l[1:]
            want = [7, 1 if serving else 0]
            if serving:
                serving = False
                closed = True      # a Serve that returned (listener error) is not restartable
            if take(2) != want:
                return "0 140 8"
        else:
            return "2"
    return "1" if pos == len(toks) else "0 140 7"


PY_ORACLES = {40: py_registry}


def r_add(rng, addrs):
    kr, ir = rng.choice(addrs)
    kl = rng.choice([0, 0, kr, kr, 1, 2])
    return [1, kr, ir, rng.choice([65001, 65001, 0, 4200000000]), rng.choice([65000, 65000, 0]), kl, rng.randint(1, 9),
            rng.choice([0, 3, 90, 90, 90, 1, 2]), 100000 + rng.choice([179, 179, 179, 1, 65535, 0, 65536]), rng.choice([1, 1, 1, 0])]


def cases(rng, tier):
    cs = []
    n = 150 if tier == "quick" else 2500
    for _ in range(n):
        # IPv4, IPv6 and (ids from 2^32) IPv4-mapped IPv6 remote addresses, incl. a mapped one and its plain IPv4 twin
        n4 = rng.randint(2, 250)
        addrs = [(1, rng.randint(2, 250)) for _ in range(2)] + [(1, n4), (2, (1 << 32) + n4)] + [(2, rng.randint(1, 9)) for _ in range(2)]
        ops = []
        served = False
        for _ in range(rng.randint(4, 30)):
            r = rng.random()
            if r < 0.4:
                ops += r_add(rng, addrs)
            elif r < 0.55:
                ops += [2] + list(rng.choice(addrs + [(0, 0)]))
            elif r < 0.7:
                ops += [3] + list(rng.choice(addrs + [(0, 0)]))
            elif r < 0.85:
                ops += [4]
            elif r < 0.93 and (not served or rng.random() < 0.3):
                ops += [5]            # also while already serving, and after Close
                served = True
            elif r < 0.96:
                ops += [7]            # the listener breaks (Serve, if running, returns the listener error)
                if rng.random() < 0.7:
                    ops += [5]        # ... and the application tries to Serve again
            else:
                ops += [6]
        cs.append(Case(40, ops, [], "registry.random"))
    # directed lifecycle scripts
    a = [1, 1, 5, 65001, 65000, 0, 0, 90, 100179, 1]
    for ops in ([6, 5], [5, 6, 5], a + [5] + a + [4, 6, 4], [5] + a + [2, 1, 5, 6], a + [6] + a + [5, 4], [5, 6, 6], [6, 6, 5],
                [5, 5, 6], a + [5, 5, 4, 6, 4], a + [5, 5, 5, 2, 1, 5, 6], [5, 7, 5, 6], a + [5, 7, 5, 4, 6], [7, 5, 6], [5, 7, 6, 5], a + [5, 7] + [2, 1, 5] + a + [5, 6]):
        cs.append(Case(40, ops, [], "registry.directed"))
    # validation grid
    grid = 0
    for kr in (0, 1, 2, 3):
        for kl in (0, 1, 2, 3):
            for las in (0, 1, 4294967295):
                for ras in (0, 65000):
                    for hold in (0, 1, 2, 3, 4, 65535):
                        for port in (-1, 0, 1, 179, 65535, 65536):
                            if tier == "quick" and (grid % 3) and not (las == 0 or ras == 0):
                                grid += 1
                                continue
                            grid += 1
                            cs.append(Case(42, [kr, 7, las, ras, kl, 9, hold, 100000 + port, rng.randint(0, 1)], [], "validate.grid"))
    for k in (0, 1, 2, 3):
        for _ in range(3):
            cs.append(Case(44, [k, rng.randint(1, 1000)], [], "new_server"))
    return cs


# ---------------------------------------------------------------- concurrent API calls on a live server
import engine
import sysprop as S
import sysrun


class ConcurrentDeletes:
    """two DeletePeer calls for the same established peer at once (its OnClose is slow): the registry is a map, so exactly
    one call finds the key"""
    no_model = True

    def __init__(self, sid, stagger):
        self.sid, self.stagger = sid, stagger
        self.tag = "concurrent-deletes.%d" % stagger
        self.remote_id = 0x0A000002

    def scenario(self):
        op = S.frame(S.OPEN, S.open_body()).hex()
        ka = S.frame(S.KEEPALIVE).hex()
        st = [["dial", "c1"], ["recv", "c1", 1, 1500], ["send", "c1", op, 0], ["send", "c1", ka, 0], ["recv", "c1", 2, 1500], ["sleep", 30],
              ["delete2", self.stagger], ["sleep", 50]]
        return {"id": self.sid, "local_as": 65001, "remote_as": 65000, "local_id": 0x0A000001, "hold": 90, "passive": True,
                "idle_hold_ms": 3000, "connect_retry_ms": 3000, "caps": [], "on_open": None, "handler": [], "est_writes": [],
                "onclose_delay_ms": 300, "steps": st}

    def model_case(self):
        return None

    def check(self, r):
        res = [a["err"] for a in r["api"] if a["name"] == "delete2"]
        if "TIMEOUT" in res:
            return ["concurrent DeletePeer calls did not return"]
        if len(res) == 2 and res.count("") != 1:
            return ["two concurrent DeletePeer calls for one registered peer returned %s: exactly one must succeed, the other must "
                    "report that the peer does not exist" % res]
        return []


def sys_part(tier, rng, rep, replay):
    items = [ConcurrentDeletes(k, st) for k, st in enumerate((0, 20, 100))]
    cov = sysrun.run_convs(PID, items, rep, extra_check=lambda c, e, o, r: c.check(r), par=4)
    cov["rule"] = "two concurrent DeletePeer calls on an established peer whose OnClose takes 300 ms: exactly one succeeds"
    return cov


def main(tier, seed, replay=None):
    import sys
    return engine.run_property(sys.modules[__name__], tier, seed, replay)
