"""C01 — one Established session per peer; well-formed plugin callback history."""
import engine
import gen
import sysprop as S
import sysrun

PID = "C01"
RULE = ("random multi-connection histories against an active or passive peer: the remote accepts/ignores corebgp's outbound "
        "connections and dials in, and on any open connection sends OPEN, KEEPALIVE, UPDATE, NOTIFICATION (Cease or other), "
        "closes or resets it, in random order with short pauses; AddPeer/DeletePeer/Close at the end. Oracles: the callback "
        "monitor (OnEstablished/OnClose alternate, never overlap, handler only in between, every OnEstablished closed by the "
        "time Close returns; GetCapabilities once per OPEN sent; OnOpenMessage at most once per connection), every "
        "peer-manager history replayed through the model, strict framing of everything written. distinct = distinct step lists.")
ASSUMPTIONS = ["plugin callbacks return"]
COQ_FILES = ["Model/Peer.v", "Model/Conn.v", "Proofs/PeerProofs.v", "Proofs/PeerCorollaries.v", "Proofs/ConnProofs.v", "Props/C01.v"]
OPENB = lambda ras, rid: S.frame(S.OPEN, S.open_body(ras, bid=rid)).hex()
KA = S.frame(S.KEEPALIVE).hex()


# one session per peer presupposes one peer object per configured peer: the registry must refuse a second AddPeer of the same
# remote address (whatever its textual form) while serving; these sequences run on real Server objects (function-level driver)
import C20
from common import Case
OPNAMES = {40: "registry_script"}
ORACLES = {}
PY_ORACLES = {40: C20.py_registry}


def cases(rng, tier):
    cs = []
    for _ in range(40 if tier == "quick" else 600):
        n4 = rng.randint(2, 250)
        keys = [(1, n4), (2, (1 << 32) + n4), (2, rng.randint(1, 9))]
        ops = [5] if rng.random() < 0.7 else []
        for _ in range(rng.randint(2, 8)):
            kr, ir = rng.choice(keys)
            r = rng.random()
            if r < 0.6:
                ops += [1, kr, ir, 65001, 65000, 0, 0, 90, 100179, rng.choice([0, 1])]
            elif r < 0.75:
                ops += [2, kr, ir]
            elif r < 0.9:
                ops += [4]
            else:
                ops += [3, kr, ir]
        ops += [4, 6]
        cs.append(Case(40, ops, [], "one-peer-object-per-address"))
    return cs


class Chaos:
    no_model = True

    def __init__(self, sid, rng, passive):
        self.sid = sid
        self.passive = passive
        self.lid, self.remote_id = rng.choice([(0x0A000001, 0x0A000002), (0x0A000002, 0x0A000001)])
        self.las, self.ras = 65001, 65000
        self.tag = "chaos.%s" % ("passive" if passive else "active")
        steps = []
        conns = []          # (name, dir, stage) stage: 0 fresh, 1 open sent by remote, 2 keepalive sent
        nin = 0
        nout = 0
        if not passive:
            nout += 1
            steps += [["accept", "o1", 1500]]
            conns.append(["o1", 0])
        for _ in range(rng.randint(4, 14)):
            r = rng.random()
            live = [c for c in conns if c[1] >= 0]
            if r < 0.22 or not live:
                if rng.random() < 0.6 or passive:
                    nin += 1
                    nm = "i%d" % nin
                    steps += [["dial", nm]]
                else:
                    nout += 1
                    nm = "o%d" % nout
                    steps += [["accept", nm, 600]]
                conns.append([nm, 0])
            else:
                c = rng.choice(live)
                a = rng.random()
                if c[1] == 0 and a < 0.7:
                    steps += [["send", c[0], OPENB(self.ras, self.remote_id), 0]]
                    c[1] = 1
                elif c[1] == 1 and a < 0.7:
                    steps += [["send", c[0], KA, 0]]
                    c[1] = 2
                elif c[1] == 2 and a < 0.5:
                    steps += [["send", c[0], S.frame(S.UPDATE, b"\x00\x00\x00\x00" + gen.rbytes(rng, rng.randint(0, 20))).hex(), 0]]
                elif a < 0.8:
                    steps += [["send", c[0], S.frame(S.NOTIF, S.notif_body(6, rng.randint(0, 8))).hex(), 0]]
                    c[1] = -1
                elif a < 0.9:
                    steps += [["close", c[0]]]
                    c[1] = -1
                else:
                    steps += [["reset", c[0]]]
                    c[1] = -1
            steps += [["sleep", rng.choice([5, 15, 30, 60])]]
        end = rng.random()
        if end < 0.3:
            steps += [["api", "delete"], ["sleep", 20]]
        self.steps = steps

    def scenario(self):
        return {"id": self.sid, "local_as": self.las, "remote_as": self.ras, "local_id": self.lid, "hold": 90,
                "passive": self.passive, "idle_hold_ms": 60, "connect_retry_ms": 500, "caps": [[1, "00010001"]],
                "on_open": None, "handler": [], "est_writes": ["0000000000"], "steps": self.steps}

    def model_case(self):
        return None

    def check(self, r):
        bad = []
        # GetCapabilities exactly once per OPEN sent, before it: every connection that carried an OPEN
        opens = sum(1 for c in r["conns"] for m in (c["msgs"] or []) if m["t"] == 1)
        getcaps = sum(1 for cb in r["cbs"] if cb["name"] == "GetCapabilities" and cb["ph"] == "enter")
        if getcaps < opens:
            bad.append("GetCapabilities called %d times but %d OPENs were sent" % (getcaps, opens))
        onopen = sum(1 for cb in r["cbs"] if cb["name"] == "OnOpenMessage" and cb["ph"] == "enter")
        if onopen > getcaps:
            bad.append("OnOpenMessage called %d times with only %d connections opened" % (onopen, getcaps))
        return bad


class SlowTeardown:
    """DeletePeer while the session's plugin callback is slow, AddPeer of the same peer at once, and the remote
    reconnecting: the new peer object must not reach Established while the old session is still up."""
    no_model = True

    def __init__(self, sid, slow, gap):
        self.sid, self.slow, self.gap = sid, slow, gap
        self.tag = "readd-during-slow-teardown.%s.%d" % (slow, gap)
        self.remote_id = 0x0A000002

    def scenario(self):
        op = OPENB(65000, 0x0A000002)
        upd = S.frame(S.UPDATE, bytes(4)).hex()
        st = [["dial", "c1"], ["recv", "c1", 1, 1500], ["send", "c1", op, 0], ["send", "c1", KA, 0], ["recv", "c1", 2, 1500], ["sleep", 20],
              ["send", "c1", upd, 0], ["sleep", 40], ["api_async", "delete"], ["sleep", self.gap], ["api_async", "add"], ["sleep", 40],
              ["dial", "c2"], ["recv", "c2", 1, 400], ["send", "c2", op, 0], ["send", "c2", KA, 0], ["recv", "c2", 2, 400],
              ["sleep", 900]]
        return {"id": self.sid, "local_as": 65001, "remote_as": 65000, "local_id": 0x0A000001, "hold": 90, "passive": True,
                "idle_hold_ms": 60, "connect_retry_ms": 500, "caps": [], "on_open": None, "handler": [], "est_writes": [],
                "handler_delay_ms": 700 if self.slow == "handler" else 0, "first_only": True, "steps": st}

    def model_case(self):
        return None

    def check(self, r):
        return []


class OverlappingShutdown:
    """two shutdown calls overlapping in time (Close+Close, Close+DeletePeer, DeletePeer+Close) while the session's OnClose is
    slow: every OnEstablished is matched by its OnClose no later than the return of *each* Close/DeletePeer call"""
    no_model = True

    def __init__(self, sid, first, second, gap, direction):
        self.sid, self.first, self.second, self.gap, self.direction = sid, first, second, gap, direction
        self.tag = "overlapping-shutdown.%s-%s.%d.%s" % (first, second, gap, direction)
        self.remote_id = 0x0A000002

    def scenario(self):
        op = OPENB(65000, 0x0A000002)
        st = [["dial", "c1"]] if self.direction == "in" else [["accept", "c1", 2500]]
        st += [["recv", "c1", 1, 1500], ["send", "c1", op, 0], ["send", "c1", KA, 0], ["recv", "c1", 2, 1500], ["sleep", 30],
               ["api_async", self.first], ["sleep", self.gap], ["api_async", self.second], ["sleep", 700]]
        return {"id": self.sid, "local_as": 65001, "remote_as": 65000, "local_id": 0x0A000001, "hold": 90,
                "passive": self.direction == "in", "idle_hold_ms": 3000, "connect_retry_ms": 3000, "caps": [], "on_open": None,
                "handler": [], "est_writes": [], "onclose_delay_ms": 300, "steps": st}

    def model_case(self):
        return None

    def check(self, r):
        open_sessions = 0
        for cb in sorted(r["cbs"] or [], key=lambda x: x["seq"]):
            if cb["name"] == "OnEstablished" and cb["ph"] == "enter":
                open_sessions += 1
            elif cb["name"] == "OnClose" and cb["ph"] == "exit":
                open_sessions -= 1
            elif cb["name"] == "API-RETURN" and cb["ph"] in ("close", "delete") and open_sessions > 0:
                return ["%s returned while the OnClose matching an OnEstablished had not completed (overlapping %s and %s)"
                        % ({"close": "Server.Close", "delete": "DeletePeer"}[cb["ph"]], self.first, self.second)]
        return []


def items(rng, tier):
    n = 60 if tier == "quick" else 800
    out = [Chaos(i, rng, passive=(i % 4 == 0)) for i in range(n)]
    for k, gap in enumerate((5, 30, 120)):
        out.append(SlowTeardown(n + k, "handler", gap))
    k = n + 10
    for first, second in (("close", "close"), ("close", "delete"), ("delete", "close")):
        for gap in (5, 60):
            for direction in ("in", "out"):
                out.append(OverlappingShutdown(k, first, second, gap, direction))
                k += 1
    return out


def sys_part(tier, rng, rep, replay):
    cov = sysrun.run_convs(PID, items(rng, tier), rep, extra_check=lambda c, e, o, r: c.check(r), par=24)
    cov["rule"] = RULE
    return cov


def main(tier, seed, replay=None):
    import sys
    return engine.run_property(sys.modules[__name__], tier, seed, replay)
