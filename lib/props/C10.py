"""C10 — shutdown from any state is prompt, complete, race-free and leak-free."""
import os
import subprocess

import engine
import gen
import sysprop as S
import sysrun
from common import BIN, VERIF, GOENV, sh

PID = "C10"
RULE = ("Server.Close / DeletePeer issued at every point of connection scripts: while Idle/Connect (dials refused), Active, "
        "OpenSent, between OpenSent and OpenConfirm (inside OnOpenMessage), OpenConfirm, inside OnEstablished, Established, "
        "inside the UPDATE handler, during collision resolution (manager held in the three-way select), during hold-down, "
        "with WriteUpdate callers active, with a dial result held at the hand-off (schedule point); both directions. Checked: "
        "the call returns (bounded), Serve returns ErrServerClosed, every connection is closed and saw Cease first when an OPEN "
        "had been sent on it, OnClose delivered, no callback after the return, no goroutine left; single-connection scripts are "
        "also compared with the connection model; the same scripts run under the Go race detector. distinct = distinct step lists.")
ASSUMPTIONS = ["plugin callbacks and conn.Write return (a remote that stops reading while the plugin floods WriteUpdate is known finding D13)",
               "race freedom is checked by the Go race detector on these schedules plus per-label access reasoning, not by a formal Go memory model"]
COQ_FILES = ["Model/Peer.v", "Model/Conn.v", "Proofs/PeerProofs.v", "Proofs/PeerCorollaries.v", "Props/C10.v"]
BOUND_MS = 1500


# Serve stopped by a failing listener: it returns the listener error with every listener it was given closed (function-level
# driver on real Server objects with two listeners; the registry model says what each call returns)
import C20
from common import Case
OPNAMES = {40: "serve_lifecycle"}
ORACLES = {}
PY_ORACLES = {40: C20.py_registry}


def cases(rng, tier):
    a = [1, 1, 5, 65001, 65000, 0, 0, 90, 100179, 1]
    b = [1, 1, 9, 65001, 65000, 0, 0, 90, 100179, 0]
    cs = []
    for ops in ([5, 7, 6], a + [5, 7, 6], a + b + [5, 7, 4, 6], [5, 7, 5, 6], a + [5, 6], a + b + [5, 2, 1, 5, 6], b + [5, 7] + a + [6, 4]):
        for _ in range(2 if tier == "quick" else 10):
            cs.append(Case(40, ops, [], "serve-lifecycle"))
    return cs


def shutdown_judge(r, api_names=("close", "delete", "final-close"), steps=()):
    """the property's clauses on the observed history"""
    bad = []
    remote_closed = set(st[1] for st in steps if st[0] in ("close", "reset", "fullclose"))
    for a in r["api"] or []:
        if a["name"] in api_names:
            if a["err"] == "TIMEOUT":
                bad.append("%s did not return" % a["name"])
            elif a["ms"] > BOUND_MS:
                bad.append("%s took %d ms" % (a["name"], a["ms"]))
    if r.get("serve_err") not in ("ErrServerClosed",):
        bad.append("Serve returned %r" % r.get("serve_err"))
    approved = {0: False, 1: False}      # FSM direction -> was approved into OpenSent or beyond
    for e in r["events"] or []:
        if e["kind"] == "m.reply" and e["args"][2] in ("openSent", "openConfirm", "established"):
            approved[int(e["args"][0])] = True
    # the first stop request: connections that had ended before it are not the shutdown's business
    t_stop = min([a["at"] for a in r["api"] or [] if a["name"] in api_names] + [10 ** 9])
    for c in r["conns"] or []:
        if c.get("refused") or c["name"] in remote_closed:
            continue
        if c["eof"] and c.get("read_err") != "closed-locally" and c["eof_at"] < t_stop - 5:
            continue
        if not c["eof"] or c.get("read_err") == "closed-locally":
            bad.append("connection %s still open after shutdown returned (corebgp never closed it)" % c["name"])
            continue
        msgs = c["msgs"] or []
        if approved[0 if c["dir"] == "out" else 1] and any(m["t"] == 1 for m in msgs):
            if not any(m["t"] == 3 for m in msgs):
                bad.append("connection %s (FSM approved into OpenSent or beyond) closed on shutdown without a NOTIFICATION" % c["name"])
    # no plugin callback starts after the API call returned
    seen_ret = False
    for cb in sorted(r["cbs"] or [], key=lambda x: x["seq"]):
        if cb["name"] == "API-RETURN" and cb["ph"] in ("close", "delete", "final-close"):
            seen_ret = True
        elif seen_ret and cb["ph"] == "enter" and cb["name"] != "API-RETURN":
            bad.append("plugin callback %s started after %s" % (cb["name"], "the shutdown call returned"))
            break
    return bad


class Custom:
    no_model = True

    def __init__(self, sid, tag, steps, passive=False, **kw):
        self.sid, self.tag, self.steps, self.passive, self.kw = sid, tag, steps, passive, kw
        self.remote_id = 0x0A000002

    def scenario(self):
        sc = {"id": self.sid, "local_as": 65001, "remote_as": 65000, "local_id": 0x0A000001, "hold": 90,
              "passive": self.passive, "idle_hold_ms": 200, "connect_retry_ms": 400, "caps": [], "on_open": None,
              "handler": [], "est_writes": [], "steps": self.steps}
        sc.update(self.kw)
        return sc

    def model_case(self):
        return None


OP = S.frame(S.OPEN, S.open_body()).hex()
KA = S.frame(S.KEEPALIVE).hex()
UPD = S.frame(S.UPDATE, b"\x00\x00\x00\x00").hex()


def convs(rng, tier):
    """single-connection scripts with the stop at message k (compared with the connection model)"""
    out = []
    sid = 0
    for api in ("close", "delete"):
        for direction in ("in", "out"):
            for k in (0, 1, 2, 3, 5):
                c = S.Conv(sid, direction=direction, tag="stop.after%d.%s.%s" % (k, api, direction))
                c.send(S.frame(S.OPEN, S.open_body())).send(S.frame(S.KEEPALIVE))
                for _ in range(3):
                    c.send(S.frame(S.UPDATE, b"\x00\x00\x00\x00" + gen.rbytes(rng, rng.randint(0, 30))))
                c.stop_after = k
                c.stop_api = api
                c.msgs = c.msgs[:k]
                out.append(c)
                sid += 1
            # stop while the FSM is between OpenSent and OpenConfirm (inside OnOpenMessage)
            c = S.Conv(sid, direction=direction, tag="stop.in-OnOpenMessage.%s.%s" % (api, direction))
            c.send(S.frame(S.OPEN, S.open_body()))
            c.stop_after = 1
            c.stop_api = api
            c.settle_ms = 40
            c.scenario_extra = {"on_open_delay_ms": 150}
            c.model_stop = 9001
            out.append(c)
            sid += 1
    return out


def customs(rng, tier):
    out = []
    sid = 500
    for api in ("close", "delete"):
        # Idle / Connect with refused dials
        out.append(Custom(sid, "stop.connect-refused." + api, [["refuse", True], ["sleep", 50], ["api", api]]))
        sid += 1
        # Active: outbound connection reset in OpenSent, then stop while waiting for the retry timer
        out.append(Custom(sid, "stop.active." + api, [["accept", "c1", 2000], ["recv", "c1", 1, 1000], ["reset", "c1"], ["sleep", 60], ["api", api]]))
        sid += 1
        # inside OnEstablished and inside the handler
        out.append(Custom(sid, "stop.in-OnEstablished." + api,
                          [["dial", "c1"], ["recv", "c1", 1, 1000], ["send", "c1", OP, 0], ["send", "c1", KA, 0], ["sleep", 40], ["api", api]],
                          passive=True, est_delay_ms=150))
        sid += 1
        out.append(Custom(sid, "stop.in-handler." + api,
                          [["dial", "c1"], ["recv", "c1", 1, 1000], ["send", "c1", OP, 0], ["send", "c1", KA, 0], ["send", "c1", UPD, 0], ["sleep", 40], ["api", api]],
                          passive=True, handler_delay_ms=150))
        sid += 1
        # during hold-down
        out.append(Custom(sid, "stop.hold-down." + api,
                          [["dial", "c1"], ["recv", "c1", 1, 1000], ["send", "c1", S.frame(9).hex(), 0], ["recv_eof", "c1", 1000], ["sleep", 30], ["api", api]],
                          passive=True))
        sid += 1
        # with writers active
        out.append(Custom(sid, "stop.writers." + api,
                          [["dial", "c1"], ["recv", "c1", 1, 1000], ["send", "c1", OP, 0], ["send", "c1", KA, 0], ["sleep", 40],
                           ["writers", 4, 60, 200, "async"], ["sleep", 5], ["api", api]], passive=True))
        sid += 1
        # a second inbound connection from the same peer while the first is in progress / Established: whatever
        # corebgp does with it, it must be closed by the time the stop returns
        out.append(Custom(sid, "stop.second-inbound-in-progress." + api,
                          [["dial", "c1"], ["recv", "c1", 1, 1000], ["dial", "c2"], ["sleep", 40], ["api", api], ["recv_eof", "c2", 800]],
                          passive=True))
        sid += 1
        out.append(Custom(sid, "stop.second-inbound-back-to-back." + api,
                          [["dial", "c1"], ["dial", "c2"], ["sleep", 60], ["api", api], ["recv_eof", "c1", 800], ["recv_eof", "c2", 800]],
                          passive=True))
        sid += 1
        # shutdown on the second session of the same outbound FSM (after a reconnect)
        out.append(Custom(sid, "stop.second-session-opensent." + api,
                          [["accept", "c1", 2000], ["recv", "c1", 1, 1000], ["close", "c1"], ["recv_eof", "c1", 800], ["fullclose", "c1"],
                           ["accept", "c2", 2500], ["recv", "c2", 1, 1000], ["sleep", 20], ["api", api]], idle_hold_ms=100, connect_retry_ms=300))
        sid += 1
        out.append(Custom(sid, "stop.second-session-established." + api,
                          [["accept", "c1", 2000], ["recv", "c1", 1, 1000], ["send", "c1", OP, 0], ["send", "c1", KA, 0], ["recv", "c1", 2, 1000],
                           ["send", "c1", S.frame(S.NOTIF, S.notif_body(6, 2)).hex(), 0], ["recv_eof", "c1", 800],
                           ["accept", "c2", 2500], ["recv", "c2", 1, 1000], ["send", "c2", OP, 0], ["send", "c2", KA, 0], ["recv", "c2", 2, 1000],
                           ["sleep", 20], ["api", api]], idle_hold_ms=100, connect_retry_ms=300))
        sid += 1
        # the reader is blocked in the middle of a message body (complete header, part of the body) when the stop arrives
        part = S.frame(S.UPDATE, bytes(64))[:40]
        out.append(Custom(sid, "stop.reader-mid-body.established." + api,
                          [["dial", "c1"], ["recv", "c1", 1, 1000], ["send", "c1", OP, 0], ["send", "c1", KA, 0], ["recv", "c1", 2, 1000],
                           ["sleep", 20], ["send", "c1", part.hex(), 0], ["sleep", 30], ["api", api]], passive=True))
        sid += 1
        out.append(Custom(sid, "stop.reader-mid-body.opensent." + api,
                          [["accept", "c1", 2000], ["recv", "c1", 1, 1000], ["send", "c1", S.frame(S.OPEN, S.open_body())[:25].hex(), 0],
                           ["sleep", 30], ["api", api]]))
        sid += 1
        # the stop arrives while the peer is just starting (the outbound FSM between Idle and Connect, its dial in flight): a
        # narrow window, so many tiny scenarios; what they leave behind shows in the goroutine census and the judges
        for _ in range(15):
            out.append(Custom(sid, "stop.while-starting." + api, [["api", api]]))
            sid += 1
        # the connect is stalled (SYNs unanswered) when the stop arrives
        out.append(Custom(sid, "stop.connect-stalled." + api, [["sleep", 80], ["api", api, 3000]], start_stalled=True))
        sid += 1
        # the plugin's capabilities do not fit an OPEN: every connection obtained is closed without a byte, re-dialled after
        # the idle-hold time, and all of them are closed by the time the stop returns
        big = [[70, "00" * 250], [71, "00" * 20]]
        out.append(Custom(sid, "stop.unencodable-open.out." + api,
                          [["accept", "c1", 1500], ["recv_eof", "c1", 600], ["accept", "c2", 1500], ["sleep", 30], ["api", api],
                           ["recv_eof", "c2", 600]], caps=big, idle_hold_ms=80))
        sid += 1
        out.append(Custom(sid, "stop.unencodable-open.in." + api,
                          [["dial", "c1"], ["recv_eof", "c1", 600], ["dial", "c2"], ["sleep", 30], ["api", api], ["recv_eof", "c2", 600]],
                          caps=big, passive=True))
        sid += 1
        # both connections up (collision in progress, no forcing)
        out.append(Custom(sid, "stop.two-connections." + api,
                          [["accept", "cO", 2000], ["recv", "cO", 1, 1000], ["dial", "cI"], ["recv", "cI", 1, 1000],
                           ["send", "cO", OP, 0], ["send", "cI", OP, 0], ["sleep", rng.choice([0, 2, 10])], ["api", api]]))
        sid += 1
    return out


def forced(rng, tier):
    """scenarios that arm a process-wide schedule point: run alone"""
    out = []
    sid = 800
    for api in ("close", "delete"):
        out.append(Custom(sid, "stop.in-collision-select." + api,
                          [["accept", "cO", 2000], ["recv", "cO", 1, 1000], ["dial", "cI"], ["recv", "cI", 1, 1000],
                           ["send", "cI", OP, 0], ["recv", "cI", 2, 1000], ["sleep", 30], ["arm", "collide.select"],
                           ["send", "cO", OP, 0], ["wait_event", "point.hold", 1500, "collide.select"],
                           ["api_async", api], ["sleep", 40], ["release", "collide.select"], ["sleep", 100]],
                          local_id=0x0A000003))
        sid += 1
        out.append(Custom(sid, "stop.dial-handoff-held." + api,
                          [["arm", "dial.handoff"], ["wait_event", "point.hold", 1500, "dial.handoff"], ["api_async", api],
                           ["sleep", 60], ["release", "dial.handoff"], ["sleep", 150], ["accept", "c1", 300], ["recv_eof", "c1", 800]]))
        sid += 1
    return out


def known_finding_items():
    """deterministic reproductions of the recorded (not repaired) findings; reported as KNOWN-FINDING"""
    big = "00" * 4000
    d13 = Custom(900, "known.D13.blocked-write",
                 [["dial", "c1"], ["recv", "c1", 1, 1000], ["send", "c1", OP, 0], ["send", "c1", KA, 0], ["sleep", 40],
                  ["stop_reading", "c1"], ["writers", 4, 4000, 4000, "async"], ["sleep", 700], ["api", "close", 2500]], passive=True, final_close_ms=300)
    return [d13]


def conv_judge(c, e, o, r):
    bad = shutdown_judge(r, steps=c.scenario()["steps"])
    if "unencodable-open" in getattr(c, "tag", ""):
        # corebgp cannot send an OPEN on these connections: each must be closed at once, not merely some time later when a
        # finalizer collects a dropped socket
        for cn in r["conns"]:
            if cn.get("refused"):
                continue
            if cn["msgs"]:
                bad.append("connection %s: bytes were sent although the capabilities do not fit an OPEN" % cn["name"])
            elif not cn["eof"] or cn.get("read_err") == "closed-locally" or cn["eof_at"] - cn["opened_at"] > 250:
                bad.append("connection %s obtained with capabilities that cannot be encoded was left open (closed after %s ms)"
                           % (cn["name"], (cn["eof_at"] - cn["opened_at"]) if cn["eof"] else "never"))
    return bad


def race_run(scenarios):
    """the same scripts under the race detector; returns (n, race reports)"""
    import json
    binary = os.path.join(BIN, "sys_race")
    inp = "\n".join(json.dumps(s) for s in scenarios) + "\n"
    env = dict(os.environ, SYS_PAR="8", GORACE="halt_on_error=0")
    p = subprocess.run([binary], input=inp, stdout=subprocess.PIPE, stderr=subprocess.PIPE, text=True, timeout=900, env=env)
    reports = []
    cur = None
    for l in p.stderr.splitlines():
        if "WARNING: DATA RACE" in l:
            cur = []
            reports.append(cur)
        elif l.startswith("=================="):
            cur = None if cur else cur
        elif cur is not None and len(cur) < 40:
            cur.append(l)
    return len(scenarios), reports


def race_site(rep):
    """the two conflicting accesses, by function (stable across call sites)"""
    import re
    funcs = []
    take = False
    for l in rep:
        if re.match(r"\s*(Write|Read|Previous write|Previous read) at", l):
            take = True
            continue
        if take:
            m = re.search(r"corebgp\.(\(\*?\w+\)\.)?([\w.]+)\(", l)
            if m:
                funcs.append(m.group(2))
            take = False
    return tuple(sorted(set(funcs)))


def sys_part(tier, rng, rep, replay):
    cs = convs(rng, tier)
    for c in cs:
        c.judge = None
    cov = sysrun.run_convs(PID, cs, rep, extra_check=conv_judge)
    cu = customs(rng, tier)
    cov2 = sysrun.run_convs(PID, cu, rep, extra_check=conv_judge, par=16)
    fo = forced(rng, tier)
    cov3 = sysrun.run_convs(PID, fo, rep, extra_check=conv_judge, par=1)
    for cv in (cov2, cov3):
        for k in ("evaluations", "distinct_nontrivial", "traces_validated_against_impl", "manager_histories_replayed",
                  "manager_replay_divergences", "monitor_violations", "leaked_goroutines"):
            cov[k] = cov.get(k, 0) + cv.get(k, 0)
        cov["scenario_streams"].update(cv["scenario_streams"])
    # race detector
    try:
        from common import build_harness
        build_harness(("sys",), race=True)
        import C01
        import C07
        import C09
        def est(lst, base):
            out = []
            for k, x in enumerate(lst):
                sc = x.scenario()
                sc["id"] = base + k
                sc["est_writes"] = ["0000000000"]       # README-style plugin: End-of-RIB from OnEstablished
                out.append(sc)
            return out
        # separate processes per family: reports of one family must not be masked by another's schedule
        batches = [[c.scenario() for c in cs + cu], est(C09.multis(rng, "quick"), 2000),
                   est([c for c in C07.items(rng, "quick") if not c.force], 3000), est(C01.items(rng, "quick")[:30], 4000)]
        n, reports = 0, []
        for b in batches:
            nb, rb = race_run(b)
            n += nb
            reports += rb
        cov["race_detector"] = {"scenarios": n, "reports": len(reports)}
        seen = set()
        for rp in reports:
            site = race_site(rp)
            if site in seen:
                continue
            seen.add(site)
            if rep.violation({"kind": "race", "site": list(site)},
                             {"what": "the Go race detector reports a data race in corebgp: %s" % (site,), "report": rp[:30]},
                             found_input=True):
                rep.sys_found = True
    except Exception as ex:  # the race build needs cgo; record when unavailable
        cov["race_detector"] = {"unavailable": str(ex)[:200]}
    # recorded findings: reproduced in a process of their own (they leave goroutines behind)
    kf = known_finding_items()
    covk = sysrun.run_convs(PID, kf, rep, extra_check=conv_judge, par=1, kinds=("monitor",))
    cov["known_finding_reproductions"] = covk["evaluations"]
    cov["rule"] = RULE
    return cov


def main(tier, seed, replay=None):
    import sys
    return engine.run_property(sys.modules[__name__], tier, seed, replay)
