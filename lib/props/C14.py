"""C14 — the OPEN corebgp sends reflects configuration and plugin capabilities."""
import fnprop
import gen
from common import Case

PID = "C14"
OPNAMES = {5: "open_new"}
ORACLES = {5: 105}
RULE = ("seeded generator over (local AS incl. 1, 65535, 65536, 23456, 2^32-1; hold 0,3..65535; router id; "
        "0..40 capabilities with codes 0..255 incl. 65, value lengths 0..300 with boundaries 253,254,255,256 and "
        "total capability bytes straddling 255). Non-trivial = all; distinct = distinct argument tuples.")
ASSUMPTIONS = ["hold time passed in whole seconds (as WithHoldTime does)"]
COQ_FILES = ["Model/Packet.v", "Spec/OpenSpec.v", "Proofs/OpenProofs.v", "Props/C14.v"]


def one(rng, tag):
    asn = rng.choice([1, 2, 64512, 65534, 65535, 65536, 23456, 4200000001, 0xFFFFFFFF, rng.randint(1, 0xFFFFFFFF)])
    hold = rng.choice([0, 3, 4, 90, 180, 65535, rng.randint(3, 65535)])
    rid = gen.r_u32(rng)
    r = rng.random()
    if r < 0.5:
        k = rng.choice([0, 1, 2, 3, 5, 8])
        lens = [rng.choice([0, 1, 2, 4, 8, 16]) for _ in range(k)]
    elif r < 0.7:
        k = rng.randint(1, 40)
        lens = [rng.randint(0, 12) for _ in range(k)]
    elif r < 0.85:   # one value around 255
        k = rng.choice([1, 2])
        lens = [rng.choice([245, 246, 247, 248, 249, 250, 253, 254, 255, 256, 257, 300])] + [rng.randint(0, 4) for _ in range(k - 1)]
        rng.shuffle(lens)
    else:            # total around the 255 boundary: 6 (as4 cap) + sum(2+len)
        k = rng.randint(2, 12)
        target = rng.choice([247, 248, 249, 250, 251, 255, 260])  # total of (2+len) for the plugin's caps
        lens = []
        rem = target
        for i in range(k):
            if i == k - 1:
                l = max(0, rem - 2)
            else:
                l = rng.randint(0, max(0, min(60, rem - 2)))
            lens.append(l)
            rem -= 2 + l
            if rem < 2:
                break
    codes = [rng.choice([1, 2, 64, 65, 69, 70, rng.randint(0, 255)]) for _ in lens]
    vals = [gen.rbytes(rng, l) for l in lens]
    return Case(5, [asn, hold, rid] + codes, vals, tag)


def cases(rng, tier):
    n = 3000 if tier == "quick" else 60000
    return [one(rng, "open_new") for _ in range(n)]


def main(tier, seed, replay=None):
    import sys
    return fnprop.run(sys.modules[__name__], tier, seed, replay)
