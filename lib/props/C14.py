"""C14 — the OPEN corebgp sends reflects configuration and plugin capabilities."""
import fnprop
import gen
from common import Case

PID = "C14"
OPNAMES = {5: "open_new"}
ORACLES = {5: 105}
RULE = ("seeded generator over (local AS incl. 1, 65535, 65536, 23456, 2^32-1; hold 0,3..65535; router id; "
        "0..40 capabilities with codes 0..255 incl. 65, value lengths 0..300 with boundaries 253,254,255,256 and "
        "total capability bytes straddling 255). Non-trivial = all; distinct = distinct argument tuples.")
ASSUMPTIONS = ["hold time passed in whole seconds (as WithHoldTime does)"]
COQ_FILES = ["Model/Packet.v", "Spec/OpenSpec.v", "Proofs/OpenProofs.v", "Props/C14.v"]


def one(rng, tag):
    asn = rng.choice([1, 2, 64512, 65534, 65535, 65536, 23456, 4200000001, 0xFFFFFFFF, rng.randint(1, 0xFFFFFFFF)])
    hold = rng.choice([0, 3, 4, 90, 180, 65535, rng.randint(3, 65535)])
    rid = gen.r_u32(rng)
    r = rng.random()
    if r < 0.5:
        k = rng.choice([0, 1, 2, 3, 5, 8])
        lens = [rng.choice([0, 1, 2, 4, 8, 16]) for _ in range(k)]
    elif r < 0.7:
        k = rng.randint(1, 40)
        lens = [rng.randint(0, 12) for _ in range(k)]
    elif r < 0.85:   # one value around 255
        k = rng.choice([1, 2])
        lens = [rng.choice([245, 246, 247, 248, 249, 250, 253, 254, 255, 256, 257, 300])] + [rng.randint(0, 4) for _ in range(k - 1)]
        rng.shuffle(lens)
    else:            # total around the 255 boundary: 6 (as4 cap) + sum(2+len)
        k = rng.randint(2, 12)
        target = rng.choice([247, 248, 249, 250, 251, 255, 260])  # total of (2+len) for the plugin's caps
        lens = []
        rem = target
        for i in range(k):
            if i == k - 1:
                l = max(0, rem - 2)
            else:
                l = rng.randint(0, max(0, min(60, rem - 2)))
            lens.append(l)
            rem -= 2 + l
            if rem < 2:
                break
    codes = [rng.choice([1, 2, 64, 65, 69, 70, rng.randint(0, 255)]) for _ in lens]
    vals = [gen.rbytes(rng, l) for l in lens]
    return Case(5, [asn, hold, rid] + codes, vals, tag)


def cases(rng, tier):
    n = 3000 if tier == "quick" else 60000
    return [one(rng, "open_new") for _ in range(n)]


# ---------------------------------------------------------------- system level: the OPEN on the wire
import engine
import sysprop as S
import sysrun


class Sessions:
    """several consecutive sessions with one peer object (the outbound FSM object is reused across reconnects; an inbound FSM
    is created per connection): the remote proposes a lower / zero / higher hold time and different identifiers, ends the
    session, and the next OPEN corebgp sends must again be exactly the configured one"""
    no_model = True

    def __init__(self, sid, direction, las, hold, caps, remote_holds, caps_seq=None):
        self.sid, self.direction, self.las, self.hold, self.caps, self.remote_holds = sid, direction, las, hold, caps, remote_holds
        self.caps_seq = caps_seq
        self.tag = "open-on-wire.%s.as%d.hold%d.caps%d.%s" % (direction, las, hold, len(caps), "-".join(map(str, remote_holds)))
        self.remote_id = 0x0A000002

    def scenario(self):
        st = []
        ka = S.frame(S.KEEPALIVE).hex()
        for k, rh in enumerate(self.remote_holds):
            c = "c%d" % (k + 1)
            st += [["dial", c]] if self.direction == "in" else [["accept", c, 2500]]
            st += [["recv", c, 1, 1500], ["send", c, S.frame(S.OPEN, S.open_body(65000, hold=rh)).hex(), 0], ["send", c, ka, 0],
                   ["recv", c, 2, 1500], ["sleep", 20]]
            st += [["send", c, S.frame(S.NOTIF, S.notif_body(6, 4)).hex(), 0], ["recv_eof", c, 800], ["sleep", 30]] if k % 2 == 0 else \
                  [["close", c], ["recv_eof", c, 800], ["fullclose", c], ["sleep", 30]]
        return {"id": self.sid, "local_as": self.las, "remote_as": 65000, "local_id": 0x0A000001, "hold": self.hold,
                "passive": self.direction == "in", "idle_hold_ms": 60, "connect_retry_ms": 300,
                "caps": [[c, v.hex()] for c, v in self.caps], "on_open": None, "handler": [], "est_writes": [], "steps": st,
                "caps_seq": [[[c, v.hex()] for c, v in l] for l in self.caps_seq] if self.caps_seq else []}

    def model_case(self):
        return None


def sys_items(rng, tier):
    out = []
    sid = 0
    capsets = [[], [(1, bytes([0, 1, 0, 1]))], [(1, bytes([0, 1, 0, 1])), (2, b""), (65, bytes(4)), (70, bytes(3))]]
    for direction in ("out", "in"):
        for las in (65001, 4200000001):
            for hold, rholds in ((90, (30, 90, 0, 240)), (240, (0, 240, 3)), (0, (90, 0)), (3, (65535, 3, 10))):
                out.append(Sessions(sid, direction, las, hold, rng.choice(capsets), rholds))
                sid += 1
        # the plugin answers GetCapabilities differently on every call: each OPEN carries the list returned for it
        out.append(Sessions(sid, direction, 65001, 90, [], (90, 90, 90, 90), caps_seq=[capsets[1], capsets[2], [], capsets[1]]))
        sid += 1
    return out


def sys_part(tier, rng, rep, replay):
    cov = sysrun.run_convs(PID, sys_items(rng, tier), rep, par=16)
    cov["rule"] = ("consecutive sessions per peer object (3-4 reconnects, both directions, 2- and 4-octet local AS, hold 0/3/90/240, "
                   "plugin capability sets incl. a 4-octet-AS capability to be dropped) with the remote proposing lower, zero and higher "
                   "hold times: the first message on every connection must be exactly the OPEN the configuration dictates")
    return cov


def main(tier, seed, replay=None):
    import sys
    return engine.run_property(sys.modules[__name__], tier, seed, replay)
