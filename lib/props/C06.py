"""C06 — hold time negotiation, hold-timer expiry and keepalive cadence."""
import engine
import sysprop as S
import sysrun

PID = "C06"
RULE = ("real-time sessions over loopback for (local hold, remote hold) pairs from {0,3,4,6,9} x {0,3,4,5,9,65535}: the remote "
        "completes the handshake, then is silent / sends KEEPALIVEs or UPDATEs at chosen offsets (incl. just before expiry); "
        "message timestamps seen by the remote are checked against the property (no expiry earlier than hold after the last "
        "received KEEPALIVE/UPDATE; NOTIFICATION(4,0)+close once silent that long; gaps between sent KEEPALIVE/UPDATE at most "
        "hold/3; hold 0: established, no periodic KEEPALIVE, no expiry) and against the connection model's negotiated value. "
        "distinct = distinct (pair, traffic pattern).")
ASSUMPTIONS = ["wall-clock tolerance 350 ms for scheduling noise", "hold 0: 'never expires' observed over a 4 s window in the quick tier"]
COQ_FILES = ["Model/Conn.v", "Model/Timed.v", "Model/TimedW.v", "Proofs/ConnProofs.v", "Proofs/TimedProofs.v", "Proofs/TimedWProofs.v", "Proofs/TimedWTie.v", "Props/C06.v"]
TOL = 350


def mk(sid, L, R, pattern, direction="in"):
    c = S.Conv(sid, direction=direction, hold=L, tag="hold.%d.%d.%s.%s" % (L, R, pattern, direction),
               est_writes=([b"\x00\x00\x00\x00"] * 2 if pattern == "silent-after-writes" else ()))
    if pattern == "update-only-nilhandler":
        c.nil_handler = True
        c.scenario_extra = {"nil_handler": True}
    c.send(S.frame(S.OPEN, S.open_body(hold=R)))
    if pattern != "late-keepalive":
        c.send(S.frame(S.KEEPALIVE))
    h = min(L, R)
    c.h = h
    c.pattern = pattern
    steps = []
    if h == 0:
        steps += [["sleep", 4000]]
        c._stay_open = True
    elif pattern == "silent":
        steps += [["recv_eof", "c1", h * 1000 + 1500]]
    elif pattern == "late-keepalive":
        # the first KEEPALIVE arrives well after the OPEN; the hold timer must restart there
        steps += [["sleep", int(h * 600)], ["send", "c1", S.frame(S.KEEPALIVE).hex(), 0], ["recv_eof", "c1", h * 1000 + 1500]]
    elif pattern == "ka-then-silent":
        # keepalives at 0.6h intervals, three times, then silence
        for _ in range(3):
            steps += [["sleep", int(h * 600)], ["send", "c1", S.frame(S.KEEPALIVE).hex(), 0]]
        steps += [["recv_eof", "c1", h * 1000 + 1500]]
    elif pattern == "update-only-nilhandler":
        # UPDATE-only traffic (no KEEPALIVE) at 0.6h intervals to a plugin without an update handler, then silence
        for _ in range(3):
            steps += [["sleep", int(h * 600)], ["send", "c1", S.frame(S.UPDATE, b"\x00\x00\x00\x00").hex(), 0]]
        steps += [["recv_eof", "c1", h * 1000 + 1500]]
    elif pattern == "local-writes":
        # the plugin writes an UPDATE every 0.23 h (more often than the keep-alive interval) while the remote keeps the session
        # alive; then both fall silent: no gap between consecutive KEEPALIVE/UPDATE messages from corebgp may exceed about h/3,
        # in particular the first KEEPALIVE after the last write comes within h/3 of it (TimedW.v: the write re-arms the timer)
        for _ in range(4):
            steps += [["sleep", int(h * 230)], ["write", "00000000"], ["send", "c1", S.frame(S.KEEPALIVE).hex(), 0]]
        steps += [["recv_eof", "c1", h * 1000 + 1500]]
    elif pattern == "update-just-before":
        steps += [["sleep", int(h * 1000 - 250)], ["send", "c1", S.frame(S.UPDATE, b"\x00\x00\x00\x00").hex(), 0],
                  ["recv_eof", "c1", h * 1000 + 1500]]
    c.extra_steps_before_end = steps
    c.settle_ms = 10
    return c


def convs(rng, tier):
    out = []
    sid = 0
    pairs = [(0, 90), (90, 0), (0, 0), (3, 3), (3, 9), (9, 3), (4, 65535), (6, 5)]
    if tier == "thorough":
        pairs += [(3, 4), (4, 3), (6, 6), (9, 9), (6, 3), (5 + 1, 65535)]
    for (L, R) in pairs:
        pats = ["silent", "silent-after-writes"] if min(L, R) == 0 else \
            ["silent", "ka-then-silent", "update-just-before", "late-keepalive"] + (["update-only-nilhandler"] if (L, R) in ((3, 9), (9, 3)) else []) \
            + (["local-writes"] if min(L, R) == 3 else [])
        for p in pats:
            for d in (("in", "out") if tier == "thorough" or p == "silent" else ("in",)):
                out.append(mk(sid, L, R, p, d))
                sid += 1
    return out


def timing_check(c, e, o, r):
    """The property on observed timestamps (one clock: corebgp runs inside the driver process).  "Early" is judged
    against the time just before the remote wrote its last KEEPALIVE/UPDATE (it cannot have been received earlier), "late"
    and the cadence against the recorded timer operations and wire times, with a tolerance for scheduling."""
    bad = []
    cr = next((x for x in r["conns"] if x["name"] == "c1"), None)
    if cr is None or not cr["msgs"]:
        return ["no connection observed"]
    msgs = cr["msgs"]
    h = c.h * 1000
    est = [cb["at"] for cb in r["cbs"] or [] if cb["name"] == "OnEstablished" and cb["ph"] == "enter"]
    if not est:
        bad.append("hold (%d,%d): session did not establish" % (c.hold, c.h))
        return bad
    t_est = est[0]
    sent = [m for m in msgs if m["t"] in (2, 4)]
    expiry = [m for m in msgs if m["t"] == 3 and m["b"].startswith("04")]
    if c.h == 0:
        kas = [m for m in msgs if m["t"] == 4]
        if len(kas) > 1:
            bad.append("hold 0: periodic KEEPALIVE sent (%d KEEPALIVEs, the last %d ms after establishment)" % (len(kas), kas[-1]["at"] - t_est))
        if expiry or (cr["eof"] and cr["eof_at"] < t_est + 3500):
            bad.append("hold 0: session torn down during silence")
        return bad
    rx = [m for m in (cr.get("sent") or []) if m["t"] in (1, 2, 4)]           # what the remote wrote: OPEN, UPDATE, KEEPALIVE
    arms = [ev for ev in r["events"] or [] if ev["kind"] == "t.hold" and int(ev["args"][1]) > 0]
    if not expiry:
        bad.append("hold %d s: no Hold Timer Expired NOTIFICATION after silence" % c.h)
    else:
        t_exp = expiry[0]["at"]
        if rx and t_exp < rx[-1]["at"] + h - 40:
            bad.append("hold %d s: expired %d ms after the remote wrote its last message (early)" % (c.h, t_exp - rx[-1]["at"]))
        before = [ev for ev in arms if ev["at"] <= t_exp]
        if before and t_exp > before[-1]["at"] + h + TOL + 150:
            bad.append("hold %d s: expired %d ms after the hold timer was last restarted (late)" % (c.h, t_exp - before[-1]["at"]))
        if not cr["eof"]:
            bad.append("connection not closed after hold timer expiry")
    if getattr(c, "pattern", "") == "local-writes":
        ok_writes = [w for w in (r.get("writes") or []) if w.get("name") == "write" and not w.get("err")]
        rearms = [ev for ev in r["events"] or [] if ev["kind"] == "t.ka" and int(ev["args"][1]) == c.h * 10 ** 9 // 3 and ev["at"] >= t_est]
        if len(ok_writes) < 4:
            bad.append("hold %d s: only %d of 4 local WriteUpdate calls succeeded while the session was up" % (c.h, len(ok_writes)))
        elif len(rearms) < len(ok_writes):
            bad.append("hold %d s: %d UPDATEs written by the plugin but the keep-alive timer was re-armed only %d times after establishment"
                       % (c.h, len(ok_writes), len(rearms)))
    # keepalive cadence while up
    times = [m["at"] for m in sent]
    end = expiry[0]["at"] if expiry else (cr["eof_at"] or (times[-1] if times else t_est))
    pts = times + [end]
    for a, b in zip(pts, pts[1:]):
        if b - a > h / 3 + TOL:
            bad.append("hold %d s: %d ms without a KEEPALIVE/UPDATE (limit about %d)" % (c.h, b - a, h // 3))
            break
    return bad


def timer_convs(rng, tier):
    """short sessions (no timer fires): the exact sequence of timer operations (hook events t.hold / t.ka with their
    durations) is compared with the connection model's AArmHold / AArmKA actions"""
    out = []
    sid = 500
    pairs = [(90, 90), (90, 30), (30, 90), (3, 65535), (65535, 3), (0, 90), (90, 0), (0, 0), (9, 10), (10, 9), (4, 5)]
    if tier == "thorough":
        pairs += [(rng.choice([3, 5, 7, 30, 180, 65535]), rng.choice([3, 4, 6, 60, 240, 65535])) for _ in range(20)]
    upd = S.frame(S.UPDATE, b"\x00\x00\x00\x00")
    ka = S.frame(S.KEEPALIVE)
    for (L, R) in pairs:
        for direction in ("in", "out"):
            for traffic, mode in (([], ""), ([ka], ""), ([ka, upd, ka, upd, upd], ""), ([ka, ka, ka], ""),
                                  ([ka, upd, upd, upd], "nilhandler"), ([ka, upd], "estwrites"), ([ka], "estwrites1"),
                                  ([ka, upd, ka], "estwrites5")):
                nw = {"estwrites": 2, "estwrites1": 1, "estwrites5": 5}.get(mode, 0)
                c = S.Conv(sid, direction=direction, hold=L, tag="timerops.%d.%d.%d%s.%s" % (L, R, len(traffic), mode, direction),
                           est_writes=[b"\x00\x00\x00\x00"] * nw)
                # model with the keep-alive manager (TimedW.v, op 62): every UPDATE written while Established is followed by
                # one re-arm of the keep-alive timer with a third of the hold time, none when the hold time is 0
                c.model_op = 62
                if mode == "nilhandler":
                    c.nil_handler = True
                    c.scenario_extra = {"nil_handler": True}
                c.send(S.frame(S.OPEN, S.open_body(hold=R)))
                for m in traffic:
                    c.send(m)
                c.eof = 1
                c.h = min(L, R)
                out.append(c)
                sid += 1
    return out


class HoldPerSession:
    """consecutive sessions on one peer object (the outbound FSM object is reused): the hold time in force is negotiated
    afresh for every session, min(local, received in that session's OPEN)"""
    no_model = True

    def __init__(self, sid, direction, local, remote_holds):
        self.sid, self.direction, self.local, self.remote_holds = sid, direction, local, remote_holds
        self.tag = "hold-per-session.%s.%d.%s" % (direction, local, "-".join(map(str, remote_holds)))
        self.remote_id = 0x0A000002

    def scenario(self):
        st = []
        ka = S.frame(S.KEEPALIVE).hex()
        for k, rh in enumerate(self.remote_holds):
            c = "c%d" % (k + 1)
            st += [["dial", c]] if self.direction == "in" else [["accept", c, 2500]]
            st += [["recv", c, 1, 1500], ["send", c, S.frame(S.OPEN, S.open_body(65000, hold=rh)).hex(), 0], ["send", c, ka, 0],
                   ["recv", c, 2, 1500], ["sleep", 20], ["send", c, ka, 0], ["sleep", 20],
                   ["close", c], ["recv_eof", c, 800], ["fullclose", c], ["sleep", 30]]
        return {"id": self.sid, "local_as": 65001, "remote_as": 65000, "local_id": 0x0A000001, "hold": self.local,
                "passive": self.direction == "in", "idle_hold_ms": 60, "connect_retry_ms": 300, "caps": [], "on_open": None,
                "handler": [], "est_writes": [], "steps": st}

    def model_case(self):
        return None

    def check(self, r):
        bad = []
        long_hold = 240 * 10 ** 9
        sessions = []
        for ev in r["events"]:
            if ev["kind"] == "t.hold":
                ns = int(ev["args"][1])
                if ns == long_hold:
                    sessions.append([])
                elif ns >= 0 and sessions:
                    sessions[-1].append(ns)
        for k, (arms, rh) in enumerate(zip(sessions, self.remote_holds)):
            want = min(self.local, rh) * 10 ** 9
            wrong = [a for a in arms if a != want]
            if want == 0 and arms:
                bad.append("session %d: hold time in force is 0 (local %d, received %d) but the hold timer was armed with %d ns" % (k + 1, self.local, rh, arms[0]))
            elif wrong:
                bad.append("session %d: hold timer armed with %d s, the hold time in force is min(local %d, received %d) = %d s"
                           % (k + 1, wrong[0] // 10 ** 9, self.local, rh, want // 10 ** 9))
        if len(sessions) < len(self.remote_holds):
            bad.append("only %d of %d sessions sent an OPEN" % (len(sessions), len(self.remote_holds)))
        return bad


def timer_judge(c, e, o, r):
    """property clauses on the implementation's timer operations alone"""
    bad = []
    h_ns = c.h * 1000000000
    accepted = any(cb[0] == "OnOpenMessage" for cb in o["cbs"])
    if not accepted:
        return bad
    if c.h == 0:
        if len(o["hold_arms"]) > 1 or o.get("ka_arms"):
            bad.append("negotiated hold time 0 but a timer was armed after the OPEN (hold arms %s, keep-alive arms %s)"
                       % (o["hold_arms"][1:3], (o.get("ka_arms") or [])[:3]))
    else:
        wrong = [x for x in o["hold_arms"][1:] if x != h_ns]
        if wrong:
            bad.append("hold timer armed with %d ns, negotiated hold time is min(local, received) = %d s" % (wrong[0], c.h))
        wrongk = [x for x in (o.get("ka_arms") or []) if x != h_ns // 3]
        if wrongk:
            bad.append("keep-alive timer armed with %d ns, a third of the hold time is %d ns" % (wrongk[0], h_ns // 3))
        n_rx = sum(1 for (b, _) in c.msgs[1:] if len(b) > 18 and b[18] in (2, 4))
        est = any(cb[0] == "OnEstablished" for cb in o["cbs"])
        if est and len(o["hold_arms"]) < 2 + n_rx:
            bad.append("hold timer restarted %d time(s) for %d received KEEPALIVE/UPDATE messages" % (len(o["hold_arms"]) - 2, n_rx))
    return bad


def sys_part(tier, rng, rep, replay):
    tcs = timer_convs(rng, tier)
    covt = sysrun.run_convs(PID, tcs, rep, keys=("hold_arms", "ka_arms_pre", "ka_arms", "cbs"), extra_check=timer_judge, par=32)
    per = [HoldPerSession(700 + k, d, L, rh) for k, (d, L, rh) in enumerate(
        (("out", 9, (3, 9, 30)), ("out", 90, (0, 30, 90)), ("out", 30, (90, 3, 0, 30)), ("in", 9, (3, 9)), ("out", 0, (90, 0))))]
    covp = sysrun.run_convs(PID, per, rep, extra_check=lambda c, e, o, r: c.check(r), par=8)
    # the hold timer fires while the FSM is busy in a slow handler although the remote kept sending: no expiry afterwards
    import C03
    slow = [C03.SlowHandler(760 + k) for k in range(6 if tier == "quick" else 16)]
    covs = sysrun.run_convs(PID, slow, rep, extra_check=lambda c, e, o, r: c.check(r), par=16, confirm=4)
    cs = convs(rng, tier)
    # wire/cbs are timing dependent (periodic keepalives); compare the handshake prefix and the returns
    cov = sysrun.run_convs(PID, cs, rep, keys=(), extra_check=timing_check, par=64)
    cov["rule"] = RULE + (" || timer operations: %d short sessions over (local, remote) hold pairs incl. 0 and 65535, both directions, "
                          "0-5 KEEPALIVE/UPDATE messages: the hook-recorded arm/stop operations with their durations equal the model's" % len(tcs))
    cov["evaluations"] = cov.get("evaluations", 0) + covt.get("evaluations", 0)
    cov["distinct_nontrivial"] = cov.get("distinct_nontrivial", 0) + covt.get("distinct_nontrivial", 0)
    cov["timer_operation_sessions"] = covt.get("evaluations", 0)
    cov["hold_per_session_scenarios"] = covp.get("evaluations", 0)
    cov["slow_handler_sessions"] = covs.get("evaluations", 0)
    cov["evaluations"] = cov.get("evaluations", 0) + covp.get("evaluations", 0)
    return cov


def main(tier, seed, replay=None):
    import sys
    return engine.run_property(sys.modules[__name__], tier, seed, replay)
