"""C12 — protocol errors damp the peer; Cease and transport faults do not
(function-level half: the hold-down schedule of updateStartupDelay)."""
import fnprop
from common import Case

PID = "C12"
OPNAMES = {43: "delay_run"}
ORACLES = {43: 143}
S = 1000000000
RULE = ("histories of 1..12 protocol errors with gaps from {1 s, 59 s, 299 s, 299.9 s, 300 s, 300.1 s, 301 s, 600 s, 1 h} "
        "(previous error back-dated, no waiting), compared with the model and with the closed-form schedule "
        "min(60 s * 2^k, 300 s) with k reset by a gap >= 300 s. distinct = distinct gap lists.")
ASSUMPTIONS = ["gaps avoid the +-1 ms window around exactly 300 s except for the exact value (time.Since adds run time)",
               "which errors reach updateStartupDelay (only non-Cease notifications) is decided by the system-level part"]
COQ_FILES = ["Model/Server.v", "Spec/ServerSpec.v", "Proofs/ServerProofs.v", "Props/C12.v"]
GAPS = [1 * S, 59 * S, 299 * S, 2999 * S // 10, 300 * S, 3001 * S // 10, 301 * S, 600 * S, 3600 * S]


def cases(rng, tier):
    cs = []
    for g in GAPS:
        cs.append(Case(43, [0, g], [], "delay.pairs"))
        for g2 in GAPS:
            cs.append(Case(43, [0, g, g2], [], "delay.triples"))
    n = 300 if tier == "quick" else 5000
    for _ in range(n):
        k = rng.randint(1, 12)
        cs.append(Case(43, [0] + [rng.choice(GAPS[:4] * 2 + GAPS) for _ in range(k - 1)], [], "delay.random"))
    return cs


def main(tier, seed, replay=None):
    import sys
    return fnprop.run(sys.modules[__name__], tier, seed, replay)
