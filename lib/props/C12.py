"""C12 — protocol errors damp the peer; Cease and transport faults do not
(function-level half: the hold-down schedule of updateStartupDelay)."""
import fnprop
from common import Case

PID = "C12"
OPNAMES = {43: "delay_run"}
ORACLES = {43: 143}
S = 1000000000
RULE = ("histories of 1..12 protocol errors with gaps from {1 s, 59 s, 299 s, 299.9 s, 300 s, 300.1 s, 301 s, 600 s, 1 h} "
        "(previous error back-dated, no waiting), compared with the model and with the closed-form schedule "
        "min(60 s * 2^k, 300 s) with k reset by a gap >= 300 s. distinct = distinct gap lists.")
ASSUMPTIONS = ["gaps avoid the +-1 ms window around exactly 300 s except for the exact value (time.Since adds run time)",
               "which errors reach updateStartupDelay (only non-Cease notifications) is decided by the system-level part"]
COQ_FILES = ["Model/Server.v", "Spec/ServerSpec.v", "Proofs/ServerProofs.v", "Model/Peer.v", "Proofs/PeerProofs.v", "Proofs/PeerCorollaries.v", "Proofs/PeerFindings.v", "Props/C12.v"]
GAPS = [1 * S, 59 * S, 299 * S, 2999 * S // 10, 300 * S, 3001 * S // 10, 301 * S, 600 * S, 3600 * S]


def cases(rng, tier):
    cs = []
    for g in GAPS:
        cs.append(Case(43, [0, g], [], "delay.pairs"))
        for g2 in GAPS:
            cs.append(Case(43, [0, g, g2], [], "delay.triples"))
    n = 300 if tier == "quick" else 5000
    for _ in range(n):
        k = rng.randint(1, 12)
        cs.append(Case(43, [0] + [rng.choice(GAPS[:4] * 2 + GAPS) for _ in range(k - 1)], [], "delay.random"))
    return cs


# ---------------------------------------------------------------- system level
import engine
import gen
import sysprop as S
import sysrun

OPENM = S.frame(S.OPEN, S.open_body())
KAM = S.frame(S.KEEPALIVE)


class Damp:
    """one session ended by some event, then probes: is the peer held down?"""
    no_model = True

    def __init__(self, sid, direction, state, how, expect_damp):
        self.sid, self.direction, self.state, self.how, self.expect_damp = sid, direction, state, how, expect_damp
        self.tag = "damp.%s.%s.%s" % (state, how[0], direction)
        self.remote_id = 0x0A000002

    def scenario(self):
        c = "c1"
        st = [["dial", c]] if self.direction == "in" else [["accept", c, 3000]]
        st += [["recv", c, 1, 2000]]
        if self.state in ("openConfirm", "established"):
            st += [["send", c, OPENM.hex(), 0]]
        if self.state == "established":
            st += [["send", c, KAM.hex(), 0]]
        st += [["sleep", 15]]
        kind, payload = self.how
        if kind in ("recv-notif", "send-bad"):
            st += [["send", c, payload.hex(), 0], ["recv_eof", c, 1000]]
        elif kind == "fin":
            st += [["close", c], ["recv_eof", c, 1000], ["fullclose", c]]
        elif kind == "rst":
            st += [["reset", c]]
        st += [["sleep", 80]]
        # probes during the first part of the hold-down window
        for k in range(getattr(self, "probes", 3)):
            st += [["dial", "p%d" % k], ["recv", "p%d" % k, 1, 250], ["fullclose", "p%d" % k], ["sleep", 300]]
        return {"id": self.sid, "local_as": 65001, "remote_as": 65000, "local_id": 0x0A000001, "hold": 90,
                "passive": self.direction == "in", "idle_hold_ms": 100, "connect_retry_ms": 400, "caps": [], "on_open": None,
                "handler": [], "est_writes": [], "steps": st}

    def model_case(self):
        return None

    def check(self, r):
        bad = []
        damps = [e for e in r["events"] if e["kind"] == "m.damp"]
        t_end = max([c["eof_at"] for c in r["conns"] if c["name"] == "c1" and c["eof"]] + [0])
        probes = [c for c in r["conns"] if c["name"].startswith("p")]
        served = [c for c in probes if any(m["t"] == 1 for m in (c["msgs"] or []))]
        dials_after = [d for d in (r["dials"] or []) if d > t_end + 30] if self.direction == "out" else []
        if self.expect_damp:
            if not damps:
                bad.append("protocol error (%s in %s) did not start a hold-down" % (self.how[0], self.state))
            elif damps[0]["args"][0] != "60000000000":
                bad.append("first hold-down is %s ns, expected 60 s" % damps[0]["args"][0])
            if served:
                bad.append("inbound connection served (OPEN sent) while the peer must be held down")
            if dials_after:
                bad.append("outbound attempt %d ms after the protocol error while the peer must be held down" % (dials_after[0] - t_end))
        else:
            if damps:
                bad.append("%s in %s started a hold-down (must not: Cease / transport fault)" % (self.how[0], self.state))
            if self.direction == "in" and not served:
                bad.append("inbound connection not served after a non-damping fault")
            if self.direction == "out" and not dials_after and not served:
                bad.append("no new outbound attempt after a non-damping fault")
        return bad


def damp_items(rng, tier):
    out = []
    sid = 0
    for direction in ("in", "out"):
        for state in ("openSent", "openConfirm", "established"):
            hows = []
            for code in (1, 2, 3, 4, 5, 7, 8, 200):       # every code other than Cease, assigned or not
                hows.append((("recv-notif", S.frame(S.NOTIF, S.notif_body(code, rng.randint(0, 5), gen.rbytes(rng, rng.choice([0, 1, 3]))))), True))
            hows.append((("recv-notif", S.frame(S.NOTIF, S.notif_body(6, rng.randint(0, 8)))), False))
            hows.append((("send-bad", S.frame(9)), True))                              # we send (1,3)
            hows.append((("send-bad", S.frame(2, b"", length=18)), True))               # we send (1,2)
            unexpected = {"openSent": KAM, "openConfirm": S.frame(S.UPDATE, bytes(4)), "established": OPENM}[state]
            hows.append((("send-bad", unexpected), True))                              # we send (5,x)
            if state == "openSent":
                hows.append((("send-bad", S.frame(S.OPEN, S.open_body(ver=3))), True))  # we send (2,1)
            hows.append((("fin", None), False))
            hows.append((("rst", None), False))
            if tier == "quick":
                # a rotating third of the damping cases per (direction, state), so that every case is run somewhere,
                # plus all the non-damping controls
                k = len(out) % 3
                damping = [h for h in hows if h[1]]
                hows = damping[k::3] + [h for h in hows if not h[1]]
            for how, damp in hows:
                out.append(Damp(sid, direction, state, how, damp))
                sid += 1
    # every defined (code, subcode) point received in every state, in both tiers (one probe each): a NOTIFICATION received is a
    # protocol error whatever it says, unless its code is Cease
    defined = ([(1, x) for x in (1, 2, 3)] + [(2, x) for x in range(1, 8)] + [(3, x) for x in range(1, 12)] + [(4, 0)]
               + [(5, x) for x in range(0, 4)] + [(7, 1), (7, 2)])
    for direction in ("in", "out"):
        for state in ("openSent", "openConfirm", "established"):
            for code, sub in defined:
                d = Damp(sid, direction, state, ("recv-notif", S.frame(S.NOTIF, S.notif_body(code, sub))), True)
                d.tag = "damp-grid.%s.recv-notif-%d-%d.%s" % (state, code, sub, direction)
                d.probes = 1
                out.append(d)
                sid += 1
    return out


class HoldDownEnds(Damp):
    """the hold-down period ends (timer shortened through the verif hook): the peer is retried and establishes again;
    while it lasts connections are refused and nothing is dialled"""

    def __init__(self, sid, direction, code):
        Damp.__init__(self, sid, direction, "established", ("recv-notif", None), True)
        self.code = code
        self.tag = "holddown-ends.%s.code%d" % (direction, code)

    def scenario(self):
        c = "c1"
        st = [["dial", c]] if self.direction == "in" else [["accept", c, 3000]]
        st += [["recv", c, 1, 2000], ["send", c, OPENM.hex(), 0], ["send", c, KAM.hex(), 0], ["recv", c, 2, 1500], ["sleep", 20],
               ["send", c, S.frame(S.NOTIF, S.notif_body(self.code, 1)).hex(), 0], ["recv_eof", c, 1000], ["sleep", 150],
               ["dial", "p0"], ["recv", "p0", 1, 250], ["fullclose", "p0"], ["sleep", 1000]]
        if self.direction == "in":
            st += [["dial", "c2"]]
        else:
            st += [["drain"], ["accept", "c2", 2500]]
        st += [["recv", "c2", 1, 1500], ["send", "c2", OPENM.hex(), 0], ["send", "c2", KAM.hex(), 0], ["recv", "c2", 2, 1500], ["sleep", 40]]
        # a second protocol error, well inside 300 s of the first, after the session had come up again: the hold-down doubles
        st += [["send", "c2", S.frame(S.NOTIF, S.notif_body(3, 1)).hex(), 0], ["recv_eof", "c2", 1000], ["sleep", 60]]
        return {"id": self.sid, "local_as": 65001, "remote_as": 65000, "local_id": 0x0A000001, "hold": 90,
                "passive": self.direction == "in", "idle_hold_ms": 100, "connect_retry_ms": 400, "caps": [], "on_open": None,
                "handler": [], "est_writes": [], "holddown_ms": 900, "steps": st}

    def check(self, r):
        bad = []
        damps = [e for e in r["events"] if e["kind"] == "m.damp"]
        if not damps:
            bad.append("NOTIFICATION code %d received in Established did not start a hold-down" % self.code)
            return bad
        p0 = [c for c in r["conns"] if c["name"] == "p0"]
        if p0 and any(m["t"] == 1 for m in p0[0]["msgs"]):
            bad.append("inbound connection served (OPEN sent) while the peer must be held down")
        t_damp = damps[0]["at"]
        early = [d for d in r["dials"] if t_damp + 30 < d < t_damp + 800]
        if early:
            bad.append("outbound attempt %d ms after the protocol error while the peer must be held down" % (early[0] - t_damp))
        est = [cb["at"] for cb in r["cbs"] if cb["name"] == "OnEstablished" and cb["ph"] == "enter"]
        if len(est) < 2:
            bad.append("the hold-down period ended but the peer did not establish again (%s direction)" % self.direction)
        elif len(damps) < 2:
            bad.append("the second protocol error (after the session had come up again) did not start a hold-down")
        elif damps[1]["args"][0] != "120000000000":
            bad.append("second protocol error %d ms after the first: hold-down %s ns, expected 120 s (doubling)"
                       % (damps[1]["at"] - damps[0]["at"], damps[1]["args"][0]))
        return bad


class FreshInbound(Damp):
    """an inbound connection was admitted a moment before the protocol error (its FSM has not made its first transition
    yet: held at schedule point run.start): it is dropped like any other connection of the peer"""

    def __init__(self, sid):
        Damp.__init__(self, sid, "out", "openSent", ("send-bad", None), True)
        self.tag = "damp.fresh-inbound-before-first-transition"

    def scenario(self):
        bad = S.frame(S.OPEN, S.open_body(64999)).hex()       # wrong AS: corebgp answers (2,2)
        st = [["accept", "c1", 3000], ["recv", "c1", 1, 2000], ["arm", "run.start"], ["dial", "c2"],
              ["wait_event", "point.hold", 1500, "run.start"], ["send", "c1", bad, 0], ["recv_eof", "c1", 1000], ["sleep", 40],
              ["release", "run.start"], ["recv_eof", "c2", 600], ["sleep", 100]]
        return {"id": self.sid, "local_as": 65001, "remote_as": 65000, "local_id": 0x0A000001, "hold": 90,
                "passive": False, "idle_hold_ms": 100, "connect_retry_ms": 400, "caps": [], "on_open": None,
                "handler": [], "est_writes": [], "steps": st}

    def check(self, r):
        bad = []
        damps = [e for e in r["events"] if e["kind"] == "m.damp"]
        if not damps:
            return ["NOTIFICATION (2,2) sent but no hold-down started"]
        c2 = [c for c in r["conns"] if c["name"] == "c2"]
        if c2 and any(m["t"] == 1 for m in c2[0]["msgs"]):
            bad.append("inbound connection served (OPEN sent) while the peer must be held down")
        if c2 and not c2[0]["eof"]:
            bad.append("the inbound connection admitted just before the protocol error was not dropped")
        return bad


class Dropped(Damp):
    """recorded finding D14: the outbound FSM has sent NOTIFICATION (2,1) and is about to report the error when the
    manager stops it because the inbound FSM reaches Established: the error report is lost, no hold-down starts."""

    def __init__(self, sid):
        Damp.__init__(self, sid, "out", "openSent", ("send-bad", None), True)
        self.tag = "known.D14.error-dropped-by-stop"

    def scenario(self):
        bad = S.frame(S.OPEN, S.open_body(ver=3)).hex()
        st = [["accept", "c1", 3000], ["recv", "c1", 1, 2000],
              ["dial", "c2"], ["recv", "c2", 1, 2000], ["send", "c2", OPENM.hex(), 0], ["recv", "c2", 1, 1000], ["sleep", 20],
              ["arm", "run.errselect"],
              ["send", "c1", bad, 0], ["wait_event", "point.hold", 1500, "run.errselect"], ["recv", "c1", 1, 500],
              ["send", "c2", KAM.hex(), 0], ["wait_event", "m.disable", 1500], ["sleep", 10],
              ["release", "run.errselect"], ["recv_eof", "c1", 1000], ["sleep", 150]]
        for k in range(2):
            st += [["dial", "p%d" % k], ["recv", "p%d" % k, 1, 250], ["fullclose", "p%d" % k], ["sleep", 100]]
        return {"id": self.sid, "local_as": 65001, "remote_as": 65000, "local_id": 0x0A000001, "hold": 90,
                "passive": False, "idle_hold_ms": 100, "connect_retry_ms": 400, "caps": [], "on_open": None,
                "handler": [], "est_writes": [], "steps": st}

    def check(self, r):
        bad = []
        c1 = [c for c in r["conns"] if c["name"] == "c1"]
        sent = [m for c in c1 for m in (c["msgs"] or []) if m["t"] == 3 and not m["b"].startswith("06")]
        damps = [e for e in r["events"] if e["kind"] == "m.damp"]
        c2 = [c for c in r["conns"] if c["name"] == "c2"]
        if sent and not damps:
            bad.append("NOTIFICATION (2,1) sent on the outbound connection but no hold-down started")
            if c2 and not c2[0]["eof"]:
                bad.append("NOTIFICATION (2,1) sent on the outbound connection but the inbound connection was kept")
        return bad


def sys_part(tier, rng, rep, replay):
    cov = sysrun.run_convs(PID, damp_items(rng, tier), rep, extra_check=lambda c, e, o, r: c.check(r), par=32)
    # the end of the hold-down: scenarios that shorten the timer run in a process of their own, one at a time
    ends = [HoldDownEnds(900 + k, d, code) for k, (d, code) in enumerate((("in", 2), ("out", 3), ("in", 5), ("out", 7)))]
    cove = sysrun.run_convs(PID, ends, rep, extra_check=lambda c, e, o, r: c.check(r), par=1)
    cov["holddown_end_sessions"] = cove["evaluations"]
    cov["evaluations"] = cov.get("evaluations", 0) + cove["evaluations"]
    covf = sysrun.run_convs(PID, [FreshInbound(940)], rep, extra_check=lambda c, e, o, r: c.check(r), par=1)
    cov["evaluations"] = cov.get("evaluations", 0) + covf["evaluations"]
    covk = sysrun.run_convs(PID, [Dropped(950)], rep, extra_check=lambda c, e, o, r: c.check(r), par=1, kinds=("monitor",))
    cov["known_finding_reproductions"] = covk["evaluations"]
    cov["rule"] = ("sessions ended at OpenSent/OpenConfirm/Established on either direction by: a received NOTIFICATION of each code "
                   "1-5,7 or Cease, a malformed/unexpected message answered by corebgp's own NOTIFICATION, TCP FIN, TCP RST; then "
                   "three inbound probes over 1 s and the DialerControl log: hold-down (60 s, probes refused silently, no dial) "
                   "exactly for the non-Cease notifications")
    return cov


def main(tier, seed, replay=None):
    import sys
    return engine.run_property(sys.modules[__name__], tier, seed, replay)
