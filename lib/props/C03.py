"""C03 — inbound UPDATEs reach the handler exactly once, in order, byte-exact."""
import engine
import gen
import sysprop as S
import sysrun
from common import Case

PID = "C03"
OPNAMES = {61: "reader"}
ORACLES = {61: 161}
RULE = ("reader level: streams of UPDATEs (body lengths 0..4077 incl. 0, 1, 4076, 4077) and KEEPALIVEs under chunk plans "
        "(whole, 1-byte reads, cuts inside headers, several messages per chunk). System level: established sessions over TCP "
        "receiving such streams with SetNoDelay small writes; the handler log must equal the sent bodies in order; handler "
        "notification at a chosen UPDATE ends the session and suppresses later UPDATEs; delivered slices are retained with a "
        "private copy and compared at the end (not modified afterwards). distinct = distinct (stream, chunk plan).")
ASSUMPTIONS = ["'the delivered slice is not modified afterwards' is heap aliasing: checked by the harness only (retained slice vs copy), not by a theorem"]
COQ_FILES = ["Model/Conn.v", "Proofs/ReaderProofs.v", "Proofs/ConnProofs.v", "Props/C03.v"]


def r_stream(rng, maxn=8):
    msgs = []
    for _ in range(rng.randint(1, maxn)):
        if rng.random() < 0.75:
            ln = rng.choice([0, 1, 4, 19, 23, 4076, 4077, rng.randint(0, 300), rng.randint(0, 4077)])
            msgs.append(S.frame(S.UPDATE, gen.rbytes(rng, ln)))
        else:
            msgs.append(S.frame(S.KEEPALIVE))
    return msgs


def plan(rng, n):
    r = rng.random()
    if r < 0.2:
        return []
    if r < 0.4:
        return [1] * min(n, 5000)
    if r < 0.6:
        return [rng.choice([1, 2, 15, 16, 17, 18, 19, 20, 21]) for _ in range(60)]
    return [rng.randint(1, max(2, n // 2)) for _ in range(rng.randint(1, 10))]


def cases(rng, tier):
    cs = []
    n = 400 if tier == "quick" else 6000
    for _ in range(n):
        s = b"".join(r_stream(rng))
        cs.append(Case(61, [0] + plan(rng, len(s)), [s], "reader.updates"))
    if tier == "thorough":
        for ln in range(0, 4078):
            s = S.frame(S.UPDATE, gen.rbytes(rng, ln)) + S.frame(S.KEEPALIVE)
            cs.append(Case(61, [0] + plan(rng, len(s)), [s], "reader.all-body-lengths"))
    return cs


def convs(rng, tier):
    out = []
    n = 60 if tier == "quick" else 600
    for sid in range(n):
        direction = rng.choice(["in", "out"])
        msgs = r_stream(rng, 10)
        nupd = sum(1 for m in msgs if m[18] == S.UPDATE)
        handler = []
        tag = "updates.nil-handler"
        if nupd and rng.random() < 0.3:
            k = rng.randrange(nupd)
            handler = [None] * k + [(rng.choice([3, 6, 2]), rng.randint(0, 11), gen.rbytes(rng, rng.choice([0, 1, 5])))]
            tag = "updates.handler-notification"
        # the negotiated hold time (incl. 0 = timers disabled) and a nil UpdateMessageHandler are modes of the same path
        hl, hr = rng.choice([(90, 90)] * 3 + [(0, 90), (90, 0), (0, 0), (3, 240)])
        nilh = (not handler) and rng.random() < 0.2
        c = S.Conv(sid, direction=direction, hold=hl, handler=handler,
                   tag=tag + (".hold0" if min(hl, hr) == 0 else "") + (".nilhandler" if nilh else "") + "." + direction)
        if nilh:
            c.nil_handler = True
            c.scenario_extra = {"nil_handler": True}
        c.send(S.frame(S.OPEN, S.open_body(hold=hr))).send(S.frame(S.KEEPALIVE))
        if rng.random() < 0.5:
            s = b"".join(msgs)
            c.send(s, plan(rng, len(s))[:400] or None)       # one stream, arbitrary cuts
        else:
            for m in msgs:
                c.send(m, plan(rng, len(m))[:200] or None)
        c.eof = rng.choice([0, 1])
        bodies = [m[19:] for m in msgs if m[18] == S.UPDATE]
        nb = None
        if handler:
            bodies = bodies[:len(handler)]
            h = handler[-1]
            nb = bytes([h[0], h[1]]) + bytes(h[2])
        if nilh:
            bodies = []
        c.meta = {"bodies": bodies, "notif": nb}
        c.judge = judge
        out.append(c)
    return out


def burst_convs(rng, tier):
    """many UPDATEs in one write to a slow handler, the connection ending right behind them: every one is still delivered"""
    out = []
    for k in range(4 if tier == "quick" else 24):
        direction = rng.choice(["in", "out"])
        c = S.Conv(2000 + k, direction=direction, tag="burst-then-%s.slow-handler.%s" % ("fin" if k % 2 == 0 else "bad-header", direction))
        c.scenario_extra = {"handler_delay_ms": rng.choice([10, 25, 40])}
        c.send(S.frame(S.OPEN, S.open_body())).send(S.frame(S.KEEPALIVE))
        msgs = []
        for i in range(rng.randint(12, 30)):
            msgs.append(S.frame(S.UPDATE, bytes([i]) * rng.choice([4, 4, 30, 300])))
            if rng.random() < 0.2:
                msgs.append(S.frame(S.KEEPALIVE))
        tail = b"" if k % 2 == 0 else S.frame(2, b"", length=18)       # a header fault right behind the burst
        c.send(b"".join(msgs) + tail)
        c.eof = 1
        c.meta = {"bodies": [m[19:] for m in msgs if m[18] == S.UPDATE], "notif": None}
        c.judge = judge
        out.append(c)
    return out


class SlowHandler:
    """a handler call that outlasts the hold time while the remote keeps sending KEEPALIVEs: the session stays up and the
    next UPDATE is delivered"""
    no_model = True

    def __init__(self, sid):
        self.sid = sid
        self.tag = "handler-slower-than-hold-time"
        self.remote_id = 0x0A000002

    def scenario(self):
        ka = S.frame(S.KEEPALIVE).hex()
        st = [["dial", "c1"], ["recv", "c1", 1, 1500], ["send", "c1", S.frame(S.OPEN, S.open_body(hold=3)).hex(), 0], ["send", "c1", ka, 0],
              ["recv", "c1", 2, 1500], ["sleep", 20], ["send", "c1", S.frame(S.UPDATE, b"A" * 8).hex(), 0]]
        for _ in range(4):
            st += [["sleep", 900], ["send", "c1", ka, 0]]
        st += [["sleep", 300], ["send", "c1", S.frame(S.UPDATE, b"B" * 8).hex(), 0], ["sleep", 300]]
        return {"id": self.sid, "local_as": 65001, "remote_as": 65000, "local_id": 0x0A000001, "hold": 3, "passive": True,
                "idle_hold_ms": 3000, "connect_retry_ms": 3000, "caps": [], "on_open": None, "handler": [], "est_writes": [],
                "handler_delay_ms": 3300, "first_only": False, "steps": st}

    def model_case(self):
        return None

    def check(self, r):
        bad = []
        c1 = next(c for c in r["conns"] if c["name"] == "c1")
        t_close = min([a["at"] for a in r["api"] if a["name"] == "final-close"] + [10 ** 9])
        early = [m for m in c1["msgs"] if m["t"] == 3 and m["at"] < t_close - 5]
        if early:
            bad.append("NOTIFICATION %s sent although the remote sent a KEEPALIVE every 0.9 s (hold time 3 s) while the handler was busy" % early[0]["b"][:4])
        hs = [cb["arg"] for cb in r["cbs"] if cb["name"] == "Handler" and cb["ph"] == "enter"]
        if ("42" * 8) not in hs:
            bad.append("the UPDATE sent after the slow handler call was not delivered (handler calls: %d)" % len(hs))
        return bad


class HandlerNotifTwice:
    """the handler answers an UPDATE with a NOTIFICATION on two consecutive sessions of the same (outbound) FSM object: each
    session ends with that NOTIFICATION on the wire and OnClose, and the peer comes back"""
    no_model = True

    def __init__(self, sid, direction):
        self.sid, self.direction = sid, direction
        self.tag = "handler-notification-on-consecutive-sessions." + direction
        self.remote_id = 0x0A000002

    def scenario(self):
        op, ka, upd = S.frame(S.OPEN, S.open_body()).hex(), S.frame(S.KEEPALIVE).hex(), S.frame(S.UPDATE, bytes(4)).hex()
        st = []
        for k in (1, 2, 3):
            c = "c%d" % k
            st += [["dial", c]] if self.direction == "in" else [["accept", c, 2500]]
            st += [["recv", c, 1, 1500], ["send", c, op, 0], ["send", c, ka, 0], ["recv", c, 2, 1500], ["sleep", 20]]
            if k < 3:
                st += [["send", c, upd, 0], ["recv_eof", c, 1500], ["sleep", 30]]
        return {"id": self.sid, "local_as": 65001, "remote_as": 65000, "local_id": 0x0A000001, "hold": 90,
                "passive": self.direction == "in", "idle_hold_ms": 60, "connect_retry_ms": 300, "caps": [], "on_open": None,
                "handler": [[6, 4, "aa"]], "est_writes": [], "steps": st}

    def model_case(self):
        return None

    def check(self, r):
        bad = []
        est = sum(1 for cb in r["cbs"] if cb["name"] == "OnEstablished" and cb["ph"] == "enter")
        closes = sum(1 for cb in r["cbs"] if cb["name"] == "OnClose" and cb["ph"] == "exit")
        if est < 3:
            bad.append("after the handler's NOTIFICATION ended a session the peer did not establish again (%d of 3 sessions)" % est)
        for k in (1, 2):
            c = next((x for x in r["conns"] if x["name"] == "c%d" % k), None)
            if c and est >= k and not any(m["t"] == 3 and m["b"] == "0604aa" for m in c["msgs"]):
                bad.append("session %d: the handler's NOTIFICATION (6,4,aa) was not sent verbatim" % k)
        if closes < min(est, 3) - 0 and not bad:
            bad.append("OnClose delivered %d times for %d established sessions" % (closes, est))
        return bad


def judge(c, e, o, r):
    got = [x[1] for x in o["cbs"] if x[0] == "Handler"]
    want = c.meta["bodies"]
    if got != want:
        i = next((k for k, (a, b) in enumerate(zip(got, want)) if a != b), min(len(got), len(want)))
        return "handler saw %d UPDATE bodies, %d were sent before the session ended; first difference at index %d" % (len(got), len(want), i)
    if c.meta["notif"] is not None:
        sent = [m for m in o["wire"][1:] if m[0] == 3]
        if not sent or sent[0][1] != c.meta["notif"]:
            return "handler NOTIFICATION not sent verbatim: %s" % [x[1].hex() for x in sent]
    return None


def sys_part(tier, rng, rep, replay):
    cov = sysrun.run_convs(PID, convs(rng, tier) + burst_convs(rng, tier), rep)
    # (the expiry race is lost about every second time: several sessions)
    tw = [HandlerNotifTwice(3500, "out"), HandlerNotifTwice(3501, "in")]
    cov3 = sysrun.run_convs(PID, tw, rep, extra_check=lambda c, e, o, r: c.check(r), par=4)
    cov["evaluations"] = cov.get("evaluations", 0) + cov3["evaluations"]
    slow = [SlowHandler(3000 + k) for k in range(6 if tier == "quick" else 16)]
    cov2 = sysrun.run_convs(PID, slow, rep, extra_check=lambda c, e, o, r: c.check(r), par=16, confirm=4)
    cov["evaluations"] = cov.get("evaluations", 0) + cov2["evaluations"]
    cov["slow_handler_sessions"] = cov2["evaluations"]
    cov["rule"] = "established sessions receiving UPDATE/KEEPALIVE streams"
    return cov


def main(tier, seed, replay=None):
    import sys
    return engine.run_property(sys.modules[__name__], tier, seed, replay)
