"""C04 — outbound byte stream is whole well-formed messages; WriteUpdate contract."""
import struct

import engine
import fnprop
import gen
import sysprop as S
import sysrun
from common import Case

PID = "C04"
OPNAMES = {11: "prepend_header", 1: "notif_enc"}
ORACLES = {11: 111, 1: 101}
RULE = ("function level: prependHeader for every type and body lengths 0..4077 (boundaries and random), each frame re-read after three later encodings and after the caller overwrote its body buffer (no shared storage), NOTIFICATION encoding. "
        "System level: Established sessions with hold time 3 s (keep-alive timer firing) while 2..8 goroutines call WriteUpdate "
        "with tagged bodies (goroutine, sequence) of 0..4073 further bytes, WriteUpdate from inside OnEstablished and from inside "
        "the UPDATE handler, teardown and re-establishment while writers run; the remote parses the byte stream strictly "
        "(marker, length 19..4096 = real length, known type): every nil-returning WriteUpdate appears exactly once with its body, "
        "per-goroutine order preserved, nothing malformed; a writer of an ended session returns an error and its bytes never "
        "appear on a later connection. distinct = distinct (writers, sizes, teardown point).")
ASSUMPTIONS = ["one conn.Write is atomic with respect to other Writes on the same net.Conn (fd write lock): trusted runtime behaviour"]
COQ_FILES = ["Model/Conn.v", "Model/Packet.v", "Proofs/FrameProofs.v", "Model/Writers.v", "Proofs/WritersProofs.v", "Props/C04.v"]
OPENM = S.frame(S.OPEN, S.open_body(hold=3)).hex()
KAM = S.frame(S.KEEPALIVE).hex()


def cases(rng, tier):
    cs = []
    n = 600 if tier == "quick" else 8000
    for t in (1, 2, 3, 4):
        for ln in (0, 1, 18, 19, 255, 256, 4076, 4077):
            cs.append(Case(11, [t], [gen.rbytes(rng, ln)], "hdr.boundary"))
    for _ in range(n):
        cs.append(Case(11, [rng.choice([1, 2, 3, 4])], [gen.rbytes(rng, gen.rlen(rng, 4077))], "hdr.random"))
    for _ in range(n // 3):
        cs.append(Case(1, [gen.r_u8(rng), gen.r_u8(rng)], [gen.rbytes(rng, gen.rlen(rng, 4075))], "notif"))
    return cs


class Writers:
    no_model = True

    def __init__(self, sid, g, m, sz, mode, hold=3):
        self.sid, self.g, self.m, self.sz, self.mode, self.hold = sid, g, m, sz, mode, hold
        self.tag = "writers.%d x %d x %d.%s%s" % (g, m, sz, mode, ".hold0" if hold == 0 else "")
        self.remote_id = 0x0A000002

    def scenario(self):
        hs = [["dial", "c1"], ["recv", "c1", 1, 1500], ["send", "c1", OPENM, 0], ["send", "c1", KAM, 0], ["recv", "c1", 2, 1500], ["sleep", 30]]
        st = list(hs)
        if self.mode == "steady":
            st += [["writers", self.g, self.m, self.sz], ["sleep", 1200]]
        elif self.mode == "teardown":
            st += [["writers", self.g, self.m, self.sz, "async"], ["sleep", 15],
                   ["send", "c1", S.frame(S.NOTIF, S.notif_body(6, 2)).hex(), 0], ["recv_eof", "c1", 1500], ["sleep", 50],
                   # a new session; the old writer must fail and never reach the new connection
                   ["dial", "c2"], ["recv", "c2", 1, 1500], ["send", "c2", OPENM, 0], ["send", "c2", KAM, 0], ["recv", "c2", 2, 1500],
                   ["sleep", 30], ["write", "dead00000000", 0], ["write", "beef00000000", 1], ["sleep", 60]]
        elif self.mode == "in-callbacks":
            st += [["send", "c1", S.frame(S.UPDATE, bytes(4)).hex(), 0], ["send", "c1", S.frame(S.UPDATE, bytes(5)).hex(), 0], ["sleep", 1100]]
        elif self.mode == "teardown-out":
            # the same on the long-lived outbound FSM object: session 1 ends with the remote's Cease, corebgp re-dials and
            # re-establishes; the writer of session 1 must stay dead
            st = [["accept", "c1", 2500], ["recv", "c1", 1, 1500], ["send", "c1", OPENM, 0], ["send", "c1", KAM, 0], ["recv", "c1", 2, 1500],
                  ["sleep", 30], ["writers", self.g, self.m, self.sz, "async"], ["sleep", 15],
                  ["send", "c1", S.frame(S.NOTIF, S.notif_body(6, 2)).hex(), 0], ["recv_eof", "c1", 1500], ["sleep", 20],
                  ["accept", "c2", 2500], ["recv", "c2", 1, 1500], ["send", "c2", OPENM, 0], ["send", "c2", KAM, 0], ["recv", "c2", 2, 1500],
                  ["sleep", 30], ["write", "dead00000000", 0], ["write", "beef00000000", 1], ["sleep", 60]]
        elif self.mode == "write-after-reset":
            # the connection is reset while the handler is busy; the handler then writes: the calls must fail
            st += [["send", "c1", S.frame(S.UPDATE, bytes(4)).hex(), 0], ["sleep", 60], ["reset", "c1"], ["sleep", 900]]
        elif self.mode == "in-onclose":
            # the session is ended (by the remote's Cease, or by our own handler's NOTIFICATION); the plugin uses the
            # writer it kept from inside OnClose: the call must fail and nothing may follow on the wire
            if self.g:
                st += [["send", "c1", S.frame(S.UPDATE, bytes(4)).hex(), 0]]
            else:
                st += [["send", "c1", S.frame(S.NOTIF, S.notif_body(6, 2)).hex(), 0]]
            st += [["recv_eof", "c1", 1500], ["sleep", 50]]
        return {"id": self.sid, "local_as": 65001, "remote_as": 65000, "local_id": 0x0A000001, "hold": self.hold,
                "passive": self.mode != "teardown-out", "idle_hold_ms": 100 if self.mode == "teardown-out" else 3000,
                "handler_delay_ms": 400 if self.mode == "write-after-reset" else 0,
                "handler_write_n": 3 if self.mode == "write-after-reset" else 1,
                "onclose_write": "cc00000000" if self.mode == "in-onclose" else "",
                "probe_on_close": "cd00000000" if self.mode == "in-onclose" else "",
                "handler": [[6, 4, ""]] if (self.mode == "in-onclose" and self.g) else [],
                "connect_retry_ms": 3000, "caps": [], "on_open": None,
                "est_writes": ["aa00000000", "ab00000000"] if self.mode == "in-callbacks" else [],
                "handler_writes": {"0": "ac00000000", "1": "ad00000000"} if self.mode == "in-callbacks" else
                                  ({"0": "ae00000000"} if self.mode == "write-after-reset" else {}),
                "steps": st}

    def model_case(self):
        return None

    def check(self, r):
        bad = []
        conns = {c["name"]: c for c in r["conns"]}
        for c in r["conns"]:
            if c.get("garbage"):
                bad.append("conn %s: not whole well-formed messages: %s..." % (c["name"], c["garbage"][:60]))
        ok_writes = [w for w in (r["writes"] or []) if w["err"] == "" and w["name"].startswith("w")]
        c1 = conns["c1"]
        seen = {}
        for m in c1["msgs"] or []:
            if m["t"] == 2:
                b = bytes.fromhex(m["b"])
                if len(b) >= 4 and self.mode != "in-callbacks":
                    g, i = struct.unpack(">HH", b[:4])
                    want = bytes((g * 31 + i * 7 + j) & 0xFF for j in range(4, len(b)))
                    if b[4:] != want or len(b) != 4 + self.sz:
                        bad.append("UPDATE body of writer %d seq %d corrupted" % (g, i))
                    seen.setdefault(g, []).append(i)
        if self.mode not in ("in-callbacks", "write-after-reset", "in-onclose"):
            for g, l in seen.items():
                if l != sorted(l):
                    bad.append("writer %d: UPDATEs out of call order: %s" % (g, l[:12]))
                if len(l) != len(set(l)):
                    bad.append("writer %d: an UPDATE appears twice" % g)
            got = sum(len(l) for l in seen.values())
            want = len(ok_writes)
            if self.mode == "steady" and got != want:
                bad.append("%d WriteUpdate calls returned nil but %d UPDATEs arrived" % (want, got))
            if self.mode in ("teardown", "teardown-out") and got > want:
                bad.append("%d UPDATEs arrived for %d successful writes" % (got, want))
        if self.mode == "steady":
            if len((r["writes"] or [])) != self.g * self.m:
                bad.append("only %d of %d WriteUpdate calls returned (deadlock?)" % (len((r["writes"] or [])), self.g * self.m))
        if self.mode == "write-after-reset":
            hw = [w for w in (r["writes"] or []) if w["name"] == "handler"]
            if len(hw) < 3:
                bad.append("WriteUpdate from the handler after the connection was reset did not return (%d of 3)" % len(hw))
            elif any(w["err"] == "" for w in hw):
                bad.append("WriteUpdate returned nil %d time(s) on a connection that had been reset 300 ms earlier (nothing can have "
                           "reached the remote)" % sum(1 for w in hw if w["err"] == ""))
        if self.mode in ("teardown", "teardown-out") and "c2" in conns:
            c2 = conns["c2"]
            bodies = [m["b"] for m in c2["msgs"] or [] if m["t"] == 2]
            if "dead00000000" in bodies:
                bad.append("a writer of the ended session emitted bytes on the next connection")
            tagged = [b for b in bodies if b not in ("beef00000000",)]
            if tagged:
                bad.append("UPDATEs written through the old session's writer reached the new connection: %s" % tagged[:2])
            old = [w for w in (r["writes"] or []) if w["name"] == "write"]
            if old and old[0]["err"] == "":
                bad.append("WriteUpdate on the writer of an ended session returned nil")
            if "beef00000000" not in bodies:
                bad.append("WriteUpdate on the new session's writer did not reach the wire")
        if self.mode == "in-onclose":
            ow = [w for w in (r["writes"] or []) if w["name"] == "onclose"]
            if not ow:
                bad.append("WriteUpdate from inside OnClose did not return (or OnClose was not delivered)")
            elif ow[0]["err"] == "":
                bad.append("WriteUpdate on the writer of the ended session returned nil inside OnClose")
            if any(m["t"] == 2 and m["b"] in ("cc00000000", "cd00000000") for m in c1["msgs"] or []):
                bad.append("an UPDATE written after the session had ended reached the wire")
            pw = [w for w in (r["writes"] or []) if w["name"].startswith("onconnclose")]
            if pw and pw[0]["name"] == "onconnclose-stuck":
                bad.append("WriteUpdate at the moment corebgp closes the connection did not return")
            elif pw and pw[0]["err"] == "":
                bad.append("WriteUpdate returned nil at the moment corebgp was closing the session's connection (the session had ended)")
        if self.mode == "in-callbacks":
            bodies = [m["b"] for m in c1["msgs"] or [] if m["t"] == 2]
            for want in ("aa00000000", "ab00000000", "ac00000000", "ad00000000"):
                if bodies.count(want) != 1:
                    bad.append("WriteUpdate from inside a callback: body %s appears %d times" % (want, bodies.count(want)))
            if len([w for w in (r["writes"] or []) if w["name"] in ("est", "handler")]) != 4:
                bad.append("WriteUpdate inside OnEstablished/handler did not return (deadlock)")
        return bad


def items(rng, tier):
    out = []
    sid = 0
    reps = 1 if tier == "quick" else 6
    for _ in range(reps):
        for (g, m, sz) in ((2, 40, 0), (4, 60, 100), (8, 40, 1000), (8, 25, 4073), (3, 200, 10)):
            out.append(Writers(sid, g, m, sz, "steady"))
            sid += 1
        for (g, m, sz) in ((4, 300, 50), (8, 200, 700)):
            out.append(Writers(sid, g, m, sz, "teardown"))
            sid += 1
        out.append(Writers(sid, 0, 0, 0, "in-callbacks"))
        sid += 1
        # negotiated hold time 0 (no keep-alive timer to reset) is a mode of its own for every writer path
        out.append(Writers(sid, 4, 40, 60, "steady", hold=0)); sid += 1
        out.append(Writers(sid, 0, 0, 0, "in-callbacks", hold=0)); sid += 1
        out.append(Writers(sid, 4, 200, 50, "teardown", hold=0)); sid += 1
        # the writer used from inside OnClose (session ended by the remote / by our handler's NOTIFICATION)
        for g in (0, 1):
            for hold in (3, 0):
                out.append(Writers(sid, g, 0, 0, "in-onclose", hold=hold)); sid += 1
        out.append(Writers(sid, 4, 200, 50, "teardown-out")); sid += 1
        out.append(Writers(sid, 2, 100, 10, "teardown-out", hold=0)); sid += 1
        out.append(Writers(sid, 0, 0, 0, "write-after-reset")); sid += 1
    return out


def sys_part(tier, rng, rep, replay):
    cov = sysrun.run_convs(PID, items(rng, tier), rep, extra_check=lambda c, e, o, r: c.check(r), par=16)
    cov["rule"] = "writer stress against a strict parser (see rule)"
    return cov


def main(tier, seed, replay=None):
    import sys
    return engine.run_property(sys.modules[__name__], tier, seed, replay)
