"""C09 — state-dependent message handling follows RFC 4271 8.2.2 / RFC 6608."""
import engine
import gen
import sysprop as S
import sysrun

PID = "C09"
RULE = ("live sessions over loopback: for each state in {OpenSent, OpenConfirm, Established} x each message type "
        "(OPEN valid/invalid, KEEPALIVE, UPDATE, NOTIFICATION with random code/subcode/data, unknown types) x both "
        "connection directions x TCP FIN/RST at every state; compared with the extracted connection model's expected "
        "wire messages, callbacks, close and returned (state, error class); callback monitor for OnClose exactly once. "
        "distinct = distinct step lists.")
ASSUMPTIONS = ["hold time 90 s so that no timer fires during a scenario", "writes on loopback succeed"]
COQ_FILES = ["Model/Conn.v", "Proofs/ConnProofs.v", "Props/C09.v"]


def bring_to(c, state):
    """append the remote messages that bring the connection to the given state"""
    if state in ("openConfirm", "established"):
        c.send(S.frame(S.OPEN, S.open_body(c.remote_as, hold=getattr(c, "remote_hold", 90))))
    if state == "established":
        c.send(S.frame(S.KEEPALIVE))


def convs(rng, tier):
    out = []
    sid = 0
    reps = 1 if tier == "quick" else 6
    for _ in range(reps):
        for direction in ("in", "out"):
            for state in ("openSent", "openConfirm", "established"):
                msgs = [("open", S.frame(S.OPEN, S.open_body())), ("open.bad", S.frame(S.OPEN, S.open_body(ver=5))),
                        ("keepalive", S.frame(S.KEEPALIVE)), ("update", S.frame(S.UPDATE, b"\x00\x00\x00\x00")),
                        ("update.big", S.frame(S.UPDATE, b"\x00\x00\x00\x00" + gen.rbytes(rng, rng.randint(1, 4073)))),
                        ("update.max", S.frame(S.UPDATE, b"\x00\x00\x00\x00" + gen.rbytes(rng, 4073))),      # 4096 octets in total
                        ("notif.max", S.frame(S.NOTIF, S.notif_body(rng.randint(1, 5), rng.randint(0, 9), gen.rbytes(rng, 4075)))),
                        ("notif", S.frame(S.NOTIF, S.notif_body(rng.randint(1, 7), rng.randint(0, 11), gen.rbytes(rng, rng.choice([0, 1, 2, 9]))))),
                        ("notif.cease", S.frame(S.NOTIF, S.notif_body(6, rng.randint(0, 9)))),
                        ("notif.short", S.frame(S.NOTIF, bytes([rng.randint(0, 255)]))),
                        ("type0", S.frame(0)), ("type5", S.frame(5, gen.rbytes(rng, 4))), ("type255", S.frame(255))]
                for name, m in msgs:
                    # the negotiated hold time is a mode of every cell: (local, remote) incl. 0 on either side
                    hl, hr = rng.choice([(90, 90), (90, 90), (90, 0), (0, 90), (0, 0), (3, 90)])
                    c = S.Conv(sid, direction=direction, hold=hl,
                               tag="%s.%s%s.%s" % (state, name, ".hold0" if min(hl, hr) == 0 else "", direction))
                    c.remote_hold = hr
                    c.meta = {"state": state, "what": name, "type": m[18]}
                    c.judge = judge
                    bring_to(c, state)
                    if state == "established" and rng.random() < 0.5:
                        c.send(S.frame(S.KEEPALIVE))      # legal progress first, then the message under test
                        if rng.random() < 0.5:
                            c.send(S.frame(S.UPDATE, b"\x00\x00\x00\x00"))
                    c.send(m)
                    if state == "established" and name in ("keepalive", "update", "update.big", "update.max"):
                        c.eof = 1
                    out.append(c)
                    sid += 1
                for eof, nm in ((1, "fin"), (2, "rst")):
                    c = S.Conv(sid, direction=direction, tag="%s.%s.%s" % (state, nm, direction))
                    c.meta = {"state": state, "what": nm, "type": 0}
                    c.judge = judge
                    bring_to(c, state)
                    c.eof = eof
                    out.append(c)
                    sid += 1
                # one more whole message directly behind the one that ends the session, in the same write (the reader has it
                # in hand when the FSM tears the connection down): the session still ends with OnClose and the stop returns
                enders = [("open", S.frame(S.OPEN, S.open_body())), ("type9", S.frame(9)), ("notif", S.frame(S.NOTIF, S.notif_body(6, 2)))]
                if state != "established":
                    enders = [("update", S.frame(S.UPDATE, bytes(4))), ("type9", S.frame(9)), ("notif", S.frame(S.NOTIF, S.notif_body(2, 2)))]
                for name, m in enders:
                    for behind in (S.frame(S.KEEPALIVE), S.frame(S.UPDATE, bytes(30))):
                        c = S.Conv(sid, direction=direction, tag="%s.%s.pipelined.%s" % (state, name, direction))
                        c.meta = {"state": state, "what": name, "type": m[18]}
                        c.judge = judge
                        bring_to(c, state)
                        c.send(m + behind)
                        out.append(c)
                        sid += 1
                # the connection ends in the middle of a message (header complete, body partly or not at all received)
                for full in (S.frame(S.UPDATE, b"\x00\x00\x00\x00" + gen.rbytes(rng, 40)), S.frame(S.OPEN, S.open_body()),
                             S.frame(S.NOTIF, S.notif_body(6, 2, b"bye"))):
                    for cut in (19, 19 + (len(full) - 19) // 2):
                        c = S.Conv(sid, direction=direction, tag="%s.fin-mid-message.%s" % (state, direction))
                        c.meta = {"state": state, "what": "fin", "type": 0}
                        c.judge = judge
                        bring_to(c, state)
                        c.send(full[:cut])
                        c.eof = 1
                        out.append(c)
                        sid += 1
    return out


SUB = {"openSent": 1, "openConfirm": 2, "established": 3}
LEGAL = {("openSent", 1), ("openConfirm", 4), ("established", 4), ("established", 2)}


def judge(c, e, o, r):
    """The property's clauses evaluated directly on the observation (independent of the model)."""
    state, what = c.meta["state"], c.meta["what"]
    sent = [m for m in o["wire"][1:] if m[0] == 3]          # NOTIFICATIONs corebgp sent
    if what in ("fin", "rst"):
        if sent and not (sent[-1][1][:1] == b"\x06"):
            return "TCP %s in %s answered with NOTIFICATION %s" % (what, state, sent[-1][1].hex())
        return None
    t = c.meta["type"]
    if t == 3:
        if sent:
            return "received NOTIFICATION in %s answered with NOTIFICATION %s" % (state, sent[-1][1].hex())
        if not o["closed"]:
            return "connection not closed after a received NOTIFICATION in %s" % state
        return None
    if (state, t) in LEGAL and what != "open.bad":
        return None
    if what == "open.bad" and state == "openSent":
        return None      # decided by C02
    want = bytes([5, SUB[state], t])
    if not sent or sent[0][1] != want:
        return "%s: message type %d must yield NOTIFICATION %s, observed %s" % (state, t, want.hex(), [x[1].hex() for x in sent])
    if not o["closed"]:
        return "%s: connection not closed after FSM error" % state
    n_est = sum(1 for x in o["cbs"] if x[0] == "OnEstablished")
    n_cl = sum(1 for x in o["cbs"] if x[0] == "OnClose")
    if n_est != n_cl:
        return "OnEstablished %d times but OnClose %d times" % (n_est, n_cl)
    return None


def judge_multi(m, e, o, r):
    n_est = sum(1 for x in o["cbs"] if x[0] == "OnEstablished")
    n_cl = sum(1 for x in o["cbs"] if x[0] == "OnClose")
    if n_est != n_cl:
        return "OnEstablished fired %d times but OnClose %d times over %d successive sessions" % (n_est, n_cl, len(m.segs))
    for k, seg in enumerate(m.segs):
        if seg.meta["what"].startswith("notif") or seg.meta["what"] in ("fin",):
            sent = [x for x in o["wire"][k][1:] if x[0] == 3 and x[1][:1] != b"\x06"]
            if sent:
                return "session %d: %s answered with NOTIFICATION %s" % (k + 1, seg.meta["what"], sent[0][1].hex())
    return None


def multis(rng, tier):
    """successive sessions on the same (outbound or inbound) peer: every session's end is handled
    like the first one's"""
    out = []
    sid = 1000
    enders = [("notif.cease", lambda: S.frame(S.NOTIF, S.notif_body(6, rng.randint(0, 8)))),
              ("fin", None),
              ("open", lambda: S.frame(S.OPEN, S.open_body()))]
    reps = 1 if tier == "quick" else 4
    for _ in range(reps):
        for direction in ("out", "in"):
            for first in ("notif.cease", "fin"):
                for last, mk in enders:
                    segs = []
                    for k, (nm, f) in enumerate([(first, dict(enders)[first]), (last, mk), ] if True else []):
                        c = S.Conv(sid, direction=direction, tag="multi")
                        bring_to(c, "established")
                        if nm == "fin":
                            c.eof = 1
                        else:
                            c.send(f())
                        c.meta = {"state": "established", "what": nm, "type": 0}
                        segs.append(c)
                    if last == "open":
                        # an unexpected OPEN is a protocol error: the peer is then damped; fine as the last session
                        pass
                    m = S.Multi(sid, segs, tag="sessions.%s.then.%s.%s" % (first, last, direction))
                    m.judge = judge_multi
                    out.append(m)
                    sid += 1
    return out


def sys_part(tier, rng, rep, replay):
    cov = sysrun.run_convs(PID, convs(rng, tier), rep)
    cov2 = sysrun.run_convs(PID, multis(rng, tier), rep)
    cov["evaluations"] += cov2["evaluations"]
    cov["distinct_nontrivial"] += cov2["distinct_nontrivial"]
    cov["traces_validated_against_impl"] += cov2["traces_validated_against_impl"]
    cov["scenario_streams"].update(cov2["scenario_streams"])
    cov["successive_sessions"] = {k: cov2[k] for k in ("sys_mismatches", "monitor_violations", "crashes")}
    cov["rule"] = RULE
    return cov


def main(tier, seed, replay=None):
    import sys
    return engine.run_property(sys.modules[__name__], tier, seed, replay)
