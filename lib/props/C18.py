"""C18 — typed path-attribute decoders accept exactly well-formed attributes."""
import struct

import fnprop
import gen
from common import Case

PID = "C18"
OPNAMES = {23: "attr_decode", 24: "flag_accessors"}
ORACLES = {23: 123, 24: 124}
CODES = [1, 2, 3, 4, 5, 6, 7, 8, 9, 10, 32]
RULE = ("for each of the 11 attribute types: all 256 flag octets x {a valid value, an invalid value}; exhaustive "
        "values of length 0..2 over the alphabet {0,1,2,3,4,255} with the RFC flags; valid/invalid values from a "
        "grammar (AS_PATH segments incl. counts 63..65 and 255, several segments of the same type, zero counts, "
        "bad types, truncations; lengths incl. >255); random values up to 4096 bytes; all 256 octets for the flag "
        "accessors. distinct = distinct (code, flags, value).")
ASSUMPTIONS = ["decoded values observed through the exported Go types (netip.Addr as bytes)"]
COQ_FILES = ["Model/Update.v", "Spec/UpdateSpec.v", "Proofs/AttrProofs.v", "Props/C18.v"]


def cases(rng, tier):
    cs = []
    for fl in range(256):
        cs.append(Case(24, [fl], [], "flags"))
    alpha = [0, 1, 2, 3, 4, 255]
    for code in CODES:
        good = gen.ATTR_FLAGS[code] if code != 6 else 0x40
        for fl in range(256):
            cs.append(Case(23, [code, fl], [gen.r_attr_value(rng, code, True)], "flags-sweep.valid-value"))
            cs.append(Case(23, [code, fl], [gen.r_attr_value(rng, code, False)], "flags-sweep.invalid-value"))
        for fl in (good, good | 0x10, good | 0x20 if good & 0x80 else good):
            cs.append(Case(23, [code, fl], [b""], "short-exhaustive"))
            for a in alpha:
                cs.append(Case(23, [code, fl], [bytes([a])], "short-exhaustive"))
                for b in alpha:
                    cs.append(Case(23, [code, fl], [bytes([a, b])], "short-exhaustive"))
        m = 300 if tier == "quick" else 6000
        for _ in range(m):
            r = rng.random()
            if r < 0.5:
                v = gen.r_attr_value(rng, code, True)
            elif r < 0.8:
                v = gen.r_attr_value(rng, code, False)
            elif r < 0.9:
                v = gen.mutate(rng, gen.r_attr_value(rng, code, True))
            else:
                v = gen.rbytes(rng, rng.choice([254, 255, 256, 257, 1020, 1024, 4096, rng.randint(0, 4096)]))
            cs.append(Case(23, [code, good if rng.random() < 0.85 else rng.randint(0, 255)], [v], "grammar"))
    # AS_PATH specials
    u32 = lambda x: struct.pack(">I", x)
    seg = lambda t, asns: bytes([t, len(asns)]) + b"".join(u32(a) for a in asns)
    specials = [seg(2, [1]), seg(1, [1, 2]) + seg(2, [3]), seg(2, [1]) + seg(2, [2]) + seg(1, [3]),
                seg(1, [7]) + seg(1, [8]), seg(2, list(range(63))), seg(2, list(range(64))), seg(2, list(range(65))),
                seg(2, list(range(255))), seg(2, list(range(128))) + seg(2, list(range(128))), seg(2, [0xFFFFFFFF]),
                bytes([2, 0]), bytes([2, 0, 0, 0, 0, 0]), bytes([3, 1]) + u32(1), bytes([0, 1]) + u32(1)]
    for v in specials:
        for fl in (0x40, 0x50):
            cs.append(Case(23, [2, fl], [v], "aspath.special"))
    # segments whose AS data falls 1..5 octets short of (or exceeds by 1..3) what the count announces, in the first and in a later
    # segment; and, for every attribute, values one to four octets off each length rule
    for n in (1, 2, 3, 64):
        full = seg(2, list(range(1, n + 1)))
        for short in (1, 2, 3, 4, 5):
            if short < len(full) - 2:
                for prefix in (b"", seg(1, [9, 8]), seg(2, [5])):
                    for fl in (0x40, 0x50):
                        cs.append(Case(23, [2, fl], [prefix + full[:-short]], "aspath.segment-short"))
        for extra in (1, 2, 3):
            cs.append(Case(23, [2, 0x40], [full + bytes(extra)], "aspath.trailing"))
    rules = {1: [1], 3: [4], 4: [4], 5: [4], 6: [0], 7: [8], 8: [4, 8, 12], 9: [4], 10: [4, 8], 32: [12, 24]}
    for code, lens in rules.items():
        for ln in lens:
            for d in (-4, -3, -2, -1, 1, 2, 3, 4):
                if ln + d >= 0:
                    cs.append(Case(23, [code, {1: 0x40, 3: 0x40, 4: 0x80, 5: 0x40, 6: 0x40, 7: 0xC0, 8: 0xC0, 9: 0x80, 10: 0x80, 32: 0xC0}[code]],
                                   [gen.rbytes(rng, ln + d)], "length-off-by"))
    # distinguished values under the right flags and a right length: all-zeros, all-ones, sign/class boundaries in the first
    # and last octet (0.0.0.0, 255.255.255.255, loopback, multicast, AS 0 / AS_TRANS / 4294967295 ...): the decoders accept on
    # length and flags alone, whatever the value means
    good_flags = {1: 0x40, 3: 0x40, 4: 0x80, 5: 0x40, 6: 0x40, 7: 0xC0, 8: 0xC0, 9: 0x80, 10: 0x80, 32: 0xC0}
    for code, lens in rules.items():
        for ln in lens:
            vals = set()
            for fill in (0x00, 0xFF, 0x7F, 0x80, 0x01, 0xE0, 0xF0):
                vals.add(bytes([fill]) * ln)
                if ln:
                    vals.add(bytes([fill]) + bytes(ln - 1))
                    vals.add(bytes(ln - 1) + bytes([fill]))
                    vals.add(bytes([fill]) + b"\xff" * (ln - 1))
            if ln >= 2:
                vals.add(b"\x5b\xa0" + bytes(ln - 2))          # AS_TRANS 23456 in the leading two octets
                vals.add(bytes(ln - 2) + b"\x5b\xa0")
            for v in sorted(vals):
                for fl in (good_flags[code], good_flags[code] | 0x10):
                    cs.append(Case(23, [code, fl], [v], "distinguished-values"))
    return cs


def main(tier, seed, replay=None):
    import sys
    return fnprop.run(sys.modules[__name__], tier, seed, replay)
