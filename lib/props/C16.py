"""C16 — UpdateDecoder partitions an UPDATE exactly as its length fields dictate."""
import itertools
import struct

import fnprop
import gen
from common import Case

PID = "C16"
OPNAMES = {27: "update_decode"}
ORACLES = {27: [127, 130]}
RULE = ("callbacks returning nil; bodies: exhaustive over the alphabet {0,1,2,3,4,14,15,0x10,0x40,0x80,0x90,0xff} up to "
        "length 4 (quick) / 5 (thorough), exhaustive attribute blocks of up to 2 short attributes with type in {1,2,14,15} "
        "and all four extended-length/flag combinations, grammar-generated bodies (60% well-formed; faults: duplicates, "
        "duplicate MP, missing mandatory, overrun, truncated header, wrong section lengths, short body, extended length), "
        "byte mutations, bodies up to 4077 bytes, and selected lengths above 65535 (withdrawn length 65534/65535). "
        "distinct = distinct bodies.")
ASSUMPTIONS = ["callbacks return nil (the property's quantifier); recorded arguments are copied at call time"]
COQ_FILES = ["Model/Update.v", "Spec/UpdateSpec.v", "Proofs/UpdateProofs.v", "Proofs/UpdateErrProofs.v", "Props/C16.v"]
ALPHA = [0, 1, 2, 3, 4, 14, 15, 0x10, 0x40, 0x80, 0x90, 0xFF]


def big_bodies(rng):
    out = []
    for wrl in (65534, 65535, 65533, 40000):
        for extra in (0, 1, 2, 3, 10):
            for total in (wrl + 2 + extra,):
                b = struct.pack(">H", wrl) + gen.rbytes(rng, total)
                out.append(b)
        # consistent big body: wrl, then pal=0, nlri
        out.append(struct.pack(">H", wrl) + bytes(wrl) + struct.pack(">H", 0) + bytes([8, 10]))
        out.append(struct.pack(">H", wrl) + bytes(wrl) + struct.pack(">H", 4) + bytes([0x40, 1, 1, 0]))
    # big attribute block with extended length > 255 and > 4096
    for ln in (256, 300, 4096, 65535):
        a = bytes([0x50, 2]) + struct.pack(">H", ln) + bytes(ln)
        out.append(struct.pack(">H", 0) + struct.pack(">H", len(a) & 0xFFFF) + a)
    return out


def cases(rng, tier):
    cs = []
    maxlen = 4 if tier == "quick" else 5
    for ln in range(0, maxlen + 1):
        for t in itertools.product(ALPHA, repeat=ln):
            cs.append(Case(27, [], [bytes(t)], "exhaustive.short"))
    # exhaustive small attribute blocks
    vals = [b"", b"\x00", b"\x01\x02"]
    attrs = []
    for fl in (0x40, 0x50, 0x80, 0x90):
        for code in (1, 2, 14, 15):
            for v in vals:
                attrs.append(gen.enc_attr(fl, code, v, ext=bool(fl & 0x10)))
    blocks = [b""] + attrs + [a + b for a in attrs for b in attrs[::3]]
    for blk in blocks:
        for nlri in (b"", bytes([8, 10])):
            cs.append(Case(27, [], [struct.pack(">H", 0) + struct.pack(">H", len(blk)) + blk + nlri], "exhaustive.attr-blocks"))
    n = 4000 if tier == "quick" else 60000
    for _ in range(n):
        b, tag = gen.r_update_body(rng)
        r = rng.random()
        if r < 0.15:
            b = gen.mutate(rng, b)
            tag = "upd.mutated"
        elif r < 0.2:
            # pad to a long body
            b = b + gen.rbytes(rng, rng.randint(0, 4077 - min(len(b), 4077)))
            tag = "upd.long"
        cs.append(Case(27, [], [b[:70000]], tag))
    for b in big_bodies(rng):
        cs.append(Case(27, [], [b], "upd.over-65535"))
    # Decode is a function of the body alone: the same decoder first decodes other UPDATEs (byte strings 2.. of the case; among
    # them ones that abort on a repeated MP attribute or on an overrun), then the body under test; the model ignores them
    mp = gen.enc_attr(0x80, 14, bytes([0, 1, 1, 0, 0]))
    abort = struct.pack(">H", 0) + struct.pack(">H", len(gen.enc_attr(0x40, 1, b"\x00") + gen.enc_attr(0x40, 2, b"") + mp + mp)) + \
        gen.enc_attr(0x40, 1, b"\x00") + gen.enc_attr(0x40, 2, b"") + mp + mp
    unreach2 = gen.enc_attr(0x80, 15, bytes([0, 1, 1]))
    abort2 = struct.pack(">H", 0) + struct.pack(">H", len(unreach2 + unreach2)) + unreach2 + unreach2
    for _ in range(300 if tier == "quick" else 5000):
        b, tag = gen.r_update_body(rng)
        primes = [rng.choice([abort, abort2, gen.r_update_body(rng)[0], gen.mutate(rng, gen.r_update_body(rng)[0])])
                  for _ in range(rng.randint(1, 3))]
        cs.append(Case(27, [], [b[:4096]] + [p[:4096] for p in primes], "upd.after-other-decodes"))
    return cs


def main(tier, seed, replay=None):
    import sys
    return fnprop.run(sys.modules[__name__], tier, seed, replay)
