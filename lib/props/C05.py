"""C05 — no remote input or API sequence can crash or wedge the process.
Decoder half: every exported decoding entry point returns for every byte slice."""
import struct

import fnprop
import gen
from common import Case

PID = "C05"
OPNAMES = {2: "notif_dec", 3: "open_dec", 4: "open_handle", 7: "message_from_bytes", 8: "addpath_dec", 20: "prefixes",
           21: "wrappers", 22: "ipv6_nexthops", 23: "attr_decode", 25: "mp_reach", 26: "mp_unreach", 27: "update_decode"}
ORACLES = {}
PANIC_IS_VIOLATION = True
RULE = ("hostile inputs to every decoding entry point: raw random slices (lengths 0..8 biased, boundaries, up to 4096), "
        "grammar-generated messages with byte mutations and truncations, length octets 253..255, slices of 65534..70000 "
        "bytes with maximal length fields for UpdateDecoder.Decode and the attribute decoders, all 256 message types. "
        "A Go panic is caught by recover and reported as outcome PANIC = violation. distinct = distinct (op, ints, bytes).")
ASSUMPTIONS = ["decoder half of C05; the wedge half (hostile streams at every FSM state, then a fresh peer must establish and Close must return) is the system-level part"]
COQ_FILES = ["Model/Update.v", "Model/Packet.v", "Proofs/TotalProofs.v", "Props/C05.v"]


def hostile(rng, maxlen=4096):
    r = rng.random()
    if r < 0.3:
        return gen.rbytes(rng, rng.randint(0, 8))
    if r < 0.6:
        return gen.rbytes(rng, gen.rlen(rng, maxlen))
    if r < 0.8:
        b, _ = gen.r_update_body(rng)
        return gen.mutate(rng, b, 3)
    return gen.mutate(rng, gen.r_open_body(rng), 3)


def cases(rng, tier):
    n = 1500 if tier == "quick" else 30000
    cs = []
    for t in range(256):
        cs.append(Case(7, [t], [hostile(rng)], "msg.all-types"))
    for _ in range(n):
        cs.append(Case(2, [], [hostile(rng)], "hostile"))
        cs.append(Case(3, [], [hostile(rng, 300)], "hostile"))
        cs.append(Case(4, [gen.r_u32(rng), gen.r_u32(rng), gen.r_u32(rng)], [hostile(rng, 300)], "hostile"))
        cs.append(Case(7, [rng.randint(0, 5)], [hostile(rng)], "hostile"))
        cs.append(Case(8, [], [hostile(rng, 64)], "hostile"))
        cs.append(Case(20, [rng.randint(0, 1), rng.randint(0, 1)], [hostile(rng, 64)], "hostile"))
        cs.append(Case(21, [rng.randint(0, 5)], [hostile(rng, 64)], "hostile"))
        cs.append(Case(22, [], [hostile(rng, 64)], "hostile"))
        cs.append(Case(23, [rng.choice([1, 2, 3, 4, 5, 6, 7, 8, 9, 10, 32]), rng.randint(0, 255)], [hostile(rng)], "hostile"))
        cs.append(Case(25, [rng.randint(0, 255)], [hostile(rng, 600)], "hostile"))
        cs.append(Case(26, [rng.randint(0, 255)], [hostile(rng, 64)], "hostile"))
        sc = gen.r_script(rng) if rng.random() < 0.3 else []
        cs.append(Case(27, sc, [hostile(rng)], "hostile"))
    # OPEN bodies with length octets at the uint8 edge
    for pl in (252, 253, 254, 255):
        for cl in (250, 251, 252, 253, 254, 255):
            body = struct.pack(">BHHIB", 4, 65000, 90, 1, 255) + bytes([2, pl, 65, cl]) + gen.rbytes(rng, 251)
            cs.append(Case(3, [], [body[:265]], "open.u8-edge"))
            cs.append(Case(7, [1], [body[:265]], "open.u8-edge"))
    # slices above 65535 bytes
    for wrl in (65533, 65534, 65535):
        for total in (65536, 65537, 65538, 65540, 70000):
            b = struct.pack(">H", wrl) + bytes(total - 2)
            cs.append(Case(27, [], [b], "update.over-65535"))
            b2 = struct.pack(">H", 0) + struct.pack(">H", 65535) + gen.rbytes(rng, total)
            cs.append(Case(27, [], [b2], "update.over-65535"))
    for code in (1, 2, 3, 8, 10, 32):
        for ln in (65535, 65536, 65540, 70000):
            cs.append(Case(23, [code, gen.ATTR_FLAGS[code]], [bytes(ln)], "attr.over-65535"))
    for ln in (65535, 65536, 70000):
        cs.append(Case(25, [0x80], [bytes([0, 2, 1, 255]) + bytes(ln)], "mp.over-65535"))
    for ln in ((4096, 8000) if tier == "quick" else (4096, 8000, 65536, 70000)):
        cs.append(Case(20, [0, 0], [bytes([32, 1, 2, 3, 4]) * (ln // 5)], "prefixes.long"))
    # the structured UPDATE corpus of C16/C17 (consistent section lengths, faults inside the attribute block)
    import C16
    import C17
    for c in C16.cases(rng, tier):
        c.tag = "c16." + c.tag
        cs.append(c)
    for c in C17.cases(rng, tier):
        if c.op == 27:
            c.tag = "c17." + c.tag
            cs.append(c)
    return cs


def main(tier, seed, replay=None):
    import sys
    return fnprop.run(sys.modules[__name__], tier, seed, replay)
