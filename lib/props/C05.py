"""C05 — no remote input or API sequence can crash or wedge the process.
Decoder half: every exported decoding entry point returns for every byte slice."""
import struct

import fnprop
import gen
from common import Case

PID = "C05"
OPNAMES = {40: "api_sequence", 2: "notif_dec", 3: "open_dec", 4: "open_handle", 7: "message_from_bytes", 8: "addpath_dec", 20: "prefixes",
           21: "wrappers", 22: "ipv6_nexthops", 23: "attr_decode", 25: "mp_reach", 26: "mp_unreach", 27: "update_decode"}
ORACLES = {}
PANIC_IS_VIOLATION = True
RULE = ("hostile inputs to every decoding entry point: raw random slices (lengths 0..8 biased, boundaries, up to 4096), "
        "grammar-generated messages with byte mutations and truncations, length octets 253..255, slices of 65534..70000 "
        "bytes with maximal length fields for UpdateDecoder.Decode and the attribute decoders, all 256 message types. "
        "A Go panic is caught by recover and reported as outcome PANIC = violation. distinct = distinct (op, ints, bytes).")
ASSUMPTIONS = ["decoder half of C05; the wedge half (hostile streams at every FSM state, then a fresh peer must establish and Close must return) is the system-level part"]
COQ_FILES = ["Model/Update.v", "Model/Packet.v", "Model/Server.v", "Proofs/TotalProofs.v", "Proofs/ServerProofs.v", "Props/C05.v"]


def hostile(rng, maxlen=4096):
    r = rng.random()
    if r < 0.3:
        return gen.rbytes(rng, rng.randint(0, 8))
    if r < 0.6:
        return gen.rbytes(rng, gen.rlen(rng, maxlen))
    if r < 0.8:
        b, _ = gen.r_update_body(rng)
        return gen.mutate(rng, b, 3)
    return gen.mutate(rng, gen.r_open_body(rng), 3)


def cases(rng, tier):
    n = 1500 if tier == "quick" else 30000
    cs = []
    for t in range(256):
        cs.append(Case(7, [t], [hostile(rng)], "msg.all-types"))
    for _ in range(n):
        cs.append(Case(2, [], [hostile(rng)], "hostile"))
        cs.append(Case(3, [], [hostile(rng, 300)], "hostile"))
        cs.append(Case(4, [gen.r_u32(rng), gen.r_u32(rng), gen.r_u32(rng)], [hostile(rng, 300)], "hostile"))
        cs.append(Case(7, [rng.randint(0, 5)], [hostile(rng)], "hostile"))
        cs.append(Case(8, [], [hostile(rng, 64)], "hostile"))
        cs.append(Case(20, [rng.randint(0, 1), rng.randint(0, 1)], [hostile(rng, 64)], "hostile"))
        cs.append(Case(21, [rng.randint(0, 5)], [hostile(rng, 64)], "hostile"))
        cs.append(Case(22, [], [hostile(rng, 64)], "hostile"))
        cs.append(Case(23, [rng.choice([1, 2, 3, 4, 5, 6, 7, 8, 9, 10, 32]), rng.randint(0, 255)], [hostile(rng)], "hostile"))
        cs.append(Case(25, [rng.randint(0, 255)], [hostile(rng, 600)], "hostile"))
        cs.append(Case(26, [rng.randint(0, 255)], [hostile(rng, 64)], "hostile"))
        sc = gen.r_script(rng) if rng.random() < 0.3 else []
        cs.append(Case(27, sc, [hostile(rng)], "hostile"))
    # OPEN bodies with length octets at the uint8 edge
    for pl in (252, 253, 254, 255):
        for cl in (250, 251, 252, 253, 254, 255):
            body = struct.pack(">BHHIB", 4, 65000, 90, 1, 255) + bytes([2, pl, 65, cl]) + gen.rbytes(rng, 251)
            cs.append(Case(3, [], [body[:265]], "open.u8-edge"))
            cs.append(Case(7, [1], [body[:265]], "open.u8-edge"))
    # slices above 65535 bytes
    for wrl in (65533, 65534, 65535):
        for total in (65536, 65537, 65538, 65540, 70000):
            b = struct.pack(">H", wrl) + bytes(total - 2)
            cs.append(Case(27, [], [b], "update.over-65535"))
            b2 = struct.pack(">H", 0) + struct.pack(">H", 65535) + gen.rbytes(rng, total)
            cs.append(Case(27, [], [b2], "update.over-65535"))
    for code in (1, 2, 3, 8, 10, 32):
        for ln in (65535, 65536, 65540, 70000):
            cs.append(Case(23, [code, gen.ATTR_FLAGS[code]], [bytes(ln)], "attr.over-65535"))
    for ln in (65535, 65536, 70000):
        cs.append(Case(25, [0x80], [bytes([0, 2, 1, 255]) + bytes(ln)], "mp.over-65535"))
    for ln in ((4096, 8000) if tier == "quick" else (4096, 8000, 65536, 70000)):
        cs.append(Case(20, [0, 0], [bytes([32, 1, 2, 3, 4]) * (ln // 5)], "prefixes.long"))
    # the structured UPDATE corpus of C16/C17 (consistent section lengths, faults inside the attribute block)
    import C16
    import C17
    for c in C16.cases(rng, tier):
        c.tag = "c16." + c.tag
        cs.append(c)
    for c in C17.cases(rng, tier):
        if c.op == 27:
            c.tag = "c17." + c.tag
            cs.append(c)
    # sequences of documented API calls (AddPeer/DeletePeer/GetPeer/ListPeers/Serve/Close, a failing listener) in any
    # order: none may panic (a panic in a goroutine of corebgp kills the driver process; the case is then isolated)
    import C20
    api = [c for c in C20.cases(rng, tier) if c.op == 40 and not c.tag.startswith("validate")]
    for c in api[:400 if tier == "quick" else 4000]:
        cs.append(Case(40, c.ints, [], "api.sequences"))
    return cs


# ---------------------------------------------------------------- system level: poison, then probe
import engine
import sysprop as S
import sysrun


class Poison:
    """a hostile byte stream at some FSM state, then DeletePeer/AddPeer, then a fresh session must
    establish on the same server and Close must return"""
    no_model = True

    def __init__(self, sid, tag, direction, prefix, poison, chunks=None, **kw):
        self.sid, self.tag, self.direction, self.prefix, self.poison, self.chunks, self.kw = sid, tag, direction, prefix, poison, chunks, kw
        self.remote_id = 0x0A000002

    def scenario(self):
        c = "c1"
        st = [["dial", c]] if self.direction == "in" else [["accept", c, 3000]]
        st += [["recv", c, 1, 2000]]
        for m in self.prefix:
            st += [["send", c, m.hex(), 0]]
        st += [["sleep", 10], ["send", c, self.poison.hex(), self.chunks or 0], ["sleep", 250],
               ["api", "delete", 3000], ["fullclose", c], ["sleep", 10], ["drain"], ["api", "add"], ["sleep", 20]]
        p = "c2"
        st += ([["dial", p]] if self.direction == "in" else [["accept", p, 3000]])
        st += [["recv", p, 1, 2000], ["send", p, S.frame(S.OPEN, S.open_body()).hex(), 0], ["send", p, S.frame(S.KEEPALIVE).hex(), 0],
               ["recv", p, 2, 1500], ["sleep", 40]]
        sc = {"id": self.sid, "local_as": 65001, "remote_as": 65000, "local_id": 0x0A000001, "hold": 90,
              "passive": self.direction == "in", "idle_hold_ms": 50, "connect_retry_ms": 400, "caps": [], "on_open": None,
              "handler": [], "est_writes": [], "steps": st, "first_only": True}
        sc.update(self.kw)
        return sc

    def model_case(self):
        return None

    def check(self, r):
        bad = []
        for a in r["api"] or []:
            if a["err"] == "TIMEOUT":
                bad.append("%s did not return after the hostile input (wedged)" % a["name"])
        # the probe session: established after the re-add
        t_add = max([a["at"] for a in r["api"] if a["name"] == "add"] + [0])
        est_after = [cb for cb in r["cbs"] if cb["name"] == "OnEstablished" and cb["ph"] == "enter" and cb["at"] >= t_add]
        if not est_after and not bad:
            bad.append("after the hostile input a fresh session with the re-added peer did not establish")
        return bad


class Sequence:
    """multi-step connection histories a remote can produce on one peer (no API call in between): a resolved collision whose
    survivor is then dropped, followed by a new attempt; sessions ending in each way followed by the next; the server must
    neither crash nor refuse to establish the last, well-behaved session"""
    no_model = True

    def __init__(self, sid, tag, steps, lid, rid):
        self.sid, self.tag, self.steps, self.lid, self.remote_id = sid, tag, steps, lid, rid

    def scenario(self):
        return {"id": self.sid, "local_as": 65001, "remote_as": 65000, "local_id": self.lid, "hold": 90, "passive": False,
                "idle_hold_ms": 80, "connect_retry_ms": 400, "caps": [], "on_open": None, "handler": [], "est_writes": [],
                "steps": self.steps}

    def model_case(self):
        return None

    def check(self, r):
        est = [cb for cb in r["cbs"] if cb["name"] == "OnEstablished" and cb["ph"] == "enter"]
        return [] if est else ["after the connection history the last, well-behaved session did not establish"]


class HoldSequence(Sequence):
    """consecutive sessions on one peer (outbound: the FSM object is reused) whose OPENs propose different hold times, zero
    after non-zero and back, each with KEEPALIVE and UPDATE traffic and ended by the remote closing: every session must
    establish (a wedged FSM shows as a session that never comes up, or as Close not returning)"""

    def __init__(self, sid, local, holds, direction="out"):
        self.sid, self.local, self.holds, self.direction = sid, local, holds, direction
        self.tag = "hold-time-sequence.%s.local%d.%s" % (direction, local, "-".join(map(str, holds)))
        self.lid, self.remote_id = 0x0A000001, 0x0A000002

    def scenario(self):
        ka, upd = S.frame(S.KEEPALIVE).hex(), S.frame(S.UPDATE, bytes(4)).hex()
        st = []
        for k, rh in enumerate(self.holds):
            c = "c%d" % (k + 1)
            st += [["dial", c]] if self.direction == "in" else [["accept", c, 2500]]
            st += [["recv", c, 1, 1500], ["send", c, S.frame(S.OPEN, S.open_body(hold=rh)).hex(), 0], ["send", c, ka, 0],
                   ["recv", c, 2, 1500], ["sleep", 20], ["send", c, ka, 0], ["send", c, upd, 0], ["send", c, ka, 0], ["sleep", 30]]
            if k + 1 < len(self.holds):
                st += [["close", c], ["recv_eof", c, 800], ["fullclose", c], ["sleep", 30]]
        return {"id": self.sid, "local_as": 65001, "remote_as": 65000, "local_id": self.lid, "hold": self.local,
                "passive": self.direction == "in", "idle_hold_ms": 60, "connect_retry_ms": 300, "caps": [], "on_open": None,
                "handler": [], "est_writes": [], "steps": st}

    def check(self, r):
        est = sum(1 for cb in r["cbs"] if cb["name"] == "OnEstablished" and cb["ph"] == "enter")
        hs = sum(1 for cb in r["cbs"] if cb["name"] == "Handler" and cb["ph"] == "enter")
        bad = []
        if est < len(self.holds):
            bad.append("only %d of %d consecutive sessions (remote hold times %s) established: the peer is wedged after the connection history"
                       % (est, len(self.holds), list(self.holds)))
        elif hs < len(self.holds):
            bad.append("only %d of %d UPDATEs (one per session) reached the handler" % (hs, len(self.holds)))
        return bad


def sequence_items(rng, tier):
    out = []
    sid = 600
    for k, (local, holds, d) in enumerate(((90, (30, 0, 90), "out"), (90, (3, 0, 0, 30), "out"), (0, (90, 0, 30), "out"),
                                           (9, (0, 30, 0), "out"), (90, (30, 0, 90), "in"))):
        out.append(HoldSequence(650 + k, local, holds, d))
    ka = S.frame(S.KEEPALIVE).hex()
    for lid, rid in ((0x0A000003, 0x0A000002), (0x0A000001, 0x0A000002)):       # local dominant / remote dominant
        op = S.frame(S.OPEN, S.open_body(bid=rid)).hex()
        for how in ("fin", "rst"):
            # both connections exchange OPENs (collision resolved), the survivor is dropped before KEEPALIVE, the next
            # outbound attempt is answered normally
            survivor, loser = ("cO", "cI") if lid > rid else ("cI", "cO")
            st = [["accept", "cO", 2500], ["recv", "cO", 1, 1500], ["dial", "cI"], ["recv", "cI", 1, 1500],
                  ["send", "cO", op, 0], ["send", "cI", op, 0], ["sleep", 80]]
            st += [["close", survivor], ["recv_eof", survivor, 500], ["fullclose", survivor]] if how == "fin" else [["reset", survivor]]
            st += [["sleep", 30], ["drain"], ["accept", "c3", 2500], ["recv", "c3", 1, 1500], ["send", "c3", op, 0], ["send", "c3", ka, 0],
                   ["recv", "c3", 2, 1500], ["sleep", 40]]
            out.append(Sequence(sid, "collision-survivor-dropped-%s-then-redial.%s" % (how, "dominant" if lid > rid else "nondominant"), st, lid, rid))
            sid += 1
    return out


def poison_items(rng, tier):
    out = []
    sid = 0
    OPENM = S.frame(S.OPEN, S.open_body())
    KAM = S.frame(S.KEEPALIVE)
    UPDM = S.frame(S.UPDATE, b"\x00\x00\x00\x00")
    prefixes = {"openSent": [], "openConfirm": [OPENM], "established": [OPENM, KAM]}
    reps = 1 if tier == "quick" else 5
    for _ in range(reps):
        for direction in ("in", "out"):
            for state, pre in prefixes.items():
                hostile = [("random", gen.rbytes(rng, rng.randint(1, 200))),
                           ("mutated-open", gen.mutate(rng, OPENM, 3)),
                           ("mutated-update", gen.mutate(rng, S.frame(S.UPDATE, gen.r_update_body(rng)[0][:4000]), 3)),
                           ("huge-length", S.frame(2, b"", length=65535) + gen.rbytes(rng, 50)),
                           ("truncated", UPDM[:rng.randint(1, 22)]),
                           ("flood-keepalive", KAM * 300),
                           ("partial-then-silence", S.frame(2, gen.rbytes(rng, 10), length=4096))]
                for name, h in hostile:
                    out.append(Poison(sid, "poison.%s.%s.%s" % (state, name, direction), direction, pre, h))
                    sid += 1
                # a decode error right behind a message that makes the FSM leave its state, while the
                # FSM is busy in a plugin callback
                if state == "established":
                    out.append(Poison(sid, "poison.established.error-behind-handler-notification." + direction, direction, pre,
                                      UPDM + S.frame(9), handler=[[3, 1, ""]], handler_delay_ms=120))
                    sid += 1
                    out.append(Poison(sid, "poison.established.error-behind-notification." + direction, direction, pre,
                                      S.frame(S.NOTIF, S.notif_body(6, 2)) + S.frame(9), handler_delay_ms=0))
                    sid += 1
                if state == "openSent":
                    out.append(Poison(sid, "poison.openSent.error-behind-open-plugin-notification." + direction, direction, pre,
                                      OPENM + S.frame(9), on_open=[2, 0, ""], on_open_delay_ms=120))
                    sid += 1
    return out


def sys_part(tier, rng, rep, replay):
    cov = sysrun.run_convs(PID, poison_items(rng, tier) + sequence_items(rng, tier), rep, extra_check=lambda c, e, o, r: c.check(r), par=24)
    cov["rule"] = ("poison then probe: hostile streams (random, mutated OPEN/UPDATE, length 65535, truncation, 300 back-to-back "
                   "KEEPALIVEs, partial message then silence, a decode error right behind a state-leaving message while the FSM "
                   "is inside a plugin callback) at OpenSent/OpenConfirm/Established on both directions; then DeletePeer must "
                   "return, AddPeer, and a fresh session must establish; Close must return; a crash of the server process is "
                   "isolated by bisection and reported with the script")
    return cov


def main(tier, seed, replay=None):
    import sys
    return engine.run_property(sys.modules[__name__], tier, seed, replay)
