"""C08 — receive-side header validation and stream framing."""
import struct

import engine
import fnprop
import gen
import sysprop as S
import sysrun
from common import Case

PID = "C08"
OPNAMES = {61: "reader", 1: "notif_enc"}
ORACLES = {1: 101, 61: 161}
RULE = ("reader level (the real fsm.read over a fake connection delivering exact chunk plans): streams of 0..4 well-formed "
        "messages followed by a fault (every marker byte position corrupted, length values 0..18 / 4097..65535 incl. all "
        "boundaries, all 256 type octets) or nothing, then trailing bytes; chunk plans: whole, 1-byte reads, random cuts, cuts "
        "inside the header; thorough: all 65536 length values x representative types. System level: the same faults on live "
        "sessions in OpenSent/OpenConfirm/Established, both directions, with a valid UPDATE after the fault that must not be "
        "delivered. distinct = distinct (stream, chunk plan).")
ASSUMPTIONS = ["io.ReadFull semantics of the fake connection equal TCP's byte-stream semantics"]
COQ_FILES = ["Model/Conn.v", "Proofs/ReaderProofs.v", "Proofs/ConnProofs.v", "Props/C08.v"]


def good_msgs(rng, k, established=True):
    out = []
    for _ in range(k):
        if rng.random() < 0.6:
            out.append(S.frame(S.UPDATE, gen.rbytes(rng, rng.choice([0, 4, 23, 100, 4077, rng.randint(0, 4077)]))))
        elif rng.random() < 0.7:
            out.append(S.frame(S.KEEPALIVE))
        else:
            out.append(S.frame(S.OPEN, S.open_body()))
    return out


def fault(rng):
    r = rng.random()
    body = gen.rbytes(rng, rng.choice([0, 1, 4, 30]))
    if r < 0.3:
        m = bytearray(S.MARKER)
        i = rng.randrange(16)
        m[i] = rng.choice([0, 0x7F, 0xFE, m[i] ^ (1 << rng.randrange(8))])
        return S.frame(rng.choice([1, 2, 3, 4]), body, marker=bytes(m)), "marker"
    if r < 0.65:
        ln = rng.choice([0, 1, 18, 4097, 4098, 65535, rng.randint(0, 18), rng.randint(4097, 65535)])
        return S.frame(rng.choice([1, 2, 3, 4, 9]), body, length=ln), "length"
    t = rng.choice([0, 5, 6, 255, rng.randint(5, 255)])
    return S.frame(t, body), "type"


def chunk_plan(rng, n):
    r = rng.random()
    if r < 0.25 or n == 0:
        return []
    if r < 0.45:
        return [1] * min(n, 4200)
    if r < 0.6:
        return [rng.choice([15, 16, 17, 18, 19, 20])] + [rng.randint(1, 50) for _ in range(20)]
    return [rng.randint(1, max(1, n // 3)) for _ in range(rng.randint(1, 12))]


def cases(rng, tier):
    cs = []
    n = 600 if tier == "quick" else 8000
    for _ in range(n):
        goods = good_msgs(rng, rng.randint(0, 4))
        s = b"".join(goods)
        tag = "reader.good-only"
        if rng.random() < 0.75:
            f, kind = fault(rng)
            s += f + (S.frame(S.UPDATE, b"\x00\x00\x00\x00") if rng.random() < 0.5 else gen.rbytes(rng, rng.randint(0, 30)))
            tag = "reader.fault." + kind
        elif rng.random() < 0.3:
            s += S.frame(S.UPDATE, gen.rbytes(rng, 50))[:rng.randint(1, 60)]
            tag = "reader.truncated"
        cs.append(Case(61, [rng.randint(0, 1)] + chunk_plan(rng, len(s)), [s], tag))
    # boundary sweeps of the length field and all types
    for ln in list(range(0, 24)) + [4095, 4096, 4097, 4098, 65535]:
        body = bytes(max(0, min(ln, 4096) - 19))
        cs.append(Case(61, [0], [S.frame(2, body, length=ln) + bytes(30)], "reader.length-boundary"))
    for t in range(256):
        cs.append(Case(61, [0], [S.frame(t, b"\x05\x06")], "reader.all-types"))
    for i in range(16):
        for v in (0, 0xFE):
            m = bytearray(S.MARKER)
            m[i] = v
            cs.append(Case(61, [0], [S.frame(4, marker=bytes(m))], "reader.marker-positions"))
    if tier == "thorough":
        for ln in range(0, 65536):
            body = bytes(max(0, min(ln, 4096) - 19))
            cs.append(Case(61, [0], [S.frame(2 if ln % 3 else 4, body, length=ln)], "reader.all-lengths"))
    # a NOTIFICATION reaches the wire with exactly its fields (function level; see also C15)
    for _ in range(200 if tier == "quick" else 4000):
        cs.append(Case(1, [gen.r_u8(rng), gen.r_u8(rng)], [gen.rbytes(rng, gen.rlen(rng, 4075))], "notif.on-wire"))
    return cs


def convs(rng, tier):
    out = []
    sid = 0
    reps = 1 if tier == "quick" else 5
    for _ in range(reps):
        for direction in ("in", "out"):
            for state in ("openSent", "openConfirm", "established"):
                for _k in range(6):
                    c = S.Conv(sid, direction=direction, tag="fault.%s.%s" % (state, direction))
                    if state in ("openConfirm", "established"):
                        c.send(S.frame(S.OPEN, S.open_body()))
                    ups = []
                    if state == "established":
                        c.send(S.frame(S.KEEPALIVE))
                        for g in good_msgs(rng, rng.randint(0, 3)):
                            if g[18] != S.OPEN:
                                c.send(g, chunk_plan(rng, len(g)) or None)
                                if g[18] == S.UPDATE:
                                    ups.append(g[19:])
                    f, kind = fault(rng)
                    c.meta = {"kind": kind, "ftype": f[18], "updates_before": ups}
                    c.judge = judge
                    c.tag += "." + kind
                    c.send(f + S.frame(S.UPDATE, b"\x00\x00\x00\x00"), chunk_plan(rng, len(f)) or None)
                    out.append(c)
                    sid += 1
    return out


def judge(c, e, o, r):
    kind, ftype = c.meta["kind"], c.meta["ftype"]
    want = {"marker": bytes([1, 1]), "length": bytes([1, 2]), "type": bytes([1, 3, ftype])}[kind]
    sent = [m for m in o["wire"][1:] if m[0] == 3]
    if not sent or sent[0][1] != want:
        return "header fault (%s) must yield NOTIFICATION %s, observed %s" % (kind, want.hex(), [x[1].hex() for x in sent])
    if not o["closed"]:
        return "connection not closed after header fault"
    got = [x[1] for x in o["cbs"] if x[0] == "Handler"]
    if got != c.meta["updates_before"]:
        return "well-formed UPDATEs before the fault: %d sent, handler saw %d (or something after the fault was interpreted)" % (len(c.meta["updates_before"]), len(got))
    return None


class NotifAfterNotif:
    """two consecutive sessions of one peer (the outbound FSM object is reused), each ended by a NOTIFICATION that corebgp
    sends: the first a Cease from the plugin's handler (no hold-down follows) carrying `d1` as data, the second the answer to a
    header fault.  On each connection exactly one NOTIFICATION arrives, with exactly the code, subcode and data it was built
    with, and nothing else"""
    no_model = True

    def __init__(self, sid, direction, d1, fault_kind):
        self.sid, self.direction, self.d1, self.kind = sid, direction, d1, fault_kind
        self.tag = "notification-after-notification.%s.%s.data%d" % (direction, fault_kind, len(d1))
        self.remote_id = 0x0A000002

    def fault(self):
        if self.kind == "length":
            return S.frame(S.KEEPALIVE, b"", length=18), bytes([1, 2])      # corebgp builds Bad Message Length without data
        if self.kind == "type":
            return S.frame(9), bytes([1, 3, 9])
        if self.kind == "marker":
            return S.frame(S.KEEPALIVE, marker=b"\xff" * 15 + b"\x00"), bytes([1, 1])
        return S.frame(S.OPEN, S.open_body(ver=3)), bytes([2, 1, 0, 4])            # in OpenSent

    def scenario(self):
        op, ka, upd = S.frame(S.OPEN, S.open_body()).hex(), S.frame(S.KEEPALIVE).hex(), S.frame(S.UPDATE, bytes(4)).hex()
        f, _ = self.fault()
        st = []
        c = "c1"
        st += [["dial", c]] if self.direction == "in" else [["accept", c, 2500]]
        st += [["recv", c, 1, 1500], ["send", c, op, 0], ["send", c, ka, 0], ["recv", c, 2, 1500], ["sleep", 20],
               ["send", c, upd, 0], ["recv_eof", c, 1500], ["sleep", 30]]
        c = "c2"
        st += [["dial", c]] if self.direction == "in" else [["accept", c, 2500]]
        st += [["recv", c, 1, 1500]]
        if self.kind != "version":
            st += [["send", c, op, 0], ["send", c, ka, 0], ["recv", c, 2, 1500], ["sleep", 20]]
        st += [["send", c, f.hex(), 0], ["recv_eof", c, 1500], ["sleep", 20]]
        return {"id": self.sid, "local_as": 65001, "remote_as": 65000, "local_id": 0x0A000001, "hold": 90,
                "passive": self.direction == "in", "idle_hold_ms": 60, "connect_retry_ms": 300, "caps": [], "on_open": None,
                "handler": [[6, 4, self.d1.hex()]], "est_writes": [], "steps": st}

    def model_case(self):
        return None

    def check(self, r):
        bad = []
        want = {"c1": bytes([6, 4]) + self.d1, "c2": self.fault()[1]}
        for name in ("c1", "c2"):
            c = next((x for x in r["conns"] if x["name"] == name), None)
            if c is None:
                bad.append("connection %s was never made" % name)
                break
            ns = [m["b"] for m in (c["msgs"] or []) if m["t"] == 3]
            if c.get("garbage"):
                bad.append("%s: octets that are not a whole BGP message arrived from corebgp: %s" % (name, c["garbage"][:80]))
            elif ns != [want[name].hex()]:
                bad.append("%s: corebgp must send exactly one NOTIFICATION %s with the code, subcode and data it was built with; observed %s"
                           % (name, want[name].hex(), [x[:80] for x in ns]))
        return bad


def notif_items(tier):
    out = []
    sid = 900
    for direction in ("out", "in"):
        for kind in ("length", "type", "marker", "version"):
            for d1 in (b"", b"\xaa", bytes(range(40))):
                out.append(NotifAfterNotif(sid, direction, d1, kind))
                sid += 1
    return out


def sys_part(tier, rng, rep, replay):
    cov = sysrun.run_convs(PID, convs(rng, tier), rep)
    covn = sysrun.run_convs(PID, notif_items(tier), rep, extra_check=lambda c, e, o, r: c.check(r), par=12)
    cov["rule"] = ("live sessions with header faults at each state || two consecutive sessions of one peer each ended by a NOTIFICATION "
                   "corebgp sends (handler Cease with 0/1/40 data octets, then a header or version fault): exactly that NOTIFICATION "
                   "and nothing else on each connection")
    cov["notification_after_notification_scenarios"] = covn.get("evaluations", 0)
    cov["evaluations"] = cov.get("evaluations", 0) + covn.get("evaluations", 0)
    return cov


def main(tier, seed, replay=None):
    import sys
    return engine.run_property(sys.modules[__name__], tier, seed, replay)
