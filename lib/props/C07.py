"""C07 — connection collision is resolved per RFC 4271 6.8, in every arrival order."""
import engine
import sysprop as S
import sysrun

PID = "C07"
RULE = ("two live connections per scenario (corebgp dials the remote's listener; the remote dials in): local identifier <, =, > "
        "remote identifier incl. identifiers more than 2^31 apart, AS <, > for equal identifiers; which connection reaches "
        "OpenConfirm second (out-first / in-first); the three-way select forced to each branch with the schedule point "
        "collide.select (other connection's KEEPALIVE, FIN, or nothing arriving while the manager is held there); one connection "
        "Established before the other's OPEN exchange. Judged on which TCP connection sees Cease+EOF and which stays and "
        "becomes Established; every peer-manager history is replayed through the model's handle with the dominant bit computed "
        "from the identifiers by the specification. distinct = distinct (ids, order, forced branch).")
ASSUMPTIONS = ["the remote's OPEN carries the identifier used for the expectation"]
COQ_FILES = ["Model/Peer.v", "Proofs/PeerProofs.v", "Proofs/PeerCorollaries.v", "Props/C07.v"]
KA = S.frame(S.KEEPALIVE).hex()


class Coll:
    no_model = True

    def __init__(self, sid, lid, rid, las, ras, order, force=None):
        self.sid, self.lid, self.remote_id, self.las, self.ras, self.order, self.force = sid, lid, rid, las, ras, order, force
        self.dominant = S.dominant_of(lid, rid, las, ras)
        self.tag = "collision.%s.%s.%s" % ("dominant" if self.dominant else "nondominant", order, force or "free")
        self.settle_ms = 40

    def scenario(self):
        op = S.frame(S.OPEN, S.open_body(self.ras, bid=self.remote_id)).hex()
        first, second = ("cO", "cI") if self.order == "out-first" else ("cI", "cO")
        st = [["accept", "cO", 3000], ["recv", "cO", 1, 2000], ["dial", "cI"], ["recv", "cI", 1, 2000]]
        if self.order == "loser-ceased-first":
            # the remote resolves the collision first and sends Cease on the connection that loses; that error has reached the
            # manager (held at run.aftererr) when the winner asks for OpenConfirm and the loser announces it is going down:
            # whichever the manager and its collision select pick first, the winner survives and becomes Established
            win, lose = ("cO", "cI") if self.dominant else ("cI", "cO")
            st = [["accept", "cO", 3000], ["recv", "cO", 1, 2000], ["dial", "cI"], ["recv", "cI", 1, 2000],
                  ["send", lose, op, 0], ["recv", lose, 2, 2000], ["sleep", 30], ["arm", "run.aftererr"],
                  ["send", lose, S.frame(S.NOTIF, S.notif_body(6, 7)).hex(), 0], ["wait_event", "point.hold", 1500, "run.aftererr"],
                  ["send", win, op, 0], ["sleep", 40], ["release", "run.aftererr"], ["sleep", 60],
                  ["send", win, KA, 0], ["sleep", 80]]
        elif self.order == "fresh-inbound":
            # the outbound connection becomes Established while a just-admitted inbound connection's FSM has not made its
            # first transition yet (held at run.start): the inbound one must be closed
            st = [["accept", "cO", 3000], ["recv", "cO", 1, 2000], ["send", "cO", op, 0], ["recv", "cO", 2, 2000], ["sleep", 30],
                  ["arm", "run.start"], ["dial", "cI"], ["wait_event", "point.hold", 1500, "run.start"],
                  ["send", "cO", KA, 0], ["sleep", 60], ["release", "run.start"], ["recv_eof", "cI", 800], ["sleep", 60]]
        elif self.order == "late-inbound":
            # the inbound connection is opened only after the outbound one has completed its OPEN exchange (OpenConfirm)
            st = [["accept", "cO", 3000], ["recv", "cO", 1, 2000], ["send", "cO", op, 0], ["recv", "cO", 2, 2000], ["sleep", 30],
                  ["dial", "cI"], ["recv", "cI", 1, 1500], ["send", "cI", op, 0], ["sleep", 80],
                  ["send", "cO", KA, 0], ["send", "cI", KA, 0], ["sleep", 80]]
        elif self.order == "established-first":
            st += [["send", "cO", op, 0], ["recv", "cO", 2, 2000], ["send", "cO", KA, 0], ["sleep", 40],
                   ["send", "cI", op, 0], ["sleep", 80]]
        else:
            st += [["send", first, op, 0], ["recv", first, 2, 2000], ["sleep", 30]]
            if self.force:
                st += [["arm", "collide.select"]]
            st += [["send", second, op, 0]]
            if self.force:
                st += [["wait_event", "point.hold", 1500, "collide.select"]]
                if self.force == "other-established":
                    st += [["send", first, KA, 0], ["sleep", 40]]
                elif self.force == "other-down":
                    st += [["reset", first], ["sleep", 40]]
                st += [["release", "collide.select"]]
            st += [["sleep", 80], ["send", "cO", KA, 0], ["send", "cI", KA, 0], ["sleep", 80]]
        return {"id": self.sid, "local_as": self.las, "remote_as": self.ras, "local_id": self.lid, "hold": 90, "passive": False,
                "idle_hold_ms": 3000, "connect_retry_ms": 3000, "caps": [], "on_open": None, "handler": [], "est_writes": [],
                "steps": st}

    def model_case(self):
        return None

    def check(self, r):
        conns = {c["name"]: c for c in r["conns"]}
        if "cO" not in conns or "cI" not in conns or conns["cO"].get("refused") or conns["cI"].get("refused"):
            return ["harness: connections not established (%s)" % list(conns)]

        def notifs(c):
            return [m["b"] for m in conns[c]["msgs"] if m["t"] == 3]
        est = sum(1 for cb in r["cbs"] if cb["name"] == "OnEstablished" and cb["ph"] == "enter")
        bad = []
        t_close = min([a["at"] for a in r["api"] if a["name"] == "final-close"] + [10 ** 9])

        def pre(c):
            return [m for m in conns[c]["msgs"] if m["t"] == 3 and m["at"] < t_close - 5]

        def alive(c):
            return not pre(c) and not (conns[c]["eof"] and conns[c]["eof_at"] < t_close - 5)
        survivors = [c for c in ("cO", "cI") if alive(c)]
        if self.order == "loser-ceased-first":
            win = "cO" if self.dominant else "cI"
            bad = []
            if not alive(win):
                bad.append("the connection the rule keeps (%s) was closed although only the other one failed" % win)
            if est != 1:
                bad.append("OnEstablished fired %d times (expected once, on %s)" % (est, win))
            return bad
        if self.order == "fresh-inbound":
            bad = []
            if not conns["cI"]["eof"] or conns["cI"].get("read_err") == "closed-locally":
                bad.append("the inbound connection admitted just before the outbound one became Established was not closed")
            if any(m["t"] == 1 for m in conns["cI"]["msgs"]):
                bad.append("an OPEN was sent on the inbound connection although the outbound one is Established")
            if est != 1 or not alive("cO"):
                bad.append("the Established outbound connection was disturbed (OnEstablished %d times)" % est)
            return bad
        if self.order == "established-first":
            want = "cO"
        elif self.force == "other-established":
            want = None      # either the rule's winner or the one that became Established first
        elif self.force == "other-down":
            want = "cI" if self.order == "out-first" else "cO"
        else:
            want = "cO" if self.dominant else "cI"
        if len(survivors) != 1:
            bad.append("exactly one connection must survive, survivors: %s" % survivors)
            return bad
        winner = survivors[0]
        loser = "cI" if winner == "cO" else "cO"
        if want and winner != want:
            bad.append("connection %s survived, the rule keeps %s (local %s dominant, order %s)" % (winner, want, "is" if self.dominant else "is not", self.order))
        if est != 1:
            bad.append("OnEstablished fired %d times (expected exactly once, on %s)" % (est, winner))
        if self.force != "other-down":
            l = pre(loser)
            if not l or not l[0]["b"].startswith("06"):
                bad.append("losing connection %s did not receive a Cease NOTIFICATION before close: %s" % (loser, [m["b"] for m in l]))
            if not conns[loser]["eof"]:
                bad.append("losing connection %s was not closed" % loser)
        return bad


def items(rng, tier):
    out = []
    sid = 0
    idcfg = [(0x0A000001, 0x0A000002, 65001, 65000), (0x0A000002, 0x0A000001, 65001, 65000),
             (0x0A000001, 0xC0000201, 65001, 65000), (0xC0000201, 0x0A000001, 65001, 65000),
             (0x0A000001, 0x0A000001, 65001, 65000), (0x0A000001, 0x0A000001, 65000, 65001)]
    reps = 1 if tier == "quick" else 4
    for _ in range(reps):
        for (lid, rid, las, ras) in idcfg:
            for order in ("out-first", "in-first", "late-inbound"):
                out.append(Coll(sid, lid, rid, las, ras, order))
                sid += 1
        for (lid, rid, las, ras) in idcfg[:2]:
            out.append(Coll(sid, lid, rid, las, ras, "established-first"))
            sid += 1
            # the three-way select is only reached when the requester's connection is the dominant speaker's
            order = "in-first" if S.dominant_of(lid, rid, las, ras) else "out-first"
            for force in ("other-established", "other-down"):
                # the select's choice between the ready branches is random: each forcing is repeated
                for _ in range(4):
                    out.append(Coll(sid, lid, rid, las, ras, order, force))
                    sid += 1
            c = Coll(sid, lid, rid, las, ras, "fresh-inbound")
            c.force = "run.start"
            out.append(c)
            sid += 1
            for _ in range(48):     # two random choices decide which branch is taken (a few per cent per trial): repeated
                c = Coll(sid, lid, rid, las, ras, "loser-ceased-first")
                c.force = "run.aftererr"
                out.append(c)
                sid += 1
    return out


def sys_part(tier, rng, rep, replay):
    its = items(rng, tier)
    free = [c for c in its if not c.force]
    forced = [c for c in its if c.force]
    cov = sysrun.run_convs(PID, free, rep, extra_check=lambda c, e, o, r: c.check(r), par=8)
    # schedule points are process-wide: scenarios that arm one run alone
    cov2 = sysrun.run_convs(PID, forced, rep, extra_check=lambda c, e, o, r: c.check(r), par=1, confirm=8, procs=6)
    for k in ("evaluations", "distinct_nontrivial", "traces_validated_against_impl", "manager_histories_replayed",
              "manager_replay_divergences", "monitor_violations"):
        cov[k] = cov.get(k, 0) + cov2.get(k, 0)
    cov["scenario_streams"].update(cov2["scenario_streams"])
    cov["rule"] = RULE
    return cov


def main(tier, seed, replay=None):
    import sys
    return engine.run_property(sys.modules[__name__], tier, seed, replay)
