"""C17 — UpdateDecoder reports errors with the RFC 7606 approach they require."""
import struct

import fnprop
import gen
from common import Case

PID = "C17"
OPNAMES = {27: "update_decode", 28: "unfe"}
ORACLES = {27: [129, 130], 28: 128}
RULE = ("UPDATE bodies as in C16 (grammar, faults, mutations) x callback scripts: nil everywhere, or an error of each "
        "class (Notification, treat-as-withdraw with/without fallback, attribute-discard, foreign UpdateError, plain "
        "error, errors.Join / %w trees of those) at each callback position; error trees for UpdateNotificationFromErr "
        "generated to depth 3. distinct = distinct (body, script) / trees.")
ASSUMPTIONS = ["foreign UpdateError values return a non-nil Notification from AsSessionReset",
               "typed-nil errors inside trees are outside the model"]
COQ_FILES = ["Model/Update.v", "Model/Errors.v", "Spec/UpdateSpec.v", "Proofs/UpdateProofs.v", "Proofs/UpdateErrProofs.v", "Proofs/ErrorProofs.v", "Props/C17.v"]

LEAVES = [[1, 3, 1, 0], [1, 6, 2, 0], [2, 9, [0]], [2, 8, [1, 3, 5, 2, 8, 0]], [3, 7, [0]], [3, 6, [1, 3, 5, 0]], [4, 3, 9, 0], [5]]


def flat(x):
    out = []
    for e in x:
        if isinstance(e, list):
            out += flat(e)
        else:
            out.append(e)
    return out


def cases(rng, tier):
    cs = []
    # directed: a fixed good UPDATE with every leaf class at every callback position
    good = (struct.pack(">H", 4) + bytes([24, 10, 0, 0]) +
            struct.pack(">H", 3 * 4 + 1) + bytes([0x40, 1, 1, 0]) + bytes([0x40, 2, 0]) + bytes([0x40, 3, 4, 1, 1, 1, 1]) +
            bytes([8, 10]))
    for pos in range(0, 6):
        for leaf in LEAVES:
            for wrap in (0, 1, 2):
                t = flat(leaf)
                if wrap == 1:
                    t = [7] + t
                elif wrap == 2:
                    t = [6, 2, 5] + t
                script = [0] * pos + [len(t)] + t
                cs.append(Case(27, script, [good], "directed.class-at-position"))
    n = 4000 if tier == "quick" else 60000
    for _ in range(n):
        b, tag = gen.r_update_body(rng)
        if rng.random() < 0.15:
            b = gen.mutate(rng, b)
            tag = "upd.mutated"
        sc = gen.r_script(rng, p_err=rng.choice([0, 0.1, 0.3])) if rng.random() < 0.6 else []
        cs.append(Case(27, sc, [b], tag + (".scripted" if any(sc) else ".nil")))
    m = 3000 if tier == "quick" else 40000
    cs.append(Case(28, [], [], "unfe.nil"))
    for _ in range(m):
        cs.append(Case(28, gen.r_err_tree(rng), [], "unfe.tree"))
    return cs


def main(tier, seed, replay=None):
    import sys
    return fnprop.run(sys.modules[__name__], tier, seed, replay)
