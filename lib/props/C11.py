"""C11 — reconnection liveness and retry pacing after non-damping faults."""
import engine
import gen
import sysprop as S
import sysrun

PID = "C11"
RULE = ("active and passive peers with idle-hold 200-400 ms and connect-retry 300-600 ms against a remote that, in sequence, "
        "refuses connections (k times), accepts then closes/resets at OpenSent/OpenConfirm/Established, sends Cease at a state, "
        "or stalls the connect (listener with a full accept queue) and finally behaves well. Checked on DialerControl and wire "
        "timestamps: successive attempts while refused are spaced by the idle-hold time (never back-to-back), a stalled connect "
        "is abandoned and retried after connect-retry, Established within idle-hold + connect-retry + slack once the remote "
        "behaves, an ended inbound session is followed by an immediate outbound attempt and a new inbound connection is "
        "accepted, a passive peer never dials; every manager history is replayed through the model. distinct = fault sequences.")
ASSUMPTIONS = ["wall-clock slack 250 ms", "liveness assumes fair select and a network that delivers"]
COQ_FILES = ["Model/Peer.v", "Proofs/PeerProofs.v", "Proofs/PeerCorollaries.v", "Model/Dial.v", "Proofs/DialProofs.v", "Props/C11.v"]
OPENM = S.frame(S.OPEN, S.open_body()).hex()
KAM = S.frame(S.KEEPALIVE).hex()
SLACK = 250


class Retry:
    no_model = True

    def __init__(self, sid, tag, steps, idle, retry, passive=False, expect=None, **kw):
        self.sid, self.tag, self.steps, self.idle, self.retry, self.passive, self.expect = sid, tag, steps, idle, retry, passive, expect or {}
        self.remote_id = 0x0A000002
        self.kw = kw

    def scenario(self):
        return dict({"id": self.sid, "local_as": 65001, "remote_as": 65000, "local_id": 0x0A000001, "hold": 90, "passive": self.passive,
                     "idle_hold_ms": self.idle, "connect_retry_ms": self.retry, "caps": [], "on_open": None, "handler": [],
                     "est_writes": [], "steps": self.steps}, **self.kw)

    def model_case(self):
        return None

    def check(self, r):
        bad = []
        dials = r["dials"] or []
        ex = self.expect
        if self.passive:
            if dials:
                bad.append("a passive peer dialled %d time(s)" % len(dials))
        if "refused_window" in ex:
            lo, hi = ex["refused_window"]
            ds = [d for d in dials if lo <= d <= hi]
            gaps = [b - a for a, b in zip(ds, ds[1:])]
            if len(ds) < 2:
                bad.append("fewer than two outbound attempts while refused (%d) in %d ms" % (len(ds), hi - lo))
            for g in gaps:
                if g < self.idle - 30:
                    bad.append("outbound attempts %d ms apart while refused (idle-hold %d ms): busy redialling" % (g, self.idle))
                    break
                if g > self.idle + SLACK:
                    bad.append("outbound attempts %d ms apart while refused (idle-hold %d ms): too slow" % (g, self.idle))
                    break
        if "established_by" in ex:
            t0, limit = ex["established_by"]
            est = [cb["at"] for cb in r["cbs"] if cb["name"] == "OnEstablished" and cb["ph"] == "enter" and cb["at"] >= t0]
            if not est:
                bad.append("no Established session after the remote started behaving")
            elif est[0] - t0 > limit:
                bad.append("Established %d ms after the remote started behaving (limit %d)" % (est[0] - t0, limit))
        if "stall_window" in ex:
            lo, hi = ex["stall_window"]
            ds = [d for d in dials if lo <= d <= hi]
            gaps = [b - a for a, b in zip(ds, ds[1:])]
            if len(ds) < 2:
                bad.append("a stalled connect was not abandoned and retried (attempts: %d)" % len(ds))
            for g in gaps:
                if g < self.retry - 40 or g > self.retry + SLACK:
                    bad.append("stalled connect retried after %d ms (connect-retry %d ms)" % (g, self.retry))
                    break
        if "attempts_after_first" in ex:
            window, want = ex["attempts_after_first"]
            t1 = dials[0] if dials else 0
            later = [d for d in dials[1:] if d <= t1 + window + 150]
            if len(later) < want:
                bad.append("after the connection was closed in OpenSent, %d outbound attempt(s) in %d ms of stalled connects "
                           "(connect-retry %d ms: at least %d expected)" % (len(later), window, self.retry, want))
        if ex.get("established_twice"):
            est = [cb["at"] for cb in r["cbs"] if cb["name"] == "OnEstablished" and cb["ph"] == "enter"]
            if len(est) < 2:
                bad.append("after the inbound session ended the remote accepted the outbound connection and completed the "
                           "handshake, but no session was established over it (%d OnEstablished)" % len(est))
        if ex.get("dial_after_inbound_end"):
            t_end = max([c["eof_at"] for c in r["conns"] if c["name"] == "i1" and c["eof"]] + [0])
            after = [d for d in dials if d >= t_end - 5]
            if not after or after[0] - t_end > SLACK:
                bad.append("no outbound attempt right after the inbound session ended (%s)" % (after[:1],))
        return bad


def handshake(c):
    return [["recv", c, 1, 1500], ["send", c, OPENM, 0], ["send", c, KAM, 0], ["recv", c, 2, 1500]]


def items(rng, tier):
    out = []
    sid = 0
    for (idle, retry) in ([(300, 500)] if tier == "quick" else [(200, 300), (300, 500), (400, 600)]):
        # refused k times, then a well-behaved remote
        for k in (3, 5):
            win = k * idle + 100
            out.append(Retry(sid, "refused-%d-then-good" % k,
                             [["sleep", win], ["refuse", False], ["drain"], ["accept", "c1", idle + retry + 800]] + handshake("c1") + [["sleep", 30]],
                             idle, retry, expect={"refused_window": (0, win), "established_by": (win, idle + retry + SLACK)}, start_refused=True))
            sid += 1
        # faults at each state, then good
        for state, pre in (("openSent", []), ("openConfirm", [OPENM]), ("established", [OPENM, KAM])):
            for how in ("fin", "rst", "cease"):
                st = [["accept", "c1", 1500], ["recv", "c1", 1, 1500]] + [["send", "c1", m, 0] for m in pre] + [["sleep", 15]]
                if how == "fin":
                    st += [["close", "c1"], ["recv_eof", "c1", 800], ["fullclose", "c1"]]
                elif how == "rst":
                    st += [["reset", "c1"]]
                else:
                    st += [["send", "c1", S.frame(S.NOTIF, S.notif_body(6, 4)).hex(), 0], ["recv_eof", "c1", 800]]
                t_fault = 60 if how != "rst" else 60
                st += [["sleep", 20], ["accept", "c2", idle + retry + 800]] + handshake("c2") + [["sleep", 30]]
                out.append(Retry(sid, "%s-at-%s-then-good" % (how, state), st, idle, retry,
                                 expect={"established_by": (0, 200 + 2 * (idle + retry) + SLACK)}))
                sid += 1
        # stalled connects (full accept queue), then good
        out.append(Retry(sid, "stalled-connect-then-good",
                         [["sleep", 3 * retry + 150], ["stall", False], ["accept", "c1", idle + 2 * retry + 1200]] + handshake("c1") + [["sleep", 30]],
                         idle, retry, expect={"stall_window": (0, 3 * retry + 100), "established_by": (3 * retry + 150, idle + 2 * retry + 2 * SLACK)},
                         start_stalled=True))
        sid += 1
        # the connection is closed in OpenSent (Active), and the attempts that follow stall: each is abandoned after
        # connect-retry and a new one made
        out.append(Retry(sid, "closed-in-opensent-then-stalled",
                         [["accept", "c1", 1500], ["recv", "c1", 1, 1500], ["stall", True], ["close", "c1"], ["recv_eof", "c1", 800],
                          ["fullclose", "c1"], ["sleep", 4 * retry + 200], ["stall", False], ["drain"],
                          ["accept", "c2", idle + 2 * retry + 1200]] + handshake("c2") + [["sleep", 30]],
                         idle, retry, expect={"attempts_after_first": (4 * retry + 200, 3)}))
        sid += 1
        # inbound session ends: dial at once, new inbound accepted
        out.append(Retry(sid, "inbound-ends-then-redial",
                         [["sleep", 30], ["dial", "i1"]] + handshake("i1") + [["sleep", 30], ["close", "i1"], ["recv_eof", "i1", 800],
                          ["fullclose", "i1"], ["sleep", 120], ["dial", "i2"]] + handshake("i2") + [["sleep", 30]],
                         idle, retry, expect={"dial_after_inbound_end": True}, start_refused=True))
        sid += 1
        # ... and once the remote accepts the outbound connection the session is established over it
        for how in ("fin", "cease"):
            end = ([["close", "i1"], ["recv_eof", "i1", 800], ["fullclose", "i1"]] if how == "fin" else
                   [["send", "i1", S.frame(S.NOTIF, S.notif_body(6, 4)).hex(), 0], ["recv_eof", "i1", 800]])
            out.append(Retry(sid, "inbound-%s-then-outbound-establishes" % how,
                             [["sleep", 30], ["dial", "i1"]] + handshake("i1") + [["sleep", 30]] + end +
                             [["refuse", False], ["drain"], ["accept", "c2", idle + retry + 800]] + handshake("c2") + [["sleep", 30]],
                             idle, retry, expect={"established_twice": True}, start_refused=True))
            sid += 1
        # passive peers: faults, never a dial; a failed inbound attempt must not block the next one
        for how in ("fin-in-openSent", "rst-in-openConfirm", "cease-in-established"):
            st = [["dial", "i1"], ["recv", "i1", 1, 1500]]
            if "openConfirm" in how or "established" in how:
                st += [["send", "i1", OPENM, 0]]
            if "established" in how:
                st += [["send", "i1", KAM, 0]]
            st += [["sleep", 15]]
            st += {"fin": [["close", "i1"], ["recv_eof", "i1", 800], ["fullclose", "i1"]], "rst": [["reset", "i1"]],
                   "cea": [["send", "i1", S.frame(S.NOTIF, S.notif_body(6, 2)).hex(), 0], ["recv_eof", "i1", 800]]}[how[:3]]
            st += [["sleep", retry + 250], ["dial", "i2"]] + handshake("i2") + [["sleep", 30]]
            out.append(Retry(sid, "passive." + how, st, idle, retry, passive=True, expect={"established_by": (0, 3000)}))
            sid += 1
    return out


def sys_part(tier, rng, rep, replay):
    cov = sysrun.run_convs(PID, items(rng, tier), rep, extra_check=lambda c, e, o, r: c.check(r), par=32)
    cov["rule"] = RULE
    return cov


def main(tier, seed, replay=None):
    import sys
    return engine.run_property(sys.modules[__name__], tier, seed, replay)
