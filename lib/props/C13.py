"""C13 — only connections from configured peers to the configured address are served
(function-level half: the admission decision of handleInboundConn)."""
import fnprop
from common import Case

PID = "C13"
OPNAMES = {41: "admit"}
ORACLES = {41: 141}
RULE = ("sets of 0..4 configured peers (IPv4/IPv6 remote, with/without local address) x (source, destination) pairs drawn "
        "from configured and unconfigured addresses x parsable/unparsable local address string; the real "
        "handleInboundConn runs on a fake net.Conn that records Close and Write; refused connections must see exactly one "
        "Close and no Write, admitted ones neither. distinct = distinct (peers, src, dst).")
ASSUMPTIONS = ["address string forms (net.Addr.String vs netip.Addr.String) are a trusted abstraction",
               "peer-side refusals (busy, held down, stopping) are decided by the system-level part"]
COQ_FILES = ["Model/Server.v", "Spec/ServerSpec.v", "Proofs/ServerProofs.v", "Props/C13.v"]


def cases(rng, tier):
    cs = []
    n = 400 if tier == "quick" else 8000
    for _ in range(n):
        k = rng.randint(0, 4)
        pool = [(1, i) for i in range(2, 8)] + [(2, i) for i in range(1, 4)]
        peers = rng.sample(pool, k)
        ints = [k]
        locs = []
        for (kr, ir) in peers:
            if rng.random() < 0.5:
                kl, il = kr, rng.randint(1, 3)
            else:
                kl, il = 0, 0
            locs.append((kl, il))
            ints += [kr, ir, kl, il]
        if peers and rng.random() < 0.7:
            j = rng.randrange(k)
            src = peers[j]
            if locs[j][0] and rng.random() < 0.6:
                dst = locs[j]
            else:
                dst = (src[0], rng.randint(1, 3))
        else:
            src = rng.choice(pool)
            dst = (src[0], rng.randint(1, 3))
        ints += [src[0], src[1], dst[0], dst[1], 0 if rng.random() < 0.08 else 1]
        cs.append(Case(41, ints, [], "admit.random"))
    return cs


def main(tier, seed, replay=None):
    import sys
    return fnprop.run(sys.modules[__name__], tier, seed, replay)
