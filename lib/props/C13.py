"""C13 — only connections from configured peers to the configured address are served
(function-level half: the admission decision of handleInboundConn)."""
import fnprop
from common import Case

PID = "C13"
OPNAMES = {41: "admit"}
ORACLES = {41: 141}
RULE = ("sets of 0..4 configured peers (IPv4/IPv6 remote, with/without local address) x (source, destination) pairs drawn "
        "from configured and unconfigured addresses x parsable/unparsable local address string; the real "
        "handleInboundConn runs on a fake net.Conn that records Close and Write; refused connections must see exactly one "
        "Close and no Write, admitted ones neither. distinct = distinct (peers, src, dst).")
ASSUMPTIONS = ["address string forms (net.Addr.String vs netip.Addr.String) are a trusted abstraction",
               "peer-side refusals (busy, held down, stopping) are decided by the system-level part"]
COQ_FILES = ["Model/Server.v", "Spec/ServerSpec.v", "Proofs/ServerProofs.v", "Props/C13.v"]


def cases(rng, tier):
    cs = []
    n = 400 if tier == "quick" else 8000
    for _ in range(n):
        k = rng.randint(0, 4)
        pool = [(1, i) for i in range(2, 8)] + [(2, i) for i in range(1, 4)]
        peers = rng.sample(pool, k)
        ints = [k]
        locs = []
        for (kr, ir) in peers:
            if rng.random() < 0.5:
                kl, il = kr, rng.randint(1, 3)
            else:
                kl, il = 0, 0
            locs.append((kl, il))
            ints += [kr, ir, kl, il]
        if peers and rng.random() < 0.7:
            j = rng.randrange(k)
            src = peers[j]
            if locs[j][0] and rng.random() < 0.6:
                dst = locs[j]
            else:
                dst = (src[0], rng.randint(1, 3))
        else:
            src = rng.choice(pool)
            dst = (src[0], rng.randint(1, 3))
        ints += [src[0], src[1], dst[0], dst[1], 0 if rng.random() < 0.08 else 1]
        cs.append(Case(41, ints, [], "admit.random"))
    return cs


# ---------------------------------------------------------------- system level
import engine
import sysprop as S
import sysrun

OPENM = S.frame(S.OPEN, S.open_body()).hex()
KAM = S.frame(S.KEEPALIVE).hex()
UPD = S.frame(S.UPDATE, bytes(4)).hex()


class Admit:
    no_model = True

    def __init__(self, sid, tag, steps, silent, served=(), alive=None, **kw):
        self.sid, self.tag, self.steps, self.silent, self.served, self.alive, self.kw = sid, tag, steps, silent, served, alive, kw
        self.remote_id = 0x0A000002

    def scenario(self):
        sc = {"id": self.sid, "local_as": 65001, "remote_as": 65000, "local_id": 0x0A000001, "hold": 90, "passive": True,
              "idle_hold_ms": 3000, "connect_retry_ms": 3000, "caps": [], "on_open": None, "handler": [], "est_writes": [],
              "steps": self.steps}
        sc.update(self.kw)
        return sc

    def model_case(self):
        return None

    def check(self, r):
        bad = []
        conns = {c["name"]: c for c in r["conns"]}
        t_close = min([a["at"] for a in r["api"] if a["name"] == "final-close"] + [10 ** 9])
        for name in self.silent:
            c = conns.get(name)
            if c is None or c.get("refused"):
                continue        # refused at TCP level is silent too
            if c["nbytes"] or (c["msgs"] or []):
                bad.append("connection %s must be closed without a single byte, received %d bytes" % (name, c["nbytes"]))
            if not c["eof"] or c.get("read_err") == "closed-locally":
                bad.append("connection %s (to be refused) was not closed by corebgp" % name)
        for name in self.served:
            c = conns.get(name)
            if c is None or not any(m["t"] == 1 for m in (c["msgs"] or [])):
                bad.append("connection %s from the configured peer was not served (no OPEN)" % name)
        if self.alive:
            c = conns[self.alive]
            if (c["eof"] and c["eof_at"] < t_close - 5) or any(m["t"] == 3 and m["at"] < t_close - 5 for m in c["msgs"] or []):
                bad.append("existing session on %s was disturbed by a refused connection" % self.alive)
            ups = [cb for cb in r["cbs"] if cb["name"] == "Handler" and cb["ph"] == "enter"]
            if len(ups) != 1:
                bad.append("existing session on %s: UPDATE after the refused connection not delivered (%d handler calls)" % (self.alive, len(ups)))
        n_open_cb = sum(1 for cb in r["cbs"] if cb["name"] == "GetCapabilities" and cb["ph"] == "enter")
        n_served = sum(1 for c in r["conns"] if any(m["t"] == 1 for m in (c["msgs"] or [])))
        if n_open_cb != n_served:
            bad.append("plugin GetCapabilities called %d times for %d served connections" % (n_open_cb, n_served))
        return bad


def admit_items(rng, tier):
    out = []
    sid = 0
    hs = [["recv", "c1", 1, 1000], ["send", "c1", OPENM, 0], ["send", "c1", KAM, 0], ["recv", "c1", 2, 1000], ["sleep", 20]]
    tail = [["send", "c1", UPD, 0], ["sleep", 40]]
    # unconfigured sources, with an established session that must stay untouched
    for src in ("127.9.9.9", "127.200.1.1"):
        out.append(Admit(sid, "unconfigured-source", [["dial", "c1"]] + hs + [["dial_to", "x1", "127.0.0.1", src], ["recv_eof", "x1", 500]] + tail,
                         silent=["x1"], served=["c1"], alive="c1"))
        sid += 1
    # wrong destination for a peer with a configured local address (wildcard listener)
    out.append(Admit(sid, "wrong-destination", [["dial_to", "x1", "127.0.0.5", ""], ["recv_eof", "x1", 500], ["dial", "c1"]] + hs + tail,
                     silent=["x1"], served=["c1"], alive="c1", wildcard=True, local_addr=True))
    sid += 1
    out.append(Admit(sid, "right-destination", [["dial_to", "c1", "127.0.0.1", ""]] + hs + tail,
                     silent=[], served=["c1"], alive="c1", wildcard=True, local_addr=True))
    sid += 1
    # busy: a second inbound connection while one is in progress / Established
    out.append(Admit(sid, "busy.inbound-in-progress", [["dial", "c1"], ["recv", "c1", 1, 1000], ["dial", "x1"], ["recv_eof", "x1", 500]] + hs[1:] + tail,
                     silent=["x1"], served=["c1"], alive="c1"))
    sid += 1
    # two connections from the peer back to back (the second arrives before the manager has answered the first FSM)
    # (the window is a few microseconds wide and the manager's select is random: repeated)
    for _ in range(3 if tier == "quick" else 50):
        out.append(Admit(sid, "busy.back-to-back", [["dial", "c1"], ["dial", "x1"], ["recv_eof", "x1", 600]] + hs + tail,
                         silent=["x1"], served=["c1"], alive="c1"))
        sid += 1
    out.append(Admit(sid, "busy.established", [["dial", "c1"]] + hs + [["dial", "x1"], ["recv_eof", "x1", 500], ["dial", "x2"], ["recv_eof", "x2", 500]] + tail,
                     silent=["x1", "x2"], served=["c1"], alive="c1"))
    sid += 1
    # an active peer whose outbound connection is Established: an inbound connection from it is refused silently
    out.append(Admit(sid, "busy.outbound-established",
                     [["accept", "c1", 2500]] + hs + [["dial", "x1"], ["recv_eof", "x1", 500], ["dial", "x2"], ["recv_eof", "x2", 500]] + tail,
                     silent=["x1", "x2"], served=["c1"], alive="c1", passive=False, idle_hold_ms=50))
    sid += 1
    # two listeners: the rules hold on each of them
    cease = S.frame(S.NOTIF, S.notif_body(6, 2)).hex()
    hs2 = [["recv", "c2", 1, 1000], ["send", "c2", OPENM, 0], ["send", "c2", KAM, 0], ["recv", "c2", 2, 1000], ["sleep", 20]]
    for first in (1, 2):
        second = 3 - first
        out.append(Admit(sid, "two-listeners.%d-then-%d" % (first, second),
                         [["dial_to", "x1", "127.0.0.1", "127.9.9.9", first], ["recv_eof", "x1", 500],
                          ["dial_to", "x2", "127.0.0.1", "127.9.9.9", second], ["recv_eof", "x2", 500],
                          ["dial", "c1", first]] + hs + [["send", "c1", cease, 0], ["recv_eof", "c1", 800], ["sleep", 30],
                          ["dial", "c2", second]] + hs2,
                         silent=["x1", "x2"], served=["c1", "c2"], two_listeners=True))
        sid += 1
    # held down after a protocol error at each state
    for state, pre in (("openSent", []), ("openConfirm", [["send", "c1", OPENM, 0]]), ("established", [["send", "c1", OPENM, 0], ["send", "c1", KAM, 0]])):
        for bad in (S.frame(9).hex(), S.frame(2, b"", length=5).hex(), S.frame(S.NOTIF, S.notif_body(2, 2)).hex(),
                    S.frame(S.NOTIF, S.notif_body(7, 1)).hex(), S.frame(S.NOTIF, S.notif_body(200, 0)).hex()):
            out.append(Admit(sid, "held-down." + state,
                             [["dial", "c1"], ["recv", "c1", 1, 1000]] + pre + [["sleep", 10], ["send", "c1", bad, 0], ["recv_eof", "c1", 1000],
                              ["sleep", 60], ["dial", "x1"], ["recv_eof", "x1", 500], ["sleep", 200], ["dial", "x2"], ["recv_eof", "x2", 500]],
                             silent=["x1", "x2"], served=["c1"]))
            sid += 1
    return out


def forced_items():
    """the second connection reaches the manager before the first inbound FSM has made its first transition
    (schedule point run.start holds the new FSM): it must still be refused and closed"""
    hs = [["recv", "c1", 1, 1000], ["send", "c1", OPENM, 0], ["send", "c1", KAM, 0], ["recv", "c1", 2, 1000], ["sleep", 20]]
    tail = [["send", "c1", UPD, 0], ["sleep", 40]]
    st = [["arm", "run.start"], ["dial", "c1"], ["wait_event", "point.hold", 1500, "run.start"], ["dial", "x1"], ["sleep", 40],
          ["recv_eof", "x1", 400], ["release", "run.start"]] + hs + tail
    return [Admit(700, "busy.before-first-transition", st, silent=["x1"], served=["c1"], alive="c1")]


def sys_part(tier, rng, rep, replay):
    cov = sysrun.run_convs(PID, admit_items(rng, tier), rep, extra_check=lambda c, e, o, r: c.check(r), par=24)
    covf = sysrun.run_convs(PID, forced_items(), rep, extra_check=lambda c, e, o, r: c.check(r), par=1)
    cov["evaluations"] = cov.get("evaluations", 0) + covf["evaluations"]
    cov["forced_schedules"] = covf["evaluations"]
    cov["rule"] = ("live server: connections from unconfigured loopback sources, to a destination other than the peer's local "
                   "address (wildcard listener), while an inbound connection is in progress, while Established, and while held "
                   "down after a protocol error at each state: each must be closed without a byte or a callback and an existing "
                   "session must keep delivering UPDATEs")
    return cov


def main(tier, seed, replay=None):
    import sys
    return engine.run_property(sys.modules[__name__], tier, seed, replay)
