"""C02 — OPEN handshake: exactly the valid OPENs are accepted, others refused correctly."""
import struct

import fnprop
import gen
from common import Case

PID = "C02"
OPNAMES = {4: "open_handle"}
ORACLES = {4: 104}
RULE = ("seeded generator: OPEN bodies from the grammar (70% well-formed for the configured remote AS; 30% with a "
        "targeted fault: version, AS, AS_TRANS without/with wrong 4-octet-AS capability, hold 1/2, multicast or "
        "colliding identifier, unknown parameter type, lying/truncated length octets, empty parameter list, empty "
        "capabilities parameter, short body), byte-level mutations and raw random bodies of length 0..4077, each "
        "against configurations (local AS =/!= remote AS, AS <=/> 65535, AS 23456, local id = / != sender id). "
        "Non-trivial = all; distinct = distinct (configuration, body).")
ASSUMPTIONS = ["function-level half (decode+validate+getCapabilities); the FSM half is exercised by the connection-level checks"]
COQ_FILES = ["Model/Packet.v", "Spec/OpenSpec.v", "Proofs/OpenProofs2.v", "Proofs/OpenProofs3.v", "Model/Conn.v", "Proofs/ConnProofs.v", "Props/C02.v"]


def cfg(rng):
    ras = rng.choice([65000, 1, 65535, 65536, 23456, 4200000001, gen.r_u32(rng)])
    las = ras if rng.random() < 0.4 else rng.choice([65001, 4200000002, gen.r_u32(rng)])
    lid = rng.choice([0x0A000001, 0x01010101, gen.r_u32(rng)])
    return lid, las, ras


def cases(rng, tier):
    n = 4000 if tier == "quick" else 80000
    cs = []
    # directed
    lid, las, ras = 0x0A000001, 65001, 65000
    as4 = bytes([65, 4]) + struct.pack(">I", ras)

    def body(ver=4, asn=ras, hold=90, bid=0x0A000002, params=bytes([2, 6]) + as4):
        return struct.pack(">BHHIB", ver, asn & 0xFFFF, hold, bid, len(params) & 0xFF) + params
    directed = [body(), body(ver=3), body(ver=5), body(asn=ras + 1), body(asn=23456), body(hold=1), body(hold=2), body(hold=0),
                body(hold=3), body(bid=0xE0000001), body(bid=0xEFFFFFFF), body(bid=0xDFFFFFFF), body(bid=0xF0000000), body(bid=lid),
                body(params=b""), body(params=bytes([2, 0])), body(params=bytes([3, 0])), body(params=bytes([2, 2, 1, 0])),
                body(params=bytes([2, 5, 65, 3, 0, 0, 1])), body(params=bytes([2, 6, 65, 4, 0, 0, 0, 1])),
                body(params=bytes([2, 2, 2, 0, 2, 6]) + as4), body(params=bytes([2, 6]) + as4 + bytes([1, 0])),
                body(params=bytes([2, 7]) + as4), body()[:9], body()[:5], b""]
    for b in directed:
        cs.append(Case(4, [lid, las, ras], [b], "directed"))
        cs.append(Case(4, [lid, ras, ras], [b], "directed.ibgp"))
    for _ in range(n):
        lid, las, ras = cfg(rng)
        b = gen.r_open_body(rng, ras)
        r = rng.random()
        tag = "grammar"
        if r < 0.2:
            b = gen.mutate(rng, b)
            tag = "mutated"
        elif r < 0.25:
            b = gen.rbytes(rng, gen.rlen(rng, 4077))
            tag = "raw"
        elif r < 0.3 and len(b) >= 9:
            b = b[:5] + struct.pack(">I", lid) + b[9:]   # sender id = local id
            tag = "id-collision"
        elif r < 0.6:
            b, f = gen.r_open_single_fault(rng, ras, lid)
            tag = "single-fault." + f
        cs.append(Case(4, [lid, las, ras], [b], tag))
    return cs


# ---------------------------------------------------------------- system level: the FSM half
import engine
import sysprop as S
import sysrun


def judge(c, e, o, r):
    """accepted <=> KEEPALIVE reply, OnOpenMessage once with id and capabilities, Established on the
    remote's KEEPALIVE; otherwise one NOTIFICATION, close, no OnOpenMessage, never Established."""
    exp_accept = c.meta["acceptable"]
    onopen = [x for x in o["cbs"] if x[0] == "OnOpenMessage"]
    est = [x for x in o["cbs"] if x[0] == "OnEstablished"]
    notifs = [m for m in o["wire"][1:] if m[0] == 3 and m[1][:1] != b"\x06"]
    kas = [m for m in o["wire"][1:] if m[0] == 4]
    if exp_accept and c.on_open is None:
        if len(onopen) != 1 or len(est) != 1 or not kas or notifs:
            return "acceptable OPEN: OnOpenMessage x%d, OnEstablished x%d, KEEPALIVEs %d, NOTIFICATIONs %s" % (
                len(onopen), len(est), len(kas), [n[1].hex() for n in notifs])
        if onopen[0][1] != c.meta["id"] or list(onopen[0][2]) != c.meta["caps"]:
            return "OnOpenMessage arguments differ from the OPEN sent: %r vs id %d caps %r" % (onopen[0][1:], c.meta["id"], c.meta["caps"])
        return None
    if exp_accept and c.on_open is not None:
        want = bytes([c.on_open[0], c.on_open[1]]) + bytes(c.on_open[2])
        if len(onopen) != 1 or est or not notifs or notifs[0][1] != want or not o["closed"]:
            return "plugin notification not sent verbatim / session established anyway"
        return None
    if onopen or est:
        return "unacceptable OPEN (%s): OnOpenMessage x%d, OnEstablished x%d" % (c.meta["fault"], len(onopen), len(est))
    if len(notifs) != 1 or not o["closed"]:
        return "unacceptable OPEN (%s): NOTIFICATIONs %s, closed=%s" % (c.meta["fault"], [n[1].hex() for n in notifs], o["closed"])
    return None


def parse_caps(body):
    """capabilities of a well-formed OPEN body, in order"""
    caps = []
    p = body[10:]
    while len(p) >= 2:
        t, ln = p[0], p[1]
        v = p[2:2 + ln]
        p = p[2 + ln:]
        while t == 2 and len(v) >= 2:
            caps.append((v[0], bytes(v[2:2 + v[1]])))
            v = v[2 + v[1]:]
    return caps


def convs(rng, tier):
    out = []
    n = 70 if tier == "quick" else 700
    for sid in range(n):
        direction = rng.choice(["in", "out"])
        lid = rng.choice([0x0A000001, 0x01010101])
        ras = rng.choice([65000, 1, 65535, 65536, 4200000001])
        las = ras if rng.random() < 0.3 else 65001
        body, fault = gen.r_open_single_fault(rng, ras, lid)
        acceptable = fault in ("none", "asn.trans") or (fault == "id.local" and las != ras)
        if fault == "asn.low16" and ras <= 65535:
            acceptable = True
        on_open = None
        if acceptable and rng.random() < 0.2:
            on_open = (rng.choice([2, 6]), rng.randint(0, 9), gen.rbytes(rng, rng.choice([0, 1, 6])))
        c = S.Conv(sid, direction=direction, local_as=las, remote_as=ras, local_id=lid, on_open=on_open,
                   hold=rng.choice([0, 90, 180]), tag="open.%s.%s" % (fault, direction))
        c.send(S.frame(S.OPEN, body)).send(S.frame(S.KEEPALIVE))
        if rng.random() < 0.4:
            # the session goes on with messages that have a body: what OnOpenMessage was handed (kept by the plugin by reference)
            # must still read the same afterwards
            c.send(S.frame(S.UPDATE, bytes([0xEE]) * rng.choice([4, 64, 300])))
            if rng.random() < 0.5:
                c.send(S.frame(S.NOTIF, S.notif_body(6, 2, b"\xDD" * 40)))
        c.meta = {"acceptable": acceptable, "fault": fault, "id": struct.unpack(">I", body[5:9])[0], "caps": parse_caps(body)}
        c.judge = judge
        out.append(c)
    return out


def sys_part(tier, rng, rep, replay):
    cov = sysrun.run_convs(PID, convs(rng, tier), rep)
    cov["rule"] = "live handshakes: single-fault OPENs from the grammar, both directions, plugin notifications"
    return cov


def main(tier, seed, replay=None):
    import sys
    return engine.run_property(sys.modules[__name__], tier, seed, replay)
