"""C02 — OPEN handshake: exactly the valid OPENs are accepted, others refused correctly."""
import struct

import fnprop
import gen
from common import Case

PID = "C02"
OPNAMES = {4: "open_handle"}
ORACLES = {4: 104}
RULE = ("seeded generator: OPEN bodies from the grammar (70% well-formed for the configured remote AS; 30% with a "
        "targeted fault: version, AS, AS_TRANS without/with wrong 4-octet-AS capability, hold 1/2, multicast or "
        "colliding identifier, unknown parameter type, lying/truncated length octets, empty parameter list, empty "
        "capabilities parameter, short body), byte-level mutations and raw random bodies of length 0..4077, each "
        "against configurations (local AS =/!= remote AS, AS <=/> 65535, AS 23456, local id = / != sender id). "
        "Non-trivial = all; distinct = distinct (configuration, body).")
ASSUMPTIONS = ["function-level half (decode+validate+getCapabilities); the FSM half is exercised by the connection-level checks"]
COQ_FILES = ["Model/Packet.v", "Spec/OpenSpec.v", "Proofs/OpenProofs2.v", "Props/C02.v"]


def cfg(rng):
    ras = rng.choice([65000, 1, 65535, 65536, 23456, 4200000001, gen.r_u32(rng)])
    las = ras if rng.random() < 0.4 else rng.choice([65001, 4200000002, gen.r_u32(rng)])
    lid = rng.choice([0x0A000001, 0x01010101, gen.r_u32(rng)])
    return lid, las, ras


def cases(rng, tier):
    n = 4000 if tier == "quick" else 80000
    cs = []
    # directed
    lid, las, ras = 0x0A000001, 65001, 65000
    as4 = bytes([65, 4]) + struct.pack(">I", ras)

    def body(ver=4, asn=ras, hold=90, bid=0x0A000002, params=bytes([2, 6]) + as4):
        return struct.pack(">BHHIB", ver, asn & 0xFFFF, hold, bid, len(params) & 0xFF) + params
    directed = [body(), body(ver=3), body(ver=5), body(asn=ras + 1), body(asn=23456), body(hold=1), body(hold=2), body(hold=0),
                body(hold=3), body(bid=0xE0000001), body(bid=0xEFFFFFFF), body(bid=0xDFFFFFFF), body(bid=0xF0000000), body(bid=lid),
                body(params=b""), body(params=bytes([2, 0])), body(params=bytes([3, 0])), body(params=bytes([2, 2, 1, 0])),
                body(params=bytes([2, 5, 65, 3, 0, 0, 1])), body(params=bytes([2, 6, 65, 4, 0, 0, 0, 1])),
                body(params=bytes([2, 2, 2, 0, 2, 6]) + as4), body(params=bytes([2, 6]) + as4 + bytes([1, 0])),
                body(params=bytes([2, 7]) + as4), body()[:9], body()[:5], b""]
    for b in directed:
        cs.append(Case(4, [lid, las, ras], [b], "directed"))
        cs.append(Case(4, [lid, ras, ras], [b], "directed.ibgp"))
    for _ in range(n):
        lid, las, ras = cfg(rng)
        b = gen.r_open_body(rng, ras)
        r = rng.random()
        tag = "grammar"
        if r < 0.2:
            b = gen.mutate(rng, b)
            tag = "mutated"
        elif r < 0.25:
            b = gen.rbytes(rng, gen.rlen(rng, 4077))
            tag = "raw"
        elif r < 0.3 and len(b) >= 9:
            b = b[:5] + struct.pack(">I", lid) + b[9:]   # sender id = local id
            tag = "id-collision"
        elif r < 0.6:
            b, f = gen.r_open_single_fault(rng, ras, lid)
            tag = "single-fault." + f
        cs.append(Case(4, [lid, las, ras], [b], tag))
    return cs


def main(tier, seed, replay=None):
    import sys
    return fnprop.run(sys.modules[__name__], tier, seed, replay)
