"""C15 — OPEN / NOTIFICATION / capability codecs round-trip and are strict."""
import fnprop
import gen
from common import Case

PID = "C15"
OPNAMES = {12: "open_enc_struct", 1: "notif_enc", 2: "notif_dec", 3: "open_dec", 6: "open_reenc", 8: "addpath_dec", 9: "addpath_enc", 10: "mpcap"}
ORACLES = {12: 112, 1: 101, 2: 102, 3: 103, 6: 106, 8: 108, 9: 109, 10: 110}
RULE = ("seeded generator: NOTIFICATION (code, subcode, data) with data lengths biased to 0..8 and the boundaries "
        "0,1,2,4074,4075; OPEN bodies from a grammar (70% well-formed: 1-3 capability parameters, 1-5 capabilities; "
        "30% with a targeted fault: lying/truncated length octets, wrong parameter type, short body, trailing bytes) "
        "plus byte-level mutations of well-formed bodies and raw random bodies; add-path tuple strings of every "
        "length mod 4 with all 256 direction octets; (AFI,SAFI) pairs. A case is non-trivial if the implementation "
        "returned a result for it (all are); distinct = distinct (op, ints, byte strings).")
ASSUMPTIONS = ["Notification.Data nil and empty are identified", "error message strings are not compared"]
COQ_FILES = ["Model/Packet.v", "Spec/PacketSpec.v", "Proofs/PacketProofs.v", "Props/C15.v"]


def cases(rng, tier):
    n = 1500 if tier == "quick" else 30000
    cs = []
    # NOTIFICATION encode / decode
    for dl in [0, 1, 2, 3, 4074, 4075]:
        cs.append(Case(1, [rng.randint(0, 255), rng.randint(0, 255)], [gen.rbytes(rng, dl)], "notif.boundary"))
    for c in range(1, 8):
        for dl in (0, 1, 2):
            cs.append(Case(1, [c, rng.randint(0, 11)], [gen.rbytes(rng, dl)], "notif.codes"))
    # every defined (code, subcode) point and the first undefined ones, with data shaped like the payloads those points
    # carry (a length-prefixed string whose prefix is smaller than / equal to / larger than what follows, a message type,
    # a length field, an attribute triple): the codec copies the data verbatim whatever the code says it means
    shapes = [b"", b"\x00", b"\x03abc", b"\x03abcXY", b"\x00abc", b"\x05ab", b"\xff" + b"a" * 40, b"\x80" + b"b" * 200,
              b"\x00\x13", b"\x40\x01\x01\x07", b"\x02", bytes(range(16))]
    for c in range(0, 10):
        for sc in range(0, 13):
            for d in shapes:
                cs.append(Case(1, [c, sc], [d], "notif.grid"))
                cs.append(Case(2, [], [bytes([c, sc]) + d], "notifdec.grid"))
    for _ in range(n):
        cs.append(Case(1, [gen.r_u8(rng), gen.r_u8(rng)], [gen.rbytes(rng, gen.rlen(rng, 4075))], "notif.random"))
    for _ in range(n):
        cs.append(Case(2, [], [gen.rbytes(rng, gen.rlen(rng, 4077))], "notifdec.random"))
    # OPEN decode and re-encode
    for _ in range(2 * n):
        b = gen.r_open_body(rng)
        r = rng.random()
        if r < 0.25:
            b = gen.mutate(rng, b)
            tag = "open.mutated"
        elif r < 0.3:
            b = gen.rbytes(rng, gen.rlen(rng, 300))
            tag = "open.raw"
        else:
            tag = "open.grammar"
        cs.append(Case(3, [], [b], tag))
        cs.append(Case(6, [], [b], tag))
    # boundary: optional parameters of exactly 250..255 octets in one and in two parameters (the largest representable OPEN)
    import struct
    for total in (250, 251, 252, 253, 254, 255):
        for split in (0, 8, 100):
            if split == 0:
                caps = bytes([1, total - 4]) + gen.rbytes(rng, total - 4)             # one capability filling one parameter
                params = bytes([2, total - 2]) + caps
            else:
                a = bytes([65, 4]) + struct.pack(">I", 65000) + bytes([1, split - 8 - 2 + 0]) + gen.rbytes(rng, split - 10) if split > 10 else bytes([65, 4]) + struct.pack(">I", 65000)
                pa = bytes([2, len(a)]) + a
                rest = total - len(pa)
                pb = bytes([2, rest - 2]) + bytes([3, rest - 4]) + gen.rbytes(rng, rest - 4)
                params = pa + pb
            assert len(params) == total, (total, split, len(params))
            b = struct.pack(">BHHIB", 4, 65000, 90, 0x0A000002, total) + params
            cs.append(Case(3, [], [b], "open.max-params"))
            cs.append(Case(6, [], [b], "open.max-params"))
    # encode an OPEN given as a structure (any number of parameters, each any number of capabilities incl. none): the encoder
    # emits the canonical encoding iff the value is representable (an empty capabilities parameter is not), else an error
    for _ in range(n // 2):
        nparams = rng.choice([0, 1, 1, 2, 3])
        ints = [rng.choice([4, 4, 4, rng.randint(0, 255)]), gen.r_u16(rng), rng.choice([0, 3, 90, gen.r_u16(rng)]), gen.r_u32(rng)]
        vals = []
        for _ in range(nparams):
            k = rng.choice([0, 1, 1, 2, 4])
            ints.append(k)
            for _ in range(k):
                ints.append(rng.choice([1, 2, 64, 65, 69, 70, gen.r_u8(rng)]))
                vals.append(gen.rbytes(rng, rng.choice([0, 1, 4, 4, 8, 100, 200, 253, 254, 255])))
        cs.append(Case(12, ints, vals, "open.encode-structure"))
    # add-path tuples: all direction octets, lengths around multiples of 4
    for d in range(256):
        cs.append(Case(8, [], [bytes([0, 1, 1, d])], "addpath.dir"))
    for ln in range(0, 14):
        cs.append(Case(8, [], [bytes([0, 1, 1, 3] * 4)[:ln]], "addpath.len"))
    for _ in range(n // 3):
        k = rng.randint(0, 6)
        b = b"".join(bytes([rng.randint(0, 255), rng.randint(0, 255), rng.randint(0, 255), rng.choice([1, 2, 3, 3, 0, 4, rng.randint(0, 255)])]) for _ in range(k))
        if rng.random() < 0.2:
            b = b[:rng.randint(0, len(b))]
        cs.append(Case(8, [], [b], "addpath.random"))
    for _ in range(n // 3):
        k = rng.randint(0, 5)
        ints = []
        for _ in range(k):
            tx, rx = rng.choice([(1, 1), (1, 0), (0, 1)])
            ints += [gen.r_u16(rng), gen.r_u8(rng), tx, rx]
        cs.append(Case(9, ints, [], "addpath.enc"))
    for _ in range(n // 3):
        cs.append(Case(10, [gen.r_u16(rng), gen.r_u8(rng)], [], "mpcap"))
    return cs


def main(tier, seed, replay=None):
    import sys
    return fnprop.run(sys.modules[__name__], tier, seed, replay)
