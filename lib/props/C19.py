"""C19 — prefix, NLRI, add-path and MP_REACH/MP_UNREACH decoders are exact."""
import fnprop
import gen
from common import Case

PID = "C19"
OPNAMES = {20: "prefixes", 21: "wrappers", 22: "ipv6_nexthops", 25: "mp_reach", 26: "mp_unreach"}
ORACLES = {20: 120, 21: 121, 22: 122, 25: 125, 26: 126}
RULE = ("prefix lists from a generator (every length 0..32/0..128 with boundary bias, arbitrary address bits incl. non-zero "
        "trailing bits, path ids), 30% with one bad length octet / truncation / trailing bytes; all six exported wrappers; "
        "next-hop strings of every length 0..69; MP_REACH bodies for every next-hop length octet 0..255 x remaining "
        "lengths around nh, nh+1, nh+2; MP_UNREACH bodies of length 0..12; flag octets incl. wrong Optional/Transitive; "
        "callback results nil or an error tree. distinct = distinct (op, ints, bytes).")
ASSUMPTIONS = ["netip.Prefix observed through Bits() and Addr().AsSlice()"]
COQ_FILES = ["Model/Update.v", "Spec/UpdateSpec.v", "Proofs/PrefixProofs.v", "Props/C19.v"]


def cases(rng, tier):
    n = 2500 if tier == "quick" else 40000
    cs = []
    for ipv6 in (0, 1):
        mx = 128 if ipv6 else 32
        for bits in range(0, 256 if tier == "thorough" else mx + 12):
            for extra in (-1, 0, 1):
                k = max(0, (bits + 7) // 8 + extra) if bits <= mx else rng.randint(0, 17)
                cs.append(Case(20, [ipv6, 0], [bytes([bits & 0xFF]) + gen.rbytes(rng, k)], "pfx.len-sweep"))
                cs.append(Case(20, [ipv6, 1], [gen.rbytes(rng, 4) + bytes([bits & 0xFF]) + gen.rbytes(rng, k)], "appfx.len-sweep"))
        for bits in (249, 250, 254, 255):
            cs.append(Case(20, [ipv6, 0], [bytes([bits]) + gen.rbytes(rng, 3)], "pfx.wrap"))
            cs.append(Case(21, [4 if ipv6 else 0], [bytes([bits])], "wrap.wrap"))
    # distinguished values under valid framing: the default route, host routes, all-zeros / all-ones / class-boundary first
    # octets, path identifiers 0 and 2^32-1, IPv6 next hops that are ::, all-ones or link-local — accepted on length alone
    for ipv6 in (0, 1):
        mx = 128 if ipv6 else 32
        for bits in (0, 1, 7, 8, 9, mx - 1, mx):
            nb = (bits + 7) // 8
            for fill in (0x00, 0xFF, 0x7F, 0x80, 0xE0, 0xF0, 0xFE):
                for v in {bytes([fill]) * nb, (bytes([fill]) + bytes(nb - 1)) if nb else b""}:
                    one = bytes([bits]) + v
                    cs.append(Case(20, [ipv6, 0], [one], "pfx.distinguished"))
                    cs.append(Case(20, [ipv6, 0], [one + one], "pfx.distinguished"))
                    for pid in (b"\x00\x00\x00\x00", b"\xff\xff\xff\xff"):
                        cs.append(Case(20, [ipv6, 1], [pid + one], "appfx.distinguished"))
                    for k in range(6):
                        cs.append(Case(21, [k], [one if k % 2 == 0 else b"\x00\x00\x00\x00" + one], "wrap.distinguished"))
    for v in (bytes(16), b"\xff" * 16, b"\xfe\x80" + bytes(14), bytes(32), b"\xff" * 32, bytes(16) + b"\xfe\x80" + bytes(14)):
        cs.append(Case(22, [], [v], "v6nh.distinguished"))
    for _ in range(n):
        ipv6 = rng.random() < 0.4
        ap = rng.random() < 0.4
        b = gen.r_prefixes(rng, ipv6, ap, valid=rng.random() < 0.7)
        cs.append(Case(20, [int(ipv6), int(ap)], [b], "pfx.random"))
        k = rng.randint(0, 5)
        cs.append(Case(21, [k], [gen.r_prefixes(rng, k >= 4, k % 2 == 1, valid=rng.random() < 0.7)], "wrap.random"))
    for ln in range(0, 70):
        cs.append(Case(22, [], [gen.rbytes(rng, ln)], "v6nh"))
    for ln in (48, 64, 80, 96, 240, 256):
        cs.append(Case(22, [], [gen.rbytes(rng, ln)], "v6nh.mult16"))
    for nh in range(256):
        for rem in sorted(set([0, 1, max(0, nh - 1), nh, nh + 1, nh + 2, nh + 20, 255, 256, 259])):
            b = bytes([rng.choice([0, 0, 1]), rng.choice([1, 2]), rng.choice([1, 2, 128]), nh]) + gen.rbytes(rng, rem)
            fl = rng.choice([0x80, 0x80, 0x90, 0xA0, 0xC0, 0x40, 0x00, rng.randint(0, 255)])
            cb = gen.r_err_tree(rng) if rng.random() < 0.25 else []
            cs.append(Case(25, [fl] + cb, [b], "mpreach.grid"))
    for ln in range(0, 5):
        cs.append(Case(25, [0x80], [gen.rbytes(rng, ln)], "mpreach.short"))
    for _ in range(600):
        fl = rng.choice([0x80, 0x90, 0xC0, 0x40, rng.randint(0, 255)])
        cb = gen.r_err_tree(rng) if rng.random() < 0.25 else []
        cs.append(Case(26, [fl] + cb, [gen.rbytes(rng, rng.choice([0, 1, 2, 3, 4, 5, 12, 40]))], "mpunreach"))
    return cs


def main(tier, seed, replay=None):
    import sys
    return fnprop.run(sys.modules[__name__], tier, seed, replay)
