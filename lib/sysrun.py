"""Generic system-level part: run conversations against the real server, compare the
observed history with the extracted connection model's expected history, apply trace
monitors, report."""
import collections
import json

import sysprop as S


def short(x, n=160):
    s = repr(x)
    return s if len(s) <= n else s[:n] + "..."


def run_convs(pid, convs, rep, keys=("wire", "cbs", "closed", "rets"), monitors=(S.cb_wf, S.wire_wf), par=24,
              extra_check=None, repeat=1, kinds=None, confirm=2, procs=1):
    """convs: list of Conv. Returns coverage dict; registers violations on rep."""
    multi = bool(convs) and isinstance(convs[0], S.Multi)
    custom = bool(convs) and getattr(convs[0], "no_model", False)
    if custom:
        exp = [{"wire": [], "cbs": [], "closed": False, "rets": []} for _ in convs]
        keys = ()
    else:
        exp = S.expected_multi(convs) if multi else S.expected_for(convs)
    scs = [c.scenario() for c in convs]
    if procs > 1 and len(scs) >= 2 * procs:
        # schedule points are process-wide: scenarios that arm one run one at a time, but in several driver processes
        import concurrent.futures as cf
        chunks = [list(range(k, len(scs), procs)) for k in range(procs)]
        with cf.ThreadPoolExecutor(procs) as ex:
            parts = list(ex.map(lambda ix: S.run_sys([scs[i] for i in ix], par=par), chunks))
        results = [None] * len(scs)
        leak, crashes = {"leaked_goroutines": 0, "sample": ""}, []
        for ix, (rs, lk, cr) in zip(chunks, parts):
            for i, r in zip(ix, rs):
                results[i] = r
            if lk.get("leaked_goroutines", 0) > 0:
                leak = lk
            crashes += cr
    else:
        results, leak, crashes = S.run_sys(scs, par=par)

    def evaluate(items):
        """items: list of (index, conv, expected, result) -> (diffs, monitor_hits) tagged with the index"""
        diffs, hits = [], []
        for i, c, e, r in items:
            if r.get("crash"):
                continue
            if custom:
                o = {"wire": [], "cbs": [], "closed": False, "rets": []}
            elif multi:
                o = S.observe_multi(r, len(c.segs))
            else:
                o = S.observe(r)
                o["rets"] = [(d, ("nil",) if ec == ("<nil>",) else ec) for d, ec in o["rets"]]
            if getattr(c, "nil_handler", False):
                # OnEstablished returned a nil handler: UPDATEs are accepted (hold timer restarts) but nothing is called
                e = dict(e, cbs=[x for x in e["cbs"] if x[0] != "Handler"])
            d = S.diff_proj(e, o, keys)
            if d:
                diffs.append((c, e, o, d, r, i))
            for m in monitors:
                for v in m(r):
                    hits.append((c, v, r, i))
            if monitors:
                for v in S.open_wf(r, scs[i]):
                    hits.append((c, v, r, i))
            if extra_check:
                for v in extra_check(c, e, o, r):
                    hits.append((c, v, r, i))
            if r.get("error"):
                hits.append((c, "harness: " + r["error"], r, i))
            for a in r.get("api") or []:
                if a["err"] == "TIMEOUT":
                    hits.append((c, "API call %s did not return" % a["name"], r, i))
            if r.get("serve_err") not in ("ErrServerClosed", ""):
                hits.append((c, "Serve returned %s" % r.get("serve_err"), r, i))
        return diffs, hits

    import re as _re
    key_of = lambda v: _re.sub(r"\d+", "#", v.split(":")[0][:60])     # the clause, without the measured numbers
    diffs, monitor_hits = evaluate([(i, c, e, r) for i, (c, e, r) in enumerate(zip(convs, exp, results))])
    n_unconfirmed = 0
    if confirm and kinds is None and (diffs or monitor_hits):
        # a real-time scenario that fails is run again on its own: scheduling noise does not repeat, a defect does.
        # Only what fails again (same scenario, same clause) is reported; the rest is counted in the evidence.
        # identical scenarios that are repeated on purpose (a random select decides which branch runs): the same clause
        # failing in two or more independent instances of one class is already a reproduction
        cls = collections.Counter((json.dumps(scs[x[-1]]["steps"]), key_of(x[1])) for x in monitor_hits)
        # (not for runs in which a scripted wait expired: the script lost its footing, typically under load)
        cls = collections.Counter((json.dumps(scs[x[-1]]["steps"]), key_of(x[1])) for x in monitor_hits if not x[2].get("waits_expired"))
        pre_h = set((x[-1], key_of(x[1])) for x in monitor_hits
                    if not x[2].get("waits_expired") and cls[(json.dumps(scs[x[-1]]["steps"]), key_of(x[1]))] >= 2)
        need = [x[-1] for x in diffs] + [x[-1] for x in monitor_hits if (x[-1], key_of(x[1])) not in pre_h]
        suspects = sorted(set(need))[:24]
        again_d, again_h = set(), set(pre_h)
        for _ in range(confirm):
            rr, _, cr2 = S.run_sys([scs[i] for i in suspects], par=1)
            d2, h2 = evaluate([(i, convs[i], exp[i], r) for i, r in zip(suspects, rr)])
            again_d |= set((x[-1], tuple(x[3])) for x in d2)
            again_h |= set((x[-1], key_of(x[1])) for x in h2)
            for sc, err in cr2:
                crashes.append((sc, err))
        kept_d = [x for x in diffs if (x[-1], tuple(x[3])) in again_d]
        kept_h = [x for x in monitor_hits if (x[-1], key_of(x[1])) in again_h]
        n_unconfirmed = (len(diffs) - len(kept_d)) + (len(monitor_hits) - len(kept_h))
        diffs, monitor_hits = kept_d, kept_h
    diffs = [x[:5] for x in diffs]
    monitor_hits = [x[:3] for x in monitor_hits]
    for sc, err in crashes:
        sig = {"kind": "crash", "panic": _panic_site(err)}
        rep.violation(sig, {"what": "the process running corebgp crashed", "scenario": sc, "stderr": err[-1500:]},
                      found_input=True)
        rep.sys_found = True
    # monitor violations are property violations observed on the implementation
    by = collections.defaultdict(list)
    for c, v, r in monitor_hits:
        by[v.split(":")[0][:60]].append((c, v, r))
    if kinds is not None:
        # a reproduction run: only the judged property clauses count (the run is known to wedge)
        leak = {"leaked_goroutines": 0}
        diffs = []
        by = {k: l for k, l in by.items() if not k.startswith("harness") and "OnEstablished without a matching" not in k}
    for k, l in sorted(by.items()):
        c, v, r = min(l, key=lambda x: len(json.dumps(x[0].scenario())))
        sig = {"kind": "monitor", "what": k, "tag": c.tag}
        if rep.violation(sig, {"what": v, "scenario": c.scenario(), "occurrences": len(l),
                               "callbacks": (r.get("cbs") or [])[:40], "api": r.get("api")}, found_input=True):
            rep.sys_found = True
    # model/implementation differences
    byk = collections.defaultdict(list)
    for c, e, o, d, r in diffs:
        byk[(tuple(d), c.tag)].append((c, e, o, d, r))
    for (d, tag), l in sorted(byk.items()):
        c, e, o, _, r = min(l, key=lambda x: len(json.dumps(x[0].scenario())))
        sig = {"kind": "sys-mismatch", "proj": list(d), "tag": tag}
        verdict = getattr(c, "judge", None)
        found = False
        why = "connection model and implementation differ on projection(s) %s" % list(d)
        if verdict is not None:
            jv = verdict(c, e, o, r)
            if jv:
                found, why = True, jv
        if rep.violation(sig, {"what": why, "scenario": c.scenario(),
                               "expected": {k: short(e[k], 600) for k in d}, "observed": {k: short(o[k], 600) for k in d},
                               "occurrences": len(l),
                               "broken": "correspondence of coq/Model/Conn.v with fsm.go on this conversation"},
                         found_input=found):
            rep.sys_found = rep.sys_found or found
    # peer-manager histories replayed through the model (Peer.handle)
    ok_res = [(c, sc, r) for c, sc, r in zip(convs, scs, results) if not r.get("crash")] if kinds is None else []
    rids = [getattr(c, "remote_id", 0x0A000002) for c, _, _ in ok_res]
    mbad, nrep = S.mgr_replay([r for _, _, r in ok_res], [sc for _, sc, _ in ok_res], rids)
    for i, verdict, line in mbad[:3]:
        c, sc, r = ok_res[i]
        sig = {"kind": "mgr-replay", "verdict": " ".join(verdict.split()[2:4]), "tag": c.tag}
        rep.violation(sig, {"what": "peer manager history diverges from the model (Peer.handle) at event %s: %s" % (verdict.split()[1] if len(verdict.split()) > 1 else "?", verdict),
                            "scenario": sc, "manager_events": [(e["kind"], e["args"]) for e in r["events"] if e["kind"].startswith("m.")][:80],
                            "replay_line": line[:1500],
                            "broken": "correspondence of coq/Model/Peer.v (handle) with peer.go on this history"}, found_input=False)
    if leak.get("leaked_goroutines", 0) > 0:
        if rep.violation({"kind": "leak"}, {"what": "goroutines with corebgp frames remain after every server was closed",
                                            "count": leak["leaked_goroutines"], "sample": leak.get("sample", "")[:1500]},
                         found_input=True):
            rep.sys_found = True
    tags = collections.Counter(c.tag for c in convs)
    outcomes = collections.Counter()
    for e in exp:
        last = e["rets"][-1] if e["rets"] else None
        outcomes[str(last)] += 1
    samples = []
    for c, e, r in list(zip(convs, exp, results))[:3]:
        o = {} if (r.get("crash") or custom) else (S.observe_multi(r, len(c.segs)) if multi else S.observe(r))
        samples.append({"tag": c.tag, "steps": c.scenario()["steps"][:8], "expected_returns": short(e["rets"]),
                        "observed_wire": short(o.get("wire", []), 300),
                        "observed_callbacks": short([x[0] for x in o.get("cbs", [])], 200)})
    return {
        "evaluations": len(convs), "distinct_nontrivial": len(set(json.dumps(s["steps"]) + json.dumps(s["handler"]) for s in scs)),
        "traces_validated_against_impl": len(convs) - len(crashes),
        "sys_mismatches": len(diffs), "monitor_violations": len(monitor_hits), "crashes": len(crashes),
        "manager_histories_replayed": nrep, "manager_replay_divergences": len(mbad),
        "leaked_goroutines": leak.get("leaked_goroutines", 0),
        "unconfirmed_on_rerun": n_unconfirmed,
        "scenario_streams": dict(tags), "expected_final_return_histogram": dict(outcomes), "samples": samples,
    }


def _panic_site(err):
    import re
    for l in err.splitlines():
        m = re.search(r"/([A-Za-z0-9_]+\.go):(\d+)", l)
        if m and "/repo/" in l:
            return "%s:%s" % (m.group(1), m.group(2))
    return "unknown"
