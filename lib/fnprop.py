"""Generic runner for properties decided at function level: theorems over the
model + differential correspondence (extracted model vs. Go) + extracted
oracles applied to the implementation's outputs."""
import collections
import json
import os
import random

from common import (BIN, VERIF, BuildError, Case, Report, TRUSTED_BASE, build_all, check_theorems,
                    run_parallel, shrink_bytes)


def load_corpus(pid):
    d = os.path.join(VERIF, "corpus", pid)
    cases = []
    if os.path.isdir(d):
        for f in sorted(os.listdir(d)):
            if f.endswith(".json"):
                for j in json.load(open(os.path.join(d, f))):
                    cases.append(Case.from_json(j))
    return cases


def classify(out):
    """Outcome class of an output token line."""
    t = out.split(" ") if out else [""]
    h = t[0]
    if h == "1" and len(t) >= 3:
        return "err(%s,%s)" % (t[1], t[2])
    return {"0": "ok", "1": "err", "2": "PANIC", "3": "err.other"}.get(h, "val")


def run(mod, tier, seed, replay=None):
    import engine
    return engine.run_property(mod, tier, seed, replay)


def fn_part(mod, tier, rng, rep, replay, thms, tlog, failing, rc, build_log):
    pid = mod.PID
    seed = rep.seed
    n_ok = sum(1 for t in thms if t["ok"])
    # 2. cases
    if replay:
        j = json.load(open(replay))
        cases = [Case.from_json(c) for c in j.get("cases", [])]
    else:
        cases = load_corpus(pid) + mod.cases(rng, tier)
    lines = [c.line() for c in cases]
    impl = run_parallel(os.path.join(BIN, "fn"), lines)
    model = run_parallel(os.path.join(BIN, "model_driver"), lines)
    # 3. oracle on the implementation's outputs
    def oracles_of(op):
        o = mod.ORACLES.get(op, [])
        return o if isinstance(o, (list, tuple)) else [o]
    panic_bad = getattr(mod, "PANIC_IS_VIOLATION", False)
    oracle_ix = [(i, oo) for i, c in enumerate(cases) for oo in oracles_of(c.op)]
    olines = ["%s | %s" % (cases[i].line(oo), impl[i]) for i, oo in oracle_ix]
    overd = run_parallel(os.path.join(BIN, "model_driver"), olines) if olines else []
    verdict = {}
    for (i, oo), v in zip(oracle_ix, overd):
        # keep the first failing verdict per case, tagged with the oracle that produced it
        if v.startswith("0"):
            if not verdict.get(i, "").startswith("0"):
                verdict[i] = "0 %d %s" % (oo, v[2:])
        elif i not in verdict:
            verdict[i] = v
    if panic_bad:
        for i in range(len(cases)):
            if impl[i] == "2":
                verdict[i] = "0 0 panic"
    pyor = getattr(mod, "PY_ORACLES", {})
    n_py = 0
    for i, c in enumerate(cases):
        f = pyor.get(c.op)
        if f is not None:
            n_py += 1
            v = f(c, impl[i])
            if v.startswith("0"):
                verdict.setdefault(i, v) if not verdict.get(i, "").startswith("0") else None
                verdict[i] = v if not verdict.get(i, "").startswith("0") else verdict[i]
            elif i not in verdict:
                verdict[i] = v

    def impl_fails(c):
        o = run_parallel(os.path.join(BIN, "fn"), [c.line()])[0]
        if panic_bad and o == "2":
            return True
        f = getattr(mod, "PY_ORACLES", {}).get(c.op)
        if f is not None and f(c, o).startswith("0"):
            return True
        for oo in oracles_of(c.op):
            v = run_parallel(os.path.join(BIN, "model_driver"), ["%s | %s" % (c.line(oo), o)])[0]
            if v.startswith("0"):
                return True
        return False

    # group oracle failures by (op, clause)
    groups = collections.defaultdict(list)
    for i, v in verdict.items():
        if v.startswith("0"):
            groups[(cases[i].op, v)].append(i)
    panics = [i for i in range(len(cases)) if impl[i] == "2"]
    for (op, v), idxs in sorted(groups.items()):
        # each failing case is matched individually against the known findings;
        # the smallest unmatched one becomes the replay
        pending = []
        for i in idxs:
            c = cases[i]
            sig = {"kind": "oracle", "op": op, "verdict": v, "ints": c.ints, "bs": [list(b) for b in c.bs],
                   "impl": impl[i], "model": model[i]}
            from common import match_known
            k = match_known(rep.known, pid, sig)
            if k is not None:
                rep.known_hits.setdefault(k["id"], [k, 0])[1] += 1
            else:
                pending.append(i)
        if pending:
            i = min(pending, key=lambda i: sum(len(b) for b in cases[i].bs))
            c = cases[i]
            for bi in range(len(c.bs)):
                c = shrink_bytes(c, bi, lambda cc: impl_fails(cc) and not _known(rep, pid, cc, op, v))
            o = run_parallel(os.path.join(BIN, "fn"), [c.line()])[0]
            m = run_parallel(os.path.join(BIN, "model_driver"), [c.line()])[0]
            sig = {"kind": "oracle", "op": op, "verdict": v}
            rep.violation(sig, {"what": "property oracle rejects the implementation's result (verdict: 0 <oracle op> <clause> = %s)" % v,
                                "cases": [c.to_json()], "case_line": c.line(), "impl_output": o, "model_output": m,
                                "occurrences": len(pending)}, found_input=True)
    # mismatches model vs impl that no oracle failure explains
    mism = [i for i in range(len(cases)) if impl[i] != model[i]]
    explained = set(i for idxs in groups.values() for i in idxs)
    unexplained = [i for i in mism if i not in explained]
    if unexplained:
        byop = collections.defaultdict(list)
        for i in unexplained:
            byop[cases[i].op].append(i)
        for op, idxs in sorted(byop.items()):
            i = min(idxs, key=lambda i: sum(len(b) for b in cases[i].bs))
            c = cases[i]
            sig = {"kind": "mismatch", "op": op}
            rep.violation(sig, {"what": "correspondence: model and implementation differ; no property oracle failure on this or neighbouring inputs",
                                "broken": "correspondence check for op %d (%s)" % (op, mod.OPNAMES.get(op, "?")),
                                "cases": [c.to_json()], "case_line": c.line(), "impl_output": impl[i], "model_output": model[i],
                                "occurrences": len(idxs)}, found_input=False)
    rep.fn_found = bool(groups)

    # evidence
    hist = collections.Counter()
    tags = collections.Counter()
    sizes = collections.Counter()
    for i, c in enumerate(cases):
        hist["%s:%s" % (mod.OPNAMES.get(c.op, c.op), classify(impl[i]))] += 1
        tags[c.tag or "untagged"] += 1
        n = sum(len(b) for b in c.bs)
        sizes["0" if n == 0 else "1-15" if n < 16 else "16-255" if n < 256 else "256-4095" if n < 4096 else ">=4096"] += 1
    distinct = len(set(c.key() for i, c in enumerate(cases) if impl[i] not in ("", "999")))
    samples = []
    seen_cls = set()
    for i, c in enumerate(cases):
        k = (c.op, classify(impl[i]))
        if k not in seen_cls and len(samples) < 12:
            seen_cls.add(k)
            samples.append({"case": c.line()[:300], "impl": impl[i][:200], "model": model[i][:200],
                            "oracle": verdict.get(i, "-")})
    return {
        "evaluations": len(cases), "distinct_nontrivial": distinct,
        "rule": mod.RULE,
        "samples": samples,
        "outcome_histogram": dict(hist), "generator_streams": dict(tags), "input_size_histogram": dict(sizes),
        "model_vs_impl_mismatches": len(mism), "oracle_evaluations": len(olines) + n_py,
        "oracle_failures": sum(len(v) for v in groups.values()), "impl_panics": len(panics),
    }


def _known(rep, pid, c, op, v):
    from common import match_known
    o = run_parallel(os.path.join(BIN, "fn"), [c.line()])[0]
    m = run_parallel(os.path.join(BIN, "model_driver"), [c.line()])[0]
    sig = {"kind": "oracle", "op": op, "verdict": v, "ints": c.ints, "bs": [list(b) for b in c.bs], "impl": o, "model": m}
    return match_known(rep.known, pid, sig) is not None
